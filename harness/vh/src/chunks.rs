//! C06: executes the transport schedules printed by spec/ChunkedRead.tla against the three
//! generated variants (blocking / tokio / async-std) of the login and world readers and writers.
//!
//! `vh chunks <schedule dir> [--fault drop|dup]`
//!   <dir>/sched-<class>.ndjson : REPLAY records of ChunkedRead {"sid":class,"L":n,"sched":[k|0..],"eof":p|-1}
//!                      (k > 0: the transport makes k more bytes available, 0: the poll answers
//!                      Pending, eof = p: the transport closes after p bytes, -1: never)
//!   stdin            : WowmWire codec records with an extra field "cls" = schedule class to apply
//!   stdout           : "@n" progress markers, one line per disagreeing (record, entry point),
//!                      a {"stats":..} line and the {"summary":..} line.
//!
//! The oracle is the model's ScheduleIndependent: the outcome is a function of the delivered
//! content only, so every async run must equal the BLOCKING read of the same content (the whole
//! buffer, or the prefix at which the schedule closes the transport): same message (PartialEq /
//! Debug text), or an error of the same kind; same number of bytes consumed when both succeed.
//! Writers: the three variants must hand identical bytes to a sink that accepts them in the
//! schedule's pieces, and fail alike when the sink closes.
//!
//! No runtime: futures are polled by hand with a counting waker; a future that returns Pending
//! without having arranged a wake-up, or that exceeds the poll budget, gets the verdict "stuck".

#[path = "generated/chunks_gen.rs"]
mod chunks_gen;

use crate::codec::build_input;
use crate::util::{guarded, install_quiet_panic_hook};
use serde_json::{json, Value};
use std::collections::HashMap;
use std::error::Error;
use std::fmt::Debug;
use std::future::Future;
use std::io::{self, BufRead, Cursor, Write};
use std::pin::Pin;
use std::sync::atomic::{AtomicUsize, Ordering};
use std::sync::{Arc, Mutex};
use std::task::{Context, Poll, Wake, Waker};

// ------------------------------------------------------------------------------------------------
// schedules
// ------------------------------------------------------------------------------------------------

pub struct Sched {
    pub items: Vec<u32>,
    pub eof: i64,
}

impl Sched {
    fn limit(&self, l: usize) -> usize {
        if self.eof >= 0 {
            (self.eof as usize).min(l)
        } else {
            l
        }
    }
}

#[derive(Clone, Copy, PartialEq)]
pub enum Fault {
    None,
    Drop,
    Dup,
}

// ------------------------------------------------------------------------------------------------
// scripted transport (read side)
// ------------------------------------------------------------------------------------------------

struct RState {
    data: Vec<u8>,
    items: Vec<u32>,
    next: usize,
    eof_planned: bool,
    pos: usize,   // bytes handed to the reader
    avail: usize, // bytes that have arrived
    polls: usize,
    pendings: usize,
    eofs: usize,
    overrun: bool, // polled after the schedule was used up although no Eof was scheduled
}

#[derive(Clone)]
pub struct ScriptedReader(Arc<Mutex<RState>>);

impl ScriptedReader {
    fn new(data: &[u8], s: &Sched, fault: Fault) -> Self {
        let mut d = data.to_vec();
        // self-test faults: the transport loses / repeats the middle byte
        match fault {
            Fault::None => {}
            Fault::Drop => {
                if !d.is_empty() {
                    d.remove(d.len() / 2);
                }
            }
            Fault::Dup => {
                if !d.is_empty() {
                    let i = d.len() / 2;
                    let b = d[i];
                    d.insert(i, b);
                }
            }
        }
        ScriptedReader(Arc::new(Mutex::new(RState {
            data: d,
            items: s.items.clone(),
            next: 0,
            eof_planned: s.eof >= 0,
            pos: 0,
            avail: 0,
            polls: 0,
            pendings: 0,
            eofs: 0,
            overrun: false,
        })))
    }

    /// Follows the schedule exactly. Returns Ready(n) with n bytes copied into `dst` (0 = EOF).
    fn poll_into(&self, cx: &mut Context<'_>, dst: &mut [u8]) -> Poll<usize> {
        let mut g = self.0.lock().unwrap();
        let st = &mut *g;
        st.polls += 1;
        if dst.is_empty() {
            return Poll::Ready(0);
        }
        if st.pos == st.avail {
            match st.items.get(st.next).copied() {
                Some(0) => {
                    st.next += 1;
                    st.pendings += 1;
                    cx.waker().wake_by_ref();
                    return Poll::Pending;
                }
                Some(k) => {
                    st.next += 1;
                    st.avail = (st.avail + k as usize).min(st.data.len());
                }
                None => {
                    if !st.eof_planned {
                        st.overrun = true;
                    }
                    st.eofs += 1;
                    return Poll::Ready(0);
                }
            }
            if st.pos == st.avail {
                // (fault mode only: the altered data ran out)
                st.eofs += 1;
                return Poll::Ready(0);
            }
        }
        let n = dst.len().min(st.avail - st.pos);
        dst[..n].copy_from_slice(&st.data[st.pos..st.pos + n]);
        st.pos += n;
        Poll::Ready(n)
    }
}

impl tokio::io::AsyncRead for ScriptedReader {
    fn poll_read(self: Pin<&mut Self>, cx: &mut Context<'_>, buf: &mut tokio::io::ReadBuf<'_>) -> Poll<io::Result<()>> {
        let dst = buf.initialize_unfilled();
        match self.poll_into(cx, dst) {
            Poll::Pending => Poll::Pending,
            Poll::Ready(n) => {
                buf.advance(n);
                Poll::Ready(Ok(()))
            }
        }
    }
}

impl futures_io::AsyncRead for ScriptedReader {
    fn poll_read(self: Pin<&mut Self>, cx: &mut Context<'_>, buf: &mut [u8]) -> Poll<io::Result<usize>> {
        match self.poll_into(cx, buf) {
            Poll::Pending => Poll::Pending,
            Poll::Ready(n) => Poll::Ready(Ok(n)),
        }
    }
}

// ------------------------------------------------------------------------------------------------
// scripted sink (write side)
// ------------------------------------------------------------------------------------------------

struct WState {
    items: Vec<u32>,
    next: usize,
    eof_planned: bool,
    cap: usize,
    out: Vec<u8>,
    polls: usize,
    pendings: usize,
    overrun: bool,
}

#[derive(Clone)]
pub struct ScriptedWriter(Arc<Mutex<WState>>);

impl ScriptedWriter {
    fn new(s: &Sched) -> Self {
        ScriptedWriter(Arc::new(Mutex::new(WState {
            items: s.items.clone(),
            next: 0,
            eof_planned: s.eof >= 0,
            cap: 0,
            out: Vec::new(),
            polls: 0,
            pendings: 0,
            overrun: false,
        })))
    }

    /// Accepts at most the scheduled piece. `None` = Pending. Some(0) = the sink is closed.
    fn accept(&self, src: &[u8], blocking: bool) -> Option<usize> {
        let mut g = self.0.lock().unwrap();
        let st = &mut *g;
        st.polls += 1;
        if src.is_empty() {
            return Some(0);
        }
        while st.cap == 0 {
            match st.items.get(st.next).copied() {
                Some(0) => {
                    st.next += 1;
                    if !blocking {
                        st.pendings += 1;
                        return None;
                    }
                }
                Some(k) => {
                    st.next += 1;
                    st.cap = k as usize;
                }
                None => {
                    if st.eof_planned {
                        return Some(0);
                    }
                    st.overrun = true; // more bytes than the message has: take them all
                    st.cap = usize::MAX;
                }
            }
        }
        let n = src.len().min(st.cap);
        st.out.extend_from_slice(&src[..n]);
        st.cap -= n;
        Some(n)
    }

    fn poll_accept(&self, cx: &mut Context<'_>, src: &[u8]) -> Poll<io::Result<usize>> {
        match self.accept(src, false) {
            None => {
                cx.waker().wake_by_ref();
                Poll::Pending
            }
            Some(n) => Poll::Ready(Ok(n)),
        }
    }
}

impl Write for ScriptedWriter {
    fn write(&mut self, buf: &[u8]) -> io::Result<usize> {
        Ok(self.accept(buf, true).unwrap_or(0))
    }
    fn flush(&mut self) -> io::Result<()> {
        Ok(())
    }
}

impl tokio::io::AsyncWrite for ScriptedWriter {
    fn poll_write(self: Pin<&mut Self>, cx: &mut Context<'_>, buf: &[u8]) -> Poll<io::Result<usize>> {
        self.poll_accept(cx, buf)
    }
    fn poll_flush(self: Pin<&mut Self>, _cx: &mut Context<'_>) -> Poll<io::Result<()>> {
        Poll::Ready(Ok(()))
    }
    fn poll_shutdown(self: Pin<&mut Self>, _cx: &mut Context<'_>) -> Poll<io::Result<()>> {
        Poll::Ready(Ok(()))
    }
}

impl futures_io::AsyncWrite for ScriptedWriter {
    fn poll_write(self: Pin<&mut Self>, cx: &mut Context<'_>, buf: &[u8]) -> Poll<io::Result<usize>> {
        self.poll_accept(cx, buf)
    }
    fn poll_flush(self: Pin<&mut Self>, _cx: &mut Context<'_>) -> Poll<io::Result<()>> {
        Poll::Ready(Ok(()))
    }
    fn poll_close(self: Pin<&mut Self>, _cx: &mut Context<'_>) -> Poll<io::Result<()>> {
        Poll::Ready(Ok(()))
    }
}

// ------------------------------------------------------------------------------------------------
// hand-rolled executor
// ------------------------------------------------------------------------------------------------

struct CountingWaker(AtomicUsize);

impl Wake for CountingWaker {
    fn wake(self: Arc<Self>) {
        self.0.fetch_add(1, Ordering::Relaxed);
    }
    fn wake_by_ref(self: &Arc<Self>) {
        self.0.fetch_add(1, Ordering::Relaxed);
    }
}

/// Polls `f` until Ready. Err = "stuck": Pending without a wake-up, or poll budget exceeded.
fn block_on<F: Future>(f: F, budget: usize) -> Result<F::Output, String> {
    let mut f = std::pin::pin!(f);
    let cw = Arc::new(CountingWaker(AtomicUsize::new(0)));
    let waker = Waker::from(cw.clone());
    let mut cx = Context::from_waker(&waker);
    let mut polls = 0usize;
    loop {
        let before = cw.0.load(Ordering::Relaxed);
        polls += 1;
        match f.as_mut().poll(&mut cx) {
            Poll::Ready(v) => return Ok(v),
            Poll::Pending => {
                if cw.0.load(Ordering::Relaxed) == before {
                    return Err(format!("stuck: Pending without wake-up at poll {polls}"));
                }
                if polls > budget {
                    return Err(format!("stuck: poll budget {budget} exceeded"));
                }
            }
        }
    }
}

// ------------------------------------------------------------------------------------------------
// outcomes
// ------------------------------------------------------------------------------------------------

/// A panic is an outcome; the three variants are separate copies of the same code, so the source
/// location (" @ file:line", added by util::guarded) is not part of what is compared.
fn panic_sig(p: &str) -> String {
    let msg = p.rsplit_once(" @ ").map(|x| x.0).unwrap_or(p);
    format!("panic: {}", msg.replace('\n', " "))
}

pub struct Out<M> {
    pub res: Result<M, String>,
    pub consumed: usize,
    pub stuck: Option<String>,
    pub polls: usize,
    pub pendings: usize,
    pub eofs: usize,
    pub overrun: bool,
}

pub fn sync_out<'d, M, E>(
    data: &'d [u8],
    call: impl FnOnce(&mut Cursor<&'d [u8]>) -> Result<M, E>,
    sig: fn(&E) -> String,
) -> Out<M> {
    let mut cur = Cursor::new(data);
    let r = guarded(|| call(&mut cur));
    let res = match r {
        Err(p) => Err(panic_sig(&p)),
        Ok(Err(e)) => Err(sig(&e)),
        Ok(Ok(m)) => Ok(m),
    };
    Out { res, consumed: cur.position() as usize, stuck: None, polls: 0, pendings: 0, eofs: 0, overrun: false }
}

pub fn async_out<M, E, Fut>(
    data: &[u8],
    s: &Sched,
    fault: Fault,
    call: impl FnOnce(ScriptedReader) -> Fut,
    sig: fn(&E) -> String,
) -> Out<M>
where
    Fut: Future<Output = Result<M, E>>,
{
    let tr = ScriptedReader::new(data, s, fault);
    let budget = 4 * (s.items.len() + data.len()) + 64;
    let h = tr.clone();
    let r = guarded(move || block_on(call(h), budget));
    let mut stuck = None;
    let res = match r {
        Err(p) => Err(panic_sig(&p)),
        Ok(Err(st)) => {
            stuck = Some(st.clone());
            Err(st)
        }
        Ok(Ok(Err(e))) => Err(sig(&e)),
        Ok(Ok(Ok(m))) => Ok(m),
    };
    let g = tr.0.lock().unwrap_or_else(|e| e.into_inner());
    Out { res, consumed: g.pos, stuck, polls: g.polls, pendings: g.pendings, eofs: g.eofs, overrun: g.overrun }
}

pub fn eq_pe<M: PartialEq + Debug>(a: &M, b: &M) -> bool {
    // Debug text as fall-back: NaN payloads are equal to themselves for this purpose
    a == b || format!("{a:?}") == format!("{b:?}")
}

pub fn eq_dbg<M: Debug>(a: &M, b: &M) -> bool {
    format!("{a:?}") == format!("{b:?}")
}

fn io_kind_of(e: &(dyn Error + 'static)) -> Option<io::ErrorKind> {
    e.downcast_ref::<io::Error>().map(|i| i.kind())
}

/// Debug text of a parse error with the text of an embedded io error reduced to its kind.
fn parse_sig(p: &(dyn Error + 'static), dbg: String) -> String {
    if let Some(kind) = p.source().and_then(io_kind_of) {
        let mut it = dbg.splitn(2, "kind: ");
        let head = it.next().unwrap_or("").to_string();
        let variant = it.next().unwrap_or("").split('(').next().unwrap_or("").to_string();
        return format!("{head}kind: {variant}(io {kind:?})");
    }
    dbg
}

pub fn sig_login(e: &wow_login_messages::errors::ExpectedOpcodeError) -> String {
    use wow_login_messages::errors::ExpectedOpcodeError as X;
    match e {
        X::Opcode(o) => format!("Opcode({o})"),
        X::Io(i) => format!("Io({:?})", i.kind()),
        X::Parse(p) => format!("Parse({})", parse_sig(p, format!("{p:?}"))),
    }
}

pub fn sig_world(e: &wow_world_messages::errors::ExpectedOpcodeError) -> String {
    use wow_world_messages::errors::ExpectedOpcodeError as X;
    match e {
        X::Opcode { opcode, name, size } => format!("Opcode({opcode},{name:?},{size})"),
        X::Io(i) => format!("Io({:?})", i.kind()),
        X::Parse(p) => format!("Parse({})", parse_sig(p, format!("{p:?}"))),
    }
}

fn clip(s: String) -> String {
    if s.len() > 240 {
        let mut t: String = s.chars().take(240).collect();
        t.push_str("...");
        t
    } else {
        s
    }
}

fn describe<M: Debug>(o: &Out<M>) -> Value {
    let res = match &o.res {
        Ok(m) => clip(format!("ok: {m:?}")),
        Err(e) => clip(format!("err: {e}")),
    };
    json!({"res": res, "consumed": o.consumed, "polls": o.polls, "pendings": o.pendings, "eofs": o.eofs,
           "overrun": o.overrun, "stuck": o.stuck})
}

fn differ<M>(b: &Out<M>, x: &Out<M>, eq: fn(&M, &M) -> bool) -> Option<String> {
    if let Some(s) = &x.stuck {
        return Some(s.clone());
    }
    match (&b.res, &x.res) {
        (Ok(m1), Ok(m2)) => {
            if !eq(m1, m2) {
                Some("different message".into())
            } else if b.consumed != x.consumed {
                Some(format!("same message, consumed {} (blocking) vs {}", b.consumed, x.consumed))
            } else {
                None
            }
        }
        (Err(e1), Err(e2)) => {
            if e1 == e2 {
                None
            } else {
                Some("different error kind".into())
            }
        }
        (Ok(_), Err(_)) => Some("blocking read succeeds, async read fails".into()),
        (Err(_), Ok(_)) => Some("blocking read fails, async read succeeds".into()),
    }
}

// ------------------------------------------------------------------------------------------------
// per-record context and drivers (called by the generated dispatch)
// ------------------------------------------------------------------------------------------------

#[derive(Default)]
pub struct Tally {
    pub read_runs: u64,
    pub write_runs: u64,
    pub polls: u64,
    pub pendings: u64,
    pub eof_runs: u64,
    pub ok_results: u64,
    pub err_results: u64,
    pub overruns: u64,
    pub by_entry: HashMap<&'static str, u64>,
}

pub struct Cx<'a> {
    pub bytes: &'a [u8],
    pub name: &'a str,
    pub scheds: &'a [Sched],
    pub fault: Fault,
    pub tally: &'a mut Tally,
    /// entry -> (first disagreement, count)
    pub findings: Vec<(&'static str, Value, u64)>,
}

impl<'a> Cx<'a> {
    pub fn missing(&mut self, entry: &'static str) {
        self.note(entry, json!({"why": "no typed entry point generated for this message"}));
    }

    fn note(&mut self, entry: &'static str, detail: Value) {
        for f in self.findings.iter_mut() {
            if f.0 == entry {
                f.2 += 1;
                return;
            }
        }
        self.findings.push((entry, detail, 1));
    }
}

pub fn drive_read<M: Debug>(
    cx: &mut Cx,
    entry: &'static str,
    eq: fn(&M, &M) -> bool,
    sync: impl Fn(&[u8]) -> Out<M>,
    tokio: impl Fn(&[u8], &Sched, Fault) -> Out<M>,
    astd: impl Fn(&[u8], &Sched, Fault) -> Out<M>,
) {
    let l = cx.bytes.len();
    let mut cache: Vec<Option<Out<M>>> = (0..=l).map(|_| None).collect();
    let scheds = cx.scheds;
    for s in scheds {
        let limit = s.limit(l);
        if cache[limit].is_none() {
            cache[limit] = Some(sync(&cx.bytes[..limit]));
        }
        let b = cache[limit].as_ref().unwrap();
        let t = tokio(cx.bytes, s, cx.fault);
        let a = astd(cx.bytes, s, cx.fault);
        cx.tally.read_runs += 2;
        *cx.tally.by_entry.entry(entry).or_insert(0) += 2;
        cx.tally.polls += (t.polls + a.polls) as u64;
        cx.tally.pendings += (t.pendings + a.pendings) as u64;
        if s.eof >= 0 {
            cx.tally.eof_runs += 2;
        }
        if b.res.is_ok() {
            cx.tally.ok_results += 1;
        } else {
            cx.tally.err_results += 1;
        }
        if t.overrun || a.overrun {
            cx.tally.overruns += 1;
        }
        let dt = differ(b, &t, eq);
        let da = differ(b, &a, eq);
        if dt.is_some() || da.is_some() {
            let detail = json!({"sched": s.items, "eof": s.eof, "content_len": limit,
                "blocking": describe(b), "tokio": describe(&t), "astd": describe(&a),
                "tokio_differs": dt, "astd_differs": da});
            cx.note(entry, detail);
        }
    }
}

struct WOut {
    kind: String,
    bytes: Vec<u8>,
    stuck: Option<String>,
    polls: usize,
    pendings: usize,
}

fn wres(r: Result<Result<io::Result<()>, String>, String>, w: &ScriptedWriter) -> WOut {
    let mut stuck = None;
    let kind = match r {
        Err(p) => panic_sig(&p),
        Ok(Err(st)) => {
            stuck = Some(st.clone());
            st
        }
        Ok(Ok(Err(e))) => format!("Io({:?})", e.kind()),
        Ok(Ok(Ok(()))) => "ok".to_string(),
    };
    let g = w.0.lock().unwrap_or_else(|e| e.into_inner());
    WOut { kind, bytes: g.out.clone(), stuck, polls: g.polls, pendings: g.pendings }
}

fn wdescribe(o: &WOut) -> Value {
    json!({"res": o.kind, "bytes": crate::util::hex(&o.bytes), "polls": o.polls, "pendings": o.pendings})
}

pub fn drive_write<FT, FA>(
    cx: &mut Cx,
    entry: &'static str,
    sync: impl Fn(ScriptedWriter) -> io::Result<()>,
    tokio: impl Fn(ScriptedWriter) -> FT,
    astd: impl Fn(ScriptedWriter) -> FA,
) where
    FT: Future<Output = io::Result<()>>,
    FA: Future<Output = io::Result<()>>,
{
    let scheds = cx.scheds;
    for s in scheds {
        let budget = 4 * (s.items.len() + cx.bytes.len()) + 64;
        let wb = ScriptedWriter::new(s);
        let b = {
            let h = wb.clone();
            wres(guarded(|| Ok(sync(h))), &wb)
        };
        let wt = ScriptedWriter::new(s);
        let t = {
            let h = wt.clone();
            wres(guarded(|| block_on(tokio(h), budget)), &wt)
        };
        let wa = ScriptedWriter::new(s);
        let a = {
            let h = wa.clone();
            wres(guarded(|| block_on(astd(h), budget)), &wa)
        };
        cx.tally.write_runs += 2;
        *cx.tally.by_entry.entry(entry).or_insert(0) += 2;
        cx.tally.polls += (t.polls + a.polls) as u64;
        cx.tally.pendings += (t.pendings + a.pendings) as u64;
        let why = |x: &WOut| -> Option<String> {
            if let Some(s) = &x.stuck {
                Some(s.clone())
            } else if x.kind != b.kind {
                Some("different result kind".into())
            } else if x.bytes != b.bytes {
                Some("different bytes emitted".into())
            } else {
                None
            }
        };
        let (dt, da) = (why(&t), why(&a));
        if dt.is_some() || da.is_some() {
            let detail = json!({"sched": s.items, "eof": s.eof, "blocking": wdescribe(&b), "tokio": wdescribe(&t),
                "astd": wdescribe(&a), "tokio_differs": dt, "astd_differs": da});
            cx.note(entry, detail);
        }
    }
}

/// The three writers of one login message type.
pub fn login_writes<M: wow_login_messages::Message + Sync>(cx: &mut Cx, m: &M) {
    drive_write(cx, "write", |w| m.write(w), |w| m.tokio_write(w), |w| m.astd_write(w));
}

// ------------------------------------------------------------------------------------------------

fn load_class(dir: &str, cls: u64) -> Result<(usize, Vec<Sched>), String> {
    let path = format!("{dir}/sched-{cls}.ndjson");
    let f = std::fs::File::open(&path).map_err(|e| format!("{path}: {e}"))?;
    let mut out: Option<(usize, Vec<Sched>)> = None;
    for line in io::BufReader::new(f).lines() {
        let line = line.map_err(|e| e.to_string())?;
        if line.trim().is_empty() {
            continue;
        }
        let v: Value = serde_json::from_str(&line).map_err(|e| format!("bad schedule line: {e}"))?;
        let sid = v["sid"].as_u64().ok_or("schedule without sid")?;
        let l = v["L"].as_u64().ok_or("schedule without L")? as usize;
        let items: Vec<u32> = v["sched"]
            .as_array()
            .ok_or("schedule without sched")?
            .iter()
            .map(|x| x.as_u64().unwrap_or(0) as u32)
            .collect();
        let eof = v["eof"].as_i64().ok_or("schedule without eof")?;
        // shape demanded by the model (SchedShape): the chunks add up to the delivered content
        let total: u64 = items.iter().map(|&k| k as u64).sum();
        let want = if eof >= 0 { eof as u64 } else { l as u64 };
        if total != want || eof >= l as i64 {
            return Err(format!("schedule of class {sid} (length {l}) delivers {total} bytes, content is {want}"));
        }
        if sid != cls {
            return Err(format!("{path}: record of class {sid}"));
        }
        let e = out.get_or_insert_with(|| (l, Vec::new()));
        if e.0 != l {
            return Err(format!("class {sid} has two lengths"));
        }
        e.1.push(Sched { items, eof });
    }
    out.ok_or_else(|| format!("{path}: no schedule"))
}

pub fn run(args: &[String]) -> i32 {
    install_quiet_panic_hook();
    let Some(path) = args.first() else {
        eprintln!("usage: vh chunks <schedule dir> [--fault drop|dup]");
        return 2;
    };
    let mut fault = Fault::None;
    let mut i = 1;
    while i < args.len() {
        if args[i] == "--fault" {
            fault = match args.get(i + 1).map(|s| s.as_str()) {
                Some("drop") => Fault::Drop,
                Some("dup") => Fault::Dup,
                _ => Fault::None,
            };
            i += 1;
        }
        i += 1;
    }
    let mut classes: HashMap<u64, (usize, Vec<Sched>)> = HashMap::new();
    let stdin = io::stdin();
    let stdout = io::stdout();
    let mut w = io::BufWriter::new(stdout.lock());
    let mut tally = Tally::default();
    let (mut n, mut ok) = (0u64, 0u64);
    for line in stdin.lock().lines() {
        let Ok(line) = line else { break };
        if line.trim().is_empty() {
            continue;
        }
        let rec: Value = match serde_json::from_str(&line) {
            Ok(v) => v,
            Err(e) => {
                eprintln!("bad record: {e}");
                return 2;
            }
        };
        if rec["kind"] != "codec" {
            continue;
        }
        let cls = rec["cls"].as_u64().unwrap_or(u64::MAX);
        if !classes.contains_key(&cls) {
            match load_class(path, cls) {
                Ok(c) => {
                    classes.clear(); // records arrive grouped by class; keep one class in memory
                    classes.insert(cls, c);
                }
                Err(e) => {
                    // a malformed / missing schedule file is a failure of the machinery
                    w.flush().unwrap();
                    eprintln!("chunks: {e}");
                    return 2;
                }
            }
        }
        n += 1;
        writeln!(w, "@{n}").unwrap();
        w.flush().unwrap();
        let name = rec["name"].as_str().unwrap_or("").to_string();
        let exp = rec["exp"].as_str().unwrap_or("").to_string();
        let dir = rec["dir"].as_str().unwrap_or("").to_string();
        let lv = rec["lv"].as_u64().unwrap_or(0);
        let base = |verdict: &str, entry: &str, count: u64, detail: Value| {
            json!({"id": rec["id"], "name": name, "exp": exp, "lv": lv, "dir": dir, "prof": rec["prof"],
                   "verdict": verdict, "entry": entry, "count": count, "detail": detail})
        };
        let input = match build_input(&rec) {
            Ok(i) if i.region.is_none() => i,
            _ => {
                writeln!(w, "{}", base("harness_unsupported", "", 1, json!("compressed region"))).unwrap();
                continue;
            }
        };
        let (l, scheds) = classes.get(&cls).unwrap();
        if *l != input.bytes.len() {
            writeln!(w, "{}", base("harness_unsupported", "", 1,
                json!(format!("schedule class of length {l} applied to {} bytes", input.bytes.len())))).unwrap();
            continue;
        }
        let mut cx = Cx { bytes: &input.bytes, name: &name, scheds, fault, tally: &mut tally, findings: Vec::new() };
        if !chunks_gen::dispatch(&exp, lv, &dir, &mut cx) {
            writeln!(w, "{}", base("harness_unsupported", "", 1, json!("no dispatch"))).unwrap();
            continue;
        }
        if cx.findings.is_empty() {
            ok += 1;
        } else {
            let hexin = crate::util::hex(&input.bytes);
            for (entry, mut detail, count) in std::mem::take(&mut cx.findings) {
                detail["input"] = json!(hexin);
                writeln!(w, "{}", base("disagree", entry, count, detail)).unwrap();
            }
        }
    }
    let by: HashMap<String, u64> = tally.by_entry.iter().map(|(k, v)| (k.to_string(), *v)).collect();
    writeln!(w, "{}", json!({"stats": {"read_runs": tally.read_runs, "write_runs": tally.write_runs,
        "polls": tally.polls, "pendings": tally.pendings, "eof_runs": tally.eof_runs,
        "blocking_ok": tally.ok_results, "blocking_err": tally.err_results, "overruns": tally.overruns,
        "by_entry": by}})).unwrap();
    writeln!(w, "{}", json!({"summary": {"records": n, "ok": ok}})).unwrap();
    0
}
