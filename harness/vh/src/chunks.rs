pub fn run(_args: &[String]) -> i32 {
    eprintln!("chunks: not built yet");
    2
}
