//! C01 (and the replay half of C07/C09/C14): executes behaviour records printed by
//! spec/WowmWire.tla against the public readers and writers of the real crates.
//!
//! stdin : {"kind":"codec","id":..,"name":..,"exp":"vanilla|tbc|wrath|login","lv":N,"dir":"client|server",
//!          "hdr":[..],"body":[..],"regions":[{"from":i,"to":j}],"msgcomp":bool}   (regions: 1-based,
//!          inclusive, body-relative, holding the DECOMPRESSED payload)
//! stdout: one verdict line per record:
//!          {"id","name","exp","lv","dir","verdict":"ok|read_err|wrong_variant|consumed|bytes_differ|
//!            write_err|second_cycle|payload_differs|panic","detail":..}
//!
//! The only logic here is framing glue for compressed payloads: a region is deflated with zlib to
//! build the input, and the 2-byte (3-byte for large Wrath server frames) size field is recomputed
//! for the deflated length.

#[path = "generated/login_dispatch.rs"]
mod login_dispatch;
#[path = "generated/expect_dispatch.rs"]
mod expect_dispatch;

use crate::util::{bytes_of, guarded, hex, install_quiet_panic_hook};
use flate2::write::ZlibEncoder;
use flate2::Compression;
use serde_json::{json, Value};
use std::io::{BufRead, Cursor, Read, Write};

pub struct Rt {
    pub name: String,
    pub consumed: u64,
    pub out: Result<Vec<u8>, String>,
    pub dbg: String,
}

macro_rules! rt_world {
    ($ty:ty, $write:ident, $input:expr) => {{
        let input: &[u8] = $input;
        let mut cur = Cursor::new(input);
        match <$ty>::read_unencrypted(&mut cur) {
            Err(e) => Err(format!("{e:?}")),
            Ok(m) => {
                let consumed = cur.position();
                let mut out = Vec::new();
                let mut res = m.$write(&mut out).map(|_| out).map_err(|e| format!("{e:?}"));
                // second decode/encode cycle (required for compressed payloads, cheap for all)
                if let Ok(o) = &res {
                    let mut c2 = Cursor::new(&o[..]);
                    match <$ty>::read_unencrypted(&mut c2) {
                        Err(e) => res = Err(format!("second cycle: decode of own output failed: {e:?}")),
                        Ok(m2) => {
                            let mut o2 = Vec::new();
                            match m2.$write(&mut o2) {
                                Err(e) => res = Err(format!("second cycle: write failed: {e:?}")),
                                Ok(()) => {
                                    if &o2 != o {
                                        res = Err("second cycle: bytes differ".to_string());
                                    }
                                }
                            }
                        }
                    }
                }
                let needs_dbg = match &res { Ok(o) => o.as_slice() != input, Err(_) => true };
                let dbg: String = if needs_dbg { format!("{m:?}").chars().take(300).collect() } else { String::new() };
                Ok(Rt { name: m.to_string(), consumed, out: res, dbg })
            }
        }
    }};
}

macro_rules! ro_world {
    ($ty:ty, $input:expr) => {{
        let input: &[u8] = $input;
        let mut cur = Cursor::new(input);
        match <$ty>::read_unencrypted(&mut cur) {
            Err(e) => Err(format!("{e:?}")),
            Ok(m) => Ok(m.to_string()),
        }
    }};
}

/// Decode only. Ok(message name) or Err(debug text of the error value).
pub fn read_only(exp: &str, lv: u64, dir: &str, input: &[u8]) -> Result<String, String> {
    use wow_world_messages::{tbc, vanilla, wrath};
    match (exp, dir) {
        ("vanilla", "client") => ro_world!(vanilla::opcodes::ClientOpcodeMessage, input),
        ("vanilla", "server") => ro_world!(vanilla::opcodes::ServerOpcodeMessage, input),
        ("tbc", "client") => ro_world!(tbc::opcodes::ClientOpcodeMessage, input),
        ("tbc", "server") => ro_world!(tbc::opcodes::ServerOpcodeMessage, input),
        ("wrath", "client") => ro_world!(wrath::opcodes::ClientOpcodeMessage, input),
        ("wrath", "server") => ro_world!(wrath::opcodes::ServerOpcodeMessage, input),
        ("login", _) => login_dispatch::read_only(lv, dir == "client", input),
        _ => Err(format!("unknown exp/dir {exp}/{dir}")),
    }
}

macro_rules! ro_expect {
    ($f:path, $m:ty, $input:expr) => {{
        let input: &[u8] = $input;
        let mut cur = Cursor::new(input);
        match $f(&mut cur) {
            Err(e) => Err(format!("{e:?}")),
            Ok(m) => {
                let _: $m = m;
                Ok(stringify!($m).to_string())
            }
        }
    }};
}

/// Decode through the typed `expect_*_message` helper of one fixed message type (CMSG_PING / SMSG_PONG
/// exist in all three expansions). Used for undefined-opcode faults: the helper must report the opcode.
pub fn read_only_expect(exp: &str, dir: &str, input: &[u8]) -> Option<Result<String, String>> {
    use wow_world_messages::{tbc, vanilla, wrath};
    Some(match (exp, dir) {
        ("vanilla", "client") => ro_expect!(vanilla::expect_client_message::<vanilla::CMSG_PING, _>, vanilla::CMSG_PING, input),
        ("vanilla", "server") => ro_expect!(vanilla::expect_server_message::<vanilla::SMSG_PONG, _>, vanilla::SMSG_PONG, input),
        ("tbc", "client") => ro_expect!(tbc::expect_client_message::<tbc::CMSG_PING, _>, tbc::CMSG_PING, input),
        ("tbc", "server") => ro_expect!(tbc::expect_server_message::<tbc::SMSG_PONG, _>, tbc::SMSG_PONG, input),
        ("wrath", "client") => ro_expect!(wrath::expect_client_message::<wrath::CMSG_PING, _>, wrath::CMSG_PING, input),
        ("wrath", "server") => ro_expect!(wrath::expect_server_message::<wrath::SMSG_PONG, _>, wrath::SMSG_PONG, input),
        _ => return None,
    })
}

fn le_value(v: &Value) -> (u128, usize) {
    let b = bytes_of(v);
    let mut x: u128 = 0;
    for (i, byte) in b.iter().enumerate() {
        x |= (*byte as u128) << (8 * i);
    }
    (x, b.len())
}

/// number following `key` in a Debug string, e.g. `value: -3` / `opcode: 17` / `Opcode(17`
fn number_after(text: &str, key: &str) -> Option<i128> {
    let i = text.find(key)? + key.len();
    let rest = text[i..].trim_start();
    let end = rest
        .char_indices()
        .find(|(j, c)| !(c.is_ascii_digit() || (*j == 0 && *c == '-')))
        .map(|(j, _)| j)
        .unwrap_or(rest.len());
    rest[..end].parse().ok()
}

/// Fault records (C03 / C04): an altered encoding with the outcome class the specification demands.
pub fn judge_fault(rec: &Value) -> Value {
    let name = rec["name"].as_str().unwrap_or("").to_string();
    let exp = rec["exp"].as_str().unwrap_or("").to_string();
    let dir = rec["dir"].as_str().unwrap_or("").to_string();
    let lv = rec["lv"].as_u64().unwrap_or(0);
    let outcome = rec["outcome"].as_str().unwrap_or("any").to_string();
    let base = |verdict: &str, detail: Value| {
        json!({"id": rec["id"], "name": name, "exp": exp, "lv": lv, "dir": dir, "prof": rec["prof"],
               "fk": rec["fk"], "site": rec["site"], "outcome": outcome, "verdict": verdict, "detail": detail})
    };
    let input = match build_input(rec) {
        Ok(i) => i,
        Err(e) => return base("harness_unsupported", json!(e)),
    };
    // undefined opcodes are also presented to the typed expect helpers
    if outcome == "err_opcode" {
        if let Ok(Some(r)) = guarded(|| read_only_expect(&exp, &dir, &input.bytes)) {
            let (want, _) = le_value(&rec["val"]);
            match r {
                Ok(decoded) => return base("accepted", json!({"entry": "expect helper", "decoded_as": decoded, "input": hex(&input.bytes)})),
                Err(e) => {
                    let got = number_after(&e, "Opcode { opcode: ").or_else(|| number_after(&e, "Opcode("));
                    if got != Some(want as i128) {
                        return base("wrong_error", json!({"entry": "expect helper", "error": e, "expected_value": want.to_string(), "input": hex(&input.bytes)}));
                    }
                }
            }
        }
    }
    // fixed-size faults are also presented to the typed expect helper of the message itself
    if outcome == "err_any" && rec["fk"] == "size" {
        match guarded(|| expect_dispatch::expect(&exp, &name, &input.bytes)) {
            Err(p) => return base("panic", json!({"entry": "expect helper", "panic": p, "input": hex(&input.bytes)})),
            Ok(Some(Ok(()))) => return base("accepted", json!({"entry": "expect helper", "decoded_as": name, "input": hex(&input.bytes)})),
            Ok(_) => {}
        }
    }
    let res = guarded(|| read_only(&exp, lv, &dir, &input.bytes));
    match res {
        Err(p) => base("panic", json!({"panic": p, "input": hex(&input.bytes)})),
        Ok(Ok(decoded)) => {
            if outcome == "any" {
                base("ok", Value::Null)
            } else {
                base("accepted", json!({"decoded_as": decoded, "input": hex(&input.bytes)}))
            }
        }
        Ok(Err(e)) => match outcome.as_str() {
            "any" | "err_any" => base("ok", Value::Null),
            "err_enum" => {
                let (want, w) = le_value(&rec["val"]);
                let got = if e.contains("Enum(EnumError") { number_after(&e, "value: ") } else { None };
                let modulus: i128 = if w >= 16 { 0 } else { 1i128 << (8 * w) };
                let same = match got {
                    Some(g) => g == want as i128 || (modulus != 0 && g.rem_euclid(modulus) == want as i128),
                    None => false,
                };
                if same {
                    base("ok", Value::Null)
                } else {
                    base("wrong_error", json!({"error": e, "expected_value": want.to_string(), "input": hex(&input.bytes)}))
                }
            }
            "err_opcode" => {
                let (want, _) = le_value(&rec["val"]);
                let got = number_after(&e, "Opcode { opcode: ").or_else(|| number_after(&e, "Opcode("));
                if got == Some(want as i128) {
                    base("ok", Value::Null)
                } else {
                    base("wrong_error", json!({"error": e, "expected_value": want.to_string(), "input": hex(&input.bytes)}))
                }
            }
            _ => base("harness_unsupported", json!("unknown outcome")),
        },
    }
}

pub fn roundtrip(exp: &str, lv: u64, dir: &str, input: &[u8]) -> Result<Rt, String> {
    use wow_world_messages::{tbc, vanilla, wrath};
    match (exp, dir) {
        ("vanilla", "client") => rt_world!(vanilla::opcodes::ClientOpcodeMessage, write_unencrypted_client, input),
        ("vanilla", "server") => rt_world!(vanilla::opcodes::ServerOpcodeMessage, write_unencrypted_server, input),
        ("tbc", "client") => rt_world!(tbc::opcodes::ClientOpcodeMessage, write_unencrypted_client, input),
        ("tbc", "server") => rt_world!(tbc::opcodes::ServerOpcodeMessage, write_unencrypted_server, input),
        ("wrath", "client") => rt_world!(wrath::opcodes::ClientOpcodeMessage, write_unencrypted_client, input),
        ("wrath", "server") => rt_world!(wrath::opcodes::ServerOpcodeMessage, write_unencrypted_server, input),
        ("login", _) => login_dispatch::roundtrip(lv, dir == "client", input).map(|r| Rt {
            name: r.name,
            consumed: r.consumed,
            out: r.out,
            dbg: r.dbg,
        }),
        _ => Err(format!("unknown exp/dir {exp}/{dir}")),
    }
}

fn deflate(data: &[u8]) -> Vec<u8> {
    let mut e = ZlibEncoder::new(Vec::new(), Compression::default());
    e.write_all(data).unwrap();
    e.finish().unwrap()
}

fn inflate(data: &[u8]) -> Result<Vec<u8>, String> {
    let mut d = flate2::read::ZlibDecoder::new(data);
    let mut out = Vec::new();
    d.read_to_end(&mut out).map_err(|e| e.to_string())?;
    Ok(out)
}

pub struct Input {
    pub bytes: Vec<u8>,
    /// offset (in `bytes`) where the single compressed region starts, with its plain payload
    pub region: Option<(usize, Vec<u8>)>,
}

/// hdr ++ body, with the (at most one) region deflated and the size field recomputed.
pub fn build_input(rec: &Value) -> Result<Input, String> {
    let hdr = bytes_of(&rec["hdr"]);
    let body = bytes_of(&rec["body"]);
    let regions = rec["regions"].as_array().cloned().unwrap_or_default();
    if regions.is_empty() {
        let mut b = hdr;
        b.extend_from_slice(&body);
        return Ok(Input { bytes: b, region: None });
    }
    if regions.len() != 1 {
        return Err("more than one compressed region".into());
    }
    let from = regions[0]["from"].as_u64().unwrap() as usize;
    let to = regions[0]["to"].as_u64().unwrap() as usize;
    if to != body.len() {
        return Err("compressed region does not extend to the end of the body".into());
    }
    let payload = body[from - 1..to].to_vec();
    let mut nb = body[..from - 1].to_vec();
    // an empty payload is sent as no bytes at all (see the CMSG_UPDATE_ACCOUNT_DATA vector)
    if !payload.is_empty() {
        nb.extend_from_slice(&deflate(&payload));
    }
    let exp = rec["exp"].as_str().unwrap_or("");
    let dir = rec["dir"].as_str().unwrap_or("");
    let mut out = Vec::new();
    if exp == "login" {
        out.extend_from_slice(&hdr);
    } else {
        let oplen = if dir == "client" { 4 } else { 2 };
        let size = nb.len() + oplen;
        let opcode = &hdr[hdr.len() - oplen..];
        if exp == "wrath" && dir == "server" && size > 0x7FFF {
            out.push(0x80 | (size >> 16) as u8);
            out.push((size >> 8) as u8);
            out.push(size as u8);
        } else {
            out.push((size >> 8) as u8);
            out.push(size as u8);
        }
        out.extend_from_slice(opcode);
    }
    let hl = out.len();
    out.extend_from_slice(&nb);
    Ok(Input { bytes: out, region: Some((hl + from - 1, payload)) })
}

pub fn judge(rec: &Value) -> Value {
    let name = rec["name"].as_str().unwrap_or("").to_string();
    let exp = rec["exp"].as_str().unwrap_or("").to_string();
    let dir = rec["dir"].as_str().unwrap_or("").to_string();
    let lv = rec["lv"].as_u64().unwrap_or(0);
    let base = |verdict: &str, detail: Value| {
        json!({"id": rec["id"], "name": name, "exp": exp, "lv": lv, "dir": dir, "prof": rec["prof"],
               "verdict": verdict, "detail": detail})
    };
    let input = match build_input(rec) {
        Ok(i) => i,
        Err(e) => return base("harness_unsupported", json!(e)),
    };
    let res = guarded(|| roundtrip(&exp, lv, &dir, &input.bytes));
    match res {
        Err(p) => base("panic", json!({"panic": p, "input": hex(&input.bytes)})),
        Ok(Err(e)) => base("read_err", json!({"error": e, "input": hex(&input.bytes)})),
        Ok(Ok(rt)) => {
            if rt.name != name {
                return base("wrong_variant", json!({"decoded_as": rt.name, "input": hex(&input.bytes)}));
            }
            if rt.consumed as usize != input.bytes.len() {
                return base(
                    "consumed",
                    json!({"consumed": rt.consumed, "len": input.bytes.len(), "input": hex(&input.bytes)}),
                );
            }
            match rt.out {
                Err(e) => {
                    let v = if e.starts_with("second cycle") { "second_cycle" } else { "write_err" };
                    base(v, json!({"error": e, "input": hex(&input.bytes), "decoded": rt.dbg}))
                }
                Ok(out) => match &input.region {
                    None => {
                        if out == input.bytes {
                            base("ok", Value::Null)
                        } else {
                            base(
                                "bytes_differ",
                                json!({"input": hex(&input.bytes), "output": hex(&out), "decoded": rt.dbg}),
                            )
                        }
                    }
                    Some((start, payload)) => {
                        // equality is required of the decompressed payload (and of the second cycle,
                        // checked inside roundtrip); bytes before the region must be equal except
                        // for the size field, which depends on the deflater.
                        if out.len() < *start {
                            return base("bytes_differ", json!({"input": hex(&input.bytes), "output": hex(&out)}));
                        }
                        let got = if out.len() == *start { Ok(Vec::new()) } else { inflate(&out[*start..]) };
                        match got {
                            Err(e) => base("payload_differs", json!({"inflate_error": e, "output": hex(&out)})),
                            Ok(p) => {
                                let sz = if exp == "login" { 0 } else if out[0] & 0x80 != 0 && exp == "wrath" && dir == "server" { 3 } else { 2 };
                                let isz = if exp == "login" { 0 } else if input.bytes[0] & 0x80 != 0 && exp == "wrath" && dir == "server" { 3 } else { 2 };
                                if &p != payload {
                                    base("payload_differs", json!({"expected": hex(payload), "observed": hex(&p)}))
                                } else if out[sz..*start - isz + sz] != input.bytes[isz..*start] {
                                    base("bytes_differ", json!({"input": hex(&input.bytes), "output": hex(&out), "note": "prefix before compressed region"}))
                                } else {
                                    base("ok", Value::Null)
                                }
                            }
                        }
                    }
                },
            }
        }
    }
}

static DEADLINE: std::sync::atomic::AtomicU64 = std::sync::atomic::AtomicU64::new(u64::MAX);

fn now_ms() -> u64 {
    std::time::SystemTime::now().duration_since(std::time::UNIX_EPOCH).unwrap().as_millis() as u64
}

/// args: [--limit-as <bytes>]  (address-space budget for one decode, C03)
pub fn run(args: &[String]) -> i32 {
    install_quiet_panic_hook();
    if args.first().map(|s| s.as_str()) == Some("--limit-as") {
        if let Some(n) = args.get(1).and_then(|s| s.parse::<u64>().ok()) {
            let lim = libc::rlimit { rlim_cur: n, rlim_max: n };
            // SAFETY: plain syscall wrapper with a valid pointer
            unsafe { libc::setrlimit(libc::RLIMIT_AS, &lim) };
        }
    }
    // watchdog: a record that takes longer than 5 s kills the process (reported as an abort)
    std::thread::spawn(|| loop {
        std::thread::sleep(std::time::Duration::from_millis(200));
        if now_ms() > DEADLINE.load(std::sync::atomic::Ordering::SeqCst) {
            eprintln!("watchdog: record exceeded 5 s");
            std::process::abort();
        }
    });
    let stdin = std::io::stdin();
    let stdout = std::io::stdout();
    let mut w = std::io::BufWriter::new(stdout.lock());
    let (mut n, mut ok) = (0u64, 0u64);
    for line in stdin.lock().lines() {
        let line = match line {
            Ok(l) => l,
            Err(_) => break,
        };
        if line.trim().is_empty() {
            continue;
        }
        let rec: Value = match serde_json::from_str(&line) {
            Ok(v) => v,
            Err(e) => {
                eprintln!("bad record: {e}");
                return 2;
            }
        };
        if rec["kind"] != "codec" && rec["kind"] != "fault" {
            continue;
        }
        n += 1;
        // progress marker: lets the supervisor resume after the record that kills the process
        writeln!(w, "@{n}").unwrap();
        w.flush().unwrap();
        DEADLINE.store(now_ms() + 5_000, std::sync::atomic::Ordering::SeqCst);
        let v = if rec["kind"] == "fault" { judge_fault(&rec) } else { judge(&rec) };
        DEADLINE.store(u64::MAX, std::sync::atomic::Ordering::SeqCst);
        if v["verdict"] == "ok" {
            ok += 1;
        } else {
            writeln!(w, "{v}").unwrap();
        }
    }
    writeln!(w, "{}", json!({"summary": {"records": n, "ok": ok}})).unwrap();
    0
}
