pub fn run(_args: &[String]) -> i32 {
    eprintln!("codec: not built yet");
    2
}
