//! C14: login protocol-version views. For every behaviour record of a login message of protocol
//! version N (from spec/WowmWire.tla): decode with version N's own reader, lift into the collective
//! (latest) type, lower again and compare value and bytes; decode through the protocol-parameterised
//! opcode reader and write through `write_protocol`, comparing with the lifted value and the bytes.
//!
//! stdin: codec records with exp == "login"; stdout: non-ok verdict lines + summary.

#[path = "generated/collective_dispatch.rs"]
mod collective_dispatch;

use crate::util::{bytes_of, guarded, hex, install_quiet_panic_hook};
use serde_json::{json, Value};
use std::io::{BufRead, Write};

pub fn run(_args: &[String]) -> i32 {
    install_quiet_panic_hook();
    let stdin = std::io::stdin();
    let stdout = std::io::stdout();
    let mut w = std::io::BufWriter::new(stdout.lock());
    let (mut n, mut ok) = (0u64, 0u64);
    for line in stdin.lock().lines() {
        let line = match line {
            Ok(l) => l,
            Err(_) => break,
        };
        if line.trim().is_empty() {
            continue;
        }
        let rec: Value = match serde_json::from_str(&line) {
            Ok(v) => v,
            Err(e) => {
                eprintln!("bad record: {e}");
                return 2;
            }
        };
        if rec["kind"] != "codec" || rec["exp"] != "login" {
            continue;
        }
        n += 1;
        writeln!(w, "@{n}").unwrap();
        w.flush().unwrap();
        let mut input = bytes_of(&rec["hdr"]);
        input.extend_from_slice(&bytes_of(&rec["body"]));
        let lv = rec["lv"].as_u64().unwrap_or(0);
        let client = rec["dir"] == "client";
        let res = guarded(|| collective_dispatch::check(lv, client, &input));
        let verdict = match res {
            Ok(Ok(())) => {
                ok += 1;
                continue;
            }
            Ok(Err(e)) => json!({"verdict": "mismatch", "detail": {"error": e, "input": hex(&input)}}),
            Err(p) => json!({"verdict": "panic", "detail": {"panic": p, "input": hex(&input)}}),
        };
        let mut v = verdict;
        v["id"] = rec["id"].clone();
        v["name"] = rec["name"].clone();
        v["exp"] = rec["exp"].clone();
        v["lv"] = rec["lv"].clone();
        v["dir"] = rec["dir"].clone();
        v["prof"] = rec["prof"].clone();
        writeln!(w, "{v}").unwrap();
    }
    writeln!(w, "{}", json!({"summary": {"records": n, "ok": ok}})).unwrap();
    0
}
