pub fn run(_args: &[String]) -> i32 {
    eprintln!("collective: not built yet");
    2
}
