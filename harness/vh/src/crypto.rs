pub fn run(_args: &[String]) -> i32 {
    eprintln!("crypto: not built yet");
    2
}
