//! C05: header encryption over whole message sequences.
//!
//! The executor is shared with C02 (`frames.rs`): one direction of a connection is a `DirState`
//! holding the plain stream, the encrypted stream written in parallel with the real wow_srp halves
//! (built through the public ProofSeed handshake and `split()`), and reference halves that are fed
//! exactly the observed header bytes through the raw `encrypt` / `decrypt` API.  `vh crypto` takes
//! the same sub-commands: `replay --keys hex,.. [--flavours ..]` (records of spec/Framing.tla in
//! mode c05) and `drive` (random dialogues, events validated by spec/TraceFraming.tla).
pub fn run(args: &[String]) -> i32 {
    crate::frames::run(args)
}
