pub fn run(_args: &[String]) -> i32 {
    eprintln!("definer: not built yet");
    2
}
