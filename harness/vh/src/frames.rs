//! C02 / C05: executes frame-stream histories printed by spec/Framing.tla against the real
//! writers and readers of wow_world_messages (and the real wow_srp header cipher halves).
//!
//! `vh frames replay [--keys hex,hex,..] [--flavours sync,tokio,astd]`
//!     stdin : REPLAY records of spec/Framing.tla (kind "frames"): per frame the expected header
//!             bytes, total length, stream offset and the keystream range that is encrypted; per
//!             read the expected reader position; final keystream positions.
//!     stdout: `@n` progress markers, one verdict line per disagreement, a summary line.
//! `vh frames drive`
//!     stdin : requests {"kind":"drive","exp","crypt","entry","flavour","key":hex,
//!                       "ops":[{"op":"w","dir","name","body"},{"op":"r","dir"}]}
//!     stdout: one line per request with the OBSERVED events (validated by spec/TraceFraming.tla).
//!
//! No expectation is computed here: the module builds a pool message of the requested body
//! length, calls the public API and reports bytes, lengths, reader positions and whether a cipher
//! half is in the same state as a reference half that was fed exactly the observed header bytes.
//! A panic of the code under test is a verdict.
#![allow(clippy::type_complexity)]

use crate::util::{guarded, install_quiet_panic_hook};
use serde_json::{json, Value};
use std::future::Future;
use std::io::{BufRead, Write};
use std::task::{Context, Poll, Waker};

#[derive(Clone, Copy, PartialEq, Debug)]
pub enum Fl {
    Sync,
    Tokio,
    Astd,
}

impl Fl {
    fn parse(s: &str) -> Option<Fl> {
        match s {
            "sync" => Some(Fl::Sync),
            "tokio" => Some(Fl::Tokio),
            "astd" => Some(Fl::Astd),
            _ => None,
        }
    }
    fn name(self) -> &'static str {
        match self {
            Fl::Sync => "sync",
            Fl::Tokio => "tokio",
            Fl::Astd => "astd",
        }
    }
}

#[derive(Clone, Copy, PartialEq, Debug)]
pub enum Entry {
    Opcode,
    Expect,
    ExpectOther,
}

impl Entry {
    fn parse(s: &str) -> Option<Entry> {
        match s {
            "opcode" => Some(Entry::Opcode),
            "expect" => Some(Entry::Expect),
            "expect_other" => Some(Entry::ExpectOther),
            _ => None,
        }
    }
    fn name(self) -> &'static str {
        match self {
            Entry::Opcode => "opcode",
            Entry::Expect => "expect",
            Entry::ExpectOther => "expect_other",
        }
    }
}

/// In-memory readers and writers never return Pending; a trivial executor is enough.
pub fn block_on<F: Future>(f: F) -> F::Output {
    let mut f = std::pin::pin!(f);
    let mut cx = Context::from_waker(Waker::noop());
    for _ in 0..1_000_000 {
        if let Poll::Ready(v) = f.as_mut().poll(&mut cx) {
            return v;
        }
    }
    panic!("harness: in-memory future stayed pending");
}

/// What a reader returned, compared with the message that was written.
#[derive(Debug)]
pub enum Got {
    Same,
    Differs(String),
    OpcodeErr(u32),
    Err(String),
}

/// One pool message, with the writer's cipher half type `E` and the reader's `D`.
pub trait Ops<E, D> {
    fn name(&self) -> &'static str;
    fn body(&self) -> &[u8];
    fn declared(&self) -> u64;
    fn write(&self, fl: Fl, via_enum: bool, out: &mut Vec<u8>, enc: Option<&mut E>) -> Result<(), String>;
    fn read(&self, fl: Fl, entry: Entry, r: &mut &[u8], dec: Option<&mut D>) -> Got;
}

macro_rules! side {
    ($modname:ident, $exp:ident, $msg_trait:ident, $opc:ident, $E:ty, $D:ty, $size:ident,
     $w_u:ident, $w_e:ident, $tw_u:ident, $tw_e:ident, $aw_u:ident, $aw_e:ident,
     $x_u:ident, $x_e:ident, $tx_u:ident, $tx_e:ident, $ax_u:ident, $ax_e:ident,
     $other:ident) => {
        pub mod $modname {
            use super::{block_on, Entry, Fl, Got, Ops};
            use wow_world_messages::errors::ExpectedOpcodeError;
            use wow_world_messages::$exp::opcodes::$opc as Opc;
            use wow_world_messages::$exp::$msg_trait as MsgTrait;
            use wow_world_messages::$exp::$other as Other;
            use wow_world_messages::$exp::{$ax_e, $ax_u, $tx_e, $tx_u, $x_e, $x_u};

            pub struct T<M> {
                pub m: M,
                pub body: Vec<u8>,
                pub name: &'static str,
                pub to_enum: fn(&M) -> Opc,
            }

            fn classify(e: ExpectedOpcodeError) -> Got {
                match e {
                    ExpectedOpcodeError::Opcode { opcode, .. } => Got::OpcodeErr(opcode),
                    other => Got::Err(format!("{other:?}")),
                }
            }

            fn read_enum(fl: Fl, r: &mut &[u8], dec: Option<&mut $D>) -> Result<Opc, ExpectedOpcodeError> {
                match (fl, dec) {
                    (Fl::Sync, None) => Opc::read_unencrypted(&mut *r),
                    (Fl::Sync, Some(d)) => Opc::read_encrypted(&mut *r, d),
                    (Fl::Tokio, None) => block_on(Opc::tokio_read_unencrypted(&mut *r)),
                    (Fl::Tokio, Some(d)) => block_on(Opc::tokio_read_encrypted(&mut *r, d)),
                    (Fl::Astd, None) => block_on(Opc::astd_read_unencrypted(&mut *r)),
                    (Fl::Astd, Some(d)) => block_on(Opc::astd_read_encrypted(&mut *r, d)),
                }
            }

            fn read_other(fl: Fl, r: &mut &[u8], dec: Option<&mut $D>) -> Result<Other, ExpectedOpcodeError> {
                match (fl, dec) {
                    (Fl::Sync, None) => $x_u::<Other, _>(r),
                    (Fl::Sync, Some(d)) => $x_e::<Other, _>(r, d),
                    (Fl::Tokio, None) => block_on($tx_u::<Other, _>(r)),
                    (Fl::Tokio, Some(d)) => block_on($tx_e::<Other, _>(r, d)),
                    (Fl::Astd, None) => block_on($ax_u::<Other, _>(r)),
                    (Fl::Astd, Some(d)) => block_on($ax_e::<Other, _>(r, d)),
                }
            }

            /// A FOREIGN frame of spec/Framing.tla: the model's header bytes (an opcode that is not
            /// defined for this expansion and direction) and a pattern body, put on the wire without
            /// the library's writers; every reader must report the opcode and consume the frame.
            pub struct Raw {
                pub hdr: Vec<u8>,
                pub body: Vec<u8>,
                pub raw_enc: fn(&mut $E, &mut [u8]),
            }

            impl Ops<$E, $D> for Raw {
                fn name(&self) -> &'static str {
                    "?"
                }
                fn body(&self) -> &[u8] {
                    &self.body
                }
                fn declared(&self) -> u64 {
                    (self.hdr.len() + self.body.len()) as u64
                }
                fn write(&self, _fl: Fl, _via_enum: bool, out: &mut Vec<u8>, enc: Option<&mut $E>) -> Result<(), String> {
                    let mut h = self.hdr.clone();
                    if let Some(e) = enc {
                        (self.raw_enc)(e, &mut h);
                    }
                    out.extend_from_slice(&h);
                    out.extend_from_slice(&self.body);
                    Ok(())
                }
                fn read(&self, fl: Fl, entry: Entry, r: &mut &[u8], dec: Option<&mut $D>) -> Got {
                    match entry {
                        Entry::Opcode => match read_enum(fl, r, dec) {
                            Ok(v) => Got::Differs(v.to_string()),
                            Err(e) => classify(e),
                        },
                        Entry::Expect | Entry::ExpectOther => match read_other(fl, r, dec) {
                            Ok(_) => Got::Differs("a foreign frame decoded as a message".to_string()),
                            Err(e) => classify(e),
                        },
                    }
                }
            }

            impl<M> Ops<$E, $D> for T<M>
            where
                M: MsgTrait + Clone + PartialEq + Send + Sync,
            {
                fn name(&self) -> &'static str {
                    self.name
                }
                fn body(&self) -> &[u8] {
                    &self.body
                }
                fn declared(&self) -> u64 {
                    self.m.$size() as u64
                }
                fn write(&self, fl: Fl, via_enum: bool, out: &mut Vec<u8>, enc: Option<&mut $E>) -> Result<(), String> {
                    let r = if via_enum {
                        let v = (self.to_enum)(&self.m);
                        match (fl, enc) {
                            (Fl::Sync, None) => v.$w_u(&mut *out),
                            (Fl::Sync, Some(e)) => v.$w_e(&mut *out, e),
                            (Fl::Tokio, None) => block_on(v.$tw_u(&mut *out)),
                            (Fl::Tokio, Some(e)) => block_on(v.$tw_e(&mut *out, e)),
                            (Fl::Astd, None) => block_on(v.$aw_u(&mut *out)),
                            (Fl::Astd, Some(e)) => block_on(v.$aw_e(&mut *out, e)),
                        }
                    } else {
                        match (fl, enc) {
                            (Fl::Sync, None) => self.m.$w_u(&mut *out),
                            (Fl::Sync, Some(e)) => self.m.$w_e(&mut *out, e),
                            (Fl::Tokio, None) => block_on(self.m.$tw_u(&mut *out)),
                            (Fl::Tokio, Some(e)) => block_on(self.m.$tw_e(&mut *out, e)),
                            (Fl::Astd, None) => block_on(self.m.$aw_u(&mut *out)),
                            (Fl::Astd, Some(e)) => block_on(self.m.$aw_e(&mut *out, e)),
                        }
                    };
                    r.map_err(|e| format!("{e:?}"))
                }
                fn read(&self, fl: Fl, entry: Entry, r: &mut &[u8], dec: Option<&mut $D>) -> Got {
                    match entry {
                        Entry::Opcode => {
                            let res = match (fl, dec) {
                                (Fl::Sync, None) => Opc::read_unencrypted(&mut *r),
                                (Fl::Sync, Some(d)) => Opc::read_encrypted(&mut *r, d),
                                (Fl::Tokio, None) => block_on(Opc::tokio_read_unencrypted(&mut *r)),
                                (Fl::Tokio, Some(d)) => block_on(Opc::tokio_read_encrypted(&mut *r, d)),
                                (Fl::Astd, None) => block_on(Opc::astd_read_unencrypted(&mut *r)),
                                (Fl::Astd, Some(d)) => block_on(Opc::astd_read_encrypted(&mut *r, d)),
                            };
                            match res {
                                Ok(v) => {
                                    if v == (self.to_enum)(&self.m) {
                                        Got::Same
                                    } else {
                                        Got::Differs(v.to_string())
                                    }
                                }
                                Err(e) => classify(e),
                            }
                        }
                        Entry::Expect => {
                            let res: Result<M, ExpectedOpcodeError> = match (fl, dec) {
                                (Fl::Sync, None) => $x_u::<M, _>(r),
                                (Fl::Sync, Some(d)) => $x_e::<M, _>(r, d),
                                (Fl::Tokio, None) => block_on($tx_u::<M, _>(r)),
                                (Fl::Tokio, Some(d)) => block_on($tx_e::<M, _>(r, d)),
                                (Fl::Astd, None) => block_on($ax_u::<M, _>(r)),
                                (Fl::Astd, Some(d)) => block_on($ax_e::<M, _>(r, d)),
                            };
                            match res {
                                Ok(v) => {
                                    if v == self.m {
                                        Got::Same
                                    } else {
                                        Got::Differs("same type, different value".to_string())
                                    }
                                }
                                Err(e) => classify(e),
                            }
                        }
                        Entry::ExpectOther => {
                            let res: Result<Other, ExpectedOpcodeError> = match (fl, dec) {
                                (Fl::Sync, None) => $x_u::<Other, _>(r),
                                (Fl::Sync, Some(d)) => $x_e::<Other, _>(r, d),
                                (Fl::Tokio, None) => block_on($tx_u::<Other, _>(r)),
                                (Fl::Tokio, Some(d)) => block_on($tx_e::<Other, _>(r, d)),
                                (Fl::Astd, None) => block_on($ax_u::<Other, _>(r)),
                                (Fl::Astd, Some(d)) => block_on($ax_e::<Other, _>(r, d)),
                            };
                            match res {
                                Ok(_) => Got::Differs("decoded as an unrelated message type".to_string()),
                                Err(e) => classify(e),
                            }
                        }
                    }
                }
            }
        }
    };
}

macro_rules! server_side {
    ($modname:ident, $exp:ident, $E:ty, $D:ty) => {
        side!($modname, $exp, ServerMessage, ServerOpcodeMessage, $E, $D, server_size,
              write_unencrypted_server, write_encrypted_server,
              tokio_write_unencrypted_server, tokio_write_encrypted_server,
              astd_write_unencrypted_server, astd_write_encrypted_server,
              expect_server_message, expect_server_message_encryption,
              tokio_expect_server_message, tokio_expect_server_message_encryption,
              astd_expect_server_message, astd_expect_server_message_encryption,
              SMSG_NOTIFICATION);
    };
}

macro_rules! client_side {
    ($modname:ident, $exp:ident, $E:ty, $D:ty) => {
        side!($modname, $exp, ClientMessage, ClientOpcodeMessage, $E, $D, client_size,
              write_unencrypted_client, write_encrypted_client,
              tokio_write_unencrypted_client, tokio_write_encrypted_client,
              astd_write_unencrypted_client, astd_write_encrypted_client,
              expect_client_message, expect_client_message_encryption,
              tokio_expect_client_message, tokio_expect_client_message_encryption,
              astd_expect_client_message, astd_expect_client_message_encryption,
              CMSG_PING);
    };
}

server_side!(vanilla_s, vanilla, wow_srp::vanilla_header::EncrypterHalf, wow_srp::vanilla_header::DecrypterHalf);
client_side!(vanilla_c, vanilla, wow_srp::vanilla_header::EncrypterHalf, wow_srp::vanilla_header::DecrypterHalf);
server_side!(tbc_s, tbc, wow_srp::tbc_header::EncrypterHalf, wow_srp::tbc_header::DecrypterHalf);
client_side!(tbc_c, tbc, wow_srp::tbc_header::EncrypterHalf, wow_srp::tbc_header::DecrypterHalf);
server_side!(wrath_s, wrath, wow_srp::wrath_header::ServerEncrypterHalf, wow_srp::wrath_header::ClientDecrypterHalf);
client_side!(wrath_c, wrath, wow_srp::wrath_header::ClientEncrypterHalf, wow_srp::wrath_header::ServerDecrypterHalf);

// ------------------------------------------------------------------------------------------------
// Pool messages of a requested body length (names fixed by tools/framing_pool.py).

fn pattern(n: usize) -> Vec<u8> {
    (0..n).map(|i| ((i * 31 + 7) & 0xFF) as u8).collect()
}

/// `u32 count` + `count` C strings, `n` bytes in total (n >= 4); strings of at most 255 bytes.
fn motd(n: usize) -> (Vec<String>, Vec<u8>) {
    let mut rest = n - 4;
    let mut strs = Vec::new();
    while rest > 0 {
        let chunk = rest.min(256);
        let s: String = (0..chunk - 1).map(|i| (b'a' + ((i + strs.len()) % 26) as u8) as char).collect();
        strs.push(s);
        rest -= chunk;
    }
    let mut body = (strs.len() as u32).to_le_bytes().to_vec();
    for s in &strs {
        body.extend_from_slice(s.as_bytes());
        body.push(0);
    }
    (strs, body)
}

/// `n` pseudo-random guids: packed guids of random values do not compress, so the compressed body
/// grows with `n` (about 9 bytes per guid).
fn guids(n: usize) -> Vec<wow_world_messages::Guid> {
    let mut x: u64 = 0x9E37_79B9_7F4A_7C15;
    (0..n)
        .map(|_| {
            x ^= x << 13;
            x ^= x >> 7;
            x ^= x << 17;
            wow_world_messages::Guid::new(x | 0x0101_0101_0101_0101)
        })
        .collect()
}

/// Body of a message whose length is not a function of its definition (compressed): what the
/// message's own `write_into_vec` produces.
fn body_of<M: wow_world_messages::Message>(m: &M) -> Vec<u8> {
    let mut b = Vec::new();
    let _ = m.write_into_vec(&mut b);
    b
}

const GUID: u64 = 0x0123_4567_89AB_CDEF;
const SEQ: u32 = 0xDEAD_BEEF;

pub trait Exp {
    type CE: Clone;
    type CD: Clone;
    type SE: Clone;
    type SD: Clone;
    fn halves(key: [u8; 40]) -> Result<(Self::CE, Self::CD, Self::SE, Self::SD), String>;
    fn client_msg(name: &str, body: usize) -> Option<Box<dyn Ops<Self::CE, Self::SD>>>;
    fn server_msg(name: &str, body: usize) -> Option<Box<dyn Ops<Self::SE, Self::CD>>>;
    fn client_raw(hdr: Vec<u8>, body: usize) -> Box<dyn Ops<Self::CE, Self::SD>>;
    fn server_raw(hdr: Vec<u8>, body: usize) -> Box<dyn Ops<Self::SE, Self::CD>>;
    fn raw_ce(h: &mut Self::CE, d: &mut [u8]);
    fn raw_cd(h: &mut Self::CD, d: &mut [u8]);
    fn raw_se(h: &mut Self::SE, d: &mut [u8]);
    fn raw_sd(h: &mut Self::SD, d: &mut [u8]);
}

macro_rules! exp_impl {
    ($ty:ident, $exp:ident, $srp:ident, $cmod:ident, $smod:ident, $CE:ty, $CD:ty, $SE:ty, $SD:ty, $motd:expr) => {
        pub struct $ty;
        impl Exp for $ty {
            type CE = $CE;
            type CD = $CD;
            type SE = $SE;
            type SD = $SD;

            fn halves(key: [u8; 40]) -> Result<(Self::CE, Self::CD, Self::SE, Self::SD), String> {
                use wow_srp::normalized_string::NormalizedString;
                use wow_srp::$srp::ProofSeed;
                let user = NormalizedString::new("VERIF").map_err(|e| format!("{e:?}"))?;
                let server_seed = ProofSeed::new();
                let client_seed = ProofSeed::new();
                let (ss, cs) = (server_seed.seed(), client_seed.seed());
                let (proof, client) = client_seed.into_client_header_crypto(&user, key, ss);
                let server = server_seed
                    .into_server_header_crypto(&user, key, proof, cs)
                    .map_err(|e| format!("{e:?}"))?;
                let (ce, cd) = client.split();
                let (se, sd) = server.split();
                Ok((ce, cd, se, sd))
            }

            fn client_msg(name: &str, body: usize) -> Option<Box<dyn Ops<Self::CE, Self::SD>>> {
                use wow_world_messages::$exp::opcodes::ClientOpcodeMessage as Opc;
                use wow_world_messages::$exp::{CMSG_CHAR_ENUM, CMSG_PLAYER_LOGIN, CMSG_WARDEN_DATA};
                Some(match name {
                    "CMSG_CHAR_ENUM" if body == 0 => Box::new($cmod::T { m: CMSG_CHAR_ENUM {}, body: vec![], name: "CMSG_CHAR_ENUM", to_enum: |_| Opc::CMSG_CHAR_ENUM }),
                    "CMSG_PLAYER_LOGIN" if body == 8 => Box::new($cmod::T {
                        m: CMSG_PLAYER_LOGIN { guid: wow_world_messages::Guid::new(GUID) },
                        body: GUID.to_le_bytes().to_vec(),
                        name: "CMSG_PLAYER_LOGIN",
                        to_enum: |m| Opc::from(m.clone()),
                    }),
                    "CMSG_WARDEN_DATA" => {
                        let b = pattern(body);
                        Box::new($cmod::T { m: CMSG_WARDEN_DATA { encrypted_data: b.clone() }, body: b, name: "CMSG_WARDEN_DATA", to_enum: |m| Opc::from(m.clone()) })
                    }
                    _ => return None,
                })
            }

            fn server_msg(name: &str, body: usize) -> Option<Box<dyn Ops<Self::SE, Self::CD>>> {
                use wow_world_messages::$exp::opcodes::ServerOpcodeMessage as Opc;
                use wow_world_messages::$exp::{SMSG_LOGOUT_COMPLETE, SMSG_PONG, SMSG_WARDEN_DATA};
                Some(match name {
                    "SMSG_LOGOUT_COMPLETE" if body == 0 => Box::new($smod::T { m: SMSG_LOGOUT_COMPLETE {}, body: vec![], name: "SMSG_LOGOUT_COMPLETE", to_enum: |_| Opc::SMSG_LOGOUT_COMPLETE }),
                    "SMSG_PONG" if body == 4 => Box::new($smod::T { m: SMSG_PONG { sequence_id: SEQ }, body: SEQ.to_le_bytes().to_vec(), name: "SMSG_PONG", to_enum: |m| Opc::from(m.clone()) }),
                    "SMSG_WARDEN_DATA" => {
                        let b = pattern(body);
                        Box::new($smod::T { m: SMSG_WARDEN_DATA { encrypted_data: b.clone() }, body: b, name: "SMSG_WARDEN_DATA", to_enum: |m| Opc::from(m.clone()) })
                    }
                    _ => {
                        let extra: fn(&str, usize) -> Option<Box<dyn Ops<Self::SE, Self::CD>>> = $motd;
                        return extra(name, body);
                    }
                })
            }

            fn client_raw(hdr: Vec<u8>, body: usize) -> Box<dyn Ops<Self::CE, Self::SD>> {
                Box::new($cmod::Raw { hdr, body: pattern(body), raw_enc: Self::raw_ce })
            }
            fn server_raw(hdr: Vec<u8>, body: usize) -> Box<dyn Ops<Self::SE, Self::CD>> {
                Box::new($smod::Raw { hdr, body: pattern(body), raw_enc: Self::raw_se })
            }

            fn raw_ce(h: &mut Self::CE, d: &mut [u8]) {
                h.encrypt(d)
            }
            fn raw_cd(h: &mut Self::CD, d: &mut [u8]) {
                h.decrypt(d)
            }
            fn raw_se(h: &mut Self::SE, d: &mut [u8]) {
                h.encrypt(d)
            }
            fn raw_sd(h: &mut Self::SD, d: &mut [u8]) {
                h.decrypt(d)
            }
        }
    };
}

exp_impl!(Vanilla, vanilla, vanilla_header, vanilla_c, vanilla_s,
          wow_srp::vanilla_header::EncrypterHalf, wow_srp::vanilla_header::DecrypterHalf,
          wow_srp::vanilla_header::EncrypterHalf, wow_srp::vanilla_header::DecrypterHalf,
          |name, body| {
              if name != "SMSG_COMPRESSED_UPDATE_OBJECT" {
                  return None;
              }
              use wow_world_messages::vanilla::{Object, SMSG_COMPRESSED_UPDATE_OBJECT};
              let m = SMSG_COMPRESSED_UPDATE_OBJECT { has_transport: 0, objects: vec![Object::OutOfRangeObjects { guids: guids(body) }] };
              let b = body_of(&m);
              Some(Box::new(vanilla_s::T {
                  m,
                  body: b,
                  name: "SMSG_COMPRESSED_UPDATE_OBJECT",
                  to_enum: |m| wow_world_messages::vanilla::opcodes::ServerOpcodeMessage::from(m.clone()),
              }))
          });
exp_impl!(Tbc, tbc, tbc_header, tbc_c, tbc_s,
          wow_srp::tbc_header::EncrypterHalf, wow_srp::tbc_header::DecrypterHalf,
          wow_srp::tbc_header::EncrypterHalf, wow_srp::tbc_header::DecrypterHalf,
          |name, body| {
              if name == "SMSG_COMPRESSED_UPDATE_OBJECT" {
                  use wow_world_messages::tbc::{Object, SMSG_COMPRESSED_UPDATE_OBJECT};
                  let m = SMSG_COMPRESSED_UPDATE_OBJECT { has_transport: 0, objects: vec![Object::OutOfRangeObjects { guids: guids(body) }] };
                  let b = body_of(&m);
                  return Some(Box::new(tbc_s::T {
                      m,
                      body: b,
                      name: "SMSG_COMPRESSED_UPDATE_OBJECT",
                      to_enum: |m| wow_world_messages::tbc::opcodes::ServerOpcodeMessage::from(m.clone()),
                  }));
              }
              if name != "SMSG_MOTD" || body < 4 {
                  return None;
              }
              let (s, b) = motd(body);
              Some(Box::new(tbc_s::T {
                  m: wow_world_messages::tbc::SMSG_MOTD { motds: s },
                  body: b,
                  name: "SMSG_MOTD",
                  to_enum: |m| wow_world_messages::tbc::opcodes::ServerOpcodeMessage::from(m.clone()),
              }))
          });
exp_impl!(Wrath, wrath, wrath_header, wrath_c, wrath_s,
          wow_srp::wrath_header::ClientEncrypterHalf, wow_srp::wrath_header::ClientDecrypterHalf,
          wow_srp::wrath_header::ServerEncrypterHalf, wow_srp::wrath_header::ServerDecrypterHalf,
          |name, body| {
              if name == "SMSG_COMPRESSED_UPDATE_OBJECT" {
                  use wow_world_messages::wrath::{Object, SMSG_COMPRESSED_UPDATE_OBJECT};
                  let m = SMSG_COMPRESSED_UPDATE_OBJECT { objects: vec![Object::OutOfRangeObjects { guids: guids(body) }] };
                  let b = body_of(&m);
                  return Some(Box::new(wrath_s::T {
                      m,
                      body: b,
                      name: "SMSG_COMPRESSED_UPDATE_OBJECT",
                      to_enum: |m| wow_world_messages::wrath::opcodes::ServerOpcodeMessage::from(m.clone()),
                  }));
              }
              if name != "SMSG_MOTD" || body < 4 {
                  return None;
              }
              let (s, b) = motd(body);
              Some(Box::new(wrath_s::T {
                  m: wow_world_messages::wrath::SMSG_MOTD { motds: s },
                  body: b,
                  name: "SMSG_MOTD",
                  to_enum: |m| wow_world_messages::wrath::opcodes::ServerOpcodeMessage::from(m.clone()),
              }))
          });

// ------------------------------------------------------------------------------------------------
// One direction of a connection: the bytes on the wire (plain and, in parallel, encrypted), the
// real cipher halves and reference halves that are fed exactly the observed header bytes.

const PROBE: [u8; 8] = [0x5A, 0x00, 0xFF, 0x13, 0x80, 0x7F, 0x01, 0xC3];

pub struct Frame {
    at: usize,
    #[allow(dead_code)]
    total: usize,
    hdr_len: usize,
}

pub struct DirState<E: Clone, D: Clone> {
    plain: Vec<u8>,
    ciph: Vec<u8>,
    enc: Option<E>,
    ref_enc: Option<E>,
    dec: Option<D>,
    ref_dec: Option<D>,
    raw_enc: fn(&mut E, &mut [u8]),
    raw_dec: fn(&mut D, &mut [u8]),
    msgs: Vec<Box<dyn Ops<E, D>>>,
    frames: Vec<Frame>,
    rd: usize,
    rpos: usize,
}

#[derive(Default)]
pub struct WObs {
    pub fail: Option<(String, String)>, // (verdict kind, signature): panic | io
    pub at: usize,
    pub total: usize,
    pub hdr: Vec<u8>,
    pub body_ok: bool,
    pub declared: Option<Result<u64, String>>,
    pub enc_fail: Option<(String, String)>,
    pub enc_total: usize,
    pub differs_at: Vec<usize>,
    pub cipher_hdr_ok: bool,
    pub enc_in_step: bool,
    pub body_len: usize,
}

#[derive(Default)]
pub struct RObs {
    pub fail: Option<String>, // panic signature
    pub consumed: usize,
    pub end: usize,
    pub got: Option<Got>,
    pub dec_in_step: bool,
    pub name: &'static str,
}

impl<E: Clone, D: Clone> DirState<E, D> {
    fn new(halves: Option<(E, D)>, raw_enc: fn(&mut E, &mut [u8]), raw_dec: fn(&mut D, &mut [u8])) -> Self {
        let (enc, dec) = match halves {
            Some((e, d)) => (Some(e), Some(d)),
            None => (None, None),
        };
        DirState {
            plain: vec![],
            ciph: vec![],
            ref_enc: enc.clone(),
            ref_dec: dec.clone(),
            enc,
            dec,
            raw_enc,
            raw_dec,
            msgs: vec![],
            frames: vec![],
            rd: 0,
            rpos: 0,
        }
    }

    /// `hdr_hint`: the header the model expects (replay mode). The reference half encrypts it, so
    /// the encrypted writer is judged even when the plain writer fails. Without a hint (drive mode)
    /// the observed plain header is used.
    fn write(&mut self, m: Box<dyn Ops<E, D>>, fl: Fl, via_enum: bool, hdr_hint: Option<&[u8]>) -> WObs {
        let mut o = WObs { at: self.plain.len(), ..Default::default() };
        let at = o.at;
        // plain
        let plain = &mut self.plain;
        match guarded(|| m.write(fl, via_enum, plain, None)) {
            Err(p) => {
                self.plain.truncate(at);
                o.fail = Some(("panic".into(), p));
            }
            Ok(Err(e)) => {
                self.plain.truncate(at);
                o.fail = Some(("io".into(), e));
            }
            Ok(Ok(())) => {}
        }
        o.declared = Some(guarded(|| m.declared()));
        let blen = m.body().len();
        o.body_len = blen;
        let mut hdr_len = 0;
        if o.fail.is_none() {
            o.total = self.plain.len() - at;
            hdr_len = o.total.saturating_sub(blen);
            o.hdr = self.plain[at..at + hdr_len].to_vec();
            o.body_ok = o.total >= blen && &self.plain[at + hdr_len..] == m.body();
        }
        // encrypted, in parallel
        if let Some(enc) = self.enc.as_mut() {
            let cat = self.ciph.len();
            let ciph = &mut self.ciph;
            match guarded(|| m.write(fl, via_enum, ciph, Some(enc))) {
                Err(p) => o.enc_fail = Some(("panic".into(), p)),
                Ok(Err(e)) => o.enc_fail = Some(("io".into(), e)),
                Ok(Ok(())) => {}
            }
            if o.enc_fail.is_some() {
                self.ciph.truncate(cat);
                return o;
            }
            o.enc_total = self.ciph.len() - cat;
            let mut h = match hdr_hint {
                Some(h) => h.to_vec(),
                None => o.hdr.clone(),
            };
            if o.fail.is_none() {
                let n = o.total.min(o.enc_total);
                o.differs_at = (0..n).filter(|i| self.ciph[cat + i] != self.plain[at + i]).collect();
            } else {
                // no plain frame to compare with: compare the body part with the message body
                let hl = h.len();
                o.body_ok = o.enc_total == hl + blen && &self.ciph[cat + hl..] == m.body();
            }
            // reference half: the plain header through the raw cipher
            let r = self.ref_enc.as_mut().unwrap();
            (self.raw_enc)(r, &mut h);
            o.cipher_hdr_ok = o.enc_total >= h.len() && self.ciph[cat..cat + h.len()] == h[..];
            let (mut a, mut b) = (PROBE, PROBE);
            (self.raw_enc)(&mut self.enc.clone().unwrap(), &mut a);
            (self.raw_enc)(&mut self.ref_enc.clone().unwrap(), &mut b);
            o.enc_in_step = a == b;
        }
        if o.fail.is_some() {
            return o;
        }
        self.frames.push(Frame { at, total: o.total, hdr_len });
        self.msgs.push(m);
        o
    }

    fn read(&mut self, fl: Fl, entry: Entry) -> Option<RObs> {
        if self.rd >= self.msgs.len() {
            return None;
        }
        let m = &self.msgs[self.rd];
        let crypt = self.dec.is_some();
        let buf: &[u8] = if crypt { &self.ciph } else { &self.plain };
        let mut o = RObs { name: m.name(), ..Default::default() };
        let mut r: &[u8] = &buf[self.rpos.min(buf.len())..];
        let before = r.len();
        let dec = self.dec.as_mut();
        let res = {
            let rr = &mut r;
            guarded(move || m.read(fl, entry, rr, dec))
        };
        o.consumed = before - r.len();
        self.rpos += o.consumed;
        o.end = self.rpos;
        match res {
            Err(p) => o.fail = Some(p),
            Ok(g) => o.got = Some(g),
        }
        if crypt {
            // the reference half follows the WRITER's framing: it decrypts the header bytes of this frame
            let f = &self.frames[self.rd];
            let mut h = self.ciph[f.at..f.at + f.hdr_len].to_vec();
            (self.raw_dec)(self.ref_dec.as_mut().unwrap(), &mut h);
            let (mut a, mut b) = (PROBE, PROBE);
            (self.raw_dec)(&mut self.dec.clone().unwrap(), &mut a);
            (self.raw_dec)(&mut self.ref_dec.clone().unwrap(), &mut b);
            o.dec_in_step = a == b;
        }
        self.rd += 1;
        Some(o)
    }
}

fn parse_key(hexs: &str) -> Result<[u8; 40], String> {
    if hexs.len() != 80 {
        return Err("session key must be 40 bytes of hex".into());
    }
    let mut k = [0u8; 40];
    for i in 0..40 {
        k[i] = u8::from_str_radix(&hexs[2 * i..2 * i + 2], 16).map_err(|e| e.to_string())?;
    }
    Ok(k)
}

fn sig(s: &str) -> String {
    s.chars().take(240).collect()
}

// ------------------------------------------------------------------------------------------------
// replay: compare with the model record

struct Run<'a> {
    rec: &'a Value,
    fl: Fl,
    key_idx: i64,
}

fn verdict(run: &Run, op: &str, step: usize, dir: &str, name: &str, body: u64, kind: &str, expected: Value, observed: Value, s: &str) -> Value {
    json!({"exp": run.rec["exp"], "crypt": run.rec["crypt"], "entry": run.rec["entry"], "mode": run.rec["mode"],
           "flavour": run.fl.name(), "key": run.key_idx, "op": op, "step": step, "dir": dir, "name": name, "body": body,
           "verdict": kind, "expected": expected, "observed": observed, "sig": sig(s)})
}

fn check_write(run: &Run, j: usize, f: &Value, o: &WObs, crypt: bool) -> Vec<Value> {
    let dir = f["dir"].as_str().unwrap_or("");
    let name = f["name"].as_str().unwrap_or("");
    let body = f["body"].as_u64().unwrap_or(0);
    let hdr: Vec<u8> = crate::util::bytes_of(&f["hdr"]);
    let total = f["total"].as_u64().unwrap_or(0) as usize;
    let mut out = vec![];
    let plain = (|| {
        let v = |kind: &str, e: Value, ob: Value, s: &str| Some(verdict(run, "write", j, dir, name, body, kind, e, ob, s));
        if let Some((k, s)) = &o.fail {
            return v(k, json!("write completes"), json!(k), s);
        }
        if o.at as u64 != f["at"].as_u64().unwrap_or(0) {
            return v("offset", f["at"].clone(), json!(o.at), "");
        }
        if o.total != total {
            return v("total", json!(total), json!(o.total), &format!("header {}", crate::util::hex(&o.hdr)));
        }
        if o.hdr != hdr {
            return v("header", json!(crate::util::hex(&hdr)), json!(crate::util::hex(&o.hdr)), "");
        }
        if !o.body_ok {
            return v("body", json!("body bytes follow the header unchanged"), json!("different"), "");
        }
        match &o.declared {
            Some(Ok(d)) if *d as usize == total => None,
            Some(Ok(d)) => v("declared", json!(total), json!(d), ""),
            Some(Err(p)) => v("panic", json!(total), json!("declared size panics"), p),
            None => None,
        }
    })();
    out.extend(plain);
    if crypt {
        let enc = (|| {
            let ve = |kind: &str, e: Value, ob: Value, s: &str| Some(verdict(run, "write_encrypted", j, dir, name, body, kind, e, ob, s));
            if let Some((k, s)) = &o.enc_fail {
                return ve(k, json!("write completes"), json!(k), s);
            }
            if o.enc_total != total {
                return ve("total", json!(total), json!(o.enc_total), "");
            }
            let enc_len = f["encLen"].as_u64().unwrap_or(0) as usize;
            if let Some(bad) = o.differs_at.iter().find(|i| **i >= enc_len) {
                return ve("differs", json!(format!("only offsets < {enc_len}")), json!(bad), "ciphertext differs from plaintext outside the header");
            }
            if !o.cipher_hdr_ok {
                return ve("cipher_header", json!("keystream applied to the model header at the model position"), json!("different bytes"), "");
            }
            if !o.body_ok {
                return ve("body", json!("body bytes follow the header unchanged"), json!("different"), "");
            }
            if !o.enc_in_step {
                return ve("enc_state", json!(f["encAt"].as_u64().unwrap_or(0) as usize + enc_len), json!("encrypter half not at that keystream position"), "");
            }
            None
        })();
        out.extend(enc);
    }
    out
}

fn check_read(run: &Run, i: usize, dir: &str, rd: &Value, soft: bool, o: &RObs, crypt: bool, entry: Entry) -> Option<Value> {
    let name = rd["name"].as_str().unwrap_or("");
    let body = rd["body"].as_u64().unwrap_or(0);
    let op = if crypt { "read_encrypted" } else { "read" };
    let v = |kind: &str, e: Value, ob: Value, s: &str| {
        let mut x = verdict(run, op, i, dir, name, body, kind, e, ob, s);
        x["reader"] = json!(entry.name());
        Some(x)
    };
    if let Some(p) = &o.fail {
        return v("panic", json!("read completes"), json!("panic"), p);
    }
    let end = rd["end"].as_u64().unwrap_or(0) as usize;
    if o.end != end {
        return v("consumed", json!(end), json!(o.end), &format!("{:?}", o.got));
    }
    let foreign = name == "?";
    match (entry, o.got.as_ref().unwrap()) {
        (_, Got::OpcodeErr(op)) if foreign && u64::from(*op) == rd["opcode"].as_u64().unwrap_or(u64::MAX) => {}
        (_, g) if foreign => return v("message", json!("error reporting the foreign opcode"), json!(format!("{g:?}").chars().take(200).collect::<String>()), &format!("{g:?}")),
        (Entry::Opcode | Entry::Expect, Got::Same) => {}
        (Entry::Opcode | Entry::Expect, Got::Err(e)) if soft && e.contains("InvalidSize") => {}
        (Entry::ExpectOther, Got::OpcodeErr(op)) if u64::from(*op) == rd["opcode"].as_u64().unwrap_or(u64::MAX) => {}
        (_, g) => return v("message", json!(name), json!(format!("{g:?}").chars().take(200).collect::<String>()), &format!("{g:?}")),
    }
    if crypt && !o.dec_in_step {
        return v("dec_state", rd["decEnd"].clone(), json!("decrypter half not at that keystream position"), "");
    }
    None
}

fn run_once<X: Exp>(run: &Run, key: Option<[u8; 40]>, entry: Entry, out: &mut Vec<Value>) -> Result<(), String> {
    let rec = run.rec;
    let crypt = key.is_some();
    let (hc, hs) = match key {
        Some(k) => {
            let (ce, cd, se, sd) = X::halves(k)?;
            (Some((ce, sd)), Some((se, cd)))
        }
        None => (None, None),
    };
    let mut c: DirState<X::CE, X::SD> = DirState::new(hc, X::raw_ce, X::raw_sd);
    let mut s: DirState<X::SE, X::CD> = DirState::new(hs, X::raw_se, X::raw_cd);
    let via_enum = entry == Entry::Opcode;
    let msgs = rec["msgs"].as_array().ok_or("record without msgs")?;
    let mut soft_c = vec![];
    let mut soft_s = vec![];
    for (j, f) in msgs.iter().enumerate() {
        let name = f["name"].as_str().unwrap_or("");
        let body = f["body"].as_u64().unwrap_or(0) as usize;
        let hint = crate::util::bytes_of(&f["hdr"]);
        let o = if f["dir"] == "client" {
            soft_c.push(f["soft"] == true);
            let m = if name == "?" { X::client_raw(hint.clone(), body) } else { X::client_msg(name, body).ok_or(format!("harness has no message {name} with body {body}"))? };
            c.write(m, run.fl, via_enum, Some(&hint))
        } else {
            soft_s.push(f["soft"] == true);
            let m = if name == "?" { X::server_raw(hint.clone(), body) } else { X::server_msg(name, body).ok_or(format!("harness has no message {name} with body {body}"))? };
            s.write(m, run.fl, via_enum, Some(&hint))
        };
        let vs = check_write(run, j + 1, f, &o, crypt);
        if !vs.is_empty() {
            out.extend(vs);
            return Ok(());
        }
    }
    for dir in ["client", "server"] {
        let reads = rec["reads"][dir].as_array().cloned().unwrap_or_default();
        for (i, rd) in reads.iter().enumerate() {
            let (o, soft) = if dir == "client" { (c.read(run.fl, entry), soft_c.get(i)) } else { (s.read(run.fl, entry), soft_s.get(i)) };
            let o = o.ok_or("model reads more frames than it wrote")?;
            if let Some(v) = check_read(run, i + 1, dir, rd, *soft.unwrap_or(&false), &o, crypt, entry) {
                out.push(v);
                break; // later reads of a misaligned stream carry no information
            }
        }
    }
    if out.is_empty() {
        let fin = &rec["final"];
        for (dir, w, r) in [("client", c.plain.len(), c.rpos), ("server", s.plain.len(), s.rpos)] {
            if fin["wpos"][dir].as_u64() != Some(w as u64) || fin["rpos"][dir].as_u64() != Some(r as u64) {
                out.push(verdict(run, "final", 0, dir, "", 0, "positions", json!([fin["wpos"][dir], fin["rpos"][dir]]), json!([w, r]), ""));
            }
        }
    }
    Ok(())
}

/// `rotate`: histories of more than one frame run under ONE flavour and `per` keys, chosen by the
/// record number (quick tier); single frames and the thorough tier run all of them.
fn judge<X: Exp>(rec: &Value, n: u64, keys: &[[u8; 40]], flavours: &[Fl], rotate: (Option<usize>, bool)) -> Result<Vec<Value>, String> {
    let crypt = rec["crypt"] == true;
    let long = rec["msgs"].as_array().map(|a| a.len()).unwrap_or(0) > 1;
    let (fl_sel, key_sel): (Vec<Fl>, Vec<[u8; 40]>) = match rotate.0 {
        Some(per) if long && !flavours.is_empty() => (
            if rotate.1 { flavours.to_vec() } else { vec![flavours[(n as usize) % flavours.len()]] },
            (0..per.min(keys.len())).map(|i| keys[(n as usize * per + i) % keys.len()]).collect(),
        ),
        _ => (flavours.to_vec(), keys.to_vec()),
    };
    let (flavours, keys) = (&fl_sel[..], &key_sel[..]);
    let entries: Vec<Entry> = match rec["entry"].as_str().unwrap_or("") {
        "all" => vec![Entry::Opcode, Entry::Expect, Entry::ExpectOther],
        e => vec![Entry::parse(e).ok_or(format!("unknown entry {e}"))?],
    };
    let mut out: Vec<Value> = vec![];
    for fl in flavours {
        for entry in &entries {
            if crypt {
                for (k, key) in keys.iter().enumerate() {
                    let run = Run { rec, fl: *fl, key_idx: k as i64 };
                    let mut o = vec![];
                    run_once::<X>(&run, Some(*key), *entry, &mut o)?;
                    out.extend(o);
                }
            } else {
                let run = Run { rec, fl: *fl, key_idx: -1 };
                let mut o = vec![];
                run_once::<X>(&run, None, *entry, &mut o)?;
                out.extend(o);
            }
        }
    }
    // identical disagreements (same op / step / verdict) under several flavours or keys: keep all
    // flavours but one key
    let mut seen = std::collections::HashSet::new();
    out.retain(|v| seen.insert(format!("{}|{}|{}|{}|{}", v["flavour"], v["op"], v["step"], v["verdict"], v["reader"])));
    Ok(out)
}

/// --rotate N: histories of 2+ frames use N of the keys and ONE flavour, chosen by record number;
/// --keys-per N: the same for the keys only (all flavours).
fn opts(args: &[String]) -> Result<(Vec<[u8; 40]>, Vec<Fl>, (Option<usize>, bool)), String> {
    let mut rotate = (None, false);
    let mut keys = vec![];
    let mut fls = vec![Fl::Sync, Fl::Tokio, Fl::Astd];
    let mut i = 0;
    while i < args.len() {
        match args[i].as_str() {
            "--keys" => {
                i += 1;
                for k in args.get(i).map(|s| s.as_str()).unwrap_or("").split(',').filter(|s| !s.is_empty()) {
                    keys.push(parse_key(k)?);
                }
            }
            "--flavours" => {
                i += 1;
                fls = args.get(i).map(|s| s.as_str()).unwrap_or("").split(',').filter_map(Fl::parse).collect();
            }
            "--rotate" | "--keys-per" => {
                let all_flavours = args[i] == "--keys-per";
                i += 1;
                rotate = (Some(args.get(i).and_then(|s| s.parse().ok()).ok_or("--rotate needs a number")?), all_flavours);
            }
            other => return Err(format!("unknown argument {other}")),
        }
        i += 1;
    }
    Ok((keys, fls, rotate))
}

fn replay(args: &[String]) -> i32 {
    let (keys, fls, rotate) = match opts(args) {
        Ok(x) => x,
        Err(e) => {
            eprintln!("frames replay: {e}");
            return 2;
        }
    };
    let stdin = std::io::stdin();
    let stdout = std::io::stdout();
    let mut w = std::io::BufWriter::new(stdout.lock());
    let (mut n, mut ok) = (0u64, 0u64);
    for line in stdin.lock().lines() {
        let Ok(line) = line else { break };
        if line.trim().is_empty() {
            continue;
        }
        let rec: Value = match serde_json::from_str(&line) {
            Ok(v) => v,
            Err(e) => {
                eprintln!("bad record: {e}");
                return 2;
            }
        };
        if rec["kind"] != "frames" {
            continue;
        }
        n += 1;
        writeln!(w, "@{n}").unwrap();
        w.flush().unwrap();
        if rec["crypt"] == true && keys.is_empty() {
            eprintln!("frames replay: encrypted record but no --keys");
            return 2;
        }
        let res = match rec["exp"].as_str().unwrap_or("") {
            "vanilla" => judge::<Vanilla>(&rec, n, &keys, &fls, rotate),
            "tbc" => judge::<Tbc>(&rec, n, &keys, &fls, rotate),
            "wrath" => judge::<Wrath>(&rec, n, &keys, &fls, rotate),
            e => Err(format!("unknown expansion {e}")),
        };
        match res {
            Err(e) => {
                eprintln!("frames replay: record {n}: {e}");
                return 2;
            }
            Ok(vs) => {
                if vs.is_empty() {
                    ok += 1;
                }
                for mut v in vs {
                    v["rec"] = json!(n);
                    v["id"] = rec["id"].clone();
                    writeln!(w, "{v}").unwrap();
                }
            }
        }
    }
    writeln!(w, "{}", json!({"summary": {"records": n, "ok": ok}})).unwrap();
    0
}

// ------------------------------------------------------------------------------------------------
// drive: execute requests, log observations (implementation -> specification)

fn drive_one<X: Exp>(req: &Value) -> Result<Vec<Value>, String> {
    let crypt = req["crypt"] == true;
    let entry = Entry::parse(req["entry"].as_str().unwrap_or("")).ok_or("bad entry")?;
    let fl = Fl::parse(req["flavour"].as_str().unwrap_or("")).ok_or("bad flavour")?;
    let (hc, hs) = if crypt {
        let (ce, cd, se, sd) = X::halves(parse_key(req["key"].as_str().unwrap_or(""))?)?;
        (Some((ce, sd)), Some((se, cd)))
    } else {
        (None, None)
    };
    let mut c: DirState<X::CE, X::SD> = DirState::new(hc, X::raw_ce, X::raw_sd);
    let mut s: DirState<X::SE, X::CD> = DirState::new(hs, X::raw_se, X::raw_cd);
    let via_enum = entry == Entry::Opcode;
    let mut ev = vec![];
    for op in req["ops"].as_array().ok_or("no ops")? {
        let dir = op["dir"].as_str().unwrap_or("");
        if op["op"] == "w" {
            let name = op["name"].as_str().unwrap_or("");
            let body = op["body"].as_u64().unwrap_or(0) as usize;
            let o = if dir == "client" {
                c.write(X::client_msg(name, body).ok_or(format!("no message {name}/{body}"))?, fl, via_enum, None)
            } else {
                s.write(X::server_msg(name, body).ok_or(format!("no message {name}/{body}"))?, fl, via_enum, None)
            };
            let fail = o.fail.as_ref().map(|f| ("write", f)).or(o.enc_fail.as_ref().map(|f| ("write_encrypted", f)));
            if let Some((wop, (k, sg))) = fail {
                ev.push(json!({"ev": "wfail", "dir": dir, "name": name, "body": o.body_len, "param": body, "op": wop, "verdict": k, "sig": sig(sg)}));
                break; // the stream is in an unspecified state after an aborted write
            }
            ev.push(json!({"ev": "wframe", "dir": dir, "name": name, "body": o.body_len, "hdr": o.hdr, "total": o.total,
                           "bodyOk": o.body_ok, "declared": match &o.declared { Some(Ok(d)) => json!(d), _ => json!(-1) },
                           "encTotal": if crypt { o.enc_total } else { o.total },
                           "differsAt": o.differs_at, "cipherHdrOk": !crypt || o.cipher_hdr_ok, "encInStep": !crypt || o.enc_in_step}));
        } else {
            let o = if dir == "client" { c.read(fl, entry) } else { s.read(fl, entry) };
            let Some(o) = o else { return Err("request reads more than it wrote".into()) };
            if let Some(p) = &o.fail {
                ev.push(json!({"ev": "rfail", "dir": dir, "name": o.name, "op": if crypt { "read_encrypted" } else { "read" }, "verdict": "panic", "sig": sig(p)}));
                break;
            }
            let (res, opc, sg) = match o.got.as_ref().unwrap() {
                Got::Same => ("same", 0, String::new()),
                Got::Differs(d) => ("differs", 0, d.clone()),
                Got::OpcodeErr(x) => ("opcode_err", *x, String::new()),
                Got::Err(e) => (if e.contains("InvalidSize") { "invalid_size" } else { "err" }, 0, e.clone()),
            };
            ev.push(json!({"ev": "rframe", "dir": dir, "name": o.name, "consumed": o.consumed, "end": o.end, "res": res,
                           "opcode": opc, "sig": sig(&sg), "decInStep": !crypt || o.dec_in_step}));
        }
    }
    Ok(ev)
}

fn drive() -> i32 {
    let stdin = std::io::stdin();
    let stdout = std::io::stdout();
    let mut w = std::io::BufWriter::new(stdout.lock());
    let mut n = 0u64;
    for line in stdin.lock().lines() {
        let Ok(line) = line else { break };
        if line.trim().is_empty() {
            continue;
        }
        let req: Value = match serde_json::from_str(&line) {
            Ok(v) => v,
            Err(e) => {
                eprintln!("bad request: {e}");
                return 2;
            }
        };
        n += 1;
        let res = match req["exp"].as_str().unwrap_or("") {
            "vanilla" => drive_one::<Vanilla>(&req),
            "tbc" => drive_one::<Tbc>(&req),
            "wrath" => drive_one::<Wrath>(&req),
            e => Err(format!("unknown expansion {e}")),
        };
        match res {
            Err(e) => {
                eprintln!("frames drive: request {n}: {e}");
                return 2;
            }
            Ok(ev) => writeln!(w, "{}", json!({"req": n, "id": req["id"], "events": ev})).unwrap(),
        }
    }
    0
}

pub fn run(args: &[String]) -> i32 {
    install_quiet_panic_hook();
    match args.first().map(|s| s.as_str()) {
        Some("replay") => replay(&args[1..]),
        Some("drive") => drive(),
        _ => {
            eprintln!("usage: vh frames replay [--keys hex,..] [--flavours sync,tokio,astd] | vh frames drive");
            2
        }
    }
}
