pub fn run(_args: &[String]) -> i32 {
    eprintln!("frames: not built yet");
    2
}
