fn main(){ println!("vh"); }
