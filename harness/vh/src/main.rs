//! Harness binding the TLA+ specifications in /verif/spec to the real wow_messages crates.
//!
//! `vh <subcommand> [args]` - every subcommand reads behaviour records (JSON lines, produced by
//! TLC) or driver parameters, executes them against the public API of the real crates and prints
//! JSON verdict / trace lines. Expectations come from the specifications, never from this code.
//! A panic in the code under test is data (reported in a verdict), not a tool failure.

mod chunks;
mod codec;
mod collective;
mod crypto;
mod definer;
mod frames;
mod mask;
mod util;
mod worker;

fn main() {
    let args: Vec<String> = std::env::args().collect();
    let rc = match args.get(1).map(|s| s.as_str()) {
        Some("frames") => frames::run(&args[2..]),
        Some("crypto") => crypto::run(&args[2..]),
        Some("chunks") => chunks::run(&args[2..]),
        Some("mask") => mask::run(&args[2..]),
        Some("definer") => definer::run(&args[2..]),
        Some("codec") => codec::run(&args[2..]),
        Some("collective") => collective::run(&args[2..]),
        Some("worker") => worker::run(&args[2..]),
        _ => {
            eprintln!("usage: vh <frames|crypto|chunks|mask|definer|codec|collective|worker> ...");
            2
        }
    };
    std::process::exit(rc);
}
