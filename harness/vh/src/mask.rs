pub fn run(_args: &[String]) -> i32 {
    eprintln!("mask: not built yet");
    2
}
