pub fn run(_args: &[String]) -> i32 {
    eprintln!("worker: not built yet");
    2
}
