//! C15: replays the truth tables printed by spec/DateTime.tla against `DateTime::try_from(u32)`.
//!
//! stdin: records {"kind":"month","y":..,"m":..,"days":[weekday of each day]} and
//!        {"kind":"time","h":..,"mi":..,"valid":bool}
//! args:  <stride> <offset> [count] - values v = offset, offset+stride, ... below 2^32 are executed
//!                              (stride 1 = all 2^32 values)
//! stdout: JSON lines {"finding":...} and a final {"summary":...}

use serde_json::{json, Value};
use std::io::BufRead;
use std::panic::catch_unwind;
use std::sync::atomic::{AtomicU64, Ordering};
use std::sync::Mutex;
use wow_world_base::shared::datetime_vanilla_tbc_wrath::{DateTime, Month, Weekday};

struct Tables {
    // days[y][m] = weekdays of the days of that month (empty = no such month)
    days: Vec<Vec<Vec<u8>>>,
    time: Vec<Vec<Option<bool>>>,
}

fn weekday_index(w: Weekday) -> u32 {
    match w {
        Weekday::Sunday => 0,
        Weekday::Monday => 1,
        Weekday::Tuesday => 2,
        Weekday::Wednesday => 3,
        Weekday::Thursday => 4,
        Weekday::Friday => 5,
        Weekday::Saturday => 6,
    }
}

fn month_index(m: Month) -> u32 {
    m.iso8601() - 1
}

pub fn run(args: &[String]) -> i32 {
    let stride: u64 = args.first().and_then(|s| s.parse().ok()).unwrap_or(1);
    let offset: u64 = args.get(1).and_then(|s| s.parse().ok()).unwrap_or(0);
    let mut t = Tables {
        days: vec![vec![Vec::new(); 16]; 256],
        time: vec![vec![None; 64]; 32],
    };
    let (mut nmonth, mut ntime) = (0, 0);
    for line in std::io::stdin().lock().lines() {
        let line = line.unwrap();
        if line.trim().is_empty() {
            continue;
        }
        let v: Value = serde_json::from_str(&line).expect("bad record");
        match v["kind"].as_str() {
            Some("month") => {
                let y = v["y"].as_u64().unwrap() as usize;
                let m = v["m"].as_u64().unwrap() as usize;
                t.days[y][m] = v["days"]
                    .as_array()
                    .unwrap()
                    .iter()
                    .map(|d| d.as_u64().unwrap() as u8)
                    .collect();
                nmonth += 1;
            }
            Some("time") => {
                let h = v["h"].as_u64().unwrap() as usize;
                let mi = v["mi"].as_u64().unwrap() as usize;
                t.time[h][mi] = Some(v["valid"].as_bool().unwrap());
                ntime += 1;
            }
            _ => {}
        }
    }
    if nmonth != 256 * 12 || ntime != 32 * 64 {
        eprintln!("incomplete tables from the model: {nmonth} month records, {ntime} time records");
        return 2;
    }

    let evaluated = AtomicU64::new(0);
    let accepted = AtomicU64::new(0);
    let findings: Mutex<Vec<Value>> = Mutex::new(Vec::new());
    let counts: Mutex<std::collections::BTreeMap<String, u64>> = Mutex::new(Default::default());
    let threads = 16u64;
    let mut total: u64 = ((1u64 << 32) - offset + stride - 1) / stride;
    if let Some(c) = args.get(2).and_then(|s| s.parse::<u64>().ok()) {
        total = total.min(c);
    }
    let per = (total + threads - 1) / threads;
    let t = &t;
    std::thread::scope(|s| {
        for ti in 0..threads {
            let (evaluated, accepted, findings, counts) = (&evaluated, &accepted, &findings, &counts);
            s.spawn(move || {
                let mut local_eval = 0u64;
                let mut local_acc = 0u64;
                let lo = ti * per;
                let hi = ((ti + 1) * per).min(total);
                let report = |class: String, f: Value| {
                    let mut c = counts.lock().unwrap();
                    let n = c.entry(class).or_insert(0);
                    *n += 1;
                    if *n <= 10 {
                        findings.lock().unwrap().push(f);
                    }
                };
                for i in lo..hi {
                    let v = (offset + i * stride) as u32;
                    local_eval += 1;
                    let mi = (v & 0x3f) as usize;
                    let h = ((v >> 6) & 0x1f) as usize;
                    let w = ((v >> 11) & 0x7) as u8;
                    let d = ((v >> 14) & 0x3f) as usize;
                    let m = ((v >> 20) & 0xf) as usize;
                    let y = ((v >> 24) & 0xff) as usize;
                    let month = &t.days[y][m];
                    let time_ok = t.time[h][mi].unwrap();
                    let date_ok = d < month.len() && month[d] == w;
                    let expected = date_ok && time_ok;
                    let observed = catch_unwind(|| DateTime::try_from(v));
                    let fields = || json!({"y": y, "m": m, "d": d, "w": w, "h": h, "mi": mi});
                    match observed {
                        Err(_) => report(
                            "panic_try_from".into(),
                            json!({"finding": "panic", "class": "panic_try_from", "v": v, "fields": fields()}),
                        ),
                        Ok(Ok(dt)) => {
                            local_acc += 1;
                            if !expected {
                                let class = if m >= 12 {
                                    "accepts_month_ge_12"
                                } else if d == month.len() {
                                    "accepts_day_index_eq_month_length"
                                } else if d > month.len() {
                                    "accepts_day_index_gt_month_length"
                                } else if month[d] != w {
                                    "accepts_wrong_weekday"
                                } else {
                                    "accepts_invalid_time"
                                };
                                report(
                                    class.into(),
                                    json!({"finding": "accept_mismatch", "class": class, "v": v, "fields": fields(),
                                           "expected": "reject", "observed": "accept"}),
                                );
                            }
                            let acc = catch_unwind(|| {
                                [
                                    ("as_int", dt.as_int() as u64, v as u64),
                                    ("minutes", dt.minutes() as u64, mi as u64),
                                    ("hours", dt.hours() as u64, h as u64),
                                    ("weekday", weekday_index(dt.weekday()) as u64, w as u64),
                                    ("month_day", dt.month_day() as u64, d as u64),
                                    ("month", month_index(dt.month()) as u64, m as u64),
                                    ("years_after_2000", dt.years_after_2000() as u64, y as u64),
                                ]
                            });
                            match acc {
                                Err(_) => report(
                                    "panic_accessor".into(),
                                    json!({"finding": "panic", "class": "panic_accessor", "v": v, "fields": fields()}),
                                ),
                                Ok(list) => {
                                    for (name, got, want) in list {
                                        if got != want {
                                            report(
                                                format!("accessor_{name}"),
                                                json!({"finding": "accessor_mismatch", "class": format!("accessor_{name}"),
                                                       "v": v, "fields": fields(), "accessor": name,
                                                       "expected": want, "observed": got}),
                                            );
                                        }
                                    }
                                }
                            }
                        }
                        Ok(Err(_)) => {
                            if expected {
                                report(
                                    "rejects_valid".into(),
                                    json!({"finding": "accept_mismatch", "class": "rejects_valid", "v": v, "fields": fields(),
                                           "expected": "accept", "observed": "reject"}),
                                );
                            }
                        }
                    }
                }
                evaluated.fetch_add(local_eval, Ordering::Relaxed);
                accepted.fetch_add(local_acc, Ordering::Relaxed);
            });
        }
    });
    for f in findings.lock().unwrap().iter() {
        println!("{f}");
    }
    let counts = counts.lock().unwrap();
    println!(
        "{}",
        json!({"summary": {"evaluated": evaluated.load(Ordering::Relaxed),
                           "accepted": accepted.load(Ordering::Relaxed),
                           "finding_counts": *counts}})
    );
    0
}
