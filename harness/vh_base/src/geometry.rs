pub fn run(_args: &[String]) -> i32 {
    eprintln!("geometry: not built yet");
    2
}
