//! C20: executes the records printed by spec/Geometry.tla against the real geometry helpers and
//! the area-trigger tables of the three expansions.
//!
//! stdin: one JSON record per line, `t` selects the sub-kind (all expectations come from the model):
//!   box   {s, c, dims, yaw:[a,b,h], turns, p, samemap, geo, inside}   lattice units of 1/s yard
//!   ball  {s, c, r, p, samemap, geo, inside}
//!   dist  {s, from, to, lo, hi, lo2, hi2, within:[{r, expect}]}
//!   trig  {exp, id, shape, dims10, os, off:[u,v,w] (box frame, 1/os yard), map, samemap, expect}
//!   unk   {exp, id:"decimal", near, expect:"not_found"}
//!   exp   {exp, count, maxid, minid}
//! args:   [cap] - how many findings of each class are printed (default 10; all are counted)
//! stdout: JSON lines {"finding":..} (first `cap` of each class) and a final {"summary":..}
//!
//! Trusted base - the only arithmetic done here:
//!   * integer / scale -> f32 (exact: scales are powers of two or the value is a table decimal);
//!   * yaw of a model box = atan2(b, a) brought to [0, 2 pi) plus `turns` whole turns, for the
//!     rational pair (cos, sin) = (a/h, b/h) chosen by the model;
//!   * for table triggers: world = centre + R(+yaw) * offset, in f64, with the trigger's own centre
//!     and yaw as returned by the public API - the inverse of the definition's frame map.
//! Everything else is calling the public API and comparing with the record.

use serde_json::{json, Value};
use std::collections::{BTreeMap, BTreeSet, HashMap};
use std::io::BufRead;
use std::panic::{catch_unwind, AssertUnwindSafe};
use wow_world_base::geometry::{distance_2d, distance_between, is_within_distance, is_within_square};
use wow_world_base::shared::vector2d_vanilla_tbc_wrath::Vector2d;
use wow_world_base::shared::vector3d_vanilla_tbc_wrath::Vector3d;

/// Expansion-neutral view of one table trigger, as returned by the public API.
#[derive(Clone, Debug)]
pub struct Shape {
    square: bool,
    map: String,
    c: [f32; 3],
    dims: Vec<f32>,
    yaw: f32,
}

pub enum Lookup {
    NotFound,
    Found(Shape),
}

macro_rules! expansion {
    ($m:ident, $exp:ident) => {
        mod $m {
            use super::{Lookup, Shape};
            use wow_world_base::$exp::position::Position;
            use wow_world_base::$exp::trigger::{verify_trigger, AreaTrigger, TriggerResult};
            use wow_world_base::$exp::Map;

            fn shape_of(a: &AreaTrigger) -> Shape {
                match *a {
                    AreaTrigger::Circle { position, radius } => Shape {
                        square: false,
                        map: format!("{:?}", position.map),
                        c: [position.x, position.y, position.z],
                        dims: vec![radius],
                        yaw: 0.0,
                    },
                    AreaTrigger::Square { position, length, width, height, yaw } => Shape {
                        square: true,
                        map: format!("{:?}", position.map),
                        c: [position.x, position.y, position.z],
                        dims: vec![length, width, height],
                        yaw,
                    },
                }
            }

            pub fn map_by_name(name: &str) -> Option<Map> {
                Map::variants().into_iter().find(|m| format!("{:?}", m) == name)
            }

            fn two_maps() -> (Map, Map) {
                let v = Map::variants();
                (v[0], v[1])
            }

            /// Enumerates a trigger through the public API only.
            pub fn lookup(id: u32) -> Lookup {
                let (a, _) = two_maps();
                match verify_trigger(Position::new(a, 0.0, 0.0, 0.0, 0.0), id) {
                    TriggerResult::NotFound => Lookup::NotFound,
                    TriggerResult::NotInsideTrigger(t) | TriggerResult::Success(t) => Lookup::Found(shape_of(&t.0)),
                }
            }

            /// (`contains`, outcome of `verify_trigger`, whether the returned entry is the one looked up)
            pub fn probe(id: u32, map: &str, p: [f32; 3]) -> Result<(Option<bool>, &'static str, bool), String> {
                let m = map_by_name(map).ok_or_else(|| format!("no map {map}"))?;
                let pos = Position::new(m, p[0], p[1], p[2], 0.0);
                let (a, _) = two_maps();
                let own = match verify_trigger(Position::new(a, 0.0, 0.0, 0.0, 0.0), id) {
                    TriggerResult::NotFound => None,
                    TriggerResult::NotInsideTrigger(t) | TriggerResult::Success(t) => Some(t.0),
                };
                let contains = own.map(|t| t.contains(pos));
                Ok(match verify_trigger(pos, id) {
                    TriggerResult::NotFound => (contains, "not_found", own.is_none()),
                    TriggerResult::NotInsideTrigger(t) => (contains, "outside", Some(t.0) == own),
                    TriggerResult::Success(t) => (contains, "success", Some(t.0) == own),
                })
            }

            pub fn square_contains(c: [f32; 3], dims: [f32; 3], yaw: f32, p: [f32; 3], samemap: bool) -> bool {
                let (a, b) = two_maps();
                let t = AreaTrigger::Square {
                    position: Position::new(a, c[0], c[1], c[2], 0.0),
                    length: dims[0],
                    width: dims[1],
                    height: dims[2],
                    yaw,
                };
                t.contains(Position::new(if samemap { a } else { b }, p[0], p[1], p[2], 0.0))
            }

            pub fn circle_contains(c: [f32; 3], r: f32, p: [f32; 3], samemap: bool) -> bool {
                let (a, b) = two_maps();
                let t = AreaTrigger::Circle { position: Position::new(a, c[0], c[1], c[2], 0.0), radius: r };
                t.contains(Position::new(if samemap { a } else { b }, p[0], p[1], p[2], 0.0))
            }
        }
    };
}

expansion!(vanilla, vanilla);
expansion!(tbc, tbc);
expansion!(wrath, wrath);

const EXPS: [&str; 3] = ["vanilla", "tbc", "wrath"];

fn lookup(exp: &str, id: u32) -> Lookup {
    match exp {
        "vanilla" => vanilla::lookup(id),
        "tbc" => tbc::lookup(id),
        _ => wrath::lookup(id),
    }
}

fn probe(exp: &str, id: u32, map: &str, p: [f32; 3]) -> Result<(Option<bool>, &'static str, bool), String> {
    match exp {
        "vanilla" => vanilla::probe(id, map, p),
        "tbc" => tbc::probe(id, map, p),
        _ => wrath::probe(id, map, p),
    }
}

fn square_contains(exp: &str, c: [f32; 3], d: [f32; 3], yaw: f32, p: [f32; 3], same: bool) -> bool {
    match exp {
        "vanilla" => vanilla::square_contains(c, d, yaw, p, same),
        "tbc" => tbc::square_contains(c, d, yaw, p, same),
        _ => wrath::square_contains(c, d, yaw, p, same),
    }
}

fn circle_contains(exp: &str, c: [f32; 3], r: f32, p: [f32; 3], same: bool) -> bool {
    match exp {
        "vanilla" => vanilla::circle_contains(c, r, p, same),
        "tbc" => tbc::circle_contains(c, r, p, same),
        _ => wrath::circle_contains(c, r, p, same),
    }
}

fn ints(v: &Value) -> Vec<i64> {
    v.as_array().expect("array").iter().map(|x| x.as_i64().expect("int")).collect()
}

fn scaled3(v: &Value, s: i64) -> [f32; 3] {
    let i = ints(v);
    [i[0] as f32 / s as f32, i[1] as f32 / s as f32, i[2] as f32 / s as f32]
}

fn v3(p: [f32; 3]) -> Vector3d {
    Vector3d { x: p[0], y: p[1], z: p[2] }
}

fn v2(p: [f32; 3]) -> Vector2d {
    Vector2d { x: p[0], y: p[1] }
}

/// Runs code under test; a panic is an observation.
fn guarded<T>(f: impl FnOnce() -> T) -> Result<T, String> {
    catch_unwind(AssertUnwindSafe(f)).map_err(|e| {
        if let Some(s) = e.downcast_ref::<String>() {
            format!("panic: {s}")
        } else if let Some(s) = e.downcast_ref::<&str>() {
            format!("panic: {s}")
        } else {
            "panic".to_string()
        }
    })
}

struct Out {
    cap: u64,
    counts: BTreeMap<String, u64>,
    kinds: BTreeMap<String, u64>,
    calls: BTreeMap<String, u64>,
}

impl Out {
    fn call(&mut self, api: &str) {
        *self.calls.entry(api.to_string()).or_insert(0) += 1;
    }
    fn report(&mut self, class: &str, api: &str, expected: Value, observed: Value, rec: &Value) {
        let n = self.counts.entry(class.to_string()).or_insert(0);
        *n += 1;
        if *n <= self.cap {
            println!(
                "{}",
                json!({"finding": "mismatch", "class": class, "api": api, "expected": expected,
                       "observed": observed, "record": rec})
            );
        }
    }
    /// compares one boolean verdict of the code under test with the model's
    fn verdict(&mut self, class: &str, api: &str, expected: bool, f: impl FnOnce() -> bool, rec: &Value) {
        self.call(api);
        match guarded(f) {
            Ok(b) if b == expected => {}
            Ok(b) => self.report(class, api, json!(expected), json!(b), rec),
            Err(p) => self.report(class, api, json!(expected), json!(p), rec),
        }
    }
}

pub fn run(args: &[String]) -> i32 {
    let cap = args.first().and_then(|s| s.parse().ok()).unwrap_or(10);
    let mut out = Out { cap, counts: BTreeMap::new(), kinds: BTreeMap::new(), calls: BTreeMap::new() };
    let mut cache: HashMap<(String, u32), Option<Shape>> = HashMap::new();
    let mut probed: BTreeMap<String, BTreeSet<u32>> = BTreeMap::new();
    let mut found_by_exp: BTreeMap<String, BTreeSet<u32>> = BTreeMap::new();
    let mut records = 0u64;
    let two_pi = 2.0 * std::f64::consts::PI;

    for line in std::io::stdin().lock().lines() {
        let line = line.unwrap();
        if line.trim().is_empty() {
            continue;
        }
        let rec: Value = serde_json::from_str(&line).expect("bad record");
        records += 1;
        let t = rec["t"].as_str().unwrap_or("?").to_string();
        *out.kinds.entry(t.clone()).or_insert(0) += 1;
        match t.as_str() {
            "box" => {
                let s = rec["s"].as_i64().unwrap();
                let c = scaled3(&rec["c"], s);
                let d = scaled3(&rec["dims"], s);
                let p = scaled3(&rec["p"], s);
                let y = ints(&rec["yaw"]);
                let mut ang = (y[1] as f64).atan2(y[0] as f64);
                if ang < 0.0 {
                    ang += two_pi;
                }
                ang += two_pi * rec["turns"].as_i64().unwrap() as f64;
                let yaw = ang as f32;
                let geo = rec["geo"].as_bool().unwrap();
                let inside = rec["inside"].as_bool().unwrap();
                let same = rec["samemap"].as_bool().unwrap();
                out.verdict("box_mismatch", "geometry::is_within_square", geo,
                            || is_within_square(v3(p), v3(c), d[0], d[1], d[2], yaw), &rec);
                for e in EXPS {
                    out.verdict("box_mismatch", &format!("{e}::trigger::AreaTrigger::contains"), inside,
                                || square_contains(e, c, d, yaw, p, same), &rec);
                }
            }
            "ball" => {
                let s = rec["s"].as_i64().unwrap();
                let c = scaled3(&rec["c"], s);
                let p = scaled3(&rec["p"], s);
                let r = rec["r"].as_i64().unwrap() as f32 / s as f32;
                let geo = rec["geo"].as_bool().unwrap();
                let inside = rec["inside"].as_bool().unwrap();
                let same = rec["samemap"].as_bool().unwrap();
                out.verdict("ball_mismatch", "geometry::is_within_distance", geo,
                            || is_within_distance(v3(c), v3(p), r), &rec);
                out.verdict("ball_mismatch", "geometry::is_within_distance", geo,
                            || is_within_distance(v3(p), v3(c), r), &rec);
                for e in EXPS {
                    out.verdict("ball_mismatch", &format!("{e}::trigger::AreaTrigger::contains"), inside,
                                || circle_contains(e, c, r, p, same), &rec);
                }
            }
            "dist" => {
                let s = rec["s"].as_i64().unwrap();
                let a = scaled3(&rec["from"], s);
                let b = scaled3(&rec["to"], s);
                let mut bracket = |api: &str, lo: &Value, hi: &Value, f: &dyn Fn() -> (f32, f32)| {
                    out.call(api);
                    let (lo, hi) = (lo.as_i64().unwrap() as f64, hi.as_i64().unwrap() as f64);
                    match guarded(f) {
                        Ok((d, back)) => {
                            let u = d as f64 * s as f64;
                            if !(lo <= u && u <= hi) || d.to_bits() != back.to_bits() {
                                out.report("distance_mismatch", api, json!([lo, hi]),
                                           json!({"scaled": u, "there": d, "back": back}), &rec);
                            }
                        }
                        Err(p) => out.report("distance_mismatch", api, json!([lo, hi]), json!(p), &rec),
                    }
                };
                bracket("geometry::distance_between", &rec["lo"], &rec["hi"],
                        &|| (distance_between(v3(a), v3(b)), distance_between(v3(b), v3(a))));
                bracket("geometry::distance_2d", &rec["lo2"], &rec["hi2"],
                        &|| (distance_2d(v2(a), v2(b)), distance_2d(v2(b), v2(a))));
                for w in rec["within"].as_array().unwrap() {
                    let r = w["r"].as_i64().unwrap() as f32 / s as f32;
                    out.verdict("distance_mismatch", "geometry::is_within_distance", w["expect"].as_bool().unwrap(),
                                || is_within_distance(v3(a), v3(b), r), &rec);
                }
            }
            "trig" => {
                let exp = rec["exp"].as_str().unwrap().to_string();
                let id = rec["id"].as_u64().unwrap() as u32;
                probed.entry(exp.clone()).or_default().insert(id);
                let shape = cache
                    .entry((exp.clone(), id))
                    .or_insert_with(|| match guarded(|| lookup(&exp, id)) {
                        Ok(Lookup::Found(s)) => Some(s),
                        _ => None,
                    })
                    .clone();
                let Some(sh) = shape else {
                    out.report("table_mismatch", "verify_trigger", json!("trigger of the table text is found"),
                               json!("not_found or panic"), &rec);
                    continue;
                };
                // the row the model read is the row the API serves
                let want_square = rec["shape"].as_str() == Some("square");
                let dims10 = ints(&rec["dims10"]);
                let same_dims = dims10.len() == sh.dims.len()
                    && dims10.iter().zip(&sh.dims).all(|(a, b)| (*a as f32 / 10.0).to_bits() == b.to_bits());
                if want_square != sh.square || !same_dims {
                    out.report("table_mismatch", "verify_trigger", json!({"shape": rec["shape"], "dims10": dims10}),
                               json!({"square": sh.square, "dims": sh.dims}), &rec);
                    continue;
                }
                let os = rec["os"].as_i64().unwrap() as f64;
                let off: Vec<f64> = ints(&rec["off"]).iter().map(|x| *x as f64 / os).collect();
                // trusted base: place the box-frame offset in the world (rotate by +yaw, translate)
                let (sn, cs) = if sh.square { (sh.yaw as f64).sin_cos() } else { (0.0, 1.0) };
                let p = [
                    (sh.c[0] as f64 + off[0] * cs - off[1] * sn) as f32,
                    (sh.c[1] as f64 + off[0] * sn + off[1] * cs) as f32,
                    (sh.c[2] as f64 + off[2]) as f32,
                ];
                let expect = rec["expect"].as_str().unwrap();
                let map = rec["map"].as_str().unwrap();
                if rec["samemap"].as_bool().unwrap() != (map == sh.map) {
                    out.report("table_mismatch", "verify_trigger", json!({"map": map, "samemap": rec["samemap"]}),
                               json!({"map": sh.map}), &rec);
                    continue;
                }
                out.call(&format!("{exp}::trigger::verify_trigger"));
                out.call(&format!("{exp}::trigger::AreaTrigger::contains"));
                match guarded(|| probe(&exp, id, map, p)) {
                    Ok(Ok((contains, outcome, same_entry))) => {
                        if contains != Some(expect == "success") || outcome != expect || !same_entry {
                            out.report("trigger_mismatch", &format!("{exp}::trigger::verify_trigger"),
                                       json!({"contains": expect == "success", "verify_trigger": expect}),
                                       json!({"contains": contains, "verify_trigger": outcome,
                                              "returned_entry_is_the_trigger": same_entry,
                                              "world": p, "centre": sh.c, "yaw": sh.yaw, "sizes": sh.dims}),
                                       &rec);
                        }
                    }
                    Ok(Err(e)) => out.report("table_mismatch", "Map", json!(map), json!(e), &rec),
                    Err(pn) => out.report("trigger_mismatch", &format!("{exp}::trigger::verify_trigger"),
                                          json!(expect), json!(pn), &rec),
                }
            }
            "unk" => {
                let exp = rec["exp"].as_str().unwrap().to_string();
                let id: u32 = rec["id"].as_str().unwrap().parse().expect("u32 id");
                let near = rec["near"].as_u64().unwrap() as u32;
                let (map, c) = match guarded(|| lookup(&exp, near)) {
                    Ok(Lookup::Found(s)) => (s.map, s.c),
                    _ => {
                        out.report("table_mismatch", "verify_trigger", json!("near is found"), json!("not found"), &rec);
                        continue;
                    }
                };
                out.call(&format!("{exp}::trigger::verify_trigger"));
                match guarded(|| probe(&exp, id, &map, c)) {
                    Ok(Ok((None, "not_found", true))) => {}
                    other => out.report("trigger_mismatch", &format!("{exp}::trigger::verify_trigger"),
                                        json!("not_found"), json!(format!("{other:?}")), &rec),
                }
            }
            "exp" => {
                let exp = rec["exp"].as_str().unwrap().to_string();
                let maxid = rec["maxid"].as_u64().unwrap() as u32;
                let mut found = BTreeSet::new();
                for id in 0..=maxid + 4096 {
                    out.call(&format!("{exp}::trigger::verify_trigger"));
                    if let Ok(Lookup::Found(_)) = guarded(|| lookup(&exp, id)) {
                        found.insert(id);
                    }
                }
                let obs = json!({"count": found.len(), "minid": found.iter().next(), "maxid": found.iter().next_back()});
                let want = json!({"count": rec["count"], "minid": rec["minid"], "maxid": rec["maxid"]});
                if obs != want {
                    out.report("table_mismatch", &format!("{exp}::trigger::verify_trigger"), want, obs, &rec);
                }
                found_by_exp.insert(exp, found);
            }
            _ => {
                eprintln!("geometry: unknown record kind {t}");
                return 2;
            }
        }
    }
    // every trigger the API serves was probed by the model, and vice versa
    for (exp, found) in &found_by_exp {
        let p = probed.get(exp).cloned().unwrap_or_default();
        if &p != found {
            let only_api: Vec<_> = found.difference(&p).take(10).collect();
            let only_model: Vec<_> = p.difference(found).take(10).collect();
            out.report("table_mismatch", &format!("{exp}::trigger::verify_trigger"),
                       json!("ids served by the API = ids probed by the model"),
                       json!({"only_api": only_api, "only_model": only_model}), &json!({"t": "exp", "exp": exp}));
        }
    }
    let triggers_probed: BTreeMap<_, _> = probed.iter().map(|(k, v)| (k.clone(), v.len())).collect();
    println!(
        "{}",
        json!({"summary": {"records": records, "records_by_kind": out.kinds, "api_calls": out.calls,
                           "triggers_probed": triggers_probed, "finding_counts": out.counts}})
    );
    0
}
