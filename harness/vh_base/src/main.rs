//! Harness for the parts of gtker/wow_messages that only need `wow_world_base`.
//!
//! Subcommands read behaviour records produced by TLC (one JSON object per line, stdin) and
//! execute them against the real library, printing one JSON verdict line per finding plus a
//! summary line. No domain logic lives here: expectations come from the TLA+ specifications.

mod datetime;
mod geometry;

fn main() {
    let args: Vec<String> = std::env::args().collect();
    // A panic inside the code under test is data; silence the default hook's stderr noise.
    std::panic::set_hook(Box::new(|_| {}));
    let rc = match args.get(1).map(|s| s.as_str()) {
        Some("datetime") => datetime::run(&args[2..]),
        Some("geometry") => geometry::run(&args[2..]),
        _ => {
            eprintln!("usage: vh_base <datetime|geometry> ...");
            2
        }
    };
    std::process::exit(rc);
}
