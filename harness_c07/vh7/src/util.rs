//! Small helpers shared by the subcommands.
#![allow(dead_code)]

use serde_json::Value;
use std::cell::RefCell;
use std::panic::{catch_unwind, AssertUnwindSafe};

thread_local! {
    static LAST_PANIC: RefCell<Option<String>> = const { RefCell::new(None) };
}

/// Installs a panic hook that records message and location instead of printing them.
pub fn install_quiet_panic_hook() {
    std::panic::set_hook(Box::new(|info| {
        let msg = if let Some(s) = info.payload().downcast_ref::<&str>() {
            (*s).to_string()
        } else if let Some(s) = info.payload().downcast_ref::<String>() {
            s.clone()
        } else {
            "<non-string panic payload>".to_string()
        };
        let loc = info
            .location()
            .map(|l| format!("{}:{}", l.file(), l.line()))
            .unwrap_or_default();
        LAST_PANIC.with(|p| *p.borrow_mut() = Some(format!("{msg} @ {loc}")));
    }));
}

/// Runs `f`, turning a panic into `Err(description)`.
pub fn guarded<T>(f: impl FnOnce() -> T) -> Result<T, String> {
    LAST_PANIC.with(|p| *p.borrow_mut() = None);
    match catch_unwind(AssertUnwindSafe(f)) {
        Ok(v) => Ok(v),
        Err(_) => Err(LAST_PANIC
            .with(|p| p.borrow_mut().take())
            .unwrap_or_else(|| "panic".to_string())),
    }
}

pub fn bytes_of(v: &Value) -> Vec<u8> {
    v.as_array()
        .map(|a| a.iter().map(|b| b.as_u64().unwrap_or(0) as u8).collect())
        .unwrap_or_default()
}

pub fn hex(b: &[u8]) -> String {
    b.iter().map(|x| format!("{x:02x}")).collect::<Vec<_>>().join("")
}
