// F11 witness test: every control path of FIX/witness.wowm.
//
// Canonical encoding (tbc server message): u16 BE size (= body + 2), u16 LE opcode 0x02FB, then
//   c: u8
//   c == ALPHA(1) || c == BRAVO(2): d[0] CString, d[1] CString ; else (CHARLIE = 3): f u32 LE
//   t.g: u8 ; g == ALPHA: h[0] {a u8, b CString}, h[1] {a u8, b CString} ; else: i u16 LE
//   e: u8
#![cfg(all(feature = "tbc", feature = "sync"))]

use wow_world_messages::tbc::opcodes::ServerOpcodeMessage;
use wow_world_messages::tbc::{
    expect_server_message, ServerMessage, WxS, WxT, SMSG_COMPRESSED_MOVES,
    SMSG_COMPRESSED_MOVES_WxE,
};
use wow_world_messages::Message;

fn s(v: &str) -> String {
    v.to_string()
}

fn check(name: &str, m: SMSG_COMPRESSED_MOVES, body: &[u8]) {
    // hand-computed frame
    let mut expected = Vec::new();
    expected.extend_from_slice(&((body.len() + 2) as u16).to_be_bytes());
    expected.extend_from_slice(&[0xFB, 0x02]);
    expected.extend_from_slice(body);

    // size()
    assert_eq!(m.size_without_header() as usize, body.len(), "{name}: size");
    assert_eq!(m.server_size() as usize, expected.len(), "{name}: server_size");

    // write through the typed API
    let mut written = Vec::new();
    m.write_unencrypted_server(&mut written).unwrap();
    assert_eq!(written, expected, "{name}: bytes (typed write)");

    // write through the opcode enum
    let o = ServerOpcodeMessage::SMSG_COMPRESSED_MOVES(Box::new(m.clone()));
    let mut written_o = Vec::new();
    o.write_unencrypted_server(&mut written_o).unwrap();
    assert_eq!(written_o, expected, "{name}: bytes (opcode write)");

    // read through the opcode enum
    let read = ServerOpcodeMessage::read_unencrypted(&mut expected.as_slice()).unwrap();
    match &read {
        ServerOpcodeMessage::SMSG_COMPRESSED_MOVES(r) => {
            assert_eq!(r.as_ref(), &m, "{name}: value (opcode read)");
            assert_eq!(r.size_without_header() as usize, body.len(), "{name}: size (opcode read)");
        }
        other => panic!("{name}: read as {other}"),
    }
    assert_eq!(read, o, "{name}: opcode value");

    // read through the typed reader
    let typed: SMSG_COMPRESSED_MOVES = expect_server_message(&mut expected.as_slice()).unwrap();
    assert_eq!(typed, m, "{name}: value (typed read)");
    assert_eq!(typed.size_without_header() as usize, body.len(), "{name}: size (typed read)");

    // second cycle
    let mut again = Vec::new();
    typed.write_unencrypted_server(&mut again).unwrap();
    assert_eq!(again, expected, "{name}: bytes (second cycle)");
}

#[test]
fn alpha_alpha() {
    check(
        "alpha/alpha",
        SMSG_COMPRESSED_MOVES {
            c: SMSG_COMPRESSED_MOVES_WxE::Alpha { d: [s("ab"), s("c")] },
            t: WxT::Alpha { h: [WxS { a: 7, b: s("x") }, WxS { a: 8, b: s("") }] },
            e: 0x11,
        },
        &[
            0x01, // c = ALPHA
            0x61, 0x62, 0x00, // d[0] = "ab"
            0x63, 0x00, // d[1] = "c"
            0x01, // t.g = ALPHA
            0x07, 0x78, 0x00, // t.h[0] = {7, "x"}
            0x08, 0x00, // t.h[1] = {8, ""}
            0x11, // e
        ],
    );
}

#[test]
fn bravo_bravo() {
    check(
        "bravo/bravo",
        SMSG_COMPRESSED_MOVES {
            c: SMSG_COMPRESSED_MOVES_WxE::Bravo { d: [s(""), s("")] },
            t: WxT::Bravo { i: 0x1234 },
            e: 0x22,
        },
        &[
            0x02, // c = BRAVO
            0x00, // d[0] = ""
            0x00, // d[1] = ""
            0x02, // t.g = BRAVO
            0x34, 0x12, // t.i
            0x22, // e
        ],
    );
}

#[test]
fn charlie_charlie() {
    check(
        "charlie/charlie",
        SMSG_COMPRESSED_MOVES {
            c: SMSG_COMPRESSED_MOVES_WxE::Charlie { f: 0xDEADBEEF },
            t: WxT::Charlie { i: 0xFFFF },
            e: 0x33,
        },
        &[
            0x03, // c = CHARLIE
            0xEF, 0xBE, 0xAD, 0xDE, // f
            0x03, // t.g = CHARLIE
            0xFF, 0xFF, // t.i
            0x33, // e
        ],
    );
}

#[test]
fn alpha_charlie() {
    check(
        "alpha/charlie",
        SMSG_COMPRESSED_MOVES {
            c: SMSG_COMPRESSED_MOVES_WxE::Alpha { d: [s("hello"), s("world")] },
            t: WxT::Charlie { i: 1 },
            e: 0,
        },
        &[
            0x01, // c = ALPHA
            0x68, 0x65, 0x6C, 0x6C, 0x6F, 0x00, // d[0] = "hello"
            0x77, 0x6F, 0x72, 0x6C, 0x64, 0x00, // d[1] = "world"
            0x03, // t.g = CHARLIE
            0x01, 0x00, // t.i
            0x00, // e
        ],
    );
}

#[test]
fn charlie_alpha() {
    check(
        "charlie/alpha",
        SMSG_COMPRESSED_MOVES {
            c: SMSG_COMPRESSED_MOVES_WxE::Charlie { f: 1 },
            t: WxT::Alpha { h: [WxS { a: 0, b: s("yz") }, WxS { a: 255, b: s("w") }] },
            e: 0xFF,
        },
        &[
            0x03, // c = CHARLIE
            0x01, 0x00, 0x00, 0x00, // f
            0x01, // t.g = ALPHA
            0x00, 0x79, 0x7A, 0x00, // t.h[0] = {0, "yz"}
            0xFF, 0x77, 0x00, // t.h[1] = {255, "w"}
            0xFF, // e
        ],
    );
}

/// The repaired code itself: `Default` of the two synthesised enums, neither of which has an
/// enumerator without fields, so the first enumerator (fixed array of a non-Copy type) is built.
#[test]
fn default_value() {
    let m = SMSG_COMPRESSED_MOVES::default();
    assert_eq!(
        m,
        SMSG_COMPRESSED_MOVES {
            c: SMSG_COMPRESSED_MOVES_WxE::Alpha { d: [s(""), s("")] },
            t: WxT::Alpha { h: [WxS { a: 0, b: s("") }, WxS { a: 0, b: s("") }] },
            e: 0,
        }
    );
    check(
        "default",
        m,
        &[
            0x01, // c = ALPHA
            0x00, 0x00, // d = ["", ""]
            0x01, // t.g = ALPHA
            0x00, 0x00, // t.h[0] = {0, ""}
            0x00, 0x00, // t.h[1] = {0, ""}
            0x00, // e
        ],
    );
}
