#!/bin/bash
# usage: run_witness.sh <wowm> <test.rs> ; runs generator, cargo check, the test on the current generator source
cd /tmp/fix-F4
FEAT='sync tokio async-std tbc'
mkdir -p wow_message_parser/wowm/world/witness wow_world_messages/tests
cp "$1" wow_message_parser/wowm/world/witness/witness_f.wowm
cp "$2" wow_world_messages/tests/witness_f.rs
echo "--- cargo run -p wow_message_parser --offline -j 4"
cargo run -p wow_message_parser --offline -j 4 > /tmp/fix-F4/FIX/.gen.log 2>&1; rc=$?
grep -n "panicked\|WOWM ERROR" -A6 /tmp/fix-F4/FIX/.gen.log; tail -2 /tmp/fix-F4/FIX/.gen.log
echo "generator exit: $rc"
echo "--- cargo check -p wow_world_messages --offline -j 4 --no-default-features --features \"$FEAT\""
cargo check -p wow_world_messages --offline -j 4 --no-default-features --features "$FEAT" 2>&1 | grep -v "^ *Checking\|^ *Compiling"
echo "cargo check exit: ${PIPESTATUS[0]}"
echo "--- generated read_inner, optional part"
grep -n "let current_size = {" -B6 -A6 wow_world_messages/src/world/tbc/smsg_compressed_moves.rs
echo "--- cargo test -p wow_world_messages --offline -j 4 --no-default-features --features \"$FEAT\" --test witness_f"
cargo test -p wow_world_messages --offline -j 4 --no-default-features --features "$FEAT" --test witness_f 2>&1 | grep -v "^ *Checking\|^ *Compiling" | tail -12
echo "cargo test exit: ${PIPESTATUS[0]}"
