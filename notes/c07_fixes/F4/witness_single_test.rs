//! Second witness (FIX/witness_single.wowm): the tested enum is the ONLY member in front of the optional.
//!
//! smsg SMSG_COMPRESSED_MOVES = 0x02FB {
//!     WitnessEnum a;                  enum WitnessEnum : u8 { ALPHA = 1; BRAVO = 2; }
//!     if (a == ALPHA) { u8 c; }
//!     optional e { u8 f; }
//! }
#![cfg(all(feature = "tbc", feature = "sync"))]

use wow_world_messages::tbc::opcodes::ServerOpcodeMessage;
use wow_world_messages::tbc::{
    expect_server_message, ServerMessage, SMSG_COMPRESSED_MOVES, SMSG_COMPRESSED_MOVES_WitnessEnum,
    SMSG_COMPRESSED_MOVES_e,
};
use wow_world_messages::Message;

#[test]
fn single_member_every_control_path() {
    for alpha in [false, true] {
        for optional in [false, true] {
            let ctx = format!("alpha={alpha} optional={optional}");
            let mut body = Vec::new();

            let a = if alpha {
                // a = ALPHA, c = 0x55
                body.extend_from_slice(&[0x01, 0x55]);
                SMSG_COMPRESSED_MOVES_WitnessEnum::Alpha { c: 0x55 }
            } else {
                // a = BRAVO
                body.push(0x02);
                SMSG_COMPRESSED_MOVES_WitnessEnum::Bravo
            };

            let e = if optional {
                // f = 0x66
                body.push(0x66);
                Some(SMSG_COMPRESSED_MOVES_e { f: 0x66 })
            } else {
                None
            };

            let value = SMSG_COMPRESSED_MOVES { a, e };

            let size = u16::try_from(body.len() + 2).unwrap().to_be_bytes();
            let mut expected = vec![size[0], size[1], 0xFB, 0x02];
            expected.extend_from_slice(&body);
            assert_eq!(
                expected.len(),
                4 + 1 + usize::from(alpha) + usize::from(optional),
                "{ctx}"
            );

            let mut written = Vec::new();
            value.write_unencrypted_server(&mut written).unwrap();
            assert_eq!(written, expected, "written bytes, {ctx}");
            assert_eq!(value.size_without_header() as usize, expected.len() - 4, "{ctx}");

            let mut r = expected.as_slice();
            let read = ServerOpcodeMessage::read_unencrypted(&mut r).unwrap();
            assert!(r.is_empty(), "everything consumed, {ctx}");
            match &read {
                ServerOpcodeMessage::SMSG_COMPRESSED_MOVES(m) => {
                    assert_eq!(m, &value, "value through ServerOpcodeMessage, {ctx}");
                    assert_eq!(m.size_without_header(), value.size_without_header(), "{ctx}");
                }
                m => panic!("wrong opcode {m:?}, {ctx}"),
            }

            let mut r = expected.as_slice();
            let typed: SMSG_COMPRESSED_MOVES = expect_server_message(&mut r).unwrap();
            assert!(r.is_empty(), "everything consumed, {ctx}");
            assert_eq!(typed, value, "value through typed reader, {ctx}");
            assert_eq!(typed.size_without_header(), value.size_without_header(), "{ctx}");
        }
    }
}
