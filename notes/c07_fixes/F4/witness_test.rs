//! Witness for: `optional` after an enum / flag that is tested by an `if` (C07 finding F4).
//!
//! smsg SMSG_COMPRESSED_MOVES = 0x02FB {
//!     WitnessFlag a;                  flag WitnessFlag : u8 { ALPHA = 1; BRAVO = 2; CHARLIE = 4; }
//!     if (a & CHARLIE) { u8 c; WitnessFlag d; }
//!     WitnessFlag g;
//!     WitnessEnum h;                  enum WitnessEnum : u8 { ALPHA = 1; BRAVO = 2; }
//!     if (h == ALPHA) { u16 i; WitnessEnum j; }
//!     optional e { u8 f; WitnessFlag k; WitnessEnum l; }
//! }
#![cfg(all(feature = "tbc", feature = "sync"))]

use wow_world_messages::tbc::{
    expect_server_message, ServerMessage, WitnessEnum, WitnessFlag,
    SMSG_COMPRESSED_MOVES, SMSG_COMPRESSED_MOVES_WitnessEnum, SMSG_COMPRESSED_MOVES_WitnessFlag,
    SMSG_COMPRESSED_MOVES_WitnessFlag_Charlie, SMSG_COMPRESSED_MOVES_e,
};
use wow_world_messages::tbc::opcodes::ServerOpcodeMessage;
use wow_world_messages::Message;

/// Builds the value and the hand computed encoding of one control path.
fn path(charlie: bool, alpha: bool, optional: bool) -> (SMSG_COMPRESSED_MOVES, Vec<u8>) {
    let mut body = Vec::new();

    let a = if charlie {
        // a = ALPHA | CHARLIE, c = 0x11, d = BRAVO | CHARLIE (same type as a, CHARLIE set, no members)
        body.extend_from_slice(&[0x05, 0x11, 0x06]);
        SMSG_COMPRESSED_MOVES_WitnessFlag::new_charlie(SMSG_COMPRESSED_MOVES_WitnessFlag_Charlie {
            c: 0x11,
            d: WitnessFlag::new(0x06),
        })
        .set_alpha()
    } else {
        // a = BRAVO
        body.push(0x02);
        SMSG_COMPRESSED_MOVES_WitnessFlag::new_bravo()
    };

    // g = ALPHA | BRAVO | CHARLIE
    body.push(0x07);
    let g = WitnessFlag::all();

    let h = if alpha {
        // h = ALPHA, i = 0x2233 little endian, j = BRAVO
        body.extend_from_slice(&[0x01, 0x33, 0x22, 0x02]);
        SMSG_COMPRESSED_MOVES_WitnessEnum::Alpha {
            i: 0x2233,
            j: WitnessEnum::Bravo,
        }
    } else {
        // h = BRAVO
        body.push(0x02);
        SMSG_COMPRESSED_MOVES_WitnessEnum::Bravo
    };

    let e = if optional {
        // f = 0x44, k = CHARLIE, l = ALPHA
        body.extend_from_slice(&[0x44, 0x04, 0x01]);
        Some(SMSG_COMPRESSED_MOVES_e {
            f: 0x44,
            k: WitnessFlag::new_charlie(),
            l: WitnessEnum::Alpha,
        })
    } else {
        None
    };

    // Server header: u16 big endian size (opcode + body), u16 little endian opcode
    let size = u16::try_from(body.len() + 2).unwrap().to_be_bytes();
    let mut bytes = vec![size[0], size[1], 0xFB, 0x02];
    bytes.extend_from_slice(&body);

    (SMSG_COMPRESSED_MOVES { a, g, h, e }, bytes)
}

#[test]
fn every_control_path() {
    let mut lengths = Vec::new();

    for charlie in [false, true] {
        for alpha in [false, true] {
            for optional in [false, true] {
                let (value, expected) = path(charlie, alpha, optional);
                let ctx = format!("charlie={charlie} alpha={alpha} optional={optional}");
                lengths.push(expected.len());

                // write through the public API
                let mut written = Vec::new();
                value.write_unencrypted_server(&mut written).unwrap();
                assert_eq!(written, expected, "written bytes, {ctx}");

                // size
                assert_eq!(value.size_without_header() as usize, expected.len() - 4, "{ctx}");
                assert_eq!(value.server_size() as usize, expected.len(), "{ctx}");

                // read through the opcode enum
                let mut r = expected.as_slice();
                let read = ServerOpcodeMessage::read_unencrypted(&mut r).unwrap();
                assert!(r.is_empty(), "everything consumed, {ctx}");
                match &read {
                    ServerOpcodeMessage::SMSG_COMPRESSED_MOVES(m) => {
                        let m: &SMSG_COMPRESSED_MOVES = m; // boxed in the opcode enum
                        assert_eq!(m, &value, "value through ServerOpcodeMessage, {ctx}");
                        assert_eq!(m.size_without_header(), value.size_without_header(), "{ctx}");
                    }
                    m => panic!("wrong opcode {m:?}, {ctx}"),
                }

                // the opcode enum writes the same bytes again
                let mut rewritten = Vec::new();
                read.write_unencrypted_server(&mut rewritten).unwrap();
                assert_eq!(rewritten, expected, "rewritten bytes, {ctx}");

                // read through the typed reader
                let mut r = expected.as_slice();
                let typed: SMSG_COMPRESSED_MOVES = expect_server_message(&mut r).unwrap();
                assert!(r.is_empty(), "everything consumed, {ctx}");
                assert_eq!(typed, value, "value through typed reader, {ctx}");
                assert_eq!(typed.size_without_header(), value.size_without_header(), "{ctx}");
            }
        }
    }

    // 4 byte header + 3 (a g h) + 2 (c d) + 3 (i j) + 3 (f k l)
    assert_eq!(lengths, [7, 10, 10, 13, 9, 12, 12, 15]);
}
