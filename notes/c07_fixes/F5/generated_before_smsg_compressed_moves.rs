use std::io::{Read, Write};

use crate::tbc::{
    CmvWitnessEntry, CmvWitnessFlag,
};

/// Auto generated from the original `wowm` in file [`wow_message_parser/wowm/world/zz_f5_witness.wowm:18`](https://github.com/gtker/wow_messages/tree/main/wow_message_parser/wowm/world/zz_f5_witness.wowm#L18):
/// ```text
/// smsg SMSG_COMPRESSED_MOVES = 0x02FB {
///     CmvWitnessEntry[2] c;
///     u8 tail;
/// }
/// ```
#[derive(Debug, Clone, PartialEq, Eq, Hash, PartialOrd, Ord, Default)]
pub struct SMSG_COMPRESSED_MOVES {
    pub c: [CmvWitnessEntry; 2],
    pub tail: u8,
}

impl crate::private::Sealed for SMSG_COMPRESSED_MOVES {}
impl SMSG_COMPRESSED_MOVES {
    fn read_inner(mut r: &mut &[u8], body_size: u32) -> Result<Self, crate::errors::ParseErrorKind> {
        if !(3..=5).contains(&body_size) {
            return Err(crate::errors::ParseErrorKind::InvalidSize);
        }

        // c: CmvWitnessEntry[2]
        let c = {
            let mut c = [(); 2].map(|_| CmvWitnessEntry::default());
            for i in c.iter_mut() {
                *i = CmvWitnessEntry::read(&mut r)?;
            }
            c
        };

        // tail: u8
        let tail = crate::util::read_u8_le(&mut r)?;

        Ok(Self {
            c,
            tail,
        })
    }

}

impl crate::Message for SMSG_COMPRESSED_MOVES {
    const OPCODE: u32 = 0x02fb;

    #[cfg(feature = "print-testcase")]
    fn message_name(&self) -> &'static str {
        "SMSG_COMPRESSED_MOVES"
    }

    #[cfg(feature = "print-testcase")]
    fn to_test_case_string(&self) -> Option<String> {
        use std::fmt::Write;
        use crate::traits::Message;

        let mut s = String::new();

        writeln!(s, "test SMSG_COMPRESSED_MOVES {{").unwrap();
        // Members
        writeln!(s, "    c = [").unwrap();
        for v in self.c.as_slice() {
            writeln!(s, "        {{").unwrap();
            // Members
            writeln!(s, "            a = {};", CmvWitnessFlag::new(v.a.as_int()).as_test_case_value()).unwrap();
            if let Some(if_statement) = &v.a.get_alpha() {
                writeln!(s, "            b = {};", if_statement.b).unwrap();
            }


            writeln!(s, "        }},").unwrap();
        }
        writeln!(s, "    ];").unwrap();
        writeln!(s, "    tail = {};", self.tail).unwrap();

        writeln!(s, "}} [").unwrap();

        let [a, b] = (u16::try_from(self.size() + 2).unwrap()).to_be_bytes();
        writeln!(s, "    {a:#04X}, {b:#04X}, /* size */").unwrap();
        let [a, b] = 763_u16.to_le_bytes();
        writeln!(s, "    {a:#04X}, {b:#04X}, /* opcode */").unwrap();
        let mut bytes: Vec<u8> = Vec::new();
        self.write_into_vec(&mut bytes).unwrap();
        let mut bytes = bytes.into_iter();

        writeln!(s, "    /* c: CmvWitnessEntry[2] start */").unwrap();
        for (i, v) in self.c.iter().enumerate() {
            writeln!(s, "    /* c: CmvWitnessEntry[2] {i} start */").unwrap();
            crate::util::write_bytes(&mut s, &mut bytes, 1, "a", "        ");
            if let Some(if_statement) = &v.a.get_alpha() {
                crate::util::write_bytes(&mut s, &mut bytes, 1, "b", "        ");
            }

            writeln!(s, "    /* c: CmvWitnessEntry[2] {i} end */").unwrap();
        }
        writeln!(s, "    /* c: CmvWitnessEntry[2] end */").unwrap();
        crate::util::write_bytes(&mut s, &mut bytes, 1, "tail", "    ");


        writeln!(s, "] {{").unwrap();
        writeln!(s, "    versions = \"{}\";", std::env::var("WOWM_TEST_CASE_WORLD_VERSION").unwrap_or("2.4.3".to_string())).unwrap();
        writeln!(s, "}}\n").unwrap();

        Some(s)
    }

    fn size_without_header(&self) -> u32 {
        self.size() as u32
    }

    fn write_into_vec(&self, mut w: impl Write) -> Result<(), std::io::Error> {
        // c: CmvWitnessEntry[2]
        for i in self.c.iter() {
            i.write_into_vec(&mut w)?;
        }

        // tail: u8
        w.write_all(&self.tail.to_le_bytes())?;

        Ok(())
    }

    fn read_body<S: crate::private::Sealed>(r: &mut &[u8], body_size: u32) -> Result<Self, crate::errors::ParseError> {
        Self::read_inner(r, body_size).map_err(|a| crate::errors::ParseError::new(763, "SMSG_COMPRESSED_MOVES", body_size, a))
    }

}

#[cfg(feature = "tbc")]
impl crate::tbc::ServerMessage for SMSG_COMPRESSED_MOVES {}

impl SMSG_COMPRESSED_MOVES {
    pub(crate) const fn size(&self) -> usize {
        self.c.iter().fold(0, |acc, x| acc + x.size()) // c: CmvWitnessEntry[2]
        + 1 // tail: u8
    }
}

