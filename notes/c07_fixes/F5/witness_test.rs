//! Witness test for F5: `CmvWitnessEntry[2] c;` where `CmvWitnessEntry` is
//! `{ CmvWitnessFlag a; if (a & ALPHA) { u8 b; } }`, followed by `u8 tail;`.
//!
//! Canonical encoding (tbc server message, unencrypted):
//!   u16 BE size (= body length + 2), u16 LE opcode (0x02FB),
//!   per element: a (u8), then b (u8) only if a & 0x01; finally tail (u8).
#![cfg(all(feature = "tbc", feature = "sync"))]

use wow_world_messages::tbc::{
    CmvWitnessEntry, CmvWitnessEntry_CmvWitnessFlag, CmvWitnessEntry_CmvWitnessFlag_Alpha,
    ServerMessage, SMSG_COMPRESSED_MOVES,
};
use wow_world_messages::tbc::opcodes::ServerOpcodeMessage;
use wow_world_messages::Message;

const ALPHA: u8 = 1;
const BRAVO: u8 = 2;

fn entry(flag: u8, b: u8) -> CmvWitnessEntry {
    let mut a = CmvWitnessEntry_CmvWitnessFlag::empty();
    if flag & ALPHA != 0 {
        a = a.set_alpha(CmvWitnessEntry_CmvWitnessFlag_Alpha { b });
    }
    if flag & BRAVO != 0 {
        a = a.set_bravo();
    }
    CmvWitnessEntry { a }
}

fn check(msg: &SMSG_COMPRESSED_MOVES, expected: &[u8]) {
    // write with the public API
    let mut written = Vec::new();
    msg.write_unencrypted_server(&mut written).unwrap();
    assert_eq!(written.as_slice(), expected, "written bytes");

    // size(): observable as size_without_header() / server_size()
    assert_eq!(msg.size_without_header() as usize, expected.len() - 4);
    assert_eq!(msg.server_size() as usize, expected.len());

    // the body alone
    let mut body = Vec::new();
    msg.write_into_vec(&mut body).unwrap();
    assert_eq!(body.as_slice(), &expected[4..]);

    // read back through the opcode reader
    let mut r = expected;
    let read = match ServerOpcodeMessage::read_unencrypted(&mut r).unwrap() {
        ServerOpcodeMessage::SMSG_COMPRESSED_MOVES(m) => m,
        other => panic!("read back as {other}"),
    };
    assert!(r.is_empty(), "reader left {} bytes", r.len());
    assert_eq!(&read, msg);
    assert_eq!(read.size_without_header(), msg.size_without_header());

    // second cycle
    let mut again = Vec::new();
    read.write_unencrypted_server(&mut again).unwrap();
    assert_eq!(again.as_slice(), expected);
}

#[test]
fn neither_element_has_alpha() {
    let msg = SMSG_COMPRESSED_MOVES {
        c: [entry(0, 0), entry(BRAVO, 0)],
        tail: 0xEE,
    };
    check(&msg, &[0x00, 0x05, 0xFB, 0x02, /* c[0].a */ 0x00, /* c[1].a */ 0x02, /* tail */ 0xEE]);
}

#[test]
fn first_element_has_alpha() {
    let msg = SMSG_COMPRESSED_MOVES {
        c: [entry(ALPHA, 0xAA), entry(0, 0)],
        tail: 0xEE,
    };
    check(&msg, &[0x00, 0x06, 0xFB, 0x02, 0x01, 0xAA, 0x00, 0xEE]);
}

#[test]
fn second_element_has_alpha() {
    let msg = SMSG_COMPRESSED_MOVES {
        c: [entry(BRAVO, 0), entry(ALPHA | BRAVO, 0xBB)],
        tail: 0xEE,
    };
    check(&msg, &[0x00, 0x06, 0xFB, 0x02, 0x02, 0x03, 0xBB, 0xEE]);
}

#[test]
fn both_elements_have_alpha() {
    let msg = SMSG_COMPRESSED_MOVES {
        c: [entry(ALPHA | BRAVO, 0xAA), entry(ALPHA, 0xBB)],
        tail: 0xEE,
    };
    check(&msg, &[0x00, 0x07, 0xFB, 0x02, 0x03, 0xAA, 0x01, 0xBB, 0xEE]);
}

/// All 16 combinations of the two flag values against an encoder written from the definition.
#[test]
fn all_flag_combinations() {
    for f0 in 0..4_u8 {
        for f1 in 0..4_u8 {
            let msg = SMSG_COMPRESSED_MOVES {
                c: [entry(f0, 0x10 + f0), entry(f1, 0x20 + f1)],
                tail: 0x30 + f0 * 4 + f1,
            };

            let mut body = Vec::new();
            for (f, b) in [(f0, 0x10 + f0), (f1, 0x20 + f1)] {
                body.push(f);
                if f & ALPHA != 0 {
                    body.push(b);
                }
            }
            body.push(0x30 + f0 * 4 + f1);

            let mut expected = Vec::new();
            expected.extend_from_slice(&(body.len() as u16 + 2).to_be_bytes());
            expected.extend_from_slice(&0x02FB_u16.to_le_bytes());
            expected.extend_from_slice(&body);

            check(&msg, &expected);
        }
    }
}

/// A body whose flag announces `b` but that ends early is rejected.
#[test]
fn truncated_body_is_rejected() {
    // c[0].a = ALPHA, c[0].b, c[1].a = ALPHA, then b and tail are missing (only 1 more byte)
    let bytes = [0x00, 0x06, 0xFB, 0x02, 0x01, 0xAA, 0x01, 0xBB];
    assert!(ServerOpcodeMessage::read_unencrypted(&mut bytes.as_slice()).is_err());
}
