use wow_login_messages::version_2::opcodes::ServerOpcodeMessage;
use wow_login_messages::version_2::CMD_WG_SIZED;
use wow_login_messages::Message;

#[test]
fn login_witness() {
    let m = CMD_WG_SIZED { a: 0x11, b: 0x55443322 };
    let expected = [0x55_u8, 0x11, 0x04, 0x00, 0x22, 0x33, 0x44, 0x55];
    let mut v = Vec::new();
    m.write(&mut v).unwrap();
    assert_eq!(v, expected);
    let r = ServerOpcodeMessage::read(&mut expected.as_slice()).unwrap();
    assert_eq!(r, ServerOpcodeMessage::CMD_WG_SIZED(m));
}
