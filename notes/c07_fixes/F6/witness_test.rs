// Witness for `= self.size` in containers of constant size (F6).
//
// struct WgSizedStruct { u16 a = self.size; u8 b; }
// smsg SMSG_COMPRESSED_MOVES = 0x02FB { u16 a = 0; u16 b = self.size; u8 c; WgSizedStruct d; }
//
// The definition has no `if`/`optional`, so there is a single control path; it is exercised with
// several field values. A size field holds the number of bytes that follow it in its container.
#![cfg(all(feature = "tbc", feature = "sync"))]

use wow_world_messages::tbc::opcodes::ServerOpcodeMessage;
use wow_world_messages::tbc::{
    expect_server_message, ServerMessage, WgSizedStruct, SMSG_COMPRESSED_MOVES,
};
use wow_world_messages::Message;

fn canonical(c: u8, db: u8) -> Vec<u8> {
    vec![
        0x00, 0x0A, // header size, big endian: 2 (opcode) + 8 (body)
        0xFB, 0x02, // opcode 0x02FB, little endian
        0x00, 0x00, // a: u16 = 0
        0x04, 0x00, // b: u16 = self.size: 8 - 4 bytes up to and including b
        c,    // c: u8
        0x01, 0x00, // d.a: u16 = self.size: 3 - 2 bytes up to and including d.a
        db,   // d.b: u8
    ]
}

#[test]
fn witness_fsix() {
    for (c, db) in [(0x11_u8, 0x22_u8), (0, 0), (0xFF, 0xFF), (0x04, 0x01)] {
        let m = SMSG_COMPRESSED_MOVES {
            c,
            d: WgSizedStruct { b: db },
        };
        let expected = canonical(c, db);

        // typed writer
        let mut v = Vec::new();
        m.write_unencrypted_server(&mut v).unwrap();
        assert_eq!(v, expected);

        // body only
        let mut body = Vec::new();
        m.write_into_vec(&mut body).unwrap();
        assert_eq!(body.as_slice(), &expected[4..]);
        assert_eq!(m.size_without_header() as usize, body.len());
        assert_eq!(m.size_without_header(), 8);

        // opcode enum writer
        let o: ServerOpcodeMessage = m.into();
        let mut v2 = Vec::new();
        o.write_unencrypted_server(&mut v2).unwrap();
        assert_eq!(v2, expected);

        // opcode enum reader
        let r = ServerOpcodeMessage::read_unencrypted(&mut expected.as_slice()).unwrap();
        match &r {
            ServerOpcodeMessage::SMSG_COMPRESSED_MOVES(x) => {
                assert_eq!(*x, m);
                assert_eq!(x.size_without_header(), m.size_without_header());
            }
            other => panic!("wrong opcode {other}"),
        }
        assert_eq!(r, o);

        // typed reader
        let mut rest = expected.as_slice();
        let t: SMSG_COMPRESSED_MOVES = expect_server_message(&mut rest).unwrap();
        assert!(rest.is_empty());
        assert_eq!(t, m);
        assert_eq!(t.size_without_header(), 8);

        // second cycle
        let mut v3 = Vec::new();
        t.write_unencrypted_server(&mut v3).unwrap();
        assert_eq!(v3, expected);
    }
}

#[test]
fn witness_fsix_wrong_size_rejected() {
    // one byte too many in the body: header says 11
    let mut b = canonical(1, 2);
    b[1] = 0x0B;
    b.push(0);
    assert!(ServerOpcodeMessage::read_unencrypted(&mut b.as_slice()).is_err());
}
