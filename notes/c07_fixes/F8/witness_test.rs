//! F8 witness: `u8 amount_of_tail; ...; optional trailer { u8[3] fixed; u8[amount_of_tail] tail; }`
//!
//! smsg SMSG_COMPRESSED_MOVES = 0x02FB {
//!     u16 head;
//!     u8 amount_of_tail;
//!     u32 middle;
//!     optional trailer {
//!         u8[3] fixed;
//!         u8[amount_of_tail] tail;
//!     }
//! }
//!
//! Canonical encoding (2.4.3 server header: u16 BE size = body + 2, u16 LE opcode):
//!   head LE, amount_of_tail = length of tail (0 when `trailer` is absent), middle LE,
//!   then, only when `trailer` is present, the 3 bytes of `fixed` and the bytes of `tail`.
#![cfg(all(feature = "sync", feature = "tbc"))]

use wow_world_messages::tbc::opcodes::ServerOpcodeMessage;
use wow_world_messages::tbc::{
    expect_server_message, ServerMessage, SMSG_COMPRESSED_MOVES, SMSG_COMPRESSED_MOVES_trailer,
};
use wow_world_messages::Message;

const HEAD: u16 = 0x1234;
const MIDDLE: u32 = 0xAABB_CCDD;

fn expected(trailer: Option<([u8; 3], &[u8])>) -> Vec<u8> {
    let mut body = vec![0x34, 0x12];
    body.push(trailer.map_or(0, |(_, tail)| tail.len() as u8));
    body.extend_from_slice(&[0xDD, 0xCC, 0xBB, 0xAA]);
    if let Some((fixed, tail)) = trailer {
        body.extend_from_slice(&fixed);
        body.extend_from_slice(tail);
    }

    let mut v = ((body.len() + 2) as u16).to_be_bytes().to_vec();
    v.extend_from_slice(&[0xFB, 0x02]);
    v.extend_from_slice(&body);
    v
}

fn check(value: SMSG_COMPRESSED_MOVES, expected: &[u8]) {
    let mut written = Vec::new();
    value.write_unencrypted_server(&mut written).unwrap();
    assert_eq!(written, expected, "bytes of {value:?}");

    assert_eq!(value.size_without_header() as usize, expected.len() - 4);
    assert_eq!(value.server_size() as usize, expected.len());

    let mut body = Vec::new();
    value.write_into_vec(&mut body).unwrap();
    assert_eq!(body, &expected[4..]);

    match ServerOpcodeMessage::read_unencrypted(&mut &written[..]).unwrap() {
        ServerOpcodeMessage::SMSG_COMPRESSED_MOVES(read) => {
            assert_eq!(*read, value);
            assert_eq!(read.size_without_header(), value.size_without_header());
        }
        other => panic!("read {other:?}"),
    }

    let mut r = &written[..];
    let read: SMSG_COMPRESSED_MOVES = expect_server_message(&mut r).unwrap();
    assert!(r.is_empty());
    assert_eq!(read, value);
    assert_eq!(read.size_without_header(), value.size_without_header());

    // The hand written `crate::util::write_bytes` panics for any empty array (it unwraps the first
    // byte), for shipped messages too: the test case string is not asked for in that case.
    #[cfg(feature = "print-testcase")]
    if value.trailer.as_ref().map_or(true, |t| !t.tail.is_empty()) {
        let s = value.to_test_case_string().unwrap();
        let amount = value.trailer.as_ref().map_or(0, |t| t.tail.len());
        assert!(s.contains(&format!("amount_of_tail = {amount};")), "{s}");
    }
}

#[test]
fn optional_absent() {
    let expected = expected(None);
    assert_eq!(
        expected,
        [0x00, 0x09, 0xFB, 0x02, 0x34, 0x12, 0x00, 0xDD, 0xCC, 0xBB, 0xAA]
    );
    check(
        SMSG_COMPRESSED_MOVES {
            head: HEAD,
            middle: MIDDLE,
            trailer: None,
        },
        &expected,
    );
}

#[test]
fn optional_present_empty_array() {
    let expected = expected(Some(([1, 2, 3], &[])));
    assert_eq!(
        expected,
        [0x00, 0x0C, 0xFB, 0x02, 0x34, 0x12, 0x00, 0xDD, 0xCC, 0xBB, 0xAA, 1, 2, 3]
    );
    check(
        SMSG_COMPRESSED_MOVES {
            head: HEAD,
            middle: MIDDLE,
            trailer: Some(SMSG_COMPRESSED_MOVES_trailer {
                fixed: [1, 2, 3],
                tail: vec![],
            }),
        },
        &expected,
    );
}

#[test]
fn optional_present_with_elements() {
    let expected = expected(Some(([1, 2, 3], &[9, 8, 7, 6, 5])));
    assert_eq!(
        expected,
        [
            0x00, 0x11, 0xFB, 0x02, 0x34, 0x12, 0x05, 0xDD, 0xCC, 0xBB, 0xAA, 1, 2, 3, 9, 8, 7,
            6, 5
        ]
    );
    check(
        SMSG_COMPRESSED_MOVES {
            head: HEAD,
            middle: MIDDLE,
            trailer: Some(SMSG_COMPRESSED_MOVES_trailer {
                fixed: [1, 2, 3],
                tail: vec![9, 8, 7, 6, 5],
            }),
        },
        &expected,
    );
}

#[test]
fn optional_present_longest_array() {
    let tail: Vec<u8> = (0..255_u32).map(|i| (i * 7 % 251) as u8).collect();
    let expected = expected(Some(([0xFF, 0, 0x80], &tail)));
    assert_eq!(expected.len(), 4 + 7 + 3 + 255);
    assert_eq!(expected[6], 255);
    check(
        SMSG_COMPRESSED_MOVES {
            head: HEAD,
            middle: MIDDLE,
            trailer: Some(SMSG_COMPRESSED_MOVES_trailer {
                fixed: [0xFF, 0, 0x80],
                tail,
            }),
        },
        &expected,
    );
}

/// The count is on the wire even when the optional is absent. A received count that is not 0 then
/// counts nothing, the message reads as the one without the optional and is written canonically.
#[test]
fn optional_absent_with_count_on_the_wire() {
    let received = [
        0x00, 0x09, 0xFB, 0x02, 0x34, 0x12, 0x05, 0xDD, 0xCC, 0xBB, 0xAA,
    ];
    let read: SMSG_COMPRESSED_MOVES = expect_server_message(&mut &received[..]).unwrap();
    assert_eq!(
        read,
        SMSG_COMPRESSED_MOVES {
            head: HEAD,
            middle: MIDDLE,
            trailer: None,
        }
    );
    check(read, &expected(None));
}
