//! CMSG_GUILD_BANK_SWAP_ITEMS (TBC 2.4.3 / Wrath 3.3.5): `u8[-] unknown5` after `if (source == BANK) {..} else {..}`.
//! Every arm of the if statement, with an empty and a non-empty `unknown5`, through the public opcode reader.
#![cfg(all(feature = "sync", feature = "tbc", feature = "wrath"))]

use wow_world_messages::Guid;

/// Unencrypted client frame: u16 big endian size (opcode + body), u32 little endian opcode, body.
fn frame(opcode: u32, body: &[u8]) -> Vec<u8> {
    let mut v = Vec::new();
    v.extend_from_slice(&((body.len() + 4) as u16).to_be_bytes());
    v.extend_from_slice(&opcode.to_le_bytes());
    v.extend_from_slice(body);
    v
}

const GUID: [u8; 8] = [0xef, 0xbe, 0xad, 0xde, 0x78, 0x56, 0x34, 0x12];
const GUID_VALUE: u64 = 0x1234_5678_dead_beef;

const TAILS: [&[u8]; 3] = [&[], &[0x00], &[0xde, 0xad, 0xbe, 0xef, 0x01]];

mod tbc {
    use super::*;
    use wow_world_messages::tbc::opcodes::ClientOpcodeMessage;
    use wow_world_messages::tbc::{
        CMSG_GUILD_BANK_SWAP_ITEMS, CMSG_GUILD_BANK_SWAP_ITEMS_BankSwapSource as Source,
        CMSG_GUILD_BANK_SWAP_ITEMS_BankSwapStoreMode as Mode,
    };

    const OPCODE: u32 = 0x03e8;

    fn round_trip(bytes: &[u8], expected: &CMSG_GUILD_BANK_SWAP_ITEMS) {
        let m = match ClientOpcodeMessage::read_unencrypted(&mut &bytes[..]) {
            Ok(ClientOpcodeMessage::CMSG_GUILD_BANK_SWAP_ITEMS(m)) => m,
            Ok(other) => panic!("decoded as another message: {other:?}"),
            Err(e) => panic!("{bytes:02x?} not decoded: {e}"),
        };
        assert_eq!(m.as_ref(), expected);

        let mut written = Vec::new();
        ClientOpcodeMessage::CMSG_GUILD_BANK_SWAP_ITEMS(m)
            .write_unencrypted_client(&mut written)
            .unwrap();
        assert_eq!(written, bytes);
    }

    #[test]
    fn witness() {
        let bytes = [
            0x00, 0x1b, 0xe8, 0x03, 0x00, 0x00, // size, opcode
            0x00, 0x00, 0x00, 0x00, 0x00, 0x00, 0x00, 0x00, // bank
            0x01, // source = BANK
            0x01, 0x80, 0xff, 0xff, 0xff, 0x7f, 0x15, 0x00, 0xff, 0xff, 0xff, 0xff, 0x01, 0x80,
        ];
        round_trip(
            &bytes,
            &CMSG_GUILD_BANK_SWAP_ITEMS {
                bank: Guid::new(0),
                source: Source::Bank {
                    amount: 0x80,
                    bank_destination_slot: 0x80,
                    bank_destination_tab: 0x01,
                    bank_source_slot: 0x00,
                    bank_source_tab: 0x15,
                    item1: 0xffff_ffff,
                    unknown1: 0x7fff_ffff,
                    unknown2: 0x01,
                },
                unknown5: vec![],
            },
        );
    }

    #[test]
    fn bank() {
        for tail in TAILS {
            let mut body = GUID.to_vec();
            body.push(1); // BANK
            body.extend_from_slice(&[2, 3, 0x44, 0x33, 0x22, 0x11, 5, 6, 0x0d, 0x0c, 0x0b, 0x0a, 7, 8]);
            body.extend_from_slice(tail);
            round_trip(
                &frame(OPCODE, &body),
                &CMSG_GUILD_BANK_SWAP_ITEMS {
                    bank: Guid::new(GUID_VALUE),
                    source: Source::Bank {
                        bank_destination_tab: 2,
                        bank_destination_slot: 3,
                        unknown1: 0x1122_3344,
                        bank_source_tab: 5,
                        bank_source_slot: 6,
                        item1: 0x0a0b_0c0d,
                        unknown2: 7,
                        amount: 8,
                    },
                    unknown5: tail.to_vec(),
                },
            );
        }
    }

    #[test]
    fn inventory_manual() {
        for tail in TAILS {
            let mut body = GUID.to_vec();
            body.push(0); // INVENTORY
            body.extend_from_slice(&[2, 3, 0x0d, 0x0c, 0x0b, 0x0a]);
            body.push(0); // MANUAL
            body.extend_from_slice(&[9, 10, 1, 12]);
            body.extend_from_slice(tail);
            round_trip(
                &frame(OPCODE, &body),
                &CMSG_GUILD_BANK_SWAP_ITEMS {
                    bank: Guid::new(GUID_VALUE),
                    source: Source::Inventory {
                        bank_tab: 2,
                        bank_slot: 3,
                        item2: 0x0a0b_0c0d,
                        mode: Mode::Manual {
                            player_bag: 9,
                            player_bag_slot: 10,
                            bank_to_character_transfer: true,
                            split_amount: 12,
                        },
                    },
                    unknown5: tail.to_vec(),
                },
            );
        }
    }

    #[test]
    fn inventory_automatic() {
        for tail in TAILS {
            let mut body = GUID.to_vec();
            body.push(0); // INVENTORY
            body.extend_from_slice(&[2, 3, 0x0d, 0x0c, 0x0b, 0x0a]);
            body.push(1); // AUTOMATIC
            body.extend_from_slice(&[0x44, 0x33, 0x22, 0x11, 13, 14]);
            body.extend_from_slice(tail);
            round_trip(
                &frame(OPCODE, &body),
                &CMSG_GUILD_BANK_SWAP_ITEMS {
                    bank: Guid::new(GUID_VALUE),
                    source: Source::Inventory {
                        bank_tab: 2,
                        bank_slot: 3,
                        item2: 0x0a0b_0c0d,
                        mode: Mode::Automatic {
                            auto_count: 0x1122_3344,
                            unknown3: 13,
                            unknown4: 14,
                        },
                    },
                    unknown5: tail.to_vec(),
                },
            );
        }
    }
}

mod wrath {
    use super::*;
    use wow_world_messages::wrath::opcodes::ClientOpcodeMessage;
    use wow_world_messages::wrath::{
        CMSG_GUILD_BANK_SWAP_ITEMS, CMSG_GUILD_BANK_SWAP_ITEMS_BankSwapSource as Source,
        CMSG_GUILD_BANK_SWAP_ITEMS_BankSwapStoreMode as Mode,
    };

    const OPCODE: u32 = 0x03e9;

    fn round_trip(bytes: &[u8], expected: &CMSG_GUILD_BANK_SWAP_ITEMS) {
        let m = match ClientOpcodeMessage::read_unencrypted(&mut &bytes[..]) {
            Ok(ClientOpcodeMessage::CMSG_GUILD_BANK_SWAP_ITEMS(m)) => m,
            Ok(other) => panic!("decoded as another message: {other:?}"),
            Err(e) => panic!("{bytes:02x?} not decoded: {e}"),
        };
        assert_eq!(m.as_ref(), expected);

        let mut written = Vec::new();
        ClientOpcodeMessage::CMSG_GUILD_BANK_SWAP_ITEMS(m)
            .write_unencrypted_client(&mut written)
            .unwrap();
        assert_eq!(written, bytes);
    }

    #[test]
    fn witness() {
        // The TBC witness with the u32 `amount` of 3.3.5.
        let bytes = [
            0x00, 0x1e, 0xe9, 0x03, 0x00, 0x00, // size, opcode
            0x00, 0x00, 0x00, 0x00, 0x00, 0x00, 0x00, 0x00, // bank
            0x01, // source = BANK
            0x01, 0x80, 0xff, 0xff, 0xff, 0x7f, 0x15, 0x00, 0xff, 0xff, 0xff, 0xff, 0x01, 0x80,
            0x00, 0x00, 0x00,
        ];
        round_trip(
            &bytes,
            &CMSG_GUILD_BANK_SWAP_ITEMS {
                bank: Guid::new(0),
                source: Source::Bank {
                    amount: 0x80,
                    bank_destination_slot: 0x80,
                    bank_destination_tab: 0x01,
                    bank_source_slot: 0x00,
                    bank_source_tab: 0x15,
                    item1: 0xffff_ffff,
                    unknown1: 0x7fff_ffff,
                    unknown2: 0x01,
                },
                unknown5: vec![],
            },
        );
    }

    #[test]
    fn bank() {
        for tail in TAILS {
            let mut body = GUID.to_vec();
            body.push(1); // BANK
            body.extend_from_slice(&[2, 3, 0x44, 0x33, 0x22, 0x11, 5, 6, 0x0d, 0x0c, 0x0b, 0x0a, 7]);
            body.extend_from_slice(&[0x88, 0x77, 0x66, 0x55]);
            body.extend_from_slice(tail);
            round_trip(
                &frame(OPCODE, &body),
                &CMSG_GUILD_BANK_SWAP_ITEMS {
                    bank: Guid::new(GUID_VALUE),
                    source: Source::Bank {
                        bank_destination_tab: 2,
                        bank_destination_slot: 3,
                        unknown1: 0x1122_3344,
                        bank_source_tab: 5,
                        bank_source_slot: 6,
                        item1: 0x0a0b_0c0d,
                        unknown2: 7,
                        amount: 0x5566_7788,
                    },
                    unknown5: tail.to_vec(),
                },
            );
        }
    }

    #[test]
    fn inventory_manual() {
        for tail in TAILS {
            let mut body = GUID.to_vec();
            body.push(0); // INVENTORY
            body.extend_from_slice(&[2, 3, 0x0d, 0x0c, 0x0b, 0x0a]);
            body.push(0); // MANUAL
            body.extend_from_slice(&[9, 10, 0, 0x88, 0x77, 0x66, 0x55]);
            body.extend_from_slice(tail);
            round_trip(
                &frame(OPCODE, &body),
                &CMSG_GUILD_BANK_SWAP_ITEMS {
                    bank: Guid::new(GUID_VALUE),
                    source: Source::Inventory {
                        bank_tab: 2,
                        bank_slot: 3,
                        item2: 0x0a0b_0c0d,
                        mode: Mode::Manual {
                            player_bag: 9,
                            player_bag_slot: 10,
                            bank_to_character_transfer: false,
                            split_amount: 0x5566_7788,
                        },
                    },
                    unknown5: tail.to_vec(),
                },
            );
        }
    }

    #[test]
    fn inventory_automatic() {
        for tail in TAILS {
            let mut body = GUID.to_vec();
            body.push(0); // INVENTORY
            body.extend_from_slice(&[2, 3, 0x0d, 0x0c, 0x0b, 0x0a]);
            body.push(1); // AUTOMATIC
            body.extend_from_slice(&[0x44, 0x33, 0x22, 0x11, 13, 0x88, 0x77, 0x66, 0x55]);
            body.extend_from_slice(tail);
            round_trip(
                &frame(OPCODE, &body),
                &CMSG_GUILD_BANK_SWAP_ITEMS {
                    bank: Guid::new(GUID_VALUE),
                    source: Source::Inventory {
                        bank_tab: 2,
                        bank_slot: 3,
                        item2: 0x0a0b_0c0d,
                        mode: Mode::Automatic {
                            auto_count: 0x1122_3344,
                            unknown3: 13,
                            unknown4: 0x5566_7788,
                        },
                    },
                    unknown5: tail.to_vec(),
                },
            );
        }
    }
}
