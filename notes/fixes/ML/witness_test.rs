//! Witness for the `maximum_length` size-bound defect.
//!
//! Placed (temporarily) at `wow_world_messages/tests/gmresponse_maximum_length.rs` and run with
//! `cargo test -p wow_world_messages --offline -j 3 --features sync,wrath --test gmresponse_maximum_length`.
//!
//! `SMSG_GMRESPONSE_RECEIVED` (3.3.5) declares `CString message { maximum_length = "2000"; }` and
//! `CString[4] response { maximum_length = "4000"; }`. Everything written here is allowed by the
//! definition, is produced by the public writer, and must be accepted by the public reader.
#![cfg(all(feature = "sync", feature = "wrath"))]

use wow_world_messages::wrath::opcodes::ServerOpcodeMessage;
use wow_world_messages::wrath::{ServerMessage, SMSG_GMRESPONSE_RECEIVED};

fn round_trip(message_len: usize, response_len: usize) {
    let original = SMSG_GMRESPONSE_RECEIVED {
        response_id: 1,
        ticket_id: 2,
        message: "m".repeat(message_len),
        response: [
            "a".repeat(response_len),
            "b".repeat(response_len),
            "c".repeat(response_len),
            "d".repeat(response_len),
        ],
    };

    let mut bytes = Vec::new();
    original.write_unencrypted_server(&mut bytes).unwrap();

    // u16 BE size + u16 LE opcode + body
    let body = 4 + 4 + (message_len + 1) + 4 * (response_len + 1);
    assert_eq!(bytes.len(), 2 + 2 + body);

    let read = ServerOpcodeMessage::read_unencrypted(&mut std::io::Cursor::new(&bytes));
    match read {
        Ok(ServerOpcodeMessage::SMSG_GMRESPONSE_RECEIVED(m)) => assert_eq!(*m, original),
        Ok(other) => panic!("read back as a different message: {other:?}"),
        Err(e) => panic!(
            "reader rejected what the writer produced (message {message_len}, responses {response_len}, body {body}): {e:?}"
        ),
    }
}

/// Control: small strings always worked (body 4+4+11+4*11 = 63 <= 1288).
#[test]
fn gmresponse_short_strings() {
    round_trip(10, 10);
}

/// Largest body the old bound accepted: 4+4+256+4*256 = 1288.
#[test]
fn gmresponse_at_old_bound() {
    round_trip(255, 255);
}

/// Message of 1000 characters and responses of 300 characters: body 2213.
#[test]
fn gmresponse_message_1000_responses_300() {
    round_trip(1000, 300);
}

/// Exactly the maximum of the definition: 2000 / 4000 characters, body 18013.
#[test]
fn gmresponse_at_declared_maximum() {
    round_trip(2000, 4000);
}

/// Control: one character more than the definition allows is still rejected (body 18014).
#[test]
fn gmresponse_above_declared_maximum_is_rejected() {
    let m = SMSG_GMRESPONSE_RECEIVED {
        response_id: 1,
        ticket_id: 2,
        message: "m".repeat(2001),
        response: [
            "a".repeat(4000),
            "b".repeat(4000),
            "c".repeat(4000),
            "d".repeat(4000),
        ],
    };
    let mut bytes = Vec::new();
    m.write_unencrypted_server(&mut bytes).unwrap();

    let e = ServerOpcodeMessage::read_unencrypted(&mut std::io::Cursor::new(&bytes)).unwrap_err();
    let e = format!("{e:?}");
    assert!(e.contains("InvalidSize"), "{e}");
}

/// The other tagged member of the corpus: `CString member { maximum_length = "48"; }`.
/// 48 characters are accepted (body 4+49+4 = 57). 49 characters are not allowed by the
/// definition: accepted by the old bound (264), rejected by the new one (57).
#[test]
fn party_command_result_follows_its_tag() {
    use wow_world_messages::wrath::{PartyOperation, PartyResult, SMSG_PARTY_COMMAND_RESULT};

    let m = SMSG_PARTY_COMMAND_RESULT {
        operation: PartyOperation::Invite,
        member: "n".repeat(48),
        result: PartyResult::Success,
    };
    let mut bytes = Vec::new();
    m.write_unencrypted_server(&mut bytes).unwrap();
    match ServerOpcodeMessage::read_unencrypted(&mut std::io::Cursor::new(&bytes)) {
        Ok(ServerOpcodeMessage::SMSG_PARTY_COMMAND_RESULT(r)) => assert_eq!(*r, m),
        other => panic!("{other:?}"),
    }

    let m = SMSG_PARTY_COMMAND_RESULT {
        member: "n".repeat(49),
        ..m
    };
    let mut bytes = Vec::new();
    m.write_unencrypted_server(&mut bytes).unwrap();
    let e = ServerOpcodeMessage::read_unencrypted(&mut std::io::Cursor::new(&bytes)).unwrap_err();
    let e = format!("{e:?}");
    assert!(e.contains("InvalidSize"), "{e}");
}

/// Not about the tag, but about the second half of the repair (`read_c_string_to_vec`):
/// a message with two untagged CStrings has the bound 2 * 256, so one of them may be longer
/// than 256 bytes. The old reader stopped at 256 bytes, dropped the 257th byte and continued
/// with the next member in the middle of the string: accepted, but with different contents.
#[test]
fn untagged_cstring_longer_than_256_inside_the_bound() {
    use wow_world_messages::wrath::opcodes::ClientOpcodeMessage;
    use wow_world_messages::wrath::{ClientMessage, CMSG_CHANNEL_PASSWORD};

    let m = CMSG_CHANNEL_PASSWORD {
        channel_name: "n".repeat(300),
        channel_password: "p".repeat(10),
    };
    let mut bytes = Vec::new();
    m.write_unencrypted_client(&mut bytes).unwrap();
    match ClientOpcodeMessage::read_unencrypted(&mut std::io::Cursor::new(&bytes)) {
        Ok(ClientOpcodeMessage::CMSG_CHANNEL_PASSWORD(r)) => assert_eq!(*r, m),
        other => panic!("{other:?}"),
    }
}
