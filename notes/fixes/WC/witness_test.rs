//! Witness for the Wrath server header of `compressed` messages.
//!
//! cargo test -p wow_world_messages --offline -j 4 \
//!     --features "sync tokio async-std wrath encryption" \
//!     --test wc_compressed_large_header -- --nocapture
#![cfg(all(
    feature = "sync",
    feature = "tokio",
    feature = "async-std",
    feature = "wrath",
    feature = "encryption"
))]

use std::collections::BTreeMap;
use std::convert::TryInto;
use std::io::Cursor;

use wow_srp::normalized_string::NormalizedString;
use wow_srp::wrath_header::{
    ClientDecrypterHalf, ClientEncrypterHalf, ProofSeed, ServerDecrypterHalf, ServerEncrypterHalf,
};
use wow_world_messages::wrath::opcodes::{ClientOpcodeMessage, ServerOpcodeMessage};
use wow_world_messages::wrath::{
    ClientMessage, Object, ServerMessage, CMSG_UPDATE_ACCOUNT_DATA, SMSG_COMPRESSED_UPDATE_OBJECT,
};
use wow_world_messages::{Guid, Message};

const OPCODE: u16 = 0x01F6; // SMSG_COMPRESSED_UPDATE_OBJECT

struct Rng(u64);

impl Rng {
    fn next(&mut self) -> u64 {
        // xorshift64*
        self.0 ^= self.0 >> 12;
        self.0 ^= self.0 << 25;
        self.0 ^= self.0 >> 27;
        self.0.wrapping_mul(0x2545_F491_4F6C_DD1D)
    }

    /// u64 without any zero byte: the packed form is always 9 bytes and does not compress.
    fn guid(&mut self) -> u64 {
        let mut b = self.next().to_le_bytes();
        for x in b.iter_mut() {
            if *x == 0 {
                *x = 0xA5;
            }
        }
        u64::from_le_bytes(b)
    }
}

/// `amount` incompressible guids, the last two cut down to `keep.0` / `keep.1` non zero bytes
/// (fine adjustment of the compressed size).
fn message(amount: usize, keep: (usize, usize)) -> SMSG_COMPRESSED_UPDATE_OBJECT {
    let mut rng = Rng(0x9E37_79B9_7F4A_7C15);
    let mut guids: Vec<Guid> = (0..amount).map(|_| Guid::new(rng.guid())).collect();
    for (i, keep) in [keep.0, keep.1].into_iter().enumerate() {
        if i < amount {
            let mask = if keep >= 8 {
                u64::MAX
            } else {
                (1_u64 << (8 * keep)) - 1
            };
            let g = &mut guids[amount - 1 - i];
            *g = Guid::new((g.guid() & mask) | 1);
        }
    }
    SMSG_COMPRESSED_UPDATE_OBJECT {
        objects: vec![Object::OutOfRangeObjects { guids }],
    }
}

fn body_len(m: &SMSG_COMPRESSED_UPDATE_OBJECT) -> usize {
    let mut v = Vec::new();
    m.write_into_vec(&mut v).unwrap();
    v.len()
}

/// The rule of wowm_language/src/spec/implementing_world.md, written down independently of the library.
fn expected_server_header(body: usize, opcode: u16) -> Vec<u8> {
    let size = body + 2;
    let o = opcode.to_le_bytes();
    if size > 0x7FFF {
        vec![
            0x80 | (size >> 16) as u8,
            (size >> 8) as u8,
            size as u8,
            o[0],
            o[1],
        ]
    } else {
        vec![(size >> 8) as u8, size as u8, o[0], o[1]]
    }
}

fn hex(b: &[u8]) -> String {
    b.iter()
        .map(|x| format!("{x:02x}"))
        .collect::<Vec<_>>()
        .join(" ")
}

type Halves = (
    ServerEncrypterHalf,
    ServerDecrypterHalf,
    ClientEncrypterHalf,
    ClientDecrypterHalf,
);

fn crypto() -> Halves {
    let session_key: [u8; 40] = [
        239, 107, 150, 237, 174, 220, 162, 4, 138, 56, 166, 166, 138, 152, 188, 146, 96, 151, 1,
        201, 202, 137, 231, 87, 203, 23, 62, 17, 7, 169, 178, 1, 51, 208, 202, 223, 26, 216, 250,
        9,
    ];
    let username: NormalizedString = "A".try_into().unwrap();
    let server_seed = ProofSeed::new();
    let client_seed = ProofSeed::new();
    let (proof, client) =
        client_seed.into_client_header_crypto(&username, session_key, server_seed.seed());
    let server = server_seed
        .into_server_header_crypto(&username, session_key, proof, client_seed.seed())
        .unwrap();
    let (se, sd) = server.split();
    let (ce, cd) = client.split();
    (se, sd, ce, cd)
}

/// Returns the list of problems found for this message (empty: everything is right).
fn check(m: &SMSG_COMPRESSED_UPDATE_OBJECT, body: usize) -> Vec<String> {
    let mut problems = Vec::new();
    let header = expected_server_header(body, OPCODE);

    // ---- unencrypted
    let mut frame = Vec::new();
    m.write_unencrypted_server(&mut frame).unwrap();
    let shown = hex(&frame[..frame.len().min(5)]);
    if frame.len() != header.len() + body {
        problems.push(format!(
            "unencrypted: frame is {} bytes, expected {} + {}",
            frame.len(),
            header.len(),
            body
        ));
    }
    if !frame.starts_with(&header) {
        problems.push(format!(
            "unencrypted: header [{shown}] expected [{}]",
            hex(&header)
        ));
    }
    match ServerOpcodeMessage::read_unencrypted(&mut Cursor::new(&frame)) {
        Ok(ServerOpcodeMessage::SMSG_COMPRESSED_UPDATE_OBJECT(r)) => {
            if *r != *m {
                problems.push("unencrypted: read back a different value".to_string());
            }
        }
        Ok(o) => problems.push(format!(
            "unencrypted: read back as another message ({:.40}...)",
            format!("{o:?}")
        )),
        Err(e) => problems.push(format!("unencrypted: read back failed: {:.90}", e.to_string())),
    }

    // the async variants are generated from the same printer function
    let tokio_frame = {
        let mut v = Vec::new();
        tokio::runtime::Builder::new_current_thread()
            .build()
            .unwrap()
            .block_on(m.tokio_write_unencrypted_server(&mut v))
            .unwrap();
        v
    };
    let astd_frame = {
        let mut v = Vec::new();
        async_std::task::block_on(m.astd_write_unencrypted_server(&mut v)).unwrap();
        v
    };
    if tokio_frame != frame || astd_frame != frame {
        problems.push("unencrypted: tokio / async-std frame differs from sync frame".to_string());
    }

    // ---- encrypted
    let (mut se, _, _, mut cd) = crypto();
    let (se_tokio, se_astd) = (se.clone(), se.clone());
    let mut enc = Vec::new();
    m.write_encrypted_server(&mut enc, &mut se).unwrap();

    let mut plain = enc[..enc.len().min(header.len())].to_vec();
    cd.clone().decrypt(&mut plain);
    if enc.len() != header.len() + body {
        problems.push(format!(
            "encrypted: frame is {} bytes, expected {} + {}",
            enc.len(),
            header.len(),
            body
        ));
    }
    if plain != header {
        problems.push(format!(
            "encrypted: decrypted header [{}] expected [{}]",
            hex(&plain),
            hex(&header)
        ));
    }
    if enc.len() >= header.len() && frame.len() >= header.len() {
        let (a, b) = (&enc[header.len()..], &frame[frame.len().min(header.len())..]);
        if a != b && problems.is_empty() {
            problems.push("encrypted: body differs from the unencrypted body".to_string());
        }
    }
    match ServerOpcodeMessage::read_encrypted(&mut Cursor::new(&enc), &mut cd) {
        Ok(ServerOpcodeMessage::SMSG_COMPRESSED_UPDATE_OBJECT(r)) => {
            if *r != *m {
                problems.push("encrypted: read back a different value".to_string());
            }
        }
        Ok(o) => problems.push(format!(
            "encrypted: read back as another message ({:.40}...)",
            format!("{o:?}")
        )),
        Err(e) => problems.push(format!("encrypted: read back failed: {:.90}", e.to_string())),
    }

    let tokio_enc = {
        let mut v = Vec::new();
        let mut e = se_tokio;
        tokio::runtime::Builder::new_current_thread()
            .build()
            .unwrap()
            .block_on(m.tokio_write_encrypted_server(&mut v, &mut e))
            .unwrap();
        v
    };
    let astd_enc = {
        let mut v = Vec::new();
        let mut e = se_astd;
        async_std::task::block_on(m.astd_write_encrypted_server(&mut v, &mut e)).unwrap();
        v
    };
    if tokio_enc != enc || astd_enc != enc {
        problems.push("encrypted: tokio / async-std frame differs from sync frame".to_string());
    }

    problems
}

#[test]
fn wrath_compressed_server_header() {
    // Find messages for every compressed body size that can be hit around the switch.
    // One more incompressible guid adds about 9 bytes, cutting the last guid short removes 1..7.
    let mut cases: BTreeMap<usize, (usize, (usize, usize))> = BTreeMap::new();
    for amount in 3000..6000 {
        let size = body_len(&message(amount, (8, 8)));
        if size < 0x7FF0 - 16 {
            continue;
        }
        if size > 0x8010 + 16 {
            break;
        }
        for keep in (1..=8).flat_map(|a| (1..=8).map(move |b| (a, b))) {
            let size = body_len(&message(amount, keep));
            if (0x7FF0..=0x8010).contains(&size) {
                cases.entry(size).or_insert((amount, keep));
            }
        }
    }
    for amount in [1, 110, 3000, 5000, 7000, 20000] {
        cases
            .entry(body_len(&message(amount, (8, 8))))
            .or_insert((amount, (8, 8)));
    }

    println!(
        "{} cases; body sizes hit in 0x7FF0..=0x8010: {:x?}",
        cases.len(),
        cases
            .keys()
            .filter(|s| (0x7FF0..=0x8010).contains(*s))
            .collect::<Vec<_>>()
    );
    for must in [0x7FFB_usize, 0x7FFC, 0x7FFD, 0x7FFE, 0x7FFF, 0x8000] {
        assert!(cases.contains_key(&must), "no message with a body of {must:#x} bytes found");
    }

    let mut failed = 0;
    for (size, (amount, keep)) in &cases {
        let m = message(*amount, *keep);
        let problems = check(&m, *size);
        let mut frame = Vec::new();
        m.write_unencrypted_server(&mut frame).unwrap();
        println!(
            "guids {amount:>5} (last two keep {keep:?}) compressed body {size:>6} ({size:#07x}) frame starts [{}] expected [{}] : {}",
            hex(&frame[..5]),
            hex(&expected_server_header(*size, OPCODE)),
            if problems.is_empty() { "ok" } else { "FAIL" }
        );
        for p in &problems {
            println!("      {p}");
        }
        if !problems.is_empty() {
            failed += 1;
        }
    }
    assert_eq!(failed, 0, "{failed} of {} cases are wrong", cases.len());
}

/// Second manifestation in the same printer function: the override of a Wrath CLIENT message
/// (size field always 2 bytes) also patched byte 2 when the size is larger than 0x7FFF,
/// which zeroes the low byte of the opcode.
#[test]
fn wrath_compressed_client_header() {
    let mut rng = Rng(0x1234_5678_9ABC_DEF1);
    let mut failed = 0;
    for amount in [1000_usize, 4000, 4200, 6000] {
        let data: Vec<u8> = (0..amount).flat_map(|_| rng.next().to_le_bytes()).collect();
        let m = CMSG_UPDATE_ACCOUNT_DATA {
            data_type: 7,
            unix_time: 1_700_000_000,
            compressed_data: data,
        };
        let mut body = Vec::new();
        m.write_into_vec(&mut body).unwrap();
        let size = body.len() + 4;
        let expected = [(size >> 8) as u8, size as u8, 0x0B, 0x02, 0x00, 0x00];

        let mut frame = Vec::new();
        m.write_unencrypted_client(&mut frame).unwrap();
        let mut ok = frame.starts_with(&expected) && frame.len() == 6 + body.len();
        ok &= matches!(
            ClientOpcodeMessage::read_unencrypted(&mut Cursor::new(&frame)),
            Ok(ClientOpcodeMessage::CMSG_UPDATE_ACCOUNT_DATA(ref r)) if **r == m
        );

        let (_, mut sd, mut ce, _) = crypto();
        let mut enc = Vec::new();
        m.write_encrypted_client(&mut enc, &mut ce).unwrap();
        let mut plain: [u8; 6] = enc[..6].try_into().unwrap();
        sd.clone().decrypt(&mut plain);
        let enc_ok = plain == expected
            && matches!(
                ClientOpcodeMessage::read_encrypted(&mut Cursor::new(&enc), &mut sd),
                Ok(ClientOpcodeMessage::CMSG_UPDATE_ACCOUNT_DATA(ref r)) if **r == m
            );

        println!(
            "client body {:>6} ({:#07x}) frame starts [{}] expected [{}] : unencrypted {} encrypted {}",
            body.len(),
            body.len(),
            hex(&frame[..6]),
            hex(&expected),
            if ok { "ok" } else { "FAIL" },
            if enc_ok { "ok" } else { "FAIL" },
        );
        if !ok || !enc_ok {
            failed += 1;
        }
    }
    assert_eq!(failed, 0);
}
