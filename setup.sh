#!/bin/sh
# Builds the framework offline from files on disk. Idempotent.
set -e
cd "$(dirname "$0")"
export CARGO_NET_OFFLINE=true
mkdir -p .cache work evidence replays
(cd harness && cargo build --offline -p vh_base -p vh 2>&1 | tail -3)
echo "setup done"
