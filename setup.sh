#!/bin/sh
# Builds the framework offline from files on disk. Idempotent.
set -e
cd "$(dirname "$0")"
export CARGO_NET_OFFLINE=true
mkdir -p .cache work evidence replays
# generated harness glue (from the front-end's object table / published docs)
python3 -m tools.gen_dispatch > /dev/null
for g in tools/gen_mask.py tools/gen_definer.py tools/gen_chunks.py; do
  if [ -f "$g" ]; then python3 -m "tools.$(basename "$g" .py)" > /dev/null || true; fi
done
(cd harness && cargo build --offline -p vh_base -p vh 2>&1 | tail -3)
echo "setup done"
