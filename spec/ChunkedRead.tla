----------------------------- MODULE ChunkedRead -----------------------------
(***************************************************************************)
(* A byte transport that hands a message over in pieces, under a reader    *)
(* that asks for it with a fixed sequence of read_exact(n) requests.       *)
(*                                                                         *)
(* The transport (environment) may, each time the reader has nothing left  *)
(* to work on and polls it,                                                *)
(*   Deliver(k)     make k >= 1 further bytes available,                   *)
(*   ReturnPending  answer "nothing yet" (the poll yields no byte),        *)
(*   Eof            close the stream at the prefix delivered so far.       *)
(* The reader (system)                                                     *)
(*   Take           moves available bytes into the buffer of its current   *)
(*                  request - at most as many as the request still lacks,  *)
(*                  so a short chunk leaves the request partly filled and  *)
(*                  that partial fill must survive any number of polls,    *)
(*   CompleteRead   returns the current request once it is full and goes   *)
(*                  on to the next one (enabled only if                    *)
(*                  consumed + script[pc] <= delivered, invariant below).  *)
(*                                                                         *)
(* A subject is a message shape: its length L and its read script (sizes   *)
(* of the successive requests; for login messages the field events of the  *)
(* WowmWire behaviour, for world messages the header grammar of            *)
(* implementing_world.md: size field, opcode, body).  Subjects are loaded  *)
(* from IOEnv.C06_SUBJECTS (ndjson: sid, L, script, maxpend, emit).        *)
(*                                                                         *)
(* A behaviour's transport side - the chunk sizes, the Pending answers and *)
(* the Eof position - is a SCHEDULE.  Terminal states print it as a REPLAY *)
(* record; the harness drives a scripted AsyncRead/AsyncWrite with it.     *)
(*                                                                         *)
(* Modes (IOEnv.C06_MODE):                                                 *)
(*  "enum" exhaustive: every composition of the delivered prefix into      *)
(*         chunks, 0..MaxRun Pending answers before each chunk / the Eof   *)
(*         (at most subject.maxpend per schedule), Eof at every prefix     *)
(*         (the transport may close whenever it is polled).                *)
(*  "sim"  for -simulate: one walk visits every subject once (NextSubject) *)
(*         with a random schedule; chunk sizes from a ladder; the closing  *)
(*         prefix is planned when the subject starts (`plan`) so that half *)
(*         of the schedules end in Eof, at a uniformly chosen prefix.      *)
(*  "live" no history, unbounded Pending answers: termination under weak   *)
(*         fairness of the transport making progress and of the reader.    *)
(***************************************************************************)
EXTENDS Integers, Sequences, FiniteSets, TLC, Json, IOUtils

Subjects == ndJsonDeserialize(IOEnv.C06_SUBJECTS)
Mode     == IOEnv.C06_MODE
MaxRun   == atoi(IOEnv.C06_MAXRUN)      \* Pending answers in a row (enum / sim)
(* self-test only: "" = the specification; "drop" = Take loses a byte when it splits a chunk;  *)
(* "forget" = a Pending answer makes the reader forget its partly filled request              *)
Mutant   == IOEnv.C06_MUTANT

NSubj == Len(Subjects)

VARIABLES sid,        \* index of the subject in Subjects
          delivered,  \* bytes the transport has made available so far (they are bytes 1..delivered)
          consumed,   \* bytes returned to the decoder by completed requests
          pc,         \* position in the read script
          pollState,  \* answer to the last poll / outcome: start ready pending done failed
          eofAt,      \* prefix at which the transport closed, -1 = it has not closed
          buf,        \* available bytes not yet taken by the reader (byte numbers, FIFO)
          fill,       \* bytes gathered so far for the current request
          got,        \* bytes returned to the decoder, in the order returned
          run, npend, \* Pending answers in a row / in this schedule
          sched,      \* history: the schedule so far (k > 0: chunk of k bytes, 0: Pending)
          plan        \* sim only: p >= 0 = the transport will close at prefix p, p < 0 = it will not

vars == <<sid, delivered, consumed, pc, pollState, eofAt, buf, fill, got, run, npend, sched, plan>>

S      == Subjects[sid]
L      == S.L
Script == S.script
(* how far the transport can still deliver, and whether it may close now *)
Cap      == IF Mode = "sim" /\ plan >= 0 THEN plan ELSE L
MayClose == IF Mode = "sim" THEN delivered = plan ELSE delivered < L

RECURSIVE SumTo(_, _)
SumTo(s, i) == IF i = 0 THEN 0 ELSE SumTo(s, i - 1) + s[i]
(* evaluated once: CumTab[s][i + 1] = size of the first i requests of subject s *)
CumTab == [s \in 1..NSubj |-> [i \in 1..(Len(Subjects[s].script) + 1) |-> SumTo(Subjects[s].script, i - 1)]]
Cum(i) == CumTab[sid][i + 1]

ASSUME \A s \in 1..NSubj : /\ Subjects[s].L >= 1
                           /\ Len(Subjects[s].script) >= 1
                           /\ \A i \in 1..Len(Subjects[s].script) : Subjects[s].script[i] >= 1
                           /\ SumTo(Subjects[s].script, Len(Subjects[s].script)) = Subjects[s].L

Min(a, b) == IF a < b THEN a ELSE b
Range(a, n) == [i \in 1..n |-> a + i]       \* bytes a+1 .. a+n

Terminal == pollState \in {"done", "failed"}
Reading  == ~Terminal /\ pc <= Len(Script)
Need     == Script[pc]
(* the reader has used up everything available and its request is not full: it polls *)
Blocked  == Reading /\ buf = <<>> /\ Len(fill) < Need

(* chunk sizes offered to a poll *)
Ladder == {1, 2, 3, 4, 6, 8, 12, 16, 24, 32, 64, 128}
ChunkChoices(rem) == IF Mode = "sim" THEN {k \in Ladder \cup {rem} : 1 <= k /\ k <= rem} ELSE 1..rem

---------------------------------------------------------------------------
Fresh(s, p) ==
    /\ sid = s /\ eofAt = -1 /\ plan = p
    /\ delivered = 0 /\ consumed = 0 /\ pc = 1 /\ pollState = "start"
    /\ buf = <<>> /\ fill = <<>> /\ got = <<>> /\ run = 0 /\ npend = 0 /\ sched = <<>>

(* sim: L plans without Eof (-L..-1) against L plans with Eof at prefix 0..L-1 *)
SimPlans(s) == (-Subjects[s].L)..(Subjects[s].L - 1)

Init ==
    IF Mode = "sim"
    THEN \E p \in SimPlans(1) : Fresh(1, p)
    ELSE \E s \in 1..NSubj : Fresh(s, -1)

Deliver(k) ==
    /\ Blocked
    /\ k >= 1 /\ delivered + k <= Cap
    /\ buf' = Range(delivered, k)
    /\ delivered' = delivered + k
    /\ pollState' = "ready"
    /\ run' = 0
    /\ sched' = IF Mode = "live" THEN sched ELSE Append(sched, k)
    /\ UNCHANGED <<sid, consumed, pc, eofAt, fill, got, npend, plan>>

ReturnPending ==
    /\ Blocked
    /\ Mode = "live" \/ (run < MaxRun /\ npend < S.maxpend)
    /\ pollState' = "pending"
    /\ run' = IF Mode = "live" THEN run ELSE run + 1
    /\ npend' = IF Mode = "live" THEN npend ELSE npend + 1
    /\ sched' = IF Mode = "live" THEN sched ELSE Append(sched, 0)
    /\ fill' = IF Mutant = "forget" THEN <<>> ELSE fill
    /\ UNCHANGED <<sid, delivered, consumed, pc, eofAt, buf, got, plan>>

(* the transport closes: the pending request can never be filled, the read fails *)
Eof ==
    /\ Blocked
    /\ MayClose
    /\ eofAt' = delivered
    /\ pollState' = "failed"
    /\ UNCHANGED <<sid, delivered, consumed, pc, buf, fill, got, run, npend, sched, plan>>

Take ==
    /\ Reading /\ buf # <<>> /\ Len(fill) < Need
    /\ LET n == Min(Need - Len(fill), Len(buf)) IN
         /\ fill' = fill \o SubSeq(buf, 1, n)
         /\ buf' = IF Mutant = "drop" /\ n < Len(buf) THEN SubSeq(buf, n + 2, Len(buf))
                   ELSE SubSeq(buf, n + 1, Len(buf))
    /\ UNCHANGED <<sid, delivered, consumed, pc, pollState, eofAt, got, run, npend, sched, plan>>

CompleteRead ==
    /\ Reading /\ Len(fill) = Need
    /\ got' = got \o fill
    /\ consumed' = consumed + Need
    /\ fill' = <<>>
    /\ pc' = pc + 1
    /\ pollState' = IF pc = Len(Script) THEN "done" ELSE pollState
    /\ UNCHANGED <<sid, delivered, eofAt, buf, run, npend, sched, plan>>

(* sim only: the walk goes on with the next subject *)
NextSubject ==
    /\ Mode = "sim" /\ Terminal /\ sid < NSubj
    /\ sid' = sid + 1 /\ eofAt' = -1
    /\ plan' \in SimPlans(sid + 1)
    /\ delivered' = 0 /\ consumed' = 0 /\ pc' = 1 /\ pollState' = "start"
    /\ buf' = <<>> /\ fill' = <<>> /\ got' = <<>> /\ run' = 0 /\ npend' = 0 /\ sched' = <<>>

DeliverAny == \E k \in ChunkChoices(Cap - delivered) : Deliver(k)
Transport == DeliverAny \/ Eof
Reader    == Take \/ CompleteRead
Next      == Transport \/ ReturnPending \/ Reader \/ NextSubject

Spec == Init /\ [][Next]_vars

(* live: the transport eventually answers a poll with bytes or with Eof; the reader keeps going *)
LiveSpec == Spec /\ WF_vars(Transport) /\ WF_vars(Reader)

---------------------------------------------------------------------------
TypeOK ==
    /\ sid \in 1..NSubj
    /\ delivered \in 0..L /\ consumed \in 0..L /\ pc \in 1..(Len(Script) + 1)
    /\ pollState \in {"start", "ready", "pending", "done", "failed"}
    /\ eofAt \in -1..(L - 1) /\ plan \in (-L)..(L - 1)
    /\ run \in 0..MaxRun /\ npend >= 0

(* every byte made available is in exactly one place, and the places line up in byte order: *)
(* nothing lost, nothing duplicated, nothing reordered, whatever was polled in between      *)
NoLoss ==
    /\ got \o fill \o buf = Range(0, delivered)
    /\ consumed = Len(got)
    /\ delivered <= Cap
    /\ Reading => Len(fill) <= Need

(* the guard of the design: a request completes only on bytes that were delivered, and the *)
(* reader only polls when the delivered bytes do not fill its request                      *)
CompleteGuard ==
    /\ (Reading /\ Len(fill) = Need) => consumed + Need <= delivered
    /\ Blocked => consumed + Need > delivered
    /\ consumed = Cum(pc - 1)

(* what a blocking reader makes of the content p bytes long: the outcome as a function of content *)
Blocking(p) ==
    LET n == CHOOSE i \in 0..Len(Script) : Cum(i) <= p /\ (i = Len(Script) \/ Cum(i + 1) > p)
    IN [st |-> IF n = Len(Script) THEN "done" ELSE "failed", consumed |-> Cum(n), pc |-> n + 1]

Outcome == [st |-> pollState, consumed |-> consumed, pc |-> pc]

ScheduleIndependent ==
    Terminal => /\ Outcome = Blocking(delivered)
                /\ pollState = "failed" <=> eofAt = delivered
                /\ pollState = "done" <=> (eofAt = -1 /\ delivered = L)
                /\ got = Range(0, consumed)

RECURSIVE SumSeq(_)
SumSeq(s) == IF s = <<>> THEN 0 ELSE Head(s) + SumSeq(Tail(s))
SchedShape == (Terminal /\ Mode # "live") => SumSeq(sched) = delivered

InOrder == [][sid' = sid => (delivered' >= delivered /\ consumed' >= consumed /\ pc' >= pc)]_vars

Termination == <>Terminal

---------------------------------------------------------------------------
(* Behaviour record: the schedule and the content prefix that, by ScheduleIndependent, decides *)
(* the outcome.  Printed for the subjects flagged `emit` (one per message length: the set of   *)
(* schedules is the same for every script of that length, SchedShape).                         *)
Emit ==
    (Terminal /\ Mode # "live" /\ S.emit = 1) =>
        PrintT("REPLAY " \o ToJson([kind |-> "sched", sid |-> S.sid, L |-> L, sched |-> sched,
                                    eof |-> eofAt, st |-> pollState, consumed |-> consumed, pc |-> pc]))
=============================================================================
