SPECIFICATION LiveSpec
INVARIANT TypeOK
INVARIANT NoLoss
INVARIANT CompleteGuard
INVARIANT ScheduleIndependent
PROPERTY InOrder
PROPERTY Termination
CHECK_DEADLOCK FALSE
