SPECIFICATION Spec
INVARIANT TypeOK
INVARIANT NoLoss
INVARIANT CompleteGuard
INVARIANT ScheduleIndependent
INVARIANT SchedShape
INVARIANT Emit
PROPERTY InOrder
CHECK_DEADLOCK FALSE
