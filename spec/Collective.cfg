SPECIFICATION ColSpec
INVARIANT EmitCol
INVARIANT FieldsEmbed
CHECK_DEADLOCK FALSE
