----------------------------- MODULE Collective -----------------------------
(***************************************************************************)
(* C14: login protocol-version views.  For a message family F (a login      *)
(* message name that exists in the latest protocol version, 8) and an older *)
(* version N, Lift_N embeds a version-N value into the version-8 shape and  *)
(* Lower_N projects back.  Lower_N o Lift_N = id can only hold if every      *)
(* field of the version-N definition has a place in the version-8           *)
(* definition: this module checks that design-level condition on the        *)
(* definitions (FieldsEmbed); the values themselves - every canonical        *)
(* encoding of every version's message - are the behaviours of WowmWire,     *)
(* which the harness lifts, lowers, re-encodes and sends through the         *)
(* protocol-parameterised API.                                               *)
(*                                                                          *)
(* State machine: one step per (family, older version) pair.                 *)
(***************************************************************************)
EXTENDS WowmWire

VARIABLES ci, cverdict

OldVersions == {2, 3, 5, 6, 7}
LoginMsgIds == {i \in 1..Len(Objs) : Objs[i].kind \in {"clogin", "slogin"} /\ ~Objs[i].test}
InV(i, n) == InCtx(Objs[i], LoginCtx(n))
Families == {Objs[i].name : i \in {j \in LoginMsgIds : InV(j, 8)}}
Pairs == {<<i, n>> \in LoginMsgIds \X OldVersions : InV(i, n) /\ Objs[i].name \in Families}
PairSeq == SetToSeq(Pairs)
Latest(name) == CHOOSE i \in LoginMsgIds : Objs[i].name = name /\ InV(i, 8)

RECURSIVE FieldsOf(_)
(* declared field names with their type names, through if / else / optional blocks *)
FieldsOf(b) ==
    UNION {LET i == Blks[b].ins[k] IN
           CASE i.op = "decl" -> {<<i.name, IF i.builtin THEN i.ty ELSE "user", i.arr>>}
             [] i.op = "if" -> UNION {FieldsOf(i.arms[a].blk) : a \in 1..Len(i.arms)}
                               \cup (IF i.els > 0 THEN FieldsOf(i.els) ELSE {})
             [] i.op = "opt" -> FieldsOf(i.blk)
             [] OTHER -> {}
           : k \in 1..Len(Blks[b].ins)}

Names(S) == {f[1] : f \in S}

JudgePair(p) ==
    LET old == Objs[p[1]]
        new == Objs[Latest(old.name)]
        fo == FieldsOf(old.blk)
        fn == FieldsOf(new.blk)
        \* padding constants carry no information and need no place in the collective type
        info == {f \in fo : ~\E k \in 1..Len(Blks[old.blk].ins) :
                              Blks[old.blk].ins[k].op = "decl" /\ Blks[old.blk].ins[k].name = f[1] /\ Blks[old.blk].ins[k].hasc}
        missing == {f[1] : f \in {g \in info : g[1] \notin Names(fn)}}
    IN [name |-> old.name, lv |-> p[2], fields |-> Cardinality(fo), latest_fields |-> Cardinality(fn),
        missing |-> missing, embeds |-> missing = {}]

Frozen == /\ root = 0 /\ prof = 0 /\ stack = <<>> /\ scopes = <<>> /\ out = <<>> /\ fi = 0
          /\ regions = <<>> /\ sizepos = 0 /\ sizew = 0 /\ phase = "collective" /\ note = "" /\ ev = <<>>
ColInit == Frozen /\ ci = 1 /\ cverdict = JudgePair(PairSeq[1])
ColNext == ci < Len(PairSeq) /\ ci' = ci + 1 /\ cverdict' = JudgePair(PairSeq[ci + 1]) /\ UNCHANGED vars
ColSpec == ColInit /\ [][ColNext]_<<ci, cverdict, vars>>

(* the design-level condition of losslessness *)
FieldsEmbed == cverdict.embeds
EmitCol == PrintT("REPLAY " \o ToJson([kind |-> "embed"] @@ [cverdict EXCEPT !.missing = SetToSeq(@)]))
=============================================================================
