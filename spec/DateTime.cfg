SPECIFICATION Spec
INVARIANT TypeOK
INVARIANT WalkAgrees
INVARIANT OneWeekday
INVARIANT NoDayBeyond
INVARIANT Emit
CHECK_DEADLOCK FALSE
