----------------------------- MODULE DateTime -----------------------------
(***************************************************************************)
(* The calendar behind the wowm `DateTime` type (types/datetime.md):       *)
(*   u32 = years_after_2000 << 24 | month << 20 | month_day << 14          *)
(*         | weekday << 11 | hours << 6 | minutes                          *)
(* all fields zero based, weekday 0 = Sunday.                              *)
(*                                                                         *)
(* Two small machines run in one module (selected by `mode`):              *)
(*  "cal"   - the calendar walks day by day from Saturday 2000-01-01 to    *)
(*            2255-12-31.  State (y, m, d, w) plus the weekdays of the     *)
(*            current month so far.  Invariants tie the walked weekday to  *)
(*            the closed-form day count (two independent definitions).     *)
(*  "clock" - the clock walks minute by minute through the 5-bit hour and  *)
(*            6-bit minute fields (all 32 x 64 field values).              *)
(* At the last day of every month the model prints one record - the        *)
(* weekday of every day of that month - and for every (hour, minute)       *)
(* field value whether it is a valid time.  Those records ARE the truth    *)
(* table of the property; the harness only looks values up in them.        *)
(***************************************************************************)
EXTENDS Naturals, Sequences, FiniteSets, TLC, Json

VARIABLES mode, y, m, d, w, wk, h, mi

vars == <<mode, y, m, d, w, wk, h, mi>>

Years  == 0..255
Months == 0..11

Leap(yy) == LET Y == 2000 + yy IN (Y % 4 = 0 /\ Y % 100 # 0) \/ Y % 400 = 0

DaysIn(mm, yy) ==
    CASE mm \in {0, 2, 4, 6, 7, 9, 11} -> 31
      [] mm \in {3, 5, 8, 10}          -> 30
      [] mm = 1                        -> IF Leap(yy) THEN 29 ELSE 28

DaysInYear(yy) == IF Leap(yy) THEN 366 ELSE 365

(* Closed form, independent of the walk: days elapsed since 2000-01-01, by plain counting *)
(* (no Rata Die arithmetic): whole years, then the days of the months before mm, then dd.  *)
LeapYearsBefore == [yy \in 0..256 |-> Cardinality({k \in 0..255 : k < yy /\ Leap(k)})]
YearStart(yy) == 365 * yy + LeapYearsBefore[yy]
MonthStartTab ==
    [yy \in Years, mm \in 0..12 |->
        Cardinality({p \in (0..11) \X (0..30) : p[1] < mm /\ p[2] < DaysIn(p[1], yy)})]
MonthStart(yy, mm) == MonthStartTab[yy, mm]
DayNumber(yy, mm, dd) == YearStart(yy) + MonthStart(yy, mm) + dd

(* 2000-01-01 was a Saturday; 0 = Sunday. *)
Weekday(yy, mm, dd) == (6 + DayNumber(yy, mm, dd)) % 7

(* The validity predicate of the property. *)
ValidDate(yy, mm, dd, ww) == mm < 12 /\ dd < DaysIn(mm, yy) /\ ww = Weekday(yy, mm, dd)
ValidTime(hh, mm) == hh < 24 /\ mm < 60
Valid(yy, mm, dd, ww, hh, mn) == ValidDate(yy, mm, dd, ww) /\ ValidTime(hh, mn)

---------------------------------------------------------------------------
Init ==
    \/ /\ mode = "cal" /\ y = 0 /\ m = 0 /\ d = 0 /\ w = 6 /\ wk = <<6>> /\ h = 0 /\ mi = 0
    \/ /\ mode = "clock" /\ y = 0 /\ m = 0 /\ d = 0 /\ w = 6 /\ wk = <<>> /\ h = 0 /\ mi = 0

LastOfMonth == d = DaysIn(m, y) - 1

NextDaySameMonth ==
    /\ mode = "cal" /\ ~LastOfMonth
    /\ d' = d + 1 /\ w' = (w + 1) % 7 /\ wk' = Append(wk, (w + 1) % 7)
    /\ UNCHANGED <<mode, y, m, h, mi>>

NextMonth ==
    /\ mode = "cal" /\ LastOfMonth /\ m < 11
    /\ m' = m + 1 /\ d' = 0 /\ w' = (w + 1) % 7 /\ wk' = <<(w + 1) % 7>>
    /\ UNCHANGED <<mode, y, h, mi>>

NextYear ==
    /\ mode = "cal" /\ LastOfMonth /\ m = 11 /\ y < 255
    /\ y' = y + 1 /\ m' = 0 /\ d' = 0 /\ w' = (w + 1) % 7 /\ wk' = <<(w + 1) % 7>>
    /\ UNCHANGED <<mode, h, mi>>

(* The clock visits every value of the two bit fields, valid or not. *)
TickMinute ==
    /\ mode = "clock" /\ mi < 63
    /\ mi' = mi + 1 /\ UNCHANGED <<mode, y, m, d, w, wk, h>>

TickHour ==
    /\ mode = "clock" /\ mi = 63 /\ h < 31
    /\ mi' = 0 /\ h' = h + 1 /\ UNCHANGED <<mode, y, m, d, w, wk>>

Next == NextDaySameMonth \/ NextMonth \/ NextYear \/ TickMinute \/ TickHour

Spec == Init /\ [][Next]_vars

---------------------------------------------------------------------------
TypeOK ==
    /\ mode \in {"cal", "clock"}
    /\ y \in Years /\ m \in Months /\ d \in 0..30 /\ w \in 0..6
    /\ h \in 0..31 /\ mi \in 0..63

(* The walked weekday equals the closed form: the two definitions agree on every day. *)
WalkAgrees == mode = "cal" => /\ d < DaysIn(m, y)
                              /\ w = Weekday(y, m, d)
                              /\ Len(wk) = d + 1
                              /\ wk[d + 1] = w
                              /\ ValidDate(y, m, d, w)

(* Exactly one weekday is valid for an existing date (so the table is a function). *)
OneWeekday == mode = "cal" => \A ww \in 0..7 : ValidDate(y, m, d, ww) <=> ww = w

(* A day index equal to the month length does not exist. *)
NoDayBeyond == mode = "cal" => \A ww \in 0..7 : ~ValidDate(y, m, DaysIn(m, y), ww)

(* Calendar lemmas (constant level). *)
ASSUME Leap(0) /\ ~Leap(100) /\ ~Leap(200) /\ Leap(4) /\ ~Leap(1) /\ Leap(96) /\ Leap(252)
ASSUME \A yy \in Years : DaysInYear(yy) = MonthStart(yy, 12)
ASSUME \A yy \in Years : DaysInYear(yy) \in {365, 366}
ASSUME Weekday(0, 0, 0) = 6                    \* Sat 2000-01-01
ASSUME Weekday(0, 1, 28) = 2                   \* Tue 2000-02-29
ASSUME Weekday(24, 1, 28) = 4                  \* Thu 2024-02-29
ASSUME Weekday(100, 0, 0) = 5                  \* Fri 2100-01-01
ASSUME DaysIn(1, 100) = 28 /\ DaysIn(1, 0) = 29
ASSUME YearStart(256) = 93502

---------------------------------------------------------------------------
(* Behaviour records for the replay (spec -> implementation). *)
EmitMonth ==
    (mode = "cal" /\ LastOfMonth) =>
        PrintT("REPLAY " \o ToJson([kind |-> "month", y |-> y, m |-> m, days |-> wk]))

EmitTime ==
    (mode = "clock") =>
        PrintT("REPLAY " \o ToJson([kind |-> "time", h |-> h, mi |-> mi, valid |-> ValidTime(h, mi)]))

Emit == EmitMonth /\ EmitTime
=============================================================================
