SPECIFICATION Spec
INVARIANT TypeOK
INVARIANT Injective
INVARIANT RoundTrip
INVARIANT ScanOK
INVARIANT FlagLaws
INVARIANT Emit
CHECK_DEADLOCK FALSE
