------------------------------ MODULE Definers ------------------------------
(***************************************************************************)
(* The meaning of wowm `enum` and `flag` definitions (lang-spec.md: "enum": *)
(* a value of the base type that is exactly one of the enumerators; "flag": *)
(* a value of the base type that is any combination of the enumerators;     *)
(* tags.md: zero_is_always_valid) and of the integer conversions the        *)
(* libraries offer on them, written as a small state machine that TLC runs  *)
(* over EVERY definer of the corpus (object table of the independent front  *)
(* end, loaded from JSON).                                                   *)
(*                                                                          *)
(* Integers.  TLC integers are 32 bit, the values here range over           *)
(* i64::MIN .. u64::MAX.  A mathematical integer is a 9-byte little-endian  *)
(* two's complement tuple ("num"); a raw flag value is a SET of bit         *)
(* positions.  Nothing wider than 16 bits is ever a TLC integer.            *)
(*                                                                          *)
(* Enum part (C11)                                                          *)
(*   FromInt(d, n)       partial function num -> enumerator index           *)
(*   AsInt(d, i)         its inverse on declared values                     *)
(*   TryFrom(d, T, pat)  conversion from a value of source type T given by  *)
(*                       its bit pattern: by numeric value when that value  *)
(*                       is representable in the base type, bit for bit     *)
(*                       when T has the base type's width and the other     *)
(*                       signedness, otherwise an error carrying the value  *)
(* Flag part (C12), on bit sets                                             *)
(*   Is, Set, Clear, New, Empty, All, And, Or, Xor, FlagFrom                *)
(*                                                                          *)
(* The machine: one linear walk per (definer, phase).  Every state is one   *)
(* question ("what does try_from::<T>(x) answer", "what is clear_x of v")   *)
(* and prints the answer as a REPLAY record; the Rust harness only looks    *)
(* answers up.  Model-level laws are invariants of the same walk.           *)
(***************************************************************************)
EXTENDS Integers, Sequences, FiniteSets, TLC, Json, IOUtils

Defs     == ndJsonDeserialize(IOEnv.DEF_TABLE)
NShards  == atoi(IOEnv.DEF_NSHARDS)
Shard    == atoi(IOEnv.DEF_SHARD)
BigN     == atoi(IOEnv.DEF_BIGN)      \* enums with more enumerators get neighbour probes on a sample
ScanMod  == atoi(IOEnv.DEF_SCANMOD)   \* 16-bit source types are also scanned for the 8-bit enums with
ScanRem  == atoi(IOEnv.DEF_SCANREM)   \* id % ScanMod = ScanRem (ScanMod = 0: for none)
Tamper   == IOEnv.DEF_TAMPER          \* self-test only: deliberately wrong model (see TamperOn)

N == Len(Defs)

VARIABLES d, ph, t, cur, run, sec, i, k
vars == <<d, ph, t, cur, run, sec, i, k>>

---------------------------------------------------------------------------
(* Source integer types of the conversions. *)
Types  == <<"u8", "u16", "u32", "u64", "i8", "i16", "i32", "i64", "usize">>
TypeSet == {Types[j] : j \in 1..Len(Types)}
TW == [u8 |-> 1, u16 |-> 2, u32 |-> 4, u64 |-> 8, i8 |-> 1, i16 |-> 2, i32 |-> 4, i64 |-> 8, usize |-> 8]
TS == [u8 |-> FALSE, u16 |-> FALSE, u32 |-> FALSE, u64 |-> FALSE,
       i8 |-> TRUE, i16 |-> TRUE, i32 |-> TRUE, i64 |-> TRUE, usize |-> FALSE]

(* num of the value whose w-byte pattern is pat, read signed or unsigned *)
Ext(pat, w, s) == [j \in 1..9 |-> IF j <= w THEN pat[j] ELSE IF s /\ pat[w] >= 128 THEN 255 ELSE 0]
Num(T, pat) == Ext(pat, TW[T], TS[T])
(* is the num representable in a w-byte (un)signed type *)
Repr(w, s, n) == \A j \in (w + 1)..9 : n[j] = (IF s /\ n[w] >= 128 THEN 255 ELSE 0)
ReprT(T, n) == Repr(TW[T], TS[T], n)
Pat(n, w) == [j \in 1..w |-> n[j]]
PatOfInt(c, w) == [j \in 1..w |-> IF j = 1 THEN c % 256 ELSE (c \div 256) % 256]   \* w <= 2 only

(* ripple-carry addition on nums (mod 2^72) *)
RECURSIVE AddC(_, _, _, _)
AddC(a, b, j, c) == IF j > 9 THEN <<>>
                    ELSE LET s == a[j] + b[j] + c IN <<s % 256>> \o AddC(a, b, j + 1, s \div 256)
Add(a, b) == AddC(a, b, 1, 0)
Not9(a) == [j \in 1..9 |-> 255 - a[j]]
One == <<1, 0, 0, 0, 0, 0, 0, 0, 0>>
Zero9 == <<0, 0, 0, 0, 0, 0, 0, 0, 0>>
Neg(a) == Add(Not9(a), One)
Pow8(b) == [j \in 1..9 |-> IF j = b + 1 THEN 1 ELSE 0]       \* 2^(8b)

(* small nums as TLC integers - only used to tie the tuple arithmetic to ordinary arithmetic *)
IntOfSmall(n) == IF n[9] = 255 THEN -((255 - n[1]) + 256 * (255 - n[2]) + 1)
                 ELSE n[1] + 256 * n[2] + 65536 * n[3]

(* Conversion class of source type T into a base type (w bytes, signedness s): the table is total. *)
Class(w, s, T) == IF TW[T] = w /\ TS[T] # s /\ T # "usize" THEN "reinterpret" ELSE "numeric"

(* Self-test hook: a deliberately wrong model.  Never set in a real run. *)
TamperOn(what) == Tamper = what

---------------------------------------------------------------------------
(* Per-definer constants (evaluated once). *)
NE(x)      == Len(Defs[x].enums)
DeclSet    == [x \in 1..N |-> {Defs[x].enums[j].num : j \in 1..NE(x)}]
DeclBits   == [x \in 1..N |-> [j \in 1..NE(x) |-> {Defs[x].enums[j].bits[b] : b \in 1..Len(Defs[x].enums[j].bits)}]]
AllBits    == [x \in 1..N |-> UNION {DeclBits[x][j] : j \in 1..NE(x)}]
IsEnum(x)  == Defs[x].kind = "enum"
IsFlag(x)  == Defs[x].kind = "flag"
W(x)       == Defs[x].w
Sg(x)      == Defs[x].signed
Universe(x) == 0..(8 * W(x) - 1)
BaseType(x) == CHOOSE T \in TypeSet \ {"usize"} : TW[T] = W(x) /\ TS[T] = Sg(x)

(* ---- enum part ---- *)
AsInt(x, j) == Defs[x].enums[j].num
FromInt(x, n) ==
    IF n \in DeclSet[x]
    THEN [ok |-> TRUE, idx |-> CHOOSE j \in 1..NE(x) : Defs[x].enums[j].num = n]
    ELSE [ok |-> FALSE, idx |-> 0]

(* the integer that is looked up, or "not representable" *)
Key(x, T, pat) ==
    IF Class(W(x), Sg(x), T) = "reinterpret"
    THEN [ok |-> TRUE, n |-> Ext(pat, W(x), Sg(x))]
    ELSE LET n == Num(T, pat) IN [ok |-> Repr(W(x), Sg(x), n), n |-> n]

(* result: ok/idx, and for errors whether a second reported value is admissible (the same bits *)
(* read as the base type, when the conversion is a reinterpretation) *)
TryFrom(x, T, pat) ==
    LET key == Key(x, T, pat)
        r   == IF key.ok THEN FromInt(x, key.n) ELSE [ok |-> FALSE, idx |-> 0]
    IN [ok |-> r.ok, idx |-> r.idx, arg |-> Num(T, pat), alt |-> key.n]

(* ---- flag part ---- *)
Is(x, j, v)    == (DeclBits[x][j] \cap v # {}) \/ (Defs[x].zav /\ v = {})
SetF(x, j, v)  == v \cup DeclBits[x][j]
ClearF(x, j, v) == IF TamperOn("clear") THEN v \cap {8 * W(x) - 1 - b : b \in DeclBits[x][j]}
                   ELSE v \ DeclBits[x][j]
NewF(x, j)     == DeclBits[x][j]
EmptyF         == {}
AllF(x)        == AllBits[x]
AndF(a, b)     == a \cap b
OrF(a, b)      == a \cup b
XorF(a, b)     == (a \ b) \cup (b \ a)

ByteOf(S, b) == (IF 8 * b \in S THEN 1 ELSE 0) + (IF 8 * b + 1 \in S THEN 2 ELSE 0)
              + (IF 8 * b + 2 \in S THEN 4 ELSE 0) + (IF 8 * b + 3 \in S THEN 8 ELSE 0)
              + (IF 8 * b + 4 \in S THEN 16 ELSE 0) + (IF 8 * b + 5 \in S THEN 32 ELSE 0)
              + (IF 8 * b + 6 \in S THEN 64 ELSE 0) + (IF 8 * b + 7 \in S THEN 128 ELSE 0)
Bytes8(S) == [j \in 1..8 |-> ByteOf(S, j - 1)]
BitsOfPat(pat, w) == {b \in 0..(8 * w - 1) : (pat[(b \div 8) + 1] \div (2 ^ (b % 8))) % 2 = 1}
BitsOfInt(c) == {b \in 0..7 : (c \div (2 ^ b)) % 2 = 1}

(* conversion of an integer of type T into the flag's raw value *)
FlagFrom(x, T, pat) ==
    LET key == Key(x, T, pat) IN
    [ok |-> key.ok, raw |-> IF key.ok THEN BitsOfPat(Pat(key.n, W(x)), W(x)) ELSE {}]

---------------------------------------------------------------------------
(* Probe values *)
Variation(n, kk) ==
    CASE kk = 0 -> n
      [] kk = 1 -> Add(n, One)
      [] kk = 2 -> Add(n, Neg(One))
      [] kk = 3 -> Add(n, Pow8(1))
      [] kk = 4 -> Add(n, Neg(Pow8(1)))
      [] kk = 5 -> Add(n, Pow8(2))
      [] kk = 6 -> Add(n, Neg(Pow8(2)))
      [] kk = 7 -> Add(n, Pow8(4))
      [] kk = 8 -> Add(n, Neg(Pow8(4)))
NVar == 8

MaxOf(T) == Ext([j \in 1..TW[T] |-> IF j = TW[T] /\ TS[T] THEN 127 ELSE 255], TW[T], TS[T])
MinOf(T) == IF TS[T] THEN Ext([j \in 1..TW[T] |-> IF j = TW[T] THEN 128 ELSE 0], TW[T], TRUE) ELSE Zero9
ExtremeSet == UNION {{MaxOf(T), MinOf(T), Add(MaxOf(T), One), Add(MinOf(T), Neg(One)),
                      Add(MaxOf(T), Neg(One)), Add(MinOf(T), One)} : T \in TypeSet}
              \cup {Zero9, One, Neg(One)}
RECURSIVE SetToSeq(_)
SetToSeq(S) == IF S = {} THEN <<>> ELSE LET e == CHOOSE e \in S : TRUE IN <<e>> \o SetToSeq(S \ {e})
Extremes == SetToSeq(ExtremeSet)

InAnyType(n) == \E T \in TypeSet : ReprT(T, n)

(* the value probed in the current state of phase "probe" *)
ProbeLen(x, s) == CASE s = "decl" -> NE(x) [] s = "ext" -> Len(Extremes) [] s = "seed" -> Len(Defs[x].seeds)
ProbeVal(x, s, ii, kk) ==
    CASE s = "decl" -> Variation(Defs[x].enums[ii].num, kk)
      [] s = "ext"  -> Extremes[ii]
      [] s = "seed" -> Defs[x].seeds[ii]
Stride(x) == IF NE(x) <= BigN THEN 1 ELSE (NE(x) + BigN - 1) \div BigN
VarOK(x, ii) == ii % Stride(x) = 0 \/ ii = 1 \/ ii = NE(x)

(* raw flag values visited for enumerator j: the whole universe for 8-bit flags, otherwise zero, *)
(* all-ones, the complement of the enumerator, the enumerator, all / no declared bits, every     *)
(* single bit and the seeded values                                                              *)
WideVals(x, j) ==
    <<{}, Universe(x), Universe(x) \ DeclBits[x][j], DeclBits[x][j], AllBits[x], Universe(x) \ AllBits[x]>>
    \o [b \in 1..(8 * W(x)) |-> {b - 1}]
    \o [s \in 1..Len(Defs[x].fseeds) |-> {Defs[x].fseeds[s][b] : b \in 1..Len(Defs[x].fseeds[s])}]
NFlagVals(x) == IF W(x) = 1 THEN 256 ELSE 6 + 8 * W(x) + Len(Defs[x].fseeds)
FlagVal(x, j, kk) == IF W(x) = 1 THEN BitsOfInt(kk - 1) ELSE WideVals(x, j)[kk]
(* operands of the binary operators *)
Operands(x) ==
    <<{}, Universe(x), AllBits[x]>> \o [j \in 1..NE(x) |-> DeclBits[x][j]]
    \o [s \in 1..(IF Len(Defs[x].fseeds) < 6 THEN Len(Defs[x].fseeds) ELSE 6) |->
            {Defs[x].fseeds[s][b] : b \in 1..Len(Defs[x].fseeds[s])}]
(* integers converted into the flag type *)
ConvProbes(x) ==
    Extremes \o [j \in 1..NE(x) |-> Defs[x].enums[j].num]
    \o [b \in 1..64 |-> [j \in 1..9 |-> IF j = ((b - 1) \div 8) + 1 THEN 2 ^ ((b - 1) % 8) ELSE 0]]
    \o Defs[x].seeds

---------------------------------------------------------------------------
(* Source types that are scanned exhaustively for an enum: those of at most 16 bits, of the base *)
(* type's width (both signednesses); for a sample of the 8-bit enums all four narrow types.       *)
ScanTypes(x) ==
    IF ~IsEnum(x) \/ W(x) > 2 THEN {}
    ELSE {T \in {"u8", "i8", "u16", "i16"} :
             TW[T] = W(x) \/ (ScanMod > 0 /\ x % ScanMod = ScanRem /\ TW[T] <= 2)}
MaxCur(T) == IF TW[T] = 1 THEN 255 ELSE 65535
(* a 16-bit range is walked as 256 independent chunks of 256 values (one walk per chunk) *)
ChunkStarts(T) == IF TW[T] = 1 THEN {0} ELSE {256 * c : c \in 0..255}
ChunkEnd(c) == c % 256 = 255

Accepted(x, T, c) == TryFrom(x, T, PatOfInt(c, TW[T])).ok

Mine(x) == Defs[x].shard % NShards = Shard /\ ~Defs[x].skip

Init ==
    \E x \in {y \in 1..N : Mine(y)} :
      /\ d = x
      /\ \/ /\ IsEnum(x) /\ ph = "variants"
            /\ t = "" /\ cur = 0 /\ run = -1 /\ sec = "" /\ i = 0 /\ k = 0
         \/ /\ IsEnum(x) /\ ph = "scan"
            /\ t \in ScanTypes(x) /\ cur \in ChunkStarts(t)
            /\ run = (IF Accepted(x, t, cur) THEN -1 ELSE cur)
            /\ sec = "" /\ i = 0 /\ k = 0
         \/ /\ IsEnum(x) /\ ph = "probe"
            /\ sec \in {s \in {"decl", "ext", "seed"} : ProbeLen(x, s) > 0}
            /\ i = 1 /\ k = 0 /\ t = "" /\ cur = 0 /\ run = -1
         \/ /\ IsFlag(x) /\ ph = "fconst"
            /\ t = "" /\ cur = 0 /\ run = -1 /\ sec = "" /\ i = 0 /\ k = 0
         \/ /\ IsFlag(x) /\ NE(x) > 0 /\ ph = "fop"
            /\ i = 1 /\ k = 1 /\ t = "" /\ cur = 0 /\ run = -1 /\ sec = ""
         \/ /\ IsFlag(x) /\ ph = "fbin"
            /\ i = 1 /\ k = 1 /\ t = "" /\ cur = 0 /\ run = -1 /\ sec = ""
         \/ /\ IsFlag(x) /\ ph = "fconv"
            /\ i = 1 /\ k = 0 /\ t = "" /\ cur = 0 /\ run = -1 /\ sec = ""

(* next value of the scanned source type.  `run` is the start of the run of rejected values that *)
(* contains cur, or that ended just before cur when cur is accepted (-1: no such run)            *)
ScanStep ==
    /\ ph = "scan" /\ ~ChunkEnd(cur)
    /\ cur' = cur + 1
    /\ run' = (IF ~Accepted(d, t, cur) THEN run
               ELSE IF Accepted(d, t, cur + 1) THEN -1 ELSE cur + 1)
    /\ UNCHANGED <<d, ph, t, sec, i, k>>

(* next neighbour / alias of the same declared value *)
ProbeVary ==
    /\ ph = "probe" /\ sec = "decl" /\ k < NVar /\ VarOK(d, i)
    /\ k' = k + 1
    /\ UNCHANGED <<d, ph, t, cur, run, sec, i>>

(* next declared value / extreme / seeded value *)
ProbeNext ==
    /\ ph = "probe" /\ i < ProbeLen(d, sec)
    /\ (sec = "decl" => (k = NVar \/ ~VarOK(d, i)))
    /\ i' = i + 1 /\ k' = 0
    /\ UNCHANGED <<d, ph, t, cur, run, sec>>

(* flag: next raw value for the same enumerator, then next enumerator *)
FopValue ==
    /\ ph = "fop" /\ k < NFlagVals(d)
    /\ k' = k + 1
    /\ UNCHANGED <<d, ph, t, cur, run, sec, i>>
FopEnumerator ==
    /\ ph = "fop" /\ k = NFlagVals(d) /\ i < NE(d)
    /\ i' = i + 1 /\ k' = 1
    /\ UNCHANGED <<d, ph, t, cur, run, sec>>

(* flag: operand pairs, left operand i over Operands, right operand k over Operands *)
FbinRight ==
    /\ ph = "fbin" /\ k < Len(Operands(d))
    /\ k' = k + 1
    /\ UNCHANGED <<d, ph, t, cur, run, sec, i>>
FbinLeft ==
    /\ ph = "fbin" /\ k = Len(Operands(d)) /\ i < Len(Operands(d))
    /\ i' = i + 1 /\ k' = 1
    /\ UNCHANGED <<d, ph, t, cur, run, sec>>

FconvNext ==
    /\ ph = "fconv" /\ i < Len(ConvProbes(d))
    /\ i' = i + 1
    /\ UNCHANGED <<d, ph, t, cur, run, sec, k>>

Next == ScanStep \/ ProbeVary \/ ProbeNext \/ FopValue \/ FopEnumerator \/ FbinRight \/ FbinLeft \/ FconvNext

Spec == Init /\ [][Next]_vars

---------------------------------------------------------------------------
(* Invariants: the model's own laws *)
TypeOK ==
    /\ d \in 1..N
    /\ ph \in {"variants", "scan", "probe", "fconst", "fop", "fbin", "fconv"}
    /\ cur \in 0..65535 /\ run \in -1..65535

(* declared values are pairwise different (FromInt is a function, AsInt its inverse) *)
Injective == ph = "variants" => Cardinality(DeclSet[d]) = NE(d)

(* AsInt(FromInt(v)) = v wherever FromInt is defined, on every integer the walk visits; the run  *)
(* being tracked is a run of rejected values of the current chunk                                *)
ScanOK ==
    ph = "scan" =>
         LET key == Key(d, t, PatOfInt(cur, TW[t]))
             r   == TryFrom(d, t, PatOfInt(cur, TW[t])) IN
         /\ r.ok => /\ AsInt(d, r.idx) = key.n
                    /\ FromInt(d, AsInt(d, r.idx)).idx = r.idx
         /\ ~r.ok => run # -1
         /\ run # -1 => (run <= cur /\ run \div 256 = cur \div 256 /\ (r.ok => run < cur))
RoundTrip ==
    (ph = "probe" /\ sec = "decl" /\ k = 0) =>
         LET r == TryFrom(d, BaseType(d), Pat(AsInt(d, i), W(d))) IN r.ok /\ r.idx = i

(* flag laws on every (enumerator, value) the walk visits *)
FlagLaws ==
    ph = "fop" =>
      LET v == FlagVal(d, i, k)
          B == DeclBits[d][i]
          A == AllF(d)
      IN /\ ClearF(d, i, SetF(d, i, v)) = v \ B
         /\ SetF(d, i, ClearF(d, i, v)) = v \cup B
         /\ (B # {} => Is(d, i, SetF(d, i, v)))
         /\ (B # {} /\ ~Defs[d].zav => ~Is(d, i, ClearF(d, i, v)))
         /\ ClearF(d, i, v) \subseteq v /\ v \subseteq SetF(d, i, v)
         /\ B \subseteq A                                        \* All is an upper bound ...
         /\ ((\A j \in 1..NE(d) : DeclBits[d][j] \subseteq v) => A \subseteq v)  \* ... and the least
         /\ A \ ((v \cap A) \cup B) = (A \ v) \cap (A \ B)       \* De Morgan on declared bits
         /\ A \ ((v \cap A) \cap B) = (A \ v) \cup (A \ B)
         /\ XorF(v, B) = OrF(v, B) \ AndF(v, B)
         /\ BitsOfPat(Bytes8(v), 8) = v                          \* byte encoding is faithful

(* Constant-level lemmas: the conversion table is total, and the tuple arithmetic is two's complement. *)
ASSUME \A w \in {1, 2, 4, 8}, s \in BOOLEAN, T \in TypeSet : Class(w, s, T) \in {"reinterpret", "numeric"}
ASSUME \A w \in {1, 2, 4, 8}, s \in BOOLEAN, T \in TypeSet :
          Class(w, s, T) = "reinterpret" <=> (TW[T] = w /\ TS[T] = ~s /\ T # "usize")
ASSUME \A p \in 0..255 : /\ IntOfSmall(Ext(<<p>>, 1, TRUE)) = (IF p < 128 THEN p ELSE p - 256)
                         /\ IntOfSmall(Ext(<<p>>, 1, FALSE)) = p
                         /\ Repr(1, TRUE, Ext(<<p>>, 1, TRUE)) /\ Repr(1, FALSE, Ext(<<p>>, 1, FALSE))
                         /\ (Repr(1, FALSE, Ext(<<p>>, 1, TRUE)) <=> p < 128)
                         /\ (Repr(1, TRUE, Ext(<<p>>, 1, FALSE)) <=> p < 128)
ASSUME \A p \in 0..65535 : LET pat == <<p % 256, p \div 256>> IN
                         /\ IntOfSmall(Ext(pat, 2, TRUE)) = (IF p < 32768 THEN p ELSE p - 65536)
                         /\ IntOfSmall(Ext(pat, 2, FALSE)) = p
                         /\ (Repr(1, FALSE, Ext(pat, 2, FALSE)) <=> p < 256)
                         /\ (Repr(1, TRUE, Ext(pat, 2, TRUE)) <=> (p < 128 \/ p >= 65536 - 128))
ASSUME \A a \in {0, 1, 127, 128, 255, 256, 32767, 65535}, b \in {0, 1, 255, 256, 4095} :
          IntOfSmall(Add(Ext(<<a % 256, a \div 256>>, 2, FALSE), Ext(<<b % 256, b \div 256>>, 2, FALSE))) = a + b
ASSUME \A a \in {0, 1, 127, 128, 255, 256, 32767} : IntOfSmall(Neg(Ext(<<a % 256, a \div 256>>, 2, FALSE))) = -a
ASSUME Add(MaxOf("u64"), One) = <<0, 0, 0, 0, 0, 0, 0, 0, 1>> /\ MinOf("i64") = <<0, 0, 0, 0, 0, 0, 0, 128, 255>>
ASSUME \A T \in TypeSet : ReprT(T, MaxOf(T)) /\ ReprT(T, MinOf(T))
                          /\ ~ReprT(T, Add(MaxOf(T), One)) /\ ~ReprT(T, Add(MinOf(T), Neg(One)))

---------------------------------------------------------------------------
(* Behaviour records (spec -> implementation).  Nums are 9-byte tuples, raw flag values 8-byte. *)
Id == Defs[d].id

EmitVariants ==
    ph = "variants" =>
        PrintT("REPLAY " \o ToJson([k |-> "variants", d |-> Id, n |-> NE(d),
                                    vals |-> [j \in 1..NE(d) |-> AsInt(d, j)]]))

(* scan: one record per accepted value, one per maximal run of rejected values (within a chunk) *)
EmitScan ==
    ph = "scan" =>
        LET r == TryFrom(d, t, PatOfInt(cur, TW[t]))
            Rej(lo, hi) == PrintT("REPLAY " \o ToJson([k |-> "rej", d |-> Id, t |-> t, lo |-> lo, hi |-> hi,
                                                       alt |-> Class(W(d), Sg(d), t) = "reinterpret"]))
        IN IF r.ok
           THEN /\ PrintT("REPLAY " \o ToJson([k |-> "acc", d |-> Id, t |-> t, pat |-> cur, idx |-> r.idx]))
                /\ (run # -1 => Rej(run, cur - 1))
           ELSE ChunkEnd(cur) => Rej(run, cur)

EmitProbe ==
    ph = "probe" =>
        LET x  == ProbeVal(d, sec, i, k)
            TT == {T \in TypeSet : ReprT(T, x)}
            R  == [T \in TT |-> TryFrom(d, T, Pat(x, TW[T]))]
            okT  == {T \in TT : R[T].ok}
            rejT == {T \in TT : ~R[T].ok /\ R[T].alt = R[T].arg}
            altT == {T \in TT : ~R[T].ok /\ R[T].alt # R[T].arg}
        IN TT # {} =>
           PrintT("REPLAY " \o ToJson([k |-> "probe", d |-> Id, x |-> x,
                     ok  |-> SetToSeq({<<T, R[T].idx>> : T \in okT}),
                     rej |-> SetToSeq(rejT),
                     alt |-> SetToSeq({<<T, R[T].alt>> : T \in altT})]))

EmitFconst ==
    ph = "fconst" =>
        PrintT("REPLAY " \o ToJson([k |-> "fconst", d |-> Id, zav |-> Defs[d].zav,
                                    consts |-> [j \in 1..NE(d) |-> Bytes8(DeclBits[d][j])],
                                    empty |-> Bytes8(EmptyF), all |-> Bytes8(AllF(d))]))

EmitFop ==
    ph = "fop" =>
        LET v == FlagVal(d, i, k) IN
        PrintT("REPLAY " \o ToJson([k |-> "fop", d |-> Id, x |-> i, v |-> Bytes8(v),
                                    is |-> Is(d, i, v), set |-> Bytes8(SetF(d, i, v)),
                                    clear |-> Bytes8(ClearF(d, i, v)), new |-> Bytes8(NewF(d, i)),
                                    empty |-> (v = EmptyF)]))

EmitFbin ==
    ph = "fbin" =>
        LET a == Operands(d)[i]
            b == Operands(d)[k] IN
        PrintT("REPLAY " \o ToJson([k |-> "fbin", d |-> Id, a |-> Bytes8(a), b |-> Bytes8(b),
                                    and |-> Bytes8(AndF(a, b)), or |-> Bytes8(OrF(a, b)),
                                    xor |-> Bytes8(XorF(a, b))]))

EmitFconv ==
    ph = "fconv" =>
        LET x  == ConvProbes(d)[i]
            TT == {T \in TypeSet : ReprT(T, x)}
            R  == [T \in TT |-> FlagFrom(d, T, Pat(x, TW[T]))]
        IN TT # {} =>
           PrintT("REPLAY " \o ToJson([k |-> "fconv", d |-> Id, x |-> x,
                     ok  |-> SetToSeq({<<T, Bytes8(R[T].raw)>> : T \in {T \in TT : R[T].ok}}),
                     rej |-> SetToSeq({T \in TT : ~R[T].ok})]))

Emit == EmitVariants /\ EmitScan /\ EmitProbe /\ EmitFconst /\ EmitFop /\ EmitFbin /\ EmitFconv
=============================================================================
