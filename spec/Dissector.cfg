SPECIFICATION Spec
INVARIANT TypeOK
INVARIANT EmitReport
CHECK_DEADLOCK FALSE
