------------------------------ MODULE Dissector ------------------------------
(***************************************************************************)
(* Operational semantics of the statement language the generator prints     *)
(* into wow_message_parser/tests/wireshark/parser.txt (the body of the      *)
(* Wireshark dissectors packet-woww.c / packet-wow.c), as a state machine   *)
(* over a byte buffer, and the refinement check against the wire            *)
(* specification: every behaviour record printed by WowmWire.tla (one       *)
(* canonical encoding of one control path of one message, with its ordered  *)
(* field events) is run through the dissector program of that opcode.       *)
(*                                                                          *)
(* The program text is the OBSERVED ARTEFACT (parsed, not interpreted, by    *)
(* tools/dissector_front.py); the behaviours are the REFERENCE.             *)
(*                                                                          *)
(* Meaning of the Wireshark API used by the fragments (epan/ptvcursor.h,    *)
(* epan/proto.h, epan/tvbuff.h as documented):                              *)
(*   ptvcursor_add(ptv, hf, n, enc)   add the n bytes at the cursor as      *)
(*        field hf decoded with encoding enc, advance the cursor by n; a    *)
(*        range that leaves the tvbuff throws (malformed packet)            *)
(*   ptvcursor_add_ret_uint(.., &v)   the same, and v := the unsigned value *)
(*   ptvcursor_current_offset(ptv)    cursor offset inside ITS tvbuff       *)
(*   ptvcursor_add_text_with_subtree / ptvcursor_pop_subtree  display only  *)
(*   tvb_uncompress(tvb, off, len)    new tvbuff holding the inflated bytes *)
(*        of [off, off+len), NULL when nothing could be inflated            *)
(*   ptvcursor_new(.., tvb, 0)        fresh cursor at offset 0 of tvb       *)
(*   tvb_reported_length(tvb)         length of tvb                         *)
(*   len = E - ptvcursor_current_offset(ptv)   plain C                      *)
(* offset_packet_end is the offset, in the packet tvbuff, of the first byte *)
(* after the message body; the packet tvbuff holds header and body, so the  *)
(* body starts at offset Len(header).                                       *)
(* Hand-written C helpers that are not in the repository get the semantics  *)
(* of the documented wowm type they are printed for (types/*.md):           *)
(*   add_cstring, add_string, add_sized_cstring, add_packed_guid,           *)
(*   add_aura_mask (Vanilla), add_update_mask, add_monster_move_spline.     *)
(***************************************************************************)
EXTENDS Integers, Sequences, FiniteSets, TLC, Json, IOUtils, SequencesExt, WowmTypes

Ast    == JsonDeserialize(IOEnv.DIS_AST)        \* progs, hfs, vars, consts (the constants parser.txt names)
AllConsts == ndJsonDeserialize(IOEnv.DIS_ALLCONSTS) \* every constant of enums.txt
Blks   == ndJsonDeserialize(IOEnv.DIS_BLOCKS)   \* the statement blocks of parser.txt
Defs   == ndJsonDeserialize(IOEnv.DIS_DEFS)     \* wowm enum / flag definitions (front-end object table)
DefIdx == JsonDeserialize(IOEnv.DIS_DEFINDEX)   \* wowm definer name -> positions in Defs
Recs   == ndJsonDeserialize(IOEnv.DIS_RECS)     \* WowmWire behaviour records of this shard
PrintDeclared == IOEnv.DIS_DECLARED = "1"       \* one shard prints the static Declared report
StepLimit == 200000

VARIABLES b,        \* index of the behaviour being dissected
          stk,      \* statement stack: frames [blk, pc, k, i, n, endv, p0]
          cur,      \* cursor stack: [pos, off0, hi, depth]; pos is an index into the body (0-based)
          vars,     \* guint32 variables of variables.txt, as 4 little-endian bytes
          lenv,     \* the hand-declared variable `len`
          cend,     \* compression_end
          ctvb,     \* compressed_tvb: the region it holds, or NoTvb
          zfrom, zto, \* body range handed to tvb_uncompress
          xp,       \* body position up to which the consumption agreed with the model
          ei, eo, pw, \* next model event, bytes of it already consumed (arrays), piece width
          cons,     \* consumption log
          misfit,   \* fields whose registered type cannot show what a statement adds (information only)
          nocase,   \* the protocol-version switch had no case for this behaviour's version
          phase, err, errline, nsteps

vv == <<b, stk, cur, vars, lenv, cend, ctvb, zfrom, zto, xp, ei, eo, pw, cons, misfit, nocase, phase, err, errline, nsteps>>

---------------------------------------------------------------------------
Rec == Recs[b]
Body == Rec.body
L == Len(Body)
B == Len(Rec.hdr)
PacketEnd == B + L
Ev == Rec.ev
Shift == IF Rec.msgcomp THEN 4 ELSE 0      \* events of a compressed message are relative to its payload
EvAt(j) == Ev[j].at + Shift
Regions == {Rec.regions[i] : i \in 1..Len(Rec.regions)}
NoTvb == [from |-> 0, to |-> -1]

Huge == 1000000000
Nat4(bs) == IF bs[4] >= 32 THEN Huge ELSE bs[1] + 256 * bs[2] + 65536 * bs[3] + 16777216 * bs[4]
Pad4(bs) == [i \in 1..4 |-> IF i <= Len(bs) THEN bs[i] ELSE 0]
Bytes(p, n) == SubSeq(Body, p + 1, p + n)
MinOf(S) == CHOOSE x \in S : \A y \in S : x <= y
PopCount(bs) == Cardinality(BitsOfBytes(bs))

RECURSIVE IncLE(_)
IncLE(bs) == IF bs = <<>> THEN <<>>
             ELSE IF bs[1] < 255 THEN <<bs[1] + 1>> \o Tail(bs) ELSE <<0>> \o IncLE(Tail(bs))
Neg32(m) == IncLE([i \in 1..4 |-> 255 - m[i]])

---------------------------------------------------------------------------
(* wowm versions (versioning-with-tags.md), as in WowmWire *)
Ctx == IF Rec.sect = "world" THEN [world |-> TRUE, ver |-> <<1, 12>>, lv |-> 0]
       ELSE [world |-> FALSE, ver |-> <<>>, lv |-> Rec.lv]
AllCtxs(sect) == IF sect = "world" THEN {[world |-> TRUE, ver |-> <<1, 12>>, lv |-> 0]}
                 ELSE {[world |-> FALSE, ver |-> <<>>, lv |-> n] : n \in {2, 3, 5, 6, 7, 8}}
InCtx(o, c) ==
    IF c.world THEN o.all \/ \E i \in 1..Len(o.pats) : IsPrefix(o.pats[i], c.ver)
    ELSE o.lall \/ \E i \in 1..Len(o.lv) : o.lv[i] = c.lv
DefsIn(n, c) == IF n \in DOMAIN DefIdx THEN {DefIdx[n][i] : i \in 1..Len(DefIdx[n])} \cap {d \in 1..Len(Defs) : InCtx(Defs[d], c)}
                ELSE {}

(* value of an enumerator constant of enums.txt as a guint32 (C: int converted to unsigned) *)
ConstDeclared(nm) == nm \in DOMAIN Ast.consts
ConstValRec(k) == IF k.neg THEN Neg32(k.mag) ELSE k.mag
ConstVal(nm) == ConstValRec(Ast.consts[nm])
(* the wowm value of the enumerator the constant is printed for, zero-extended to 32 bits *)
WowmVal(d, j) == [i \in 1..4 |-> IF i <= d.w THEN d.enums[j].le[i] ELSE 0]
WowmFits(d, j) == d.w <= 4 \/ \A i \in 5..8 : d.enums[j].le[i] = 0
ConstAgreesRec(k, c) ==
    /\ ~k.wide
    /\ \E d \in DefsIn(k.dname, c) : \E j \in 1..Len(Defs[d].enums) :
         /\ Defs[d].enums[j].n = k.ename
         /\ WowmFits(Defs[d], j)
         /\ WowmVal(Defs[d], j) = ConstValRec(k)
ConstAgrees(nm, c) == ConstDeclared(nm) /\ ConstAgreesRec(Ast.consts[nm], c)

---------------------------------------------------------------------------
(* field tables *)
HfKnown(h) == h \in DOMAIN Ast.hfs
HfDeclared(h) == HfKnown(h) /\ Ast.hfs[h].imported /\ Ast.hfs[h].registered
HfType(h) == IF HfKnown(h) THEN Ast.hfs[h].ft ELSE ""
FtBytes(ft) == CASE ft \in {"FT_UINT8", "FT_INT8"} -> 1 [] ft \in {"FT_UINT16", "FT_INT16"} -> 2
                 [] ft \in {"FT_UINT32", "FT_INT32", "FT_FLOAT"} -> 4 [] ft \in {"FT_UINT64", "FT_INT64"} -> 8
                 [] OTHER -> 0
(* can a field of this type show n bytes added with a raw ptvcursor_add *)
HfFits(h, n, ret) ==
    LET ft == HfType(h) IN
    IF ret THEN ft \in {"FT_UINT8", "FT_UINT16", "FT_UINT32"} /\ n <= FtBytes(ft)
    ELSE CASE ft = "FT_BYTES" -> TRUE
           [] ft = "FT_FLOAT" -> n = 4
           [] ft = "FT_STRINGZ" -> FALSE
           [] OTHER -> n <= FtBytes(ft)

---------------------------------------------------------------------------
(* the program of a behaviour: the case of the opcode switch of its dissector *)
ProgIds == {p \in 1..Len(Ast.progs) : Ast.progs[p].sect = Rec.sect /\ Ast.progs[p].name = Rec.case}
Frame(blk, k, i, n, endv, p0) == [blk |-> blk, pc |-> 1, k |-> k, i |-> i, n |-> n, endv |-> endv, p0 |-> p0]
Plain(blk) == Frame(blk, "blk", 0, 0, "", 0)

ZeroVars == [v \in {Ast.vars[i] : i \in 1..Len(Ast.vars)} |-> <<0, 0, 0, 0>>]

Init ==
    \E i \in 1..Len(Recs) :
        /\ b = i
        /\ LET P == {p \in 1..Len(Ast.progs) : Ast.progs[p].sect = Recs[i].sect /\ Ast.progs[p].name = Recs[i].case}
           IN stk = IF P = {} THEN <<>> ELSE <<Plain(Ast.progs[CHOOSE p \in P : TRUE].blk)>>
        /\ cur = <<[pos |-> 0, off0 |-> Len(Recs[i].hdr), hi |-> Len(Recs[i].body), depth |-> 0]>>
        /\ vars = ZeroVars /\ lenv = 0 /\ cend = 0 /\ ctvb = NoTvb /\ zfrom = 0 /\ zto = 0
        /\ xp = 0 /\ ei = 1 /\ eo = 0 /\ pw = 0 /\ cons = <<>> /\ misfit = {} /\ nocase = FALSE
        /\ phase = "run" /\ err = "" /\ errline = 0 /\ nsteps = 0

Top == stk[Len(stk)]
Ins == Blks[Top.blk].ins[Top.pc]
Cur == cur[Len(cur)]
Offset == Cur.pos + Cur.off0
Running == phase = "run" /\ stk # <<>> /\ nsteps < StepLimit
AtIns == Running /\ Top.pc <= Len(Blks[Top.blk].ins)
At(op) == AtIns /\ Ins.op = op
Bump(st) == [st EXCEPT ![Len(st)].pc = @ + 1]

Fail(why) ==
    /\ phase' = "fail" /\ err' = why /\ errline' = IF AtIns THEN Ins.line ELSE 0
    /\ nsteps' = nsteps + 1
    /\ UNCHANGED <<b, stk, cur, vars, lenv, cend, ctvb, zfrom, zto, xp, ei, eo, pw, cons, misfit, nocase>>

Step(st) == stk' = st /\ nsteps' = nsteps + 1 /\ UNCHANGED <<b, phase, err, errline>>

---------------------------------------------------------------------------
(* Refinement bookkeeping: how one consumption relates to the model's field events. *)
NextEv(j) == LET S == {k \in j..Len(Ev) : Ev[k].len > 0} IN IF S = {} THEN Len(Ev) + 1 ELSE MinOf(S)

VarLenKinds == {"CString", "String", "SizedCString", "PackedGuid", "AuraMask", "UpdateMask", "MonsterMoveSplines"}
Raw(op) == op \in {"add", "add_ret"}

(* Appendix A: every integer and float little endian, IpAddress a big-endian u32; one byte has no order *)
FieldOk(k, n, enc, op) ==
    CASE Raw(op) -> k \notin VarLenKinds /\ (n = 1 \/ (IF k = "IpAddress" THEN enc = "be" ELSE enc = "le"))
      [] op = "cstring" -> k = "CString"
      [] op = "string" -> k = "String"
      [] op = "sized_cstring" -> k = "SizedCString"
      [] op = "packed_guid" -> k = "PackedGuid"
      [] op = "aura_mask" -> k = "AuraMask"
      [] op = "update_mask" -> k = "UpdateMask"
      [] op = "spline" -> k = "MonsterMoveSplines"
      [] OTHER -> FALSE

(* one element (or the whole) of an array of a simple type *)
PieceOk(n, enc, op, ft) ==
    CASE Raw(op) -> n = 1 \/ (ft = "FT_BYTES" /\ enc = "na") \/ (enc = "le" /\ n \in {2, 4, 8})
      [] op \in {"cstring", "packed_guid"} -> TRUE
      [] OTHER -> FALSE

InRegion(at, n) == \E r \in Regions : at >= r.from - 1 /\ at + n <= r.to

(* result of matching the consumption [at, at+n): [ok, ei, eo, pw, why] *)
Match(at, n, enc, op, ft) ==
    LET j == NextEv(ei)
        bad(why) == [ok |-> FALSE, ei |-> ei, eo |-> eo, pw |-> pw, why |-> why]
        good(j2, o2, w2) == [ok |-> TRUE, ei |-> j2, eo |-> o2, pw |-> w2, why |-> ""]
    IN
    IF at # xp THEN bad("cursor is not where the previous field ended")
    ELSE IF n = 0 THEN good(ei, eo, pw)
    ELSE IF j <= Len(Ev) /\ at = EvAt(j) + eo
    THEN LET e == Ev[j] IN
         IF e.k = "array"
         THEN IF eo + n > e.len THEN bad("consumes past the end of array field " \o e.n)
              ELSE IF ~PieceOk(n, enc, op, ft) THEN bad("width or encoding of an element of array field " \o e.n)
              ELSE IF Raw(op) /\ ft # "FT_BYTES" /\ pw # 0 /\ pw # n THEN bad("element widths differ in array field " \o e.n)
              ELSE IF eo + n = e.len THEN good(j + 1, 0, 0)
              ELSE good(j, eo + n, IF Raw(op) /\ ft # "FT_BYTES" THEN n ELSE 0)
         ELSE IF n # e.len THEN bad("width of field " \o e.n)
              ELSE IF ~FieldOk(e.k, n, enc, op) THEN bad("encoding or statement kind for field " \o e.n)
              ELSE good(j + 1, 0, 0)
    ELSE (* bytes the model has no field event for: self.size fields, decompressed sizes, compressed byte payloads *)
         LET ge == IF j <= Len(Ev) THEN EvAt(j) ELSE L IN
         IF at + n > ge THEN bad(IF j <= Len(Ev) THEN "consumes into field " \o Ev[j].n ELSE "consumes past the last field")
         ELSE IF Raw(op) /\ at + n = ge /\ n <= 4 /\ (n = 1 \/ enc = "le") THEN good(j, 0, 0)
         ELSE IF Raw(op) /\ n = 4 /\ enc = "le" /\ \E r \in Regions : r.from - 1 = at + 4 THEN good(j, 0, 0)
         ELSE IF Raw(op) /\ InRegion(at, n) /\ enc = "na" /\ ft = "FT_BYTES" THEN good(j, 0, 0)
         ELSE bad("bytes without a field consumed in an unexpected way")

(* A consumption of n bytes at the cursor by statement kind op. *)
Consume(n, enc, op, hf, newvars) ==
    IF n < 0 \/ n >= Huge \/ Cur.pos + n > Cur.hi THEN Fail("bounds: the statement reads past the end of its tvbuff")
    ELSE IF hf # "" /\ ~HfDeclared(hf) THEN Fail("field is not declared and registered: " \o hf)
    ELSE LET m == Match(Cur.pos, n, enc, op, HfType(hf)) IN
         IF ~m.ok THEN Fail("mismatch: " \o m.why)
         ELSE /\ cur' = [cur EXCEPT ![Len(cur)].pos = @ + n]
              /\ xp' = xp + n /\ ei' = m.ei /\ eo' = m.eo /\ pw' = m.pw
              /\ cons' = Append(cons, [at |-> Cur.pos, n |-> n, enc |-> enc, op |-> op, hf |-> hf, line |-> Ins.line])
              /\ vars' = newvars
              /\ misfit' = IF Raw(op) /\ ~HfFits(hf, n, op = "add_ret") THEN misfit \cup {hf} ELSE misfit
              /\ Step(Bump(stk))
              /\ UNCHANGED <<lenv, cend, ctvb, zfrom, zto, nocase>>

LenOf(ins) == IF ins.n >= 0 THEN ins.n
              ELSE IF ins.nvar = "len" THEN lenv
              ELSE IF ins.nvar \in DOMAIN vars THEN Nat4(vars[ins.nvar]) ELSE -1

Add ==
    /\ At("add")
    /\ IF Ins.n < 0 /\ Ins.nvar # "len" /\ Ins.nvar \notin DOMAIN vars
       THEN Fail("variable is not declared: " \o Ins.nvar)
       ELSE Consume(LenOf(Ins), Ins.enc, "add", Ins.hf, vars)

AddRet ==
    /\ At("add_ret")
    /\ IF Ins.var \notin DOMAIN vars THEN Fail("variable is not declared: " \o Ins.var)
       ELSE LET n == LenOf(Ins)
                raw == IF n >= 0 /\ n <= 4 /\ Cur.pos + n <= Cur.hi THEN Bytes(Cur.pos, n) ELSE <<>>
                val == Pad4(IF Ins.enc = "be" THEN RevSeq(raw) ELSE raw)
            IN IF n > 4 THEN Fail("ptvcursor_add_ret_uint with a length above 4")
               ELSE Consume(n, Ins.enc, "add_ret", Ins.hf, [vars EXCEPT ![Ins.var] = val])

(* documented wire forms of the types the helpers are printed for; -1 = runs off the buffer *)
HelperLen(op, p, hi) ==
    CASE op = "cstring" ->
           LET S == {q \in p..(hi - 1) : Body[q + 1] = 0} IN IF S = {} THEN -1 ELSE MinOf(S) - p + 1
      [] op = "string" -> IF p + 1 > hi THEN -1 ELSE 1 + Body[p + 1]
      [] op = "sized_cstring" -> IF p + 4 > hi THEN -1 ELSE 4 + Nat4(Bytes(p, 4))
      [] op = "packed_guid" -> IF p + 1 > hi THEN -1 ELSE 1 + PopCount(<<Body[p + 1]>>)
      [] op = "aura_mask" -> IF p + 4 > hi THEN -1 ELSE 4 + 2 * PopCount(Bytes(p, 4))
      [] op = "update_mask" ->
           IF p + 1 > hi THEN -1
           ELSE LET nb == Body[p + 1] IN
                IF p + 1 + 4 * nb > hi THEN -1 ELSE 1 + 4 * nb + 4 * PopCount(Bytes(p + 1, 4 * nb))
      [] op = "spline" ->
           IF p + 4 > hi THEN -1
           ELSE LET c == Nat4(Bytes(p, 4)) IN
                IF c >= Huge THEN -1 ELSE 4 + (IF c = 0 THEN 0 ELSE 12 + 4 * (c - 1))

HelperOps == {"cstring", "string", "sized_cstring", "packed_guid", "aura_mask", "update_mask", "spline"}
Helper ==
    /\ AtIns /\ Ins.op \in HelperOps
    /\ Consume(HelperLen(Ins.op, Cur.pos, Cur.hi), "na", Ins.op, Ins.hf, vars)

(* display-only statements *)
PushSubtree ==
    /\ At("push")
    /\ cur' = [cur EXCEPT ![Len(cur)].depth = @ + 1]
    /\ Step(Bump(stk))
    /\ UNCHANGED <<vars, lenv, cend, ctvb, zfrom, zto, xp, ei, eo, pw, cons, misfit, nocase>>

PopSubtree ==
    /\ At("pop")
    /\ cur' = [cur EXCEPT ![Len(cur)].depth = IF @ > 0 THEN @ - 1 ELSE 0]
    /\ Step(Bump(stk))
    /\ UNCHANGED <<vars, lenv, cend, ctvb, zfrom, zto, xp, ei, eo, pw, cons, misfit, nocase>>

(* len = <end> - ptvcursor_current_offset(ptv), <end> = offset_packet_end or tvb_reported_length(compressed_tvb) *)
SetLen ==
    /\ At("setlen")
    /\ IF Ins.endv = "compressed_tvb_length" /\ ctvb = NoTvb THEN Fail("tvb_reported_length of a NULL tvbuff")
       ELSE IF Ins.endv \notin {"offset_packet_end", "compressed_tvb_length"} THEN Fail("unknown end in len assignment")
       ELSE /\ lenv' = (IF Ins.endv = "offset_packet_end" THEN PacketEnd ELSE ctvb.to - (ctvb.from - 1)) - Offset
            /\ Step(Bump(stk))
            /\ UNCHANGED <<cur, vars, cend, ctvb, zfrom, zto, xp, ei, eo, pw, cons, misfit, nocase>>

---------------------------------------------------------------------------
(* control *)
CondDeclared(c) == c.var \in DOMAIN vars /\ ConstDeclared(c.val)
CondHolds(c) ==
    LET v == vars[c.var]
        k == ConstVal(c.val)
    IN CASE c.cmp = "==" -> v = k
         [] c.cmp = "!=" -> v # k
         [] c.cmp = "&" -> BitsOfBytes(v) \cap BitsOfBytes(k) # {}

ArmHolds(a) ==
    CASE a.ck = "dir" -> Rec.dir = "server"
      [] a.ck = "lenpos" -> lenv > 0
      [] a.ck = "ctvb" -> ctvb # NoTvb
      [] a.ck = "cmp" -> \E j \in 1..Len(a.conds) : CondHolds(a.conds[j])

CmpConds(ins) == UNION {{ins.arms[a].conds[j] : j \in 1..Len(ins.arms[a].conds)} :
                         a \in {x \in 1..Len(ins.arms) : ins.arms[x].ck = "cmp"}}

If ==
    /\ At("if")
    /\ LET cs == CmpConds(Ins) IN
       IF \E c \in cs : ~CondDeclared(c)
       THEN Fail("condition names an undeclared variable or enumerator constant")
       ELSE IF \E c \in cs : ~ConstAgrees(c.val, Ctx)
       THEN Fail("enumerator constant differs from the wowm definition: " \o
                 (CHOOSE c \in cs : ~ConstAgrees(c.val, Ctx)).val)
       ELSE LET hs == {a \in 1..Len(Ins.arms) : ArmHolds(Ins.arms[a])} IN
            /\ Step(IF hs # {} THEN Append(Bump(stk), Plain(Ins.arms[MinOf(hs)].blk))
                    ELSE IF Ins.els > 0 THEN Append(Bump(stk), Plain(Ins.els))
                    ELSE Bump(stk))
            /\ UNCHANGED <<cur, vars, lenv, cend, ctvb, zfrom, zto, xp, ei, eo, pw, cons, misfit, nocase>>

PvSwitch ==
    /\ At("pvswitch")
    /\ LET hs == {c \in 1..Len(Ins.cases) : \E j \in 1..Len(Ins.cases[c].vals) : Ins.cases[c].vals[j] = Rec.lv} IN
       /\ Step(IF hs # {} THEN Append(Bump(stk), Plain(Ins.cases[MinOf(hs)].blk)) ELSE Bump(stk))
       /\ nocase' = (nocase \/ hs = {})
    /\ UNCHANGED <<cur, vars, lenv, cend, ctvb, zfrom, zto, xp, ei, eo, pw, cons, misfit>>

For ==
    /\ At("for")
    /\ IF Ins.iv[1] # Ins.iv[2] \/ Ins.iv[1] # Ins.iv[3] THEN Fail("loop header names different variables")
       ELSE IF Ins.bound < 0 /\ Ins.bvar \notin DOMAIN vars THEN Fail("variable is not declared: " \o Ins.bvar)
       ELSE LET n == IF Ins.bound >= 0 THEN Ins.bound ELSE Nat4(vars[Ins.bvar]) IN
            /\ Step(IF n > 0 THEN Append(Bump(stk), Frame(Ins.blk, "for", 0, n, "", Cur.pos)) ELSE Bump(stk))
            /\ UNCHANGED <<cur, vars, lenv, cend, ctvb, zfrom, zto, xp, ei, eo, pw, cons, misfit, nocase>>

EndKnown(v) == v \in {"offset_packet_end", "compression_end"}
EndVal(v) == IF v = "offset_packet_end" THEN PacketEnd ELSE cend

While ==
    /\ At("while")
    /\ IF ~EndKnown(Ins.endv) THEN Fail("loop end is not a known variable: " \o Ins.endv)
       ELSE /\ Step(IF Offset < EndVal(Ins.endv)
                    THEN Append(Bump(stk), Frame(Ins.blk, "while", 0, 0, Ins.endv, Cur.pos)) ELSE Bump(stk))
            /\ UNCHANGED <<cur, vars, lenv, cend, ctvb, zfrom, zto, xp, ei, eo, pw, cons, misfit, nocase>>

LeaveBlock ==
    /\ Running /\ Top.pc > Len(Blks[Top.blk].ins)
    /\ LET pop == SubSeq(stk, 1, Len(stk) - 1)
           again(i) == [stk EXCEPT ![Len(stk)].pc = 1, ![Len(stk)].i = i, ![Len(stk)].p0 = Cur.pos]
       IN
       CASE Top.k = "blk" ->
              /\ Step(pop) /\ UNCHANGED <<cur, vars, lenv, cend, ctvb, zfrom, zto, xp, ei, eo, pw, cons, misfit, nocase>>
         [] Top.k = "for" ->
              IF Top.i + 1 < Top.n /\ Cur.pos = Top.p0 /\ Top.n >= 100000
              THEN Fail("unbounded loop that consumes nothing")
              ELSE /\ Step(IF Top.i + 1 < Top.n THEN again(Top.i + 1) ELSE pop)
                   /\ UNCHANGED <<cur, vars, lenv, cend, ctvb, zfrom, zto, xp, ei, eo, pw, cons, misfit, nocase>>
         [] Top.k = "while" ->
              IF Offset < EndVal(Top.endv) /\ Cur.pos = Top.p0 THEN Fail("loop that consumes nothing")
              ELSE /\ Step(IF Offset < EndVal(Top.endv) THEN again(0) ELSE pop)
                   /\ UNCHANGED <<cur, vars, lenv, cend, ctvb, zfrom, zto, xp, ei, eo, pw, cons, misfit, nocase>>

---------------------------------------------------------------------------
(* compressed payloads (spec/compression.md: u32 decompressed size, then zlib of the payload).    *)
(* The behaviour record carries the payload DECOMPRESSED in place and names it as a region, so    *)
(* inflating [pos, pos+len) yields the region that starts at pos, provided the stream lies inside *)
(* the range given.  An empty payload is read as "nothing inflated" (NULL).                        *)
Uncompress ==
    /\ At("uncompress")
    /\ LET lenarg == PacketEnd - Offset
           R == {r \in Regions : r.from - 1 = Cur.pos /\ r.to >= r.from /\ r.to <= Cur.pos + lenarg}
       IN /\ ctvb' = IF R = {} THEN NoTvb ELSE CHOOSE r \in R : TRUE
          /\ zfrom' = Cur.pos /\ zto' = IF lenarg > 0 THEN Cur.pos + lenarg ELSE Cur.pos
    /\ Step(Bump(stk))
    /\ UNCHANGED <<cur, vars, lenv, cend, xp, ei, eo, pw, cons, misfit, nocase>>

SavePtv ==
    /\ At("saveptv")
    /\ Step(Bump(stk))
    /\ UNCHANGED <<cur, vars, lenv, cend, ctvb, zfrom, zto, xp, ei, eo, pw, cons, misfit, nocase>>

NewPtv ==
    /\ At("newptv")
    /\ IF ctvb = NoTvb THEN Fail("ptvcursor_new on a NULL tvbuff")
       ELSE /\ cur' = Append(cur, [pos |-> ctvb.from - 1, off0 |-> 0 - (ctvb.from - 1), hi |-> ctvb.to, depth |-> 0])
            /\ Step(Bump(stk))
            /\ UNCHANGED <<vars, lenv, cend, ctvb, zfrom, zto, xp, ei, eo, pw, cons, misfit, nocase>>

SetCEnd ==
    /\ At("setcend")
    /\ IF ctvb = NoTvb THEN Fail("tvb_reported_length of a NULL tvbuff")
       ELSE /\ cend' = ctvb.to - (ctvb.from - 1)
            /\ Step(Bump(stk))
            /\ UNCHANGED <<cur, vars, lenv, ctvb, zfrom, zto, xp, ei, eo, pw, cons, misfit, nocase>>

FreePtv ==
    /\ At("freeptv")
    /\ IF Len(cur) < 2 THEN Fail("ptvcursor_free of the packet cursor")
       ELSE IF Cur.pos # Cur.hi THEN Fail("stops before the end of the decompressed payload")
       ELSE /\ Step(Bump(stk))
            /\ UNCHANGED <<cur, vars, lenv, cend, ctvb, zfrom, zto, xp, ei, eo, pw, cons, misfit, nocase>>

RestorePtv ==
    /\ At("restoreptv")
    /\ IF Len(cur) < 2 THEN Fail("no saved cursor")
       ELSE /\ cur' = SubSeq(cur, 1, Len(cur) - 1)
            /\ Step(Bump(stk))
            /\ UNCHANGED <<vars, lenv, cend, ctvb, zfrom, zto, xp, ei, eo, pw, cons, misfit, nocase>>

CNull ==
    /\ At("cnull")
    /\ ctvb' = NoTvb
    /\ Step(Bump(stk))
    /\ UNCHANGED <<cur, vars, lenv, cend, zfrom, zto, xp, ei, eo, pw, cons, misfit, nocase>>

KnownOps == {"add", "add_ret", "push", "pop", "setlen", "if", "pvswitch", "for", "while", "uncompress",
             "saveptv", "newptv", "setcend", "freeptv", "restoreptv", "cnull"} \cup HelperOps
UnknownOp == AtIns /\ Ins.op \notin KnownOps /\ Fail("statement kind without semantics: " \o Ins.op)

Halt ==
    /\ phase = "run" /\ stk = <<>>
    /\ phase' = "halt" /\ nsteps' = nsteps + 1
    /\ UNCHANGED <<b, stk, cur, vars, lenv, cend, ctvb, zfrom, zto, xp, ei, eo, pw, cons, misfit, nocase, err, errline>>

OutOfFuel == phase = "run" /\ stk # <<>> /\ nsteps >= StepLimit /\ Fail("step limit")

Next ==
    \/ Add \/ AddRet \/ Helper \/ PushSubtree \/ PopSubtree \/ SetLen
    \/ If \/ PvSwitch \/ For \/ While \/ LeaveBlock
    \/ Uncompress \/ SavePtv \/ NewPtv \/ SetCEnd \/ FreePtv \/ RestorePtv \/ CNull
    \/ UnknownOp \/ Halt \/ OutOfFuel

Spec == Init /\ [][Next]_vv

---------------------------------------------------------------------------
(* The properties. *)
TypeOK ==
    /\ phase \in {"run", "halt", "fail"}
    /\ Len(cur) >= 1 /\ \A i \in 1..Len(cur) : cur[i].pos >= 0 /\ cur[i].pos <= cur[i].hi
    /\ xp >= 0 /\ xp <= L /\ ei >= 1 /\ ei <= Len(Ev) + 1

AllFieldsConsumed == NextEv(ei) = Len(Ev) + 1 /\ eo = 0
(* the packet cursor is at the end of the body, or everything after it was handed to the inflater *)
AtEnd == /\ Len(cur) = 1 /\ xp = L
         /\ (cur[1].pos = L \/ (zto = L /\ zfrom = cur[1].pos))

Covered == ProgIds # {}

Verdict ==
    IF phase = "fail" THEN err
    ELSE IF ~Covered /\ L > 0 THEN "uncovered: the opcode switch has no case for this message"
    ELSE IF nocase /\ cons = <<>> /\ L > 0 THEN "uncovered: the protocol version switch has no case for this version"
    ELSE IF ~AllFieldsConsumed THEN "stops before field " \o Ev[NextEv(ei)].n
    ELSE IF ~AtEnd THEN "does not stop at the end of the message body"
    ELSE "ok"

(* Refines: every finished run agrees with the behaviour it was run on *)
Refines == phase \in {"halt", "fail"} => Verdict = "ok"

Report ==
    [kind |-> "dissect", rid |-> Rec.rid, name |-> Rec.name, case |-> Rec.case, sect |-> Rec.sect, lv |-> Rec.lv,
     dir |-> Rec.dir, prof |-> Rec.prof, covered |-> Covered, verdict |-> Verdict, line |-> errline,
     pos |-> Cur.pos, xp |-> xp, ei |-> ei, steps |-> nsteps, nev |-> Len(Ev), blen |-> L,
     unbalanced |-> (cur[1].depth # 0), misfit |-> SetToSeq(misfit),
     cons |-> IF Verdict # "ok" \/ Rec.sample THEN cons ELSE <<>>]

EmitReport == (phase \in {"halt", "fail"}) => PrintT("REPLAY " \o ToJson(Report))

---------------------------------------------------------------------------
(* Declared: everything parser.txt names is declared (variables.txt, enums.txt), imported        *)
(* (imports.txt) and registered (register.txt); enumerator constants carry the value of the wowm *)
(* definition they are printed for.                                                             *)
AllIns == UNION {{Blks[i].ins[j] : j \in 1..Len(Blks[i].ins)} : i \in 1..Len(Blks)}
HfRefs == {x.hf : x \in AllIns} \ {""}
VarRefs == ({x.var : x \in {y \in AllIns : y.op = "add_ret"}} \cup {x.nvar : x \in AllIns} \cup {x.bvar : x \in AllIns}
            \cup UNION {{c.var : c \in CmpConds(x)} : x \in AllIns}) \ {"", "len"}
ConstRefs == UNION {{c.val : c \in CmpConds(x)} : x \in AllIns}
DeclVars == {Ast.vars[i] : i \in 1..Len(Ast.vars)}

EveryCtx == AllCtxs("world") \cup AllCtxs("login")
ConstAgreesSomewhere(nm) == \E c \in EveryCtx : ConstAgrees(nm, c)

UndeclaredHf == {h \in HfRefs : ~HfDeclared(h)}
UndeclaredVar == VarRefs \ DeclVars
UndeclaredConst == {c \in ConstRefs : ~ConstDeclared(c)}
WrongConst == {c \in ConstRefs : ConstDeclared(c) /\ ~ConstAgreesSomewhere(c)}
(* not part of the property (never referenced by parser.txt): declared constants whose value is not *)
(* the wowm value in any version - reported for information                                        *)
WrongUnreferenced == {AllConsts[i].name : i \in {x \in 1..Len(AllConsts) :
                          AllConsts[x].name \notin ConstRefs /\ ~\E c \in EveryCtx : ConstAgreesRec(AllConsts[x], c)}}

Declared == UndeclaredHf = {} /\ UndeclaredVar = {} /\ UndeclaredConst = {} /\ WrongConst = {}

SetToSeq2(S) == SetToSeq(S)
DeclaredReport ==
    [kind |-> "declared", ok |-> Declared,
     hf_refs |-> Cardinality(HfRefs), var_refs |-> Cardinality(VarRefs), const_refs |-> Cardinality(ConstRefs),
     undeclared_hf |-> SetToSeq2(UndeclaredHf), undeclared_var |-> SetToSeq2(UndeclaredVar),
     undeclared_const |-> SetToSeq2(UndeclaredConst), wrong_const |-> SetToSeq2(WrongConst),
     wrong_unreferenced |-> SetToSeq2(WrongUnreferenced)]

ASSUME PrintDeclared => PrintT("REPLAY " \o ToJson(DeclaredReport))
=============================================================================
