----------------------------- MODULE DocCommon -----------------------------
(***************************************************************************)
(* Small operators shared by the two C18 modules (DocRefine: definitions    *)
(* and tables; TraceDocExamples: examples as traces).                       *)
(***************************************************************************)
EXTENDS WowmWire

RECURSIVE First(_)
First(ds) == IF ds = <<>> THEN "" ELSE IF Head(ds) # "" THEN Head(ds) ELSE First(Tail(ds))
Cmp(path, a, b) == IF a = b THEN "" ELSE path
MinOf(a, b) == IF a <= b THEN a ELSE b
Ix(j) == "[" \o ToString(j) \o "]"

(* contexts a definition is read in: its own version patterns (versioning-with-tags.md: a type     *)
(* reference resolves to the same-named object that covers the user's versions)                   *)
ExpOfPat(p) == CASE p[1] = 1 -> "vanilla" [] p[1] = 2 -> "tbc" [] OTHER -> "wrath"
OwnCtxs(o) ==
    {WorldCtx(ExpOfPat(o.pats[j]), o.pats[j]) : j \in 1..Len(o.pats)}
    \cup {LoginCtx(o.lv[j]) : j \in 1..Len(o.lv)}
    \cup (IF o.all THEN {c \in Ctxs : c.world} ELSE {})
    \cup (IF o.lall THEN {c \in Ctxs : ~c.world} ELSE {})

(* contexts a body table is judged in: the contexts code is generated for, where the object is     *)
(* valid for one of them; its own version patterns otherwise (objects of 1.2 .. 1.11 only)        *)
JudgeCtxs(o) == LET cs == {c \in Ctxs : InCtx(o, c)} IN IF cs # {} THEN cs ELSE OwnCtxs(o)

=============================================================================
