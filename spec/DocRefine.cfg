SPECIFICATION DSpec
INVARIANT EmitPair
CHECK_DEADLOCK FALSE
