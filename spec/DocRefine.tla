----------------------------- MODULE DocRefine -----------------------------
(***************************************************************************)
(* C18, definition half: the wowm text that the documentation SHOWS (every  *)
(* `/// ```text` block of a generated Rust doc comment, every               *)
(* "Wowm Representation" block of a page under wowm_language/src/docs) is   *)
(* re-parsed by the SAME independent front-end that reads the sources       *)
(* (tools/wowm_front.py) and lowered by the SAME lowering (tools/lower.py): *)
(*                                                                          *)
(*   Objs / Blks     source object table (WowmWire's constants)             *)
(*   DObjs / DBlks   the re-parsed documentation blocks, same record shape  *)
(*   Pairs           one record per distinct doc image: where it is, the    *)
(*                   (wowm file, line) anchor printed next to it resolved   *)
(*                   to a source id `sid` (0 = no source object starts      *)
(*                   there), its doc object id `did` (0 = the text did not  *)
(*                   parse, `perr` says why), and for pages the body table  *)
(*                   items / the enumerator table in page order             *)
(*   ImgIdx          source id -> media ("md", "rs") it has an image in     *)
(*                                                                          *)
(* SameDefinition(d, s): name, kind, opcode, base type, enumerators (names, *)
(*   values as byte lists, order), member blocks structurally: instruction  *)
(*   kinds, names, types, upcast type names, array kind / size / count      *)
(*   field, constants (value bytes), self.size, conditions (variable,       *)
(*   operator, value list, in order), else-if arms, else arm, optional.     *)
(*   DiffObj gives the first differing path ("" = same definition).         *)
(* What the documentation legitimately omits and is therefore NOT compared: *)
(*   O1 comments (`///`, `comment` tags) and every tag block: versions,     *)
(*      paste_versions, login_versions, test, skip_codegen, compressed,     *)
(*      valid_range, maximum_length, zero_is_always_valid, display, ...     *)
(*      (hence the lowered fields pats/all/lv/lall/paste/test/skip/unimpl/  *)
(*      comp/zav of objects and comp/hv/vlo/vhi/maxlen of instructions);    *)
(*   O2 the spelling of numerals (0x0A vs 10, 0x3B vs 0x003B): VALUES are   *)
(*      compared as little-endian byte lists;                               *)
(*   O3 whitespace / line breaks / `#tag_all` commands;                     *)
(*   O4 the purely lexical scans derived from the structure (ctl, tested,   *)
(*      free, cnt) - equal whenever the compared structure is equal;        *)
(*   O5 file / line of the doc object itself.                               *)
(*                                                                          *)
(* BodyTable(page section, source object): the page's body table items in   *)
(*   page order = the definition flattened in the order the pages present   *)
(*   it: a declaration is a row; an `if` is the line "If v <op> `X` or ..:" *)
(*   followed by the rows of its block, each further arm "Else If ..:" +    *)
(*   rows, "Else:" + rows; rows after an `if` simply continue; an           *)
(*   `optional` block contributes nothing in place - after all members the  *)
(*   line "Optionally the following fields can be present" is followed by   *)
(*   its rows.  Each row names the member; its size cell is a number n iff  *)
(*   the wire model's interval for that member (WowmWire BuiltinIV /        *)
(*   SizeOfType, fixed arrays n * element) is the constant [n, n] in some   *)
(*   context the object is valid for, and "-" / "?" iff the interval is not *)
(*   constant.  A page without a body table (the printer leaves it out for  *)
(*   definitions with an `if` nested in an `if`) is reported as "absent"    *)
(*   (uncovered), "This message has no fields" requires an empty member     *)
(*   list.  The type cell is link-label text; a difference there is         *)
(*   reported separately (`tysoft`) and is not part of the verdict.         *)
(* EnumTable(page section, source definer): the enumerator table lists the  *)
(*   same names with the same values in the same order.                     *)
(*                                                                          *)
(* Both directions: every pair must resolve to a source object (sid # 0)    *)
(* and be the same definition; every source object that is not test-only /  *)
(* skip_codegen must have a page image, and a Rust image if it is valid for *)
(* a context code is generated for (Undocumented).                          *)
(*                                                                          *)
(* State machine: `DNext` steps through the pairs of this shard; the        *)
(* verdict of the current pair is a state variable and is printed.          *)
(***************************************************************************)
EXTENDS DocCommon

DObjs  == ndJsonDeserialize(IOEnv.DOC_OBJECTS)
DBlks  == ndJsonDeserialize(IOEnv.DOC_BLOCKS)
Pairs  == ndJsonDeserialize(IOEnv.DOC_PAIRS)
ImgIdx == JsonDeserialize(IOEnv.DOC_IMAGES)      \* "sid" -> <<media>>
DNShards == atoi(IOEnv.DOC_NSHARDS)
DShard   == atoi(IOEnv.DOC_SHARD)
Forward  == IOEnv.DOC_FORWARD = "1"          \* judge the forward direction (whole tree loaded)

VARIABLES pi, dverdict

---------------------------------------------------------------------------
DiffConds(dc, sc, p) ==
    First(<<Cmp(p \o ".conds.count", Len(dc), Len(sc))>> \o
          [j \in 1..MinOf(Len(dc), Len(sc)) |->
              First(<<Cmp(p \o ".conds" \o Ix(j) \o ".var", dc[j].var, sc[j].var),
                      Cmp(p \o ".conds" \o Ix(j) \o ".operator", dc[j].cmp, sc[j].cmp),
                      Cmp(p \o ".conds" \o Ix(j) \o ".value", dc[j].val, sc[j].val)>>)])

RECURSIVE DiffBlk(_, _, _)
DiffIns(d, s, p) ==
    IF d.op # s.op THEN p \o ".kind"
    ELSE CASE d.op = "decl" ->
                First(<<Cmp(p \o ".name", d.name, s.name),
                        Cmp(p \o ".type", d.ty, s.ty),
                        Cmp(p \o ".upcast", d.up, s.up),
                        Cmp(p \o ".array", d.arr, s.arr),
                        Cmp(p \o ".array.size", d.n, s.n),
                        Cmp(p \o ".array.count_field", d.cf, s.cf),
                        Cmp(p \o ".constant", d.hasc, s.hasc),
                        Cmp(p \o ".constant.value", d.cbytes, s.cbytes),
                        Cmp(p \o ".self_size", d.selfsize, s.selfsize)>>)
           [] d.op = "if" ->
                First([j \in 1..MinOf(Len(d.arms), Len(s.arms)) |->
                          First(<<DiffConds(d.arms[j].conds, s.arms[j].conds, p \o ".arm" \o Ix(j)),
                                  DiffBlk(d.arms[j].blk, s.arms[j].blk, p \o ".arm" \o Ix(j))>>)]
                      \o <<Cmp(p \o ".arms.count", Len(d.arms), Len(s.arms)),
                           Cmp(p \o ".else", d.els > 0, s.els > 0),
                           IF d.els > 0 /\ s.els > 0 THEN DiffBlk(d.els, s.els, p \o ".else") ELSE "">>)
           [] d.op = "opt" ->
                First(<<Cmp(p \o ".optional.name", d.name, s.name), DiffBlk(d.blk, s.blk, p \o ".optional")>>)
           [] OTHER -> ""

DiffBlk(db, sb, p) ==
    LET di == DBlks[db].ins
        si == Blks[sb].ins
    IN First([j \in 1..MinOf(Len(di), Len(si)) |-> DiffIns(di[j], si[j], p \o Ix(j))]
             \o <<Cmp(p \o ".count", Len(di), Len(si))>>)

DiffEnums(de, se) ==
    First([j \in 1..MinOf(Len(de), Len(se)) |->
              First(<<Cmp("enumerators" \o Ix(j) \o ".name", de[j].n, se[j].n),
                      Cmp("enumerators" \o Ix(j) \o ".value", de[j].le, se[j].le)>>)]
          \o <<Cmp("enumerators.count", Len(de), Len(se))>>)

IsDefiner(o) == o.kind \in {"enum", "flag"}

(* first differing path between doc object d and source object s; "" iff SameDefinition *)
DiffObj(d, s) ==
    First(<<Cmp("kind", d.kind, s.kind),
            Cmp("name", d.name, s.name),
            Cmp("opcode", d.op, s.op),
            Cmp("base", d.base, s.base),
            IF IsDefiner(d) /\ IsDefiner(s) THEN DiffEnums(d.enums, s.enums) ELSE "",
            IF ~IsDefiner(d) /\ ~IsDefiner(s) THEN DiffBlk(d.blk, s.blk, "members") ELSE "">>)

SameDefinition(d, s) == DiffObj(d, s) = ""

---------------------------------------------------------------------------
(* Body table *)
NoIns == [op |-> "", name |-> ""]
Item(k, ins, conds) == [k |-> k, ins |-> ins, conds |-> conds]

RECURSIVE FlatBlk(_), FlatFrom(_, _), FlatArms(_, _)
FlatIns(i) ==
    CASE i.op = "decl" -> <<Item("row", i, <<>>)>>
      [] i.op = "if" ->
            <<Item("if", NoIns, i.arms[1].conds)>> \o FlatBlk(i.arms[1].blk)
            \o FlatArms(i, 2)
            \o (IF i.els > 0 THEN <<Item("else", NoIns, <<>>)>> \o FlatBlk(i.els) ELSE <<>>)
      [] OTHER -> <<>>
FlatArms(i, j) == IF j > Len(i.arms) THEN <<>>
                  ELSE <<Item("elseif", NoIns, i.arms[j].conds)>> \o FlatBlk(i.arms[j].blk) \o FlatArms(i, j + 1)
FlatFrom(b, pc) == IF pc > Len(Blks[b].ins) THEN <<>> ELSE FlatIns(Blks[b].ins[pc]) \o FlatFrom(b, pc + 1)
FlatBlk(b) == FlatFrom(b, 1)

RECURSIVE OptRows(_, _)
OptRows(b, pc) == IF pc > Len(Blks[b].ins) THEN <<>>
                  ELSE (IF Blks[b].ins[pc].op = "opt" THEN FlatBlk(Blks[b].ins[pc].blk) ELSE <<>>) \o OptRows(b, pc + 1)
HasOpt(b) == \E j \in 1..Len(Blks[b].ins) : Blks[b].ins[j].op = "opt"

ExpectedItems(o) ==
    FlatBlk(o.blk) \o (IF HasOpt(o.blk) THEN <<Item("opt", NoIns, <<>>)>> \o OptRows(o.blk, 1) ELSE <<>>)

IsStructTy(ty, c) == Resolvable(ty, c) /\ Objs[Resolve(ty, c)].kind = "struct"

(* Exact interval of one member (WowmWire's interval abstraction). *)
MemberIV(i, c) ==
    IF i.arr # "none"
    THEN LET el == IF i.builtin THEN BuiltinIV(i, i.ty, c) ELSE SizeOfType(i.ty, c, 0) IN
         IF i.comp THEN IV(4, INF)
         ELSE IF i.arr = "fixed" THEN IV(Times(i.n, el.lo), Times(i.n, el.hi))
         ELSE IV(0, INF)
    ELSE IF i.builtin THEN BuiltinIV(i, i.ty, c)
    ELSE IF ~Resolvable(i.ty, c) THEN IV(0, INF)
    ELSE SizeOfType(i.ty, c, i.upw)

(* SizeOfType enumerates every subset of the entangled flag bits of a struct: minutes for         *)
(* MovementBlock-like types.  A claim "not constant" needs no extremes, only two valid encodings   *)
(* of different length.  Walk(.., pol) is the length of ONE valid encoding of the type: every      *)
(* controlling flag field carries no bit (pol "none") or all the bits tested (pol "all"), every    *)
(* controlling enum field its first / last enumerator, the optional tail is absent / present,      *)
(* variable-length members are at their minimum; `var` says that a member on that path can have    *)
(* another length.  Differing walks, or var, PROVE the interval is not constant; otherwise the     *)
(* exact interval decides.                                                                         *)
W(sz, var) == [sz |-> sz, var |-> var]
WAdd(a, b) == W(Plus(a.sz, b.sz), a.var \/ b.var)
WOfIV(iv) == W(iv.lo, iv.lo # iv.hi)

RECURSIVE WalkBlk(_, _, _, _, _)
WalkType(ty, c, upw, pol) ==
    IF Resolvable(ty, c)
    THEN LET o == Objs[Resolve(ty, c)] IN
         IF o.kind \in {"enum", "flag"} THEN W(IF upw > 0 THEN upw ELSE o.w, FALSE)
         ELSE WalkBlk(o.blk, 1, <<>>, c, pol)
    ELSE WOfIV(BuiltinIV([maxlen |-> 0], ty, c))

WalkBlk(b, pc, env, c, pol) ==
    LET ins == Blks[b].ins IN
    IF pc > Len(ins) THEN W(0, FALSE)
    ELSE LET i == ins[pc]
             rest(e) == WalkBlk(b, pc + 1, e, c, pol)
         IN CASE i.op = "decl" ->
                 IF i.arr # "none"
                 THEN LET el == IF i.builtin THEN WOfIV(BuiltinIV(i, i.ty, c)) ELSE WalkType(i.ty, c, 0, pol) IN
                      IF i.comp THEN WAdd(W(4, TRUE), rest(env))
                      ELSE IF i.arr = "fixed" THEN WAdd(W(Times(i.n, el.sz), el.var /\ i.n > 0), rest(env))
                      ELSE WAdd(W(0, el.var \/ el.sz > 0), rest(env))
                 ELSE IF i.builtin THEN WAdd(WOfIV(BuiltinIV(i, i.ty, c)), rest(env))
                 ELSE IF ~Resolvable(i.ty, c) THEN WAdd(W(0, FALSE), rest(env))
                 ELSE LET tid == Resolve(i.ty, c)
                          o == Objs[tid]
                      IN IF o.kind = "struct" THEN WAdd(WalkBlk(o.blk, 1, <<>>, c, pol), rest(env))
                         ELSE LET w == IF i.upw > 0 THEN i.upw ELSE o.w
                                  info == IF o.kind = "enum"
                                          THEN Info(tid, o.enums[IF pol = "none" THEN 1 ELSE Len(o.enums)].n, {}, 0)
                                          ELSE Info(tid, "", IF pol = "none" THEN {} ELSE FlagBits(o, Tested(i) \cap ENames(o)), 0)
                              IN WAdd(W(w, FALSE), rest(IF i.ctl THEN (i.name :> info) @@ env ELSE env))
              [] i.op = "if" ->
                 LET a == FirstArm(i, env) IN
                 IF a > 0 THEN WAdd(WalkBlk(i.arms[a].blk, 1, env, c, pol), rest(env))
                 ELSE IF i.els > 0 THEN WAdd(WalkBlk(i.els, 1, env, c, pol), rest(env))
                 ELSE rest(env)
              [] i.op = "opt" ->
                 IF pol = "all" THEN WAdd(WalkBlk(i.blk, 1, env, c, pol), rest(env)) ELSE rest(env)
              [] OTHER -> W(0, FALSE)

ProvenVariable(i, c) ==
    /\ i.arr = "none" /\ ~i.builtin /\ IsStructTy(i.ty, c)
    /\ LET a == WalkType(i.ty, c, 0, "none")
           b == WalkType(i.ty, c, 0, "all")
       IN a.var \/ b.var \/ a.sz # b.sz

SizeOk(sz, i, o) ==
    \E c \in JudgeCtxs(o) :
        IF sz >= 0 THEN LET iv == MemberIV(i, c) IN iv.lo = iv.hi /\ iv.lo = sz
        ELSE ProvenVariable(i, c) \/ LET iv == MemberIV(i, c) IN iv.lo # iv.hi

TypeText(i) ==
    i.ty \o (CASE i.arr = "fixed" -> "[" \o ToString(i.n) \o "]"
               [] i.arr = "var" -> "[" \o i.cf \o "]"
               [] i.arr = "endless" -> "[-]"
               [] OTHER -> "")

CondsOfItem(p) == [j \in 1..Len(p.vals) |-> [var |-> p.var, cmp |-> p.cmp, val |-> p.vals[j]]]
(* lowered conds may carry the same three fields only *)
PlainConds(cs) == [j \in 1..Len(cs) |-> [var |-> cs[j].var, cmp |-> cs[j].cmp, val |-> cs[j].val]]

DiffItem(p, x, o, j) ==
    IF p.k # x.k THEN "item" \o Ix(j) \o ".kind (page " \o p.k \o ", definition " \o x.k \o ")"
    ELSE CASE p.k = "row" ->
                First(<<IF p.name = x.ins.name THEN ""
                        ELSE "item" \o Ix(j) \o ".name (page " \o p.name \o ", definition " \o x.ins.name \o ")",
                        IF SizeOk(p.sz, x.ins, o) THEN ""
                        ELSE "item" \o Ix(j) \o ".size (member " \o x.ins.name \o ", page " \o p.size \o ")">>)
           [] p.k \in {"if", "elseif"} ->
                Cmp("item" \o Ix(j) \o ".condition", CondsOfItem(p), PlainConds(x.conds))
           [] OTHER -> ""

DiffTable(pr, o) ==
    LET xs == ExpectedItems(o)
        ps == pr.items
    IN CASE pr.tstate = "table" ->
              First([j \in 1..MinOf(Len(ps), Len(xs)) |-> DiffItem(ps[j], xs[j], o, j)]
                    \o <<IF Len(ps) = Len(xs) THEN ""
                         ELSE "items.count (page " \o ToString(Len(ps)) \o ", definition " \o ToString(Len(xs)) \o ")">>)
         [] pr.tstate = "empty" -> IF Len(Blks[o.blk].ins) = 0 THEN "" ELSE "page says no fields, definition has members"
         [] OTHER -> ""

TypeSoft(pr, o) ==
    LET xs == ExpectedItems(o)
        ps == pr.items
    IN IF pr.tstate # "table" \/ Len(ps) # Len(xs) THEN <<>>
       ELSE SelectSeq([j \in 1..Len(ps) |->
                          IF ps[j].k = "row" /\ xs[j].k = "row" /\ ps[j].ty # TypeText(xs[j].ins)
                          THEN ps[j].name \o ": page " \o ps[j].ty \o ", definition " \o TypeText(xs[j].ins) ELSE ""],
                      LAMBDA t : t # "")

DiffEnumTable(pr, s) ==
    First([j \in 1..MinOf(Len(pr.etab), Len(s.enums)) |->
              First(<<Cmp("table" \o Ix(j) \o ".name", pr.etab[j].n, s.enums[j].n),
                      Cmp("table" \o Ix(j) \o ".value", pr.etab[j].le, s.enums[j].le),
                      Cmp("table" \o Ix(j) \o ".hex_vs_decimal", pr.etab[j].hexle, pr.etab[j].le)>>)]
          \o <<Cmp("table.count", Len(pr.etab), Len(s.enums))>>)

---------------------------------------------------------------------------
Base(pr) == [kind |-> "pair", pid |-> pr.pid, medium |-> pr.medium, path |-> pr.path, line |-> pr.line,
             nlocs |-> pr.nlocs, wfile |-> pr.wfile, wline |-> pr.wline, sid |-> pr.sid]

JudgePair(pr) ==
    IF pr.sid = 0
    THEN Base(pr) @@ [name |-> "", def |-> "anchor: no source object starts at " \o pr.wfile \o ":" \o ToString(pr.wline),
                      table |-> "", tstate |-> pr.tstate, etab |-> "", tysoft |-> <<>>]
    ELSE LET s == Objs[pr.sid] IN
         IF pr.did = 0
         THEN Base(pr) @@ [name |-> s.name, def |-> "text does not parse: " \o pr.perr, table |-> "", tstate |-> pr.tstate,
                           etab |-> "", tysoft |-> <<>>]
         ELSE LET d == DObjs[pr.did] IN
              Base(pr) @@ [name |-> s.name, def |-> DiffObj(d, s),
                           table |-> IF pr.medium = "md" /\ ~IsDefiner(s) THEN DiffTable(pr, s) ELSE "",
                           tstate |-> pr.tstate,
                           etab |-> IF pr.medium = "md" /\ IsDefiner(s) /\ pr.hasetab THEN DiffEnumTable(pr, s)
                                    ELSE IF pr.medium = "md" /\ IsDefiner(s) THEN "no enumerator table" ELSE "",
                           tysoft |-> IF pr.medium = "md" /\ ~IsDefiner(s) THEN TypeSoft(pr, s) ELSE <<>>]

(* forward direction: what must be documented, is *)
MustDoc(o) == ~o.test /\ ~o.skip
HasImage(o, m) == ToString(o.id) \in DOMAIN ImgIdx /\ \E j \in 1..Len(ImgIdx[ToString(o.id)]) : ImgIdx[ToString(o.id)][j] = m
NeedsRust(o) == \E c \in Ctxs : InCtx(o, c)
Undocumented ==
    {[kind |-> "undocumented", sid |-> o.id, name |-> o.name, file |-> o.file, line |-> o.line, medium |-> m] :
        o \in {Objs[j] : j \in 1..Len(Objs)}, m \in {"md", "rs"}}
UndocumentedSet ==
    {u \in Undocumented : LET o == Objs[u.sid] IN
                          MustDoc(o) /\ (u.medium = "rs" => NeedsRust(o)) /\ ~HasImage(o, u.medium)}

Frozen == /\ root = 0 /\ prof = 0 /\ stack = <<>> /\ scopes = <<>> /\ out = <<>> /\ fi = 0
          /\ regions = <<>> /\ sizepos = 0 /\ sizew = 0 /\ phase = "docs" /\ note = "" /\ ev = <<>>

FirstIdx == DShard + 1
DInit == Frozen /\ pi = FirstIdx
         /\ dverdict = IF FirstIdx <= Len(Pairs) THEN JudgePair(Pairs[FirstIdx]) ELSE [kind |-> "none"]
DNext == /\ pi + DNShards <= Len(Pairs)
         /\ pi' = pi + DNShards
         /\ dverdict' = JudgePair(Pairs[pi + DNShards])
         /\ UNCHANGED vars
DSpec == DInit /\ [][DNext]_<<pi, dverdict, vars>>

EmitPair == PrintT("REPLAY " \o ToJson(dverdict))

ASSUME (Forward /\ DShard = 0) => \A u \in UndocumentedSet : PrintT("REPLAY " \o ToJson(u))
ASSUME (Forward /\ DShard = 0) => PrintT("REPLAY " \o ToJson([kind |-> "coverage", objects |-> Len(Objs),
                                                 mustdoc |-> Cardinality({j \in 1..Len(Objs) : MustDoc(Objs[j])}),
                                                 needrust |-> Cardinality({j \in 1..Len(Objs) : MustDoc(Objs[j]) /\ NeedsRust(Objs[j])}),
                                                 undocumented |-> Cardinality(UndocumentedSet)]))
=============================================================================
