SPECIFICATION Spec
INVARIANT TypeOK
INVARIANT Emit
INVARIANT GuardClosed
POSTCONDITION ReachedAll
CHECK_DEADLOCK FALSE
