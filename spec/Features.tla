------------------------------ MODULE Features ------------------------------
(***************************************************************************)
(* C19 - the feature configuration machine of the three library crates.    *)
(*                                                                         *)
(* State: (c, F) - a crate and the set of ENABLED qualified features       *)
(* "<crate>/<feature>", closed under the implications written in the       *)
(* Cargo.toml files (Cargo reference, chapter "Features": a feature        *)
(* enables the features it lists; "dep/feat" enables feature feat of the   *)
(* dependency and, for an optional dependency, the dependency itself;      *)
(* an optional dependency is an implicit feature of its own name;          *)
(* "<crate>/<dep:x>" stands for "optional dependency x is compiled in").   *)
(* Action: Enable(f) for a feature f the user of the crate can name.       *)
(*                                                                         *)
(* Items (modules, declarations, cfg-guarded regions, external crates)     *)
(* carry the chain of cfg guard expressions under which they exist;        *)
(* Present(i, F) is the truth of that chain, Refs the places where the     *)
(* text of one item names another one (tools/features_front.py, text       *)
(* level, approximate).  A reference may reach its target along several    *)
(* routes (re-exports), each with its own extra conditions.                *)
(*                                                                         *)
(*   GuardClosed == in every reachable configuration every present item    *)
(*                  only names present items.                              *)
(*                                                                         *)
(* This is the design reason a configuration can fail to build; whether it *)
(* builds is rustc's verdict, obtained by running `cargo check` on the     *)
(* configurations this module prints (all of them / a covering array).     *)
(***************************************************************************)
EXTENDS Naturals, Sequences, FiniteSets, TLC, Json, IOUtils

Crates  == ndJsonDeserialize(IOEnv.FEAT_CRATES)   \* [name, user, aux, cone, dflt, docsets]
Implies == ndJsonDeserialize(IOEnv.FEAT_IMPLIES)  \* [f, to]  (all crates, qualified)
Guards  == ndJsonDeserialize(IOEnv.FEAT_GUARDS)   \* [op, f, args]
Items   == ndJsonDeserialize(IOEnv.FEAT_ITEMS)    \* [id, crate, conds]
Refs    == ndJsonDeserialize(IOEnv.FEAT_REFS)     \* [src, crate, alts: [t, via], n, eg]
Tamper  == IOEnv.FEAT_TAMPER                      \* self-test only ("" = off)

VARIABLES c, F
vars == <<c, F>>

Range(s) == {s[k] : k \in 1..Len(s)}

---------------------------------------------------------------------------
(* Cargo feature closure *)
Imp(f) == UNION {Range(Implies[k].to) : k \in {j \in 1..Len(Implies) : Implies[j].f = f}}

RECURSIVE Close(_)
Close(S) == LET T == S \cup UNION {Imp(f) : f \in S} IN IF T = S THEN S ELSE Close(T)

User(cc) == Range(Crates[cc].user)
Aux(cc)  == Range(Crates[cc].aux)
Core(cc) == User(cc) \ Aux(cc)

(* every configuration a user can ask for, as the closed set cargo computes *)
AllConfigsT == [cc \in 1..Len(Crates) |-> {Close(S) : S \in SUBSET User(cc)}]   \* evaluated once
AllConfigs(cc) == AllConfigsT[cc]
Selection(cc, FF) == FF \cap User(cc)         \* the largest user selection that yields FF

---------------------------------------------------------------------------
(* cfg expressions (Rust reference, "Conditional compilation") *)
RECURSIVE Holds(_, _)
Holds(g, FF) ==
    CASE g.op = "feat"  -> g.f \in FF
      [] g.op = "any"   -> \E k \in 1..Len(g.args) : Holds(g.args[k], FF)
      [] g.op = "all"   -> \A k \in 1..Len(g.args) : Holds(g.args[k], FF)
      [] g.op = "not"   -> ~Holds(g.args[1], FF)
      [] g.op = "test"  -> FALSE              \* library target, not the test harness
      [] g.op = "true"  -> TRUE
      [] OTHER          -> FALSE              \* docsrs and other non-feature predicates: off

Truth(FF) == [g \in 1..Len(Guards) |-> Holds(Guards[g], FF)]

PresentH(i, h) == \A k \in 1..Len(Items[i].conds) : h[Items[i].conds[k]]
Present(i, FF) == PresentH(i, Truth(FF))

RefOKH(r, h) ==
    PresentH(r.src, h) =>
        \E a \in 1..Len(r.alts) :
            /\ PresentH(r.alts[a].t, h)
            /\ \A k \in 1..Len(r.alts[a].via) : h[r.alts[a].via[k]]

InCone(cc, r) == r.crate \in Range(Crates[cc].cone)

Open(cc, FF) == LET h == Truth(FF) IN {k \in 1..Len(Refs) : InCone(cc, Refs[k]) /\ ~RefOKH(Refs[k], h)}

---------------------------------------------------------------------------
Init == c \in 1..Len(Crates) /\ F = {}

Enable(f) == /\ f \in User(c) \ F
             /\ F' = Close(F \cup {f})
             /\ UNCHANGED c

Next == \E f \in User(c) : Enable(f)

Spec == Init /\ [][Next]_vars

---------------------------------------------------------------------------
TypeOK == c \in 1..Len(Crates) /\ F \in AllConfigs(c)

(* the property of the design *)
GuardClosed == Open(c, F) = {}

(* the machine reaches exactly the configurations cargo can compute (POSTCONDITION) *)
RECURSIVE SumConfigs(_)
SumConfigs(k) == IF k = 0 THEN 0 ELSE Cardinality(AllConfigs(k)) + SumConfigs(k - 1)
ReachedAll == TLCGet("distinct") = SumConfigs(Len(Crates))

---------------------------------------------------------------------------
(* The quick configuration set: a pairwise (strength 2) covering array.               *)
(* Construction (Kleitman-Spencer / Katona): N rows; row 1 enables nothing; feature   *)
(* number j is enabled exactly in the rows of the j-th m-element subset of 2..N,      *)
(* m = (N-1) \div 2 + 1.  Two different m-subsets of an (N-1)-set with 2m > N-1       *)
(* intersect (a row with both on), neither contains the other (rows with exactly one  *)
(* on), and row 1 has both off.  N is the least number with enough m-subsets.  The    *)
(* construction is not trusted: PairwiseCovered below is CHECKED by TLC on the closed *)
(* configurations actually emitted.                                                   *)
Pow2(n) == IF n = 0 THEN 1 ELSE IF n = 1 THEN 2 ELSE IF n = 2 THEN 4 ELSE IF n = 3 THEN 8
           ELSE IF n = 4 THEN 16 ELSE IF n = 5 THEN 32 ELSE IF n = 6 THEN 64 ELSE IF n = 7 THEN 128
           ELSE IF n = 8 THEN 256 ELSE 512
Bits(v, w) == {b \in 0..(w - 1) : (v \div Pow2(b)) % 2 = 1}
MSub(w) == {v \in 0..(Pow2(w) - 1) : Cardinality(Bits(v, w)) = w \div 2 + 1}
RowsFor(k) == CHOOSE n \in 2..10 : Cardinality(MSub(n - 1)) >= k /\
                                   \A n2 \in 2..(n - 1) : Cardinality(MSub(n2 - 1)) < k
NthSub(w, j) == CHOOSE v \in MSub(w) : Cardinality({u \in MSub(w) : u < v}) = j - 1

CoverRows(cc) ==
    LET u == Crates[cc].user
        k == Len(u)
        n == RowsFor(k)
        col == [j \in 1..k |-> Bits(NthSub(n - 1, j), n - 1)]      \* rows (0-based among 2..N)
    IN  {Close({u[j] : j \in {jj \in 1..k : row \in col[jj]}}) : row \in 0..(n - 2)} \cup {{}}

Singles(cc) == {Close({f}) : f \in User(cc)}
Full(cc)    == Close(User(cc))
DocSets(cc) == {Close(Range(Crates[cc].docsets[k])) : k \in 1..Len(Crates[cc].docsets)}

(* every feasible on/off combination of two user features occurs in the covering rows *)
Matching(cc, f, bf, g, bg) == {FF \in AllConfigs(cc) : (f \in FF) = bf /\ (g \in FF) = bg}
Covers(rows, f, bf, g, bg) == \E FF \in rows : (f \in FF) = bf /\ (g \in FF) = bg

PairwiseCovered(cc, rows) ==
    \A f \in User(cc), g \in User(cc) : \A bf \in BOOLEAN, bg \in BOOLEAN :
        (f # g /\ Matching(cc, f, bf, g, bg) # {}) => Covers(rows, f, bf, g, bg)

(* Implications (tbc => wow_srp ...) switch features on behind the construction's back, so  *)
(* some feasible pairs (wow_srp off, x on) are lost; each lost pair gets a smallest          *)
(* configuration exhibiting it.                                                              *)
Smallest(S) == CHOOSE FF \in S : \A GG \in S : Cardinality(FF) <= Cardinality(GG)
Repair(cc) ==
    {Smallest(Matching(cc, q[1], q[2], q[3], q[4])) :
        q \in {p \in User(cc) \X BOOLEAN \X User(cc) \X BOOLEAN :
                  /\ p[1] # p[3] /\ Matching(cc, p[1], p[2], p[3], p[4]) # {}
                  /\ ~Covers(CoverRows(cc), p[1], p[2], p[3], p[4])}}
CoverT == [cc \in 1..Len(Crates) |-> CoverRows(cc) \cup Repair(cc)]
Cover(cc) == CoverT[cc]

ASSUME \A cc \in 1..Len(Crates) : PairwiseCovered(cc, Cover(cc))

(* Strength 3 over the CORE features of a crate that also has auxiliary ones (a guard such as  *)
(* any(tokio, async-std) narrowed to tokio breaks only where wrath and async-std are on and    *)
(* tokio is off - no pair of settings exhibits it).  Construction: the first-order Reed-Muller *)
(* code RM(1,m): core feature number j is a point of the affine space AG(m,2), a row is an     *)
(* affine function a0 + a1 x1 + .. + am xm evaluated at the points.  Any three distinct points *)
(* of AG(m,2) are affinely independent, so the 2^(m+1) rows show every on/off pattern of every *)
(* three columns (an orthogonal array of strength 3).  Auxiliary features are off in these     *)
(* rows.  As above the construction is not trusted: TripleCovered is CHECKED by TLC on the     *)
(* closed configurations, and feasible triples lost to implications are repaired.              *)
CoreSeq(cc) == SelectSeq(Crates[cc].user, LAMBDA f : f \in Core(cc))
AffM(k) == IF k <= 8 THEN 3 ELSE IF k <= 16 THEN 4 ELSE 5
AffBit(a, j, m) == (((a \div Pow2(m)) % 2) +
                    Cardinality({b \in 0..(m - 1) : (a \div Pow2(b)) % 2 = 1 /\ (j \div Pow2(b)) % 2 = 1})) % 2
Cover3Rows(cc) ==
    LET u == CoreSeq(cc)
        k == Len(u)
        m == AffM(k)
    IN  IF Aux(cc) = {} \/ k < 3 THEN {}
        ELSE {Close({u[j] : j \in {jj \in 1..k : AffBit(a, jj - 1, m) = 1}}) : a \in 0..(Pow2(m + 1) - 1)}

Matching3(cc, f, bf, g, bg, h, bh) ==
    {FF \in AllConfigs(cc) : (f \in FF) = bf /\ (g \in FF) = bg /\ (h \in FF) = bh}
Covers3(rows, f, bf, g, bg, h, bh) ==
    \E FF \in rows : (f \in FF) = bf /\ (g \in FF) = bg /\ (h \in FF) = bh
Triples(cc) == {p \in Core(cc) \X BOOLEAN \X Core(cc) \X BOOLEAN \X Core(cc) \X BOOLEAN :
                   p[1] # p[3] /\ p[1] # p[5] /\ p[3] # p[5]}
Repair3(cc) ==
    IF Cover3Rows(cc) = {} THEN {}
    ELSE {Smallest(Matching3(cc, q[1], q[2], q[3], q[4], q[5], q[6])) :
            q \in {p \in Triples(cc) :
                      /\ Matching3(cc, p[1], p[2], p[3], p[4], p[5], p[6]) # {}
                      /\ ~Covers3(Cover3Rows(cc), p[1], p[2], p[3], p[4], p[5], p[6])}}
Cover3T == [cc \in 1..Len(Crates) |-> Cover3Rows(cc) \cup Repair3(cc)]
Cover3(cc) == Cover3T[cc]
TripleCovered(cc, rows) ==
    \A p \in Triples(cc) :
        Matching3(cc, p[1], p[2], p[3], p[4], p[5], p[6]) # {} => Covers3(rows, p[1], p[2], p[3], p[4], p[5], p[6])
ASSUME \A cc \in 1..Len(Crates) : Cover3(cc) # {} => TripleCovered(cc, Cover3(cc))

QuickT == [cc \in 1..Len(Crates) |->
             Cover(cc) \cup Cover3(cc) \cup Singles(cc) \cup {Full(cc), Close(Range(Crates[cc].dflt))} \cup DocSets(cc)]
QuickSet(cc) == QuickT[cc]

(* thorough: the whole powerset of the core features, once with the auxiliary features *)
(* all off and once with all of them on, plus the quick set.  A crate without          *)
(* auxiliary features: every configuration.                                            *)
ThoroughT == [cc \in 1..Len(Crates) |->
                {Close(S) : S \in SUBSET Core(cc)} \cup {Close(S \cup Aux(cc)) : S \in SUBSET Core(cc)}
                    \cup QuickSet(cc)]
ThoroughSet(cc) == ThoroughT[cc]

ASSUME \A cc \in 1..Len(Crates) : QuickSet(cc) \subseteq AllConfigs(cc)

---------------------------------------------------------------------------
(* Behaviour records for the replay (spec -> cargo).  One per reachable configuration. *)
RECURSIVE SetToSeq(_)
SetToSeq(S) == IF S = {} THEN <<>> ELSE LET x == CHOOSE y \in S : TRUE IN <<x>> \o SetToSeq(S \ {x})

(* informational: a feature whose selection changes the truth of no guard in the crate's cone *)
(* (neither a cfg nor a use of the optional dependency it switches on mentions it)           *)
Inert(cc) == {f \in User(cc) : Truth(Close({f})) = Truth({})}

Witness(k) == [ref |-> k, eg |-> Refs[k].eg, n |-> Refs[k].n, src |-> Items[Refs[k].src].id]

Record ==
    LET open == IF Tamper = "open" /\ F = Full(c) THEN {1} ELSE Open(c, F)
        some == IF Cardinality(open) <= 5 THEN open
                ELSE {k \in open : Cardinality({j \in open : j < k}) < 5}
    IN  [kind |-> "config", crate |-> Crates[c].name,
         features |-> SetToSeq(Selection(c, F)), closure |-> SetToSeq(F),
         closed |-> open = {}, nopen |-> Cardinality(open),
         open |-> SetToSeq({Witness(k) : k \in some}),
         quick |-> F \in QuickSet(c), thorough |-> F \in ThoroughSet(c),
         cover |-> F \in Cover(c), cover3 |-> F \in Cover3(c),
         inert |-> IF F = {} THEN SetToSeq(Inert(c)) ELSE <<>>]

Emit == PrintT("REPLAY " \o ToJson(Record))
=============================================================================
