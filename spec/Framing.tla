------------------------------ MODULE Framing ------------------------------
(***************************************************************************)
(* The frame stream between a World of Warcraft client and a world server  *)
(* (properties C02 "framing is exact, streams stay aligned" and C05        *)
(* "header encryption is transparent for whole message sequences").        *)
(*                                                                         *)
(* Source: wowm_language/src/ir/implementing_world.md, "Message Layout"    *)
(* and "Encryption":                                                       *)
(*  - every message starts with a BIG endian size field, followed by a     *)
(*    LITTLE endian opcode field of 4 bytes (from the client) or 2 bytes   *)
(*    (from the server), followed by the body;                             *)
(*  - the size field holds the size of the opcode field plus the size of   *)
(*    the body;                                                            *)
(*  - the size field is 2 bytes, except that a Wrath server message whose  *)
(*    first size byte has bit 0x80 set carries a 3 byte size field (the    *)
(*    marker bit is not part of the value).  A 2 byte field whose first    *)
(*    bit is set cannot be told from the marker, so a Wrath server frame   *)
(*    uses the 3 byte form exactly when its size value exceeds 0x7FFF;     *)
(*  - header encryption is a stream cipher over the header bytes only,     *)
(*    one cipher state per direction and peer (four halves).               *)
(*                                                                         *)
(* The stream is modelled as a sequence of frames (header bytes spelled    *)
(* out, body by its length only - bodies of 8 MiB are in scope), with      *)
(* byte positions of writer and reader and, for each cipher half, the      *)
(* number of keystream bytes it has consumed.  The READER never looks at   *)
(* the frame record: it parses the header BYTES (ParseHeader), so the      *)
(* invariants Aligned / RoundTrip / InStep are theorems about the header   *)
(* grammar, not restatements of the writer.                                *)
(*                                                                         *)
(* Modes (IOEnv.FR_MODE):                                                  *)
(*   c02   histories of 1..3 frames on ONE stream, plain and encrypted     *)
(*   c05   encrypted dialogues of 2..4 frames over BOTH directions         *)
(*   sweep one frame per body length, every length (thorough tier)         *)
(*   lemma HeaderCodec over a whole range of body lengths, no state space  *)
(*   trace used by TraceFraming (no history generation)                    *)
(* Every state in which all written frames have been delivered prints one  *)
(* REPLAY record: expected header bytes per frame, expected reader         *)
(* position after each read, expected keystream positions.                 *)
(***************************************************************************)
EXTENDS Naturals, Sequences, FiniteSets, TLC, Json, IOUtils

Pool == JsonDeserialize(IOEnv.FR_POOL)  \* tools/framing_pool.py: messages taken from the wowm sources
Mode == IOEnv.FR_MODE
Tier == IOEnv.FR_TIER                   \* "quick" | "thorough"
Mut  == IOEnv.FR_MUT                    \* "none", or a deliberate model fault for the binding self-test
Part == IOEnv.FR_PART                   \* "" or "exp/dir": restrict a run to one expansion and direction

VARIABLES exp,        \* expansion of this behaviour
          dirs,       \* directions in use: one stream (c02, sweep) or both (c05)
          entry,      \* reader entry point
          crypt,      \* header encryption on?
          stream,     \* [dir -> sequence of frames]
          order,      \* the history: sequence of <<dir, index into stream[dir]>> in write order
          wpos,       \* [dir -> bytes written]
          ri,         \* [dir -> frames consumed by the reader]
          rpos,       \* [dir -> bytes consumed by the reader]
          delivered,  \* [dir -> sequence of what the reader returned]
          enc,        \* [dir -> keystream bytes consumed by the WRITER's half of that direction]
          dec,        \* [dir -> keystream bytes consumed by the READER's half of that direction]
          sw          \* sweep mode: the body length under test

vars == <<exp, dirs, entry, crypt, stream, order, wpos, ri, rpos, delivered, enc, dec, sw>>

Exps    == {"vanilla", "tbc", "wrath"}
Dirs    == {"client", "server"}
Entries == {"opcode", "expect", "expect_other"}

ToSet(s) == {s[i] : i \in DOMAIN s}
PoolOf(e, d) == {m \in ToSet(Pool) : m.dir = d /\ e \in ToSet(m.exps)}

---------------------------------------------------------------------------
(* The header grammar.                                                     *)

OW(d) == IF d = "client" THEN 4 ELSE 2          \* width of the opcode field
Var3(e, d) == e = "wrath" /\ d = "server"       \* the one stream with a variable-length size field
Thresh == 32767                                 \* 0x7FFF: largest value a 2 byte size field can carry there
MaxSize(e, d) == IF Var3(e, d) THEN 8388607 ELSE 65535     \* 0x7FFFFF (marker bit excluded) / 0xFFFF

SizeOf(d, n) == OW(d) + n                       \* value of the size field for a body of n bytes
Expressible(e, d, n) == SizeOf(d, n) <= MaxSize(e, d)
MaxBody(e, d) == MaxSize(e, d) - OW(d)

\* the 3 byte form is used exactly when the size VALUE does not fit the 2 byte form
Large(e, d, s) ==
    IF Mut = "thresh_on_total" THEN Var3(e, d) /\ s + 2 > Thresh   \* self-test: decide on the total length
    ELSE Var3(e, d) /\ s > Thresh

SizeBytes(e, d, s) ==
    IF Large(e, d, s) THEN <<128 + (s \div 65536), (s \div 256) % 256, s % 256>>
    ELSE <<s \div 256, s % 256>>

LE(w, v) == [i \in 1..w |-> (v \div (256 ^ (i - 1))) % 256]

EncodeHeader(e, d, op, n) == SizeBytes(e, d, SizeOf(d, n)) \o LE(OW(d), op)

HeaderLen(e, d, n) == (IF Large(e, d, SizeOf(d, n)) THEN 3 ELSE 2) + OW(d)

\* What a reader learns from header bytes alone.
ParseHeader(e, d, h) ==
    LET lg == Var3(e, d) /\ h[1] >= 128
        sl == IF lg THEN 3 ELSE 2
        wf == Len(h) = sl + OW(d)
        s  == IF lg THEN (h[1] - 128) * 65536 + h[2] * 256 + h[3] ELSE h[1] * 256 + h[2]
        op == IF ~wf THEN 0
              ELSE IF OW(d) = 2 THEN h[sl + 1] + 256 * h[sl + 2]
              ELSE h[sl + 1] + 256 * h[sl + 2] + 65536 * h[sl + 3] + 16777216 * h[sl + 4]
    IN [hlen |-> sl + OW(d), size |-> s, opcode |-> op, wf |-> wf]

\* bytes a reader takes after the header
BodyFrom(e, d, p) ==
    LET k == IF Mut = "reader_sub3" /\ p.hlen = 5 THEN 3 ELSE OW(d)   \* self-test: the defect of the 3 byte reader
    IN IF p.size >= k THEN p.size - k ELSE 0

\* HeaderCodec: parsing an encoded header gives back length, size and opcode - for one body length
CodecOK(e, d, op, n) ==
    LET h == EncodeHeader(e, d, op, n)
        p == ParseHeader(e, d, h)
    IN /\ p.wf /\ p.hlen = Len(h) /\ p.hlen = HeaderLen(e, d, n)
       /\ p.size = SizeOf(d, n) /\ p.opcode = op
       /\ BodyFrom(e, d, p) = n
       /\ \A i \in 1..Len(h) : h[i] \in 0..255
       /\ (Var3(e, d) => ((h[1] >= 128) <=> (SizeOf(d, n) > Thresh)))
       /\ (~Var3(e, d) => Len(h) = 2 + OW(d))

---------------------------------------------------------------------------
(* The bounds: which body lengths a history of k frames draws from.        *)

BandFull == {0, 1, 2} \cup (32760..32772) \cup (65528..65542) \cup (8388600..8388605)
BandMid  == {0, 2, 32763, 32764, 32765, 32766, 32767, 32768,
             65529, 65530, 65531, 65532, 65533, 65534, 65535, 65536, 8388605}
\* the body whose whole frame (2 byte size form) is exactly 0xFFFF bytes long
Tot16(d) == 65535 - 2 - OW(d)
BandCore(d) == {1, 32765, 32766, Tot16(d), 65536}
BandDlg(e, d) == {0, 32763, 32765, 32766, 32768, Tot16(d), Tot16(d) + 1, 65536}   \* dialogues (c05), 1-2 frames
                 \cup (IF MaxBody(e, d) < 70000 THEN {MaxBody(e, d)} ELSE {})
BandTwo  == {32765, 32766}                                        \* last 2 byte / first 3 byte Wrath size

MaxHist == IF Mode = "c05" THEN 4 ELSE 3

Band(e, d, k) ==
    IF Mode = "c05" THEN (CASE k \in {1, 2} -> IF Tier = "thorough" THEN BandMid ELSE BandDlg(e, d)
                            [] k = 3 -> BandCore(d)
                            [] OTHER -> BandTwo)
    ELSE (CASE k = 1 -> BandFull
            [] k = 2 -> BandMid
            [] OTHER -> IF Tier = "thorough" THEN BandCore(d) \cup {32764, 32767, 65537} ELSE BandCore(d))

(* FOREIGN frames: a well-formed header whose opcode is not defined for this expansion and         *)
(* direction (a newer peer, a message this library does not know).  The message layout makes the   *)
(* frame self-delimiting, so every reader - whatever it then reports - has consumed exactly the    *)
(* announced bytes and decrypted exactly the header: the messages behind it are delivered as if    *)
(* the foreign frame were not there.  The client opcode needs more than 16 bits on purpose.        *)
ForeignOp(d) == IF d = "client" THEN 94207 ELSE 28671        \* 0x16FFF / 0x6FFF
ForeignMsg(d) == [name |-> "?", opcode |-> ForeignOp(d), dir |-> d, kind |-> "foreign", len |-> 0, min |-> 0, cap |-> 16777215]
ASSUME \A e \in Exps, d \in Dirs : \A m \in PoolOf(e, d) : m.opcode # ForeignOp(d)
ForeignBand(k) ==
    IF Mode = "c05" THEN (IF k <= 3 THEN {9} ELSE {})
    ELSE (CASE k = 1 -> {0, 9, 32766, 65530}
            [] k = 2 -> IF Tier = "thorough" THEN {9, 32766} ELSE {9}
            [] OTHER -> IF Tier = "thorough" THEN {9} ELSE {})
ForeignCands(e, d, k) == {c \in {ForeignMsg(d)} \X ForeignBand(k) : Expressible(e, d, c[2])}

\* candidate (message, body length) pairs for direction d in a history of k frames
Cands(e, d, k) ==
    {c \in PoolOf(e, d) \X Band(e, d, k) :
        /\ c[1].kind \in {"free", "strs"}
        /\ c[2] >= c[1].min
        /\ Expressible(e, d, c[2])
        /\ (c[1].kind = "strs" => (k = 1 \/ c[2] > 30000))}      \* the second free message matters for large bodies
    \cup {c \in PoolOf(e, d) \X {0, 4, 8} : c[1].kind = "fixed" /\ c[2] = c[1].len /\ (Mode = "c05" => k < 4)}
    \cup ForeignCands(e, d, k)

ClientCap == 10240    \* policy: readers may refuse larger client messages (still consuming them)


---------------------------------------------------------------------------
(* Actions.                                                                *)

EmptyF == [d \in Dirs |-> <<>>]
ZeroF  == [d \in Dirs |-> 0]

InitWith(e, ds, en, cr) ==
    /\ exp = e /\ dirs = ds /\ entry = en /\ crypt = cr
    /\ stream = EmptyF /\ order = <<>> /\ wpos = ZeroF /\ ri = ZeroF /\ rpos = ZeroF
    /\ delivered = EmptyF /\ enc = ZeroF /\ dec = ZeroF /\ sw = 0

PartOK(e, d) == Part = "" \/ Part = e \o "/" \o d

Init ==
    CASE Mode = "c02" ->
            \E e \in Exps, d \in Dirs, en \in Entries, cr \in BOOLEAN :
                PartOK(e, d) /\ InitWith(e, {d}, en, cr)
      [] Mode = "c05" ->
            \E e \in Exps, en \in Entries : (Part = "" \/ Part = e) /\ InitWith(e, Dirs, en, TRUE)
      [] Mode = "sweep" ->
            \E e \in Exps, d \in Dirs : PartOK(e, d) /\ InitWith(e, {d}, "all", FALSE)
      [] OTHER -> InitWith("vanilla", {"client"}, "opcode", FALSE)

\* The writer puts message m with a body of n bytes on the stream of direction d.
WriteFrame(d, m, n) ==
    /\ d \in dirs /\ (m \in PoolOf(exp, d) \/ m = ForeignMsg(d))
    /\ n >= m.min /\ (m.kind = "fixed" => n = m.len)
    /\ Expressible(exp, d, n)                 \* enabled iff the header form can express the length
    /\ LET h == EncodeHeader(exp, d, m.opcode, n)
           f == [name |-> m.name, opcode |-> m.opcode, body |-> n, hdr |-> h, size |-> SizeOf(d, n),
                 at |-> wpos[d],
                 encAt |-> enc[d], encLen |-> IF crypt THEN Len(h) ELSE 0,   \* only header bytes are encrypted
                 soft |-> (m.kind # "foreign" /\ (n > m.cap \/ (d = "client" /\ n > ClientCap)))]
       IN /\ stream' = [stream EXCEPT ![d] = Append(@, f)]
          /\ order' = Append(order, <<d, Len(stream[d]) + 1>>)
          /\ wpos' = [wpos EXCEPT ![d] = @ + Len(h) + n]
          /\ enc' = [enc EXCEPT ![d] = @ + f.encLen]
    /\ UNCHANGED <<exp, dirs, entry, crypt, ri, rpos, delivered, dec, sw>>

(* RUNT frames: bytes no writer produces - a size field smaller than the opcode field it counts    *)
(* (0..OW-1), in the 2 byte form and, on the Wrath server stream, behind the 3 byte marker.  The   *)
(* grammar still delimits them: there is no body (BodyFrom saturates), the opcode bytes follow the *)
(* size field as always.  A reader must take the header and nothing else - and must not abort     *)
(* (C03: decoding is total).  The opcode is the foreign one, so every entry point reports it.      *)
RuntFrame(d, s, lg) ==
    /\ d \in dirs /\ s < OW(d) /\ (lg => Var3(exp, d))
    /\ LET h == (IF lg THEN <<128, 0, s>> ELSE <<0, s>>) \o LE(OW(d), ForeignOp(d))
           f == [name |-> "?", opcode |-> ForeignOp(d), body |-> 0, hdr |-> h, size |-> s,
                 at |-> wpos[d], encAt |-> enc[d], encLen |-> IF crypt THEN Len(h) ELSE 0, soft |-> FALSE]
       IN /\ stream' = [stream EXCEPT ![d] = Append(@, f)]
          /\ order' = Append(order, <<d, Len(stream[d]) + 1>>)
          /\ wpos' = [wpos EXCEPT ![d] = @ + Len(h)]
          /\ enc' = [enc EXCEPT ![d] = @ + f.encLen]
    /\ UNCHANGED <<exp, dirs, entry, crypt, ri, rpos, delivered, dec, sw>>
IsRunt(d, f) == f.size < OW(d)

NameOf(d, op) ==
    IF \E m \in PoolOf(exp, d) : m.opcode = op
    THEN (CHOOSE m \in PoolOf(exp, d) : m.opcode = op).name
    ELSE "?"

\* The reader of direction d takes the next frame off the stream.  It sees bytes only: the header
\* bytes (after decrypting them with its own half, which yields the plaintext iff its keystream
\* position is the one the writer encrypted at) and then as many bytes as the header announces.
ReadFrame(d) ==
    /\ d \in dirs /\ ri[d] < Len(stream[d])
    /\ LET f == stream[d][ri[d] + 1]
           p == ParseHeader(exp, d, f.hdr)
           b == BodyFrom(exp, d, p)
           k == IF crypt THEN p.hlen ELSE 0
       IN /\ (crypt => f.encAt = dec[d])      \* otherwise the reader decrypts garbage: see KeysAligned
          /\ p.wf
          /\ ri' = [ri EXCEPT ![d] = @ + 1]
          /\ rpos' = [rpos EXCEPT ![d] = @ + p.hlen + b]
          /\ dec' = [dec EXCEPT ![d] = @ + k]
          /\ delivered' = [delivered EXCEPT ![d] =
                Append(@, [name |-> NameOf(d, p.opcode), opcode |-> p.opcode, body |-> b, soft |-> f.soft,
                           end |-> rpos[d] + p.hlen + b, decEnd |-> dec[d] + k])]
    /\ UNCHANGED <<exp, dirs, entry, crypt, stream, order, wpos, enc, sw>>

AllDelivered == \A d \in Dirs : ri[d] = Len(stream[d])

\* history generation: the k-th frame of a history is drawn from the candidates of histories of length >= k
FrameAllowed(d, i, k) ==
    \/ \E c \in Cands(exp, d, k) : c[1].name = stream[d][i].name /\ c[2] = stream[d][i].body /\ ~IsRunt(d, stream[d][i])
    \/ IsRunt(d, stream[d][i]) /\ k <= 2

Extend(k) ==
    /\ Len(order) < k /\ k <= MaxHist
    /\ \A j \in 1..Len(order) : FrameAllowed(order[j][1], order[j][2], k)
    /\ \E d \in dirs : \E c \in Cands(exp, d, k) : WriteFrame(d, c[1], c[2])

Write          == ~crypt /\ Mode \in {"c02", "c05"} /\ Extend(Len(order) + 1)
WriteEncrypted == crypt /\ Mode \in {"c02", "c05"} /\ Extend(Len(order) + 1)
\* a runt as the first or second frame of a history of at most two (plain and encrypted)
WriteRunt ==
    /\ Mode = "c02" /\ Len(order) < 2
    /\ \A j \in 1..Len(order) : FrameAllowed(order[j][1], order[j][2], 2)
    /\ \E d \in dirs : \E s \in 0..(OW(d) - 1) : \E lg \in BOOLEAN : RuntFrame(d, s, lg)
Read           == ~crypt /\ \E d \in Dirs : ReadFrame(d)
ReadEncrypted  == crypt /\ \E d \in Dirs : ReadFrame(d)

\* sweep: one frame per body length; all lengths up to 0x1_0010, then every 4,099th up to the cap
SweepTop == 65552
NextLen(n) == IF n < SweepTop THEN n + 1 ELSE n + 4099
SweepDir == CHOOSE d \in dirs : TRUE

SweepWrite ==
    /\ Mode = "sweep" /\ order = <<>> /\ sw <= MaxBody(exp, SweepDir)
    /\ \E m \in PoolOf(exp, SweepDir) : m.kind \in {"free", "strs"} /\ WriteFrame(SweepDir, m, sw)

SweepNext ==
    /\ Mode = "sweep" /\ order # <<>> /\ AllDelivered
    /\ NextLen(sw) <= MaxBody(exp, SweepDir)
    /\ sw' = NextLen(sw)
    /\ stream' = EmptyF /\ order' = <<>> /\ wpos' = ZeroF /\ ri' = ZeroF /\ rpos' = ZeroF
    /\ delivered' = EmptyF /\ enc' = ZeroF /\ dec' = ZeroF
    /\ UNCHANGED <<exp, dirs, entry, crypt>>

Next == Write \/ WriteEncrypted \/ WriteRunt \/ Read \/ ReadEncrypted \/ SweepWrite \/ SweepNext

Spec == Init /\ [][Next]_vars

---------------------------------------------------------------------------
(* Invariants.                                                             *)

FrameLen(f) == Len(f.hdr) + f.body

TypeOK ==
    /\ exp \in Exps /\ dirs \subseteq Dirs /\ crypt \in BOOLEAN
    /\ \A d \in Dirs : /\ ri[d] \in 0..Len(stream[d])
                       /\ Len(delivered[d]) = ri[d]
                       /\ (d \notin dirs => stream[d] = <<>>)

\* the header in front of a message carries its opcode and the number of bytes that follow the size field
HeaderExact ==
    \A d \in Dirs : \A i \in 1..Len(stream[d]) :
        LET f == stream[d][i]
            p == ParseHeader(exp, d, f.hdr)
        IN \/ IsRunt(d, f)                                           \* not written by a writer of this library
           \/ /\ p.wf /\ p.opcode = f.opcode
              /\ p.size = (Len(f.hdr) - (p.hlen - OW(d))) + f.body      \* bytes after the size field
              /\ (Var3(exp, d) => ((Len(f.hdr) = 5) <=> (f.size > Thresh)))
              /\ (~Var3(exp, d) => Len(f.hdr) = 2 + OW(d))

\* the reader stands exactly at a frame boundary: after k reads it has consumed the first k frames
Aligned ==
    \A d \in Dirs :
        /\ rpos[d] = (IF ri[d] = 0 THEN 0 ELSE stream[d][ri[d]].at + FrameLen(stream[d][ri[d]]))
        /\ (ri[d] = Len(stream[d]) => rpos[d] = wpos[d])

\* what was delivered is a prefix of what was written
RoundTrip ==
    \A d \in Dirs : \A i \in 1..ri[d] :
        /\ delivered[d][i].name = stream[d][i].name
        /\ delivered[d][i].body = stream[d][i].body

\* foreign frames are transparent: dropping them from what was written and from what was delivered
\* leaves the same sequence of messages (a reader that reports an unknown opcode is still aligned)
Known(sq) == SelectSeq(sq, LAMBDA x : x.name # "?")
ForeignTransparent ==
    \A d \in Dirs :
        LET w == Known(SubSeq(stream[d], 1, ri[d]))
            r == Known(delivered[d])
        IN /\ Len(w) = Len(r)
           /\ \A i \in 1..Len(w) : w[i].name = r[i].name /\ w[i].body = r[i].body /\ r[i].end = w[i].at + FrameLen(w[i])
           /\ \A i \in 1..ri[d] : (stream[d][i].name = "?") <=> (delivered[d][i].name = "?")

\* the reader's half is always at the keystream position at which the next frame was encrypted ...
KeysAligned ==
    \A d \in Dirs : (crypt /\ ri[d] < Len(stream[d])) => stream[d][ri[d] + 1].encAt = dec[d]
\* ... and after every delivered message sequence both halves of a direction have consumed the same
InStep == \A d \in Dirs : (ri[d] = Len(stream[d])) => enc[d] = dec[d]

\* ciphertext and plaintext differ in header bytes only
BodyClear ==
    \A d \in Dirs : \A i \in 1..Len(stream[d]) :
        LET f == stream[d][i]
        IN /\ f.encLen = (IF crypt THEN Len(f.hdr) ELSE 0)
           /\ f.encAt = (IF i = 1 THEN 0 ELSE stream[d][i - 1].encAt + stream[d][i - 1].encLen)

\* a frame whose header could not be parsed or decrypted would block the reader for ever
NoStuckReader ==
    \A d \in Dirs : ri[d] < Len(stream[d]) => ENABLED ReadFrame(d)

\* HeaderCodec on every frame the exploration writes, and on the band around it
HeaderCodecBand ==
    order = <<>> => \A d \in dirs : \A m \in PoolOf(exp, d) :
        \A n \in BandFull : Expressible(exp, d, n) => CodecOK(exp, d, m.opcode, n)

---------------------------------------------------------------------------
(* HeaderCodec over whole ranges (mode "lemma"; chunked so the workers share it).                *)
LemmaLo == atoi(IOEnv.FR_LO)
LemmaHi == atoi(IOEnv.FR_HI)
HeaderCodecRange ==
    Mode = "lemma" =>
        \A e \in Exps, d \in Dirs :
            \A n \in LemmaLo..LemmaHi : Expressible(e, d, n) => CodecOK(e, d, 743, n)
\* and nothing beyond the cap is expressible
CapExact ==
    \A e \in Exps, d \in Dirs :
        /\ Expressible(e, d, MaxBody(e, d)) /\ ~Expressible(e, d, MaxBody(e, d) + 1)
        /\ CodecOK(e, d, 65535, MaxBody(e, d)) /\ CodecOK(e, d, 0, 0)
ASSUME Mut # "none" \/ CapExact

\* and every runt header (size field below the opcode width, either form) parses to "header only"
RuntCodec ==
    \A e \in Exps, d \in Dirs : \A s \in 0..(OW(d) - 1) : \A lg \in BOOLEAN :
        (lg => Var3(e, d)) =>
            LET h == (IF lg THEN <<128, 0, s>> ELSE <<0, s>>) \o LE(OW(d), ForeignOp(d))
                p == ParseHeader(e, d, h)
            IN p.wf /\ p.hlen = Len(h) /\ p.size = s /\ p.opcode = ForeignOp(d) /\ BodyFrom(e, d, p) = 0
ASSUME Mut # "none" \/ RuntCodec

\* the caps of the header forms, for the request generator of the random driver (impl -> spec)
EmitCaps ==
    Mode = "lemma" =>
        PrintT("REPLAY " \o ToJson([kind |-> "caps",
                                    caps |-> {[exp |-> e, dir |-> d, maxBody |-> MaxBody(e, d)] : e \in Exps, d \in Dirs},
                                    lo |-> LemmaLo, hi |-> LemmaHi]))

---------------------------------------------------------------------------
(* Behaviour records for the replay (spec -> implementation).              *)

ReadsOf(d) == [i \in 1..ri[d] |-> delivered[d][i]]

Emit ==
    (order # <<>> /\ AllDelivered /\ Mode \in {"c02", "c05", "sweep"}) =>
        PrintT("REPLAY " \o ToJson(
            [kind |-> "frames", mode |-> Mode, exp |-> exp, entry |-> entry, crypt |-> crypt,
             msgs |-> [j \in 1..Len(order) |->
                         LET d == order[j][1]
                             f == stream[d][order[j][2]]
                         IN [dir |-> d, name |-> f.name, opcode |-> f.opcode, body |-> f.body, hdr |-> f.hdr,
                             total |-> FrameLen(f), at |-> f.at, encAt |-> f.encAt, encLen |-> f.encLen,
                             soft |-> f.soft]],
             reads |-> [client |-> ReadsOf("client"), server |-> ReadsOf("server")],
             final |-> [enc |-> enc, dec |-> dec, wpos |-> wpos, rpos |-> rpos]]))
=============================================================================
