SPECIFICATION Spec
INVARIANT TypeOK
INVARIANT HeaderExact
INVARIANT Aligned
INVARIANT RoundTrip
INVARIANT ForeignTransparent
INVARIANT KeysAligned
INVARIANT InStep
INVARIANT BodyClear
INVARIANT NoStuckReader
INVARIANT Emit
CHECK_DEADLOCK FALSE
