SPECIFICATION Spec
INVARIANT HeaderCodecRange
INVARIANT EmitCaps
CHECK_DEADLOCK FALSE
