------------------------------ MODULE GenTree ------------------------------
(***************************************************************************)
(* C08 - the generated tree under runs of the generator (`cargo gen`).     *)
(*                                                                         *)
(* State: for every generated path its content state                       *)
(*      absent | correct | stale | truncated | extra                       *)
(* (`extra` = a file exists at a path the generator does not print from    *)
(* the current wowm), plus the bookkeeping of one generator process: which *)
(* produced paths it has handled, the scan set and the written marks of    *)
(* ModFiles, how far it got, how many times it was killed.                 *)
(*                                                                         *)
(* Paths are abstracted to the classes the generator treats differently    *)
(* (the writer function used and whether ModFiles tracks the path):        *)
(*   obj    object file in a ModFiles-managed directory (logon/, world/,   *)
(*          inner/), written through ModFiles::write_file                  *)
(*   modrs  a mod.rs in a managed directory, written by write_*_modules    *)
(*   opc    an opcodes.rs in a managed directory: marked "written" at scan *)
(*          time, printed later with create_and_overwrite_if_not_same_...  *)
(*   doc    a page of wowm_language/src/docs (create_and_overwrite_...)    *)
(*   tail   hand-written head + generated text until end of file           *)
(*          (SUMMARY.md, types/update-mask.md): read, split, overwrite     *)
(*   ins    hand-written text around a marked generated block              *)
(*          (the overwrite_autogenerate functions): read, splice, overwrite *)
(*   whole  wholly generated, printed with overwrite_if_not_same_contents  *)
(*          which reads the old file first (mandatory pre-existence)       *)
(*                                                                         *)
(* The run follows main.rs: wireshark fragments; ModFiles::new (Scan);     *)
(* one write per object; documentation; implementation-type tables;        *)
(* module files; remove_unwritten_files; opcode files; the late whole-file *)
(* printers.  Inside one stage paths are handled in any order (object      *)
(* order is abstracted, the doc pages really are written in HashMap        *)
(* order).  A crash may end the process between any two file operations or *)
(* half way through a write; the next process starts from the tree as it   *)
(* was left.                                                               *)
(*                                                                         *)
(* Properties (the three clauses of C08 that are about the algorithm):     *)
(*   Idempotent        a complete run from the canonical tree performs no  *)
(*                     write and no remove                                 *)
(*   Converges         from every start tree in the property's quantifier  *)
(*                     and after <= MaxCrash crashes, a run cannot get     *)
(*                     stuck (panic) and a completed run leaves the        *)
(*                     canonical tree                                      *)
(*   NoForeignRemoval  only files in managed directories that the run does *)
(*                     not produce are ever removed                        *)
(***************************************************************************)
EXTENDS Naturals, Sequences, FiniteSets, TLC, Json

CONSTANTS
    Paths,          \* the path universe
    Class,          \* [Paths -> Classes]
    Stage,          \* [Paths -> 1..7], when a produced path is printed (see StageName)
    Produced,       \* [Paths -> BOOLEAN], printed from the current wowm
    NoPath,         \* a value outside Paths of the same type
    MaxCrash,       \* bound on the number of kills
    MaxPerturbed,   \* bound on the number of non-canonical paths in a start tree
    WholeCreates,   \* code variant: overwrite_if_not_same_contents creates a missing file
    DocsPruned,     \* code variant: doc pages that were not printed are removed
    OpcTracked,     \* code variant: only opcodes.rs files that will be printed are pre-marked
    Cells           \* "class/state" strings already shown not to converge (see Explained)

VARIABLES
    tree,       \* [Paths -> States]
    pc,         \* "pre" (before Scan) | "mid" | "rm" (removing) | "post" | "end"
    handled,    \* produced paths handled by the current process
    left,       \* [1..7 -> Nat], produced paths of each stage still to handle
    scanned,    \* ModFiles.already_existing_files keys found by the scan and still present
    marked,     \* keys whose value is `true` (written)
    status,     \* "running" | "crashed" | "panicked" | "done" | "diverged"
    crashes,    \* kills so far
    clean,      \* the current process started from the canonical tree
    fresh,      \* initial state (used to print it)
    op          \* the last file operation [k, p, ex, n]

vars == <<tree, pc, handled, left, scanned, marked, status, crashes, clean, fresh, op>>

States  == {"absent", "correct", "stale", "truncated", "extra"}
Classes == {"obj", "modrs", "opc", "doc", "tail", "ins", "whole"}

(* stages of main.rs in order; Scan sits between 1 and 2, the removal between 5 and 6 *)
StageName == <<"wireshark", "objects", "docs", "implementation_types", "modules", "opcodes", "late">>
NStages == 7

(* well-formedness of the constants (an invariant in every configuration) *)
ConstOK ==
    LET cls == Class
        stg == Stage
        prd == Produced
    IN  \A p \in Paths :
        /\ cls[p] \in Classes /\ stg[p] \in 1..NStages /\ prd[p] \in BOOLEAN
        /\ cls[p] = "obj"   => stg[p] = 2
        /\ cls[p] = "doc"   => stg[p] = 3
        /\ cls[p] = "tail"  => stg[p] = 3
        /\ cls[p] = "modrs" => stg[p] = 5
        /\ cls[p] = "opc"   => stg[p] = 6
        /\ cls[p] = "ins"   => stg[p] \in {4, 7}
        /\ cls[p] = "whole" => stg[p] \in {1, 7}
        \* a path with hand-written text is always "produced": nothing else could recreate it
        /\ cls[p] \in {"tail", "ins", "whole"} => prd[p]

(* ModFiles scans logon/, world/, inner/ *)
Managed(p) == Class[p] \in {"obj", "modrs", "opc"}
(* ... and marks what goes through ModFiles::write_file *)
ViaModFiles(p) == Class[p] \in {"obj", "modrs"}

Canon == LET prod == Produced IN [p \in Paths |-> IF prod[p] THEN "correct" ELSE "absent"]

(* The property's quantifier: "complete, with arbitrary generated files deleted, truncated,   *)
(* stale or extra".  A file that carries hand-written text is perturbed only inside its        *)
(* generated part: deleting it, or cutting it before its end marker, destroys text that is not *)
(* a function of the wowm, so those states are outside the quantifier.                         *)
NonCanon(p) ==
    IF ~Produced[p] THEN {"extra"}
    ELSE CASE Class[p] = "ins"  -> {"stale"}
           [] Class[p] = "tail" -> {"stale", "truncated"}
           [] OTHER             -> {"absent", "stale", "truncated"}

InDomain(t) == \A p \in Paths : t[p] = Canon[p] \/ t[p] \in NonCanon(p)

Left0 == LET prod == Produced
             stg  == Stage
         IN  [s \in 1..NStages |-> Cardinality({p \in Paths : prod[p] /\ stg[p] = s})]

NoOp == [k |-> "none", p |-> NoPath, ex |-> FALSE, n |-> 0]

InitWith(t) ==
    /\ tree = t
    /\ pc = "pre" /\ handled = {} /\ left = Left0 /\ scanned = {} /\ marked = {}
    /\ status = "running" /\ crashes = 0 /\ clean = (t = Canon) /\ fresh = TRUE /\ op = NoOp

(* start trees: at most MaxPerturbed paths off their canonical state, each in any state of its *)
(* quantifier domain *)
Init ==
    \E S \in {T \in SUBSET Paths : Cardinality(T) <= MaxPerturbed} :
        \E f \in [S -> States] :
            /\ \A p \in S : f[p] \in NonCanon(p)
            /\ InitWith([p \in Paths |-> IF p \in S THEN f[p] ELSE Canon[p]])

---------------------------------------------------------------------------
(* What the writer used for class c does with a file in state s. *)
Outcome(p) ==
    LET s == tree[p]
        c == Class[p]
    IN  CASE s = "correct" -> "skip"
          [] s = "absent" /\ c \in {"obj", "modrs", "opc", "doc"} -> "create"
          [] s = "absent" /\ c = "whole" -> IF WholeCreates THEN "create" ELSE "panic"
          [] s = "absent" /\ c \in {"tail", "ins"} -> "panic"     \* read_to_string(..).unwrap()
          [] s = "truncated" /\ c = "ins" -> "panic"              \* end marker gone: split_once(..).unwrap()
          [] OTHER -> "overwrite"

StagesBeforeDone(i) == \A s \in 1..(i - 1) : left[s] = 0

PcFor(i) == IF i = 1 THEN "pre" ELSE IF i <= 5 THEN "mid" ELSE "post"

ExtraDocs == {p \in Paths : Class[p] = "doc" /\ ~Produced[p] /\ tree[p] # "absent"}

CanHandle(p) ==
    /\ status = "running" /\ Produced[p] /\ p \notin handled
    /\ pc = PcFor(Stage[p]) /\ StagesBeforeDone(Stage[p])
    /\ (DocsPruned /\ Stage[p] > 3) => ExtraDocs = {}

(* write-if-different, create if absent, mark written *)
WriteIfDifferent(p) ==
    /\ CanHandle(p)
    /\ Outcome(p) # "panic"
    /\ tree' = [tree EXCEPT ![p] = "correct"]
    /\ op' = [k |-> IF Outcome(p) = "skip" THEN "skip" ELSE "write",
              p |-> p, ex |-> tree[p] # "absent", n |-> 0]
    /\ handled' = handled \cup {p}
    /\ left' = [left EXCEPT ![Stage[p]] = @ - 1]
    /\ marked' = IF ViaModFiles(p) THEN marked \cup {p} ELSE marked
    /\ fresh' = FALSE
    /\ UNCHANGED <<pc, scanned, status, crashes, clean>>

Panic(p) ==
    /\ CanHandle(p)
    /\ Outcome(p) = "panic"
    /\ status' = "panicked"
    /\ op' = [k |-> "panic", p |-> p, ex |-> tree[p] # "absent", n |-> 0]
    /\ fresh' = FALSE
    /\ UNCHANGED <<tree, pc, handled, left, scanned, marked, crashes, clean>>

(* ModFiles::new: every file under the managed directories; opcodes.rs pre-marked *)
Scan ==
    /\ status = "running" /\ pc = "pre" /\ left[1] = 0
    /\ LET found == {p \in Paths : Managed(p) /\ tree[p] # "absent"} IN
        /\ scanned' = found
        /\ marked' = {p \in found : Class[p] = "opc" /\ (OpcTracked => Produced[p])}
        /\ op' = [k |-> "scan", p |-> NoPath, ex |-> FALSE, n |-> Cardinality(found)]
    /\ pc' = "mid" /\ fresh' = FALSE
    /\ UNCHANGED <<tree, handled, left, status, crashes, clean>>

(* code variant DocsPruned only: pages in docs/ that were not printed are removed *)
PruneDoc(p) ==
    /\ DocsPruned /\ status = "running" /\ pc = "mid" /\ StagesBeforeDone(4)
    /\ p \in ExtraDocs
    /\ tree' = [tree EXCEPT ![p] = "absent"]
    /\ op' = [k |-> "remove", p |-> p, ex |-> TRUE, n |-> 0]
    /\ fresh' = FALSE
    /\ UNCHANGED <<pc, handled, left, scanned, marked, status, crashes, clean>>

(* write_modules_and_remove_unwritten_files, after the module files *)
WriteModulesDone ==
    /\ status = "running" /\ pc = "mid" /\ StagesBeforeDone(6)
    /\ pc' = "rm"
    /\ op' = [k |-> "rmstart", p |-> NoPath, ex |-> FALSE, n |-> Cardinality(scanned \cup marked)]
    /\ fresh' = FALSE
    /\ UNCHANGED <<tree, handled, left, scanned, marked, status, crashes, clean>>

Unwritten == scanned \ marked

RemoveUnwritten(p) ==
    /\ status = "running" /\ pc = "rm" /\ p \in Unwritten
    /\ tree' = [tree EXCEPT ![p] = "absent"]
    /\ scanned' = scanned \ {p}
    /\ op' = [k |-> "remove", p |-> p, ex |-> TRUE, n |-> 0]
    /\ fresh' = FALSE
    /\ UNCHANGED <<pc, handled, left, marked, status, crashes, clean>>

RemoveDone ==
    /\ status = "running" /\ pc = "rm" /\ Unwritten = {}
    /\ pc' = "post"
    /\ op' = [k |-> "rmdone", p |-> NoPath, ex |-> FALSE, n |-> 0]
    /\ fresh' = FALSE
    /\ UNCHANGED <<tree, handled, left, scanned, marked, status, crashes, clean>>

Finish ==
    /\ status = "running" /\ pc = "post" /\ StagesBeforeDone(NStages + 1)
    /\ pc' = "end"
    /\ status' = IF tree = Canon THEN "done" ELSE "diverged"
    /\ op' = [k |-> "done", p |-> NoPath, ex |-> FALSE, n |-> 0]
    /\ fresh' = FALSE
    /\ UNCHANGED <<tree, handled, left, scanned, marked, crashes, clean>>

(* the process is killed between two file operations *)
Crash ==
    /\ status = "running" /\ crashes < MaxCrash
    /\ status' = "crashed" /\ crashes' = crashes + 1
    /\ op' = [k |-> "crash", p |-> NoPath, ex |-> FALSE, n |-> 0]
    /\ fresh' = FALSE
    /\ UNCHANGED <<tree, pc, handled, left, scanned, marked, clean>>

(* ... or half way through writing p.  Not modelled for `ins`: that would cut hand-written text *)
WouldWrite(p) == CanHandle(p) /\ Outcome(p) \in {"create", "overwrite"}

CrashTruncate(p) ==
    /\ crashes < MaxCrash
    /\ WouldWrite(p) /\ Class[p] # "ins"
    /\ tree' = [tree EXCEPT ![p] = "truncated"]
    /\ status' = "crashed" /\ crashes' = crashes + 1
    /\ op' = [k |-> "crash", p |-> p, ex |-> TRUE, n |-> 0]
    /\ fresh' = FALSE
    /\ UNCHANGED <<pc, handled, left, scanned, marked, clean>>

(* a new process on the tree as it was left: after a kill, or a second run after a complete one *)
Rerun ==
    /\ status \in {"crashed", "done", "diverged"}
    /\ status' = "running" /\ pc' = "pre" /\ handled' = {} /\ left' = Left0
    /\ scanned' = {} /\ marked' = {} /\ clean' = (tree = Canon)
    /\ op' = [k |-> "rerun", p |-> NoPath, ex |-> FALSE, n |-> 0]
    /\ fresh' = FALSE
    /\ UNCHANGED <<tree, crashes>>

Step ==
    \/ \E p \in Paths : WriteIfDifferent(p) \/ Panic(p) \/ RemoveUnwritten(p) \/ PruneDoc(p)
    \/ Scan \/ WriteModulesDone \/ RemoveDone \/ Finish

Next == Step \/ Crash \/ (\E p \in Paths : CrashTruncate(p)) \/ Rerun

Spec == Init /\ [][Next]_vars /\ WF_vars(Step) /\ WF_vars(Rerun)

---------------------------------------------------------------------------
TypeOK ==
    /\ \A p \in Paths : /\ tree[p] \in States
                        /\ Produced[p] => tree[p] # "extra"
                        /\ ~Produced[p] => tree[p] \in {"absent", "extra"}
    /\ pc \in {"pre", "mid", "rm", "post", "end"}
    /\ handled \subseteq {p \in Paths : Produced[p]}
    /\ \A s \in 1..NStages : left[s] = Cardinality({p \in Paths : Produced[p] /\ Stage[p] = s /\ p \notin handled})
    /\ scanned \subseteq Paths /\ marked \subseteq Paths
    /\ status \in {"running", "crashed", "panicked", "done", "diverged"}
    /\ crashes \in 0..MaxCrash

(* every handled path is correct, nothing handled is ever un-done inside one process *)
HandledCorrect == \A p \in handled : tree[p] = "correct"

Idempotent ==
    clean => /\ op.k \notin {"write", "remove"}
             /\ status \notin {"panicked", "diverged"}
             /\ tree = Canon

Bad == status \in {"panicked", "diverged"}

Converges == ~Bad

(* Every failure to converge is one of the single-file root causes in Cells - nothing else, *)
(* whatever the combination of perturbed files and crash points.  Cells = {} is Converges.   *)
Culprits == IF status = "panicked" THEN {op.p} ELSE {p \in Paths : tree[p] # Canon[p]}
CellOf(p) == Class[p] \o "/" \o tree[p]
Explained == Bad => \A p \in Culprits : CellOf(p) \in Cells

(* a running process can always take a step: it cannot hang short of done/panic *)
Progress == status = "running" => ENABLED Step

(* removal only of managed files the run does not produce (plus unprinted doc pages under DocsPruned) *)
Removable(p) == ~Produced[p] /\ (Managed(p) \/ (DocsPruned /\ Class[p] = "doc"))
NoForeignRemoval ==
    [][\A p \in Paths : (tree[p] # "absent" /\ tree'[p] = "absent") => Removable(p)]_vars

(* a file is only ever written when its content differs (write-if-different, never write-always) *)
NoIdleWrite ==
    [][op'.k = "write" => tree[op'.p] # "correct"]_vars

Terminates == <>(status \in {"done", "diverged", "panicked"})

---------------------------------------------------------------------------
(* Records for the conformance runs (printed from invariants). *)
Perturbed == {p \in Paths : tree[p] # Canon[p]}

EmitStart ==
    fresh => PrintT("REPLAY " \o ToJson([kind |-> "start",
                                         perturbed |-> [p \in Perturbed |-> [class |-> Class[p], state |-> tree[p],
                                                                            stage |-> StageName[Stage[p]]]]]))

EmitBad ==
    Bad => PrintT("REPLAY " \o ToJson([kind |-> "cex", status |-> status, crashes |-> crashes,
                                       culprits |-> [p \in Culprits |-> [class |-> Class[p], state |-> tree[p]]]]))

Emit == EmitStart /\ EmitBad
=============================================================================
