\* Which variant of the generator's code GenTree follows.  FALSE = the code of the pinned tree.
\* Flip a line to TRUE only together with the corresponding change in /repo (see notes/C08.md):
\*   WholeCreates  overwrite_if_not_same_contents creates a missing file instead of panicking
\*   DocsPruned    print_docs_summary_and_objects removes pages of docs/ it did not print
\*   OpcTracked    ModFiles::new pre-marks only the opcodes.rs files that will be printed
  WholeCreates = TRUE
  DocsPruned = TRUE
  OpcTracked = TRUE
