SPECIFICATION Spec
CONSTANTS
    Triples <- QuickTriples
    Shapes <- QuickShapes
    Centres <- QuickCentres
    Turns <- QuickTurns
    NL = 5
    TNL = 5
    BallDirs <- QuickDirs
    Balls <- QuickBalls
    DistPts <- QuickPts
INVARIANT TypeOK
INVARIANT FrameInverts
INVARIANT RotationPreservesDist2
INVARIANT ClassAgrees
INVARIANT ClearOfFaces
INVARIANT NearInsideNeedsTolerance
INVARIANT CoRotationInvariant
INVARIANT QuarterTurnSwaps
INVARIANT MapMatters
INVARIANT BallOK
INVARIANT TrigOK
INVARIANT Emit
CHECK_DEADLOCK FALSE
