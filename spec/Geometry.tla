------------------------------ MODULE Geometry ------------------------------
(***************************************************************************)
(* C20 - area-trigger containment and the distance helpers, in exact       *)
(* integer arithmetic.                                                     *)
(*                                                                         *)
(* THE DEFINITION (from the property statement; the C reference quoted in  *)
(* wow_world_base/.../geometry.rs says the same thing):                    *)
(*   a box trigger has a centre c, a map, sizes L (along the box's own x   *)
(*   axis), W (own y axis), H (z axis) and a yaw.  In-game orientation is  *)
(*   counter-clockwise, so the box's own x axis points along               *)
(*   (cos yaw, sin yaw) and its own y axis along (-sin yaw, cos yaw).      *)
(*   A position p is inside iff it is on the box's map and its coordinates *)
(*   in the box's own frame - translate to the centre, then take the       *)
(*   components along the box's axes, i.e. rotate the offset by -yaw -     *)
(*        x' =  dx cos yaw + dy sin yaw                                    *)
(*        y' = -dx sin yaw + dy cos yaw                                    *)
(*        z' =  dz                                                         *)
(*   satisfy |x'| <= L/2 + 2, |y'| <= W/2 + 2, |z'| <= H/2 + 2 (2 yards of *)
(*   tolerance on every axis).  (Reference: rotation = 2 pi - yaw,         *)
(*   rotX = dx cos(rotation) - dy sin(rotation) = dx cos yaw + dy sin yaw, *)
(*   rotY = dy cos(rotation) + dx sin(rotation) = dy cos yaw - dx sin yaw.)*)
(*   A circular trigger contains p iff same map and |p - c| < radius.      *)
(*                                                                         *)
(* Exactness: a yaw is a triple <<a, b, h>> with a^2 + b^2 = h^2, meaning  *)
(* cos = a/h and sin = b/h (Pythagorean triples in all eight octant/sign   *)
(* arrangements and the quarter turns).  Lengths are integers in lattice   *)
(* units of 1/S yard.  Every inequality is stated with denominators        *)
(* cleared, so TLC decides it exactly.  All products stay below 2^31       *)
(* (TLC integers are 32 bit and TLC reports an overflow as an error).      *)
(*                                                                         *)
(* Five small machines run in one module (selected by `mode`):             *)
(*  "box"  - for every box (shape x yaw x centre x extra whole turns) a    *)
(*           cursor walks a grid of probe levels per box axis: centre,     *)
(*           just inside / just outside the +face and the -face (and, in   *)
(*           the thorough configuration, half way and far out).  The       *)
(*           product of the three axes visits the centre, both sides of    *)
(*           all 6 faces, 12 edges and 8 corners.  Probes keep a distance  *)
(*           >= Eps from every face so that f32 rounding in the            *)
(*           implementation cannot flip the verdict.  The world position   *)
(*           of a probe is computed HERE, exactly (it is a lattice point   *)
(*           because box-frame probe coordinates are multiples of h).      *)
(*  "ball" - circles: probes along rational unit directions (n divides the *)
(*           Euclidean norm exactly) just inside, just outside, exactly on *)
(*           the sphere (strict <) and at the centre.                      *)
(*  "dist" - pairs of lattice points with the integer bracket of their     *)
(*           Euclidean distance.                                           *)
(*  "trig" - every trigger of the three expansions' tables (read from a    *)
(*           JSON rendering of the table text): the model chooses probe    *)
(*           offsets IN THE BOX FRAME from the trigger's own sizes, and    *)
(*           the wrong-map and unknown-id variants; the harness places the *)
(*           offset in the world through the trigger's own centre and yaw. *)
(*  "exp"  - one state per expansion: number of triggers and largest id.   *)
(* Every state prints one REPLAY record with the verdict the definition    *)
(* gives; the harness executes it against the real functions.              *)
(***************************************************************************)
EXTENDS Integers, Sequences, FiniteSets, TLC, Json, IOUtils

CONSTANTS
    Triples,     \* set of <<p, q, h>> with p^2 + q^2 = h^2, 0 < p < q
    Shapes,      \* set of <<LS, WS, HS>> box sizes in lattice units (even numbers)
    Centres,     \* set of <<cx, cy, cz>> in lattice units
    Turns,       \* set of whole turns added to atan2(b, a) by the harness (yaw + 2 pi k)
    NL,          \* probe levels per axis for model boxes: 5 or 9
    TNL,         \* probe levels per axis for table boxes: 5 or 9
    BallDirs,    \* sequence of <<nx, ny, nz, n>> with nx^2 + ny^2 + nz^2 = n^2
    Balls,       \* set of [c |-> <<..>>, r |-> RS] in ball lattice units
    DistPts      \* sequence of <<x, y, z, class>> used pairwise by "dist"

VARIABLES mode, obj, cur, var
vars == <<mode, obj, cur, var>>

Abs(x) == IF x < 0 THEN -x ELSE x
Sq(x) == x * x

---------------------------------------------------------------------------
(* Scales and margins *)
S    == 256          \* model boxes: lattice unit = 1/256 yard (exact in f32)
Eps  == 8            \* 1/32 yard: minimum distance of a probe from a face
SB   == 16           \* balls: 1/16 yard
EpsB == 1            \* 1/16 yard
OS   == 100          \* table triggers: offsets in 1/100 yard; table sizes come in 1/10 yard
EpsT == 10           \* 0.10 yard: minimum distance from a face / the sphere for table probes
Tol  == 2            \* the documented tolerance in yards

---------------------------------------------------------------------------
(* THE DEFINITION, denominators cleared.                                   *)
(* d = <<dx, dy, dz>>: offset from the centre; dx, dy carry a common       *)
(* denominator q (q = 1 for lattice points), dz does not.  sc = units per  *)
(* yard.  yaw = <<a, b, h>>.                                               *)
FrameX(d, yaw) == yaw[1] * d[1] + yaw[2] * d[2]      \* = q * h * x'
FrameY(d, yaw) == yaw[1] * d[2] - yaw[2] * d[1]      \* = q * h * y'

InBoxQ(d, q, yaw, dims, sc) ==
    /\ 2 * Abs(FrameX(d, yaw)) <= yaw[3] * q * (dims[1] + 2 * Tol * sc)
    /\ 2 * Abs(FrameY(d, yaw)) <= yaw[3] * q * (dims[2] + 2 * Tol * sc)
    /\ 2 * Abs(d[3])           <= dims[3] + 2 * Tol * sc

InBoxGeo(p, box) == InBoxQ(<<p[1] - box.c[1], p[2] - box.c[2], p[3] - box.c[3]>>, 1, box.yaw, box.dims, S)
InBox(p, pmap, box) == pmap = box.map /\ InBoxGeo(p, box)

(* distance of a probe from the faces, in units of 1/(2 h sc) yard *)
GapX(d, yaw, dims, sc) == Abs(2 * Abs(FrameX(d, yaw)) - yaw[3] * (dims[1] + 2 * Tol * sc))
GapY(d, yaw, dims, sc) == Abs(2 * Abs(FrameY(d, yaw)) - yaw[3] * (dims[2] + 2 * Tol * sc))
GapZ(d, dims, sc)      == Abs(2 * Abs(d[3]) - (dims[3] + 2 * Tol * sc))

Dist2(p, c) == Sq(p[1] - c[1]) + Sq(p[2] - c[2]) + Sq(p[3] - c[3])
Dist2xy(p, c) == Sq(p[1] - c[1]) + Sq(p[2] - c[2])
InCircleGeo(p, c, r) == Dist2(p, c) < Sq(r)
InCircle(p, pmap, c, cmap, r) == pmap = cmap /\ InCircleGeo(p, c, r)

(* Box frame directly (table triggers: the offset IS given in the box frame). *)
InFrame(o, dims10) ==
    /\ 2 * Abs(o[1]) <= dims10[1] * 10 + 2 * Tol * OS
    /\ 2 * Abs(o[2]) <= dims10[2] * 10 + 2 * Tol * OS
    /\ 2 * Abs(o[3]) <= dims10[3] * 10 + 2 * Tol * OS

(* integer square root by bisection: the r with r^2 <= n < (r+1)^2, n < 46340^2 *)
RECURSIVE ISqrtB(_, _, _)
ISqrtB(n, lo, hi) ==
    IF lo = hi THEN lo
    ELSE LET mid == (lo + hi + 1) \div 2
         IN IF mid * mid <= n THEN ISqrtB(n, mid, hi) ELSE ISqrtB(n, lo, mid - 1)
ISqrt(n) == ISqrtB(n, 0, 46339)

---------------------------------------------------------------------------
(* Yaws *)
QuarterTurns == {<<1, 0, 1>>, <<0, 1, 1>>, <<-1, 0, 1>>, <<0, -1, 1>>}
Arrangements(t) ==
    {<<sa * t[1], sb * t[2], t[3]>> : sa \in {-1, 1}, sb \in {-1, 1}} \cup
    {<<sa * t[2], sb * t[1], t[3]>> : sa \in {-1, 1}, sb \in {-1, 1}}
Yaws == QuarterTurns \cup UNION {Arrangements(t) : t \in Triples}

(* composition of rotations, and rotating an offset (result has denominator r[3]) *)
Compose(y, r) == <<y[1] * r[1] - y[2] * r[2], y[1] * r[2] + y[2] * r[1], y[3] * r[3]>>
Rotate(d, r)  == <<r[1] * d[1] - r[2] * d[2], r[2] * d[1] + r[1] * d[2], d[3]>>
CoRotations   == {<<3, 4, 5>>, <<-4, 3, 5>>, <<0, 1, 1>>, <<4, -3, 5>>}

ASSUME \A t \in Triples : Sq(t[1]) + Sq(t[2]) = Sq(t[3]) /\ 0 < t[1] /\ t[1] < t[2]
ASSUME \A y \in Yaws : Sq(y[1]) + Sq(y[2]) = Sq(y[3]) /\ y[3] > 0
ASSUME \A s \in Shapes : \A i \in 1..3 : s[i] > 0 /\ s[i] % 2 = 0
ASSUME NL \in {5, 9} /\ TNL \in {5, 9}
ASSUME \A i \in 1..Len(BallDirs) :
          LET n == BallDirs[i] IN Sq(n[1]) + Sq(n[2]) + Sq(n[3]) = Sq(n[4]) /\ n[4] > 0

---------------------------------------------------------------------------
(* Probe levels along one box axis.  F = half extent + tolerance (units),  *)
(* g = granularity (coordinates are multiples of g; g = h for the rotated  *)
(* axes so that the world point is a lattice point, 1 for z).  The value   *)
(* returned is the multiplier m; the coordinate is g * m.                  *)
LevelIn(i)   == i \in {1, 2, 4, 6, 7}
LevelSign(i) == IF i \in {4, 5, 7, 9} THEN -1 ELSE 1
LevelMult(F, g, i, eps, far) ==
    CASE i = 1       -> 0
      [] i \in {2, 4} -> LevelSign(i) * ((F - eps) \div g)            \* just inside
      [] i \in {3, 5} -> LevelSign(i) * ((F + eps + g - 1) \div g)    \* just outside
      [] i \in {6, 7} -> LevelSign(i) * ((F \div 2) \div g)           \* half way
      [] i \in {8, 9} -> LevelSign(i) * ((F + far + g - 1) \div g)    \* far out

HalfExt(dim) == dim \div 2 + Tol * S

(* model box: the probe in the box frame, its exact world position *)
BoxU0(b, k) == LevelMult(HalfExt(b.dims[1]), b.yaw[3], k[1], Eps, 3 * S)
BoxV0(b, k) == LevelMult(HalfExt(b.dims[2]), b.yaw[3], k[2], Eps, 3 * S)
BoxW(b, k)  == LevelMult(HalfExt(b.dims[3]), 1, k[3], Eps, 3 * S)
(* placing the probe: rotate by +yaw and translate (inverse of the definition) *)
BoxD(b, k) == <<b.yaw[1] * BoxU0(b, k) - b.yaw[2] * BoxV0(b, k),
                b.yaw[2] * BoxU0(b, k) + b.yaw[1] * BoxV0(b, k),
                BoxW(b, k)>>
BoxP(b, k) == <<b.c[1] + BoxD(b, k)[1], b.c[2] + BoxD(b, k)[2], b.c[3] + BoxD(b, k)[3]>>
BoxClassIn(k) == LevelIn(k[1]) /\ LevelIn(k[2]) /\ LevelIn(k[3])

(* extra whole turns of the yaw are exercised on the boxes centred at the origin *)
AllBoxes == UNION {{[dims |-> s, yaw |-> y, c |-> c, turns |-> t, map |-> "A"] :
                        s \in Shapes, y \in Yaws, t \in (IF c = <<0, 0, 0>> THEN Turns ELSE {0})} : c \in Centres}

(* balls *)
NDirs == Len(BallDirs)
BallT(r, n, rl, eps) ==
    CASE rl = 1 -> 0
      [] rl = 2 -> (r - eps) \div n
      [] rl = 3 -> (r + eps + n - 1) \div n
      [] rl = 4 -> r \div n
BallP(c, r, di, rl, eps) ==
    LET n == BallDirs[di] t == BallT(r, n[4], rl, eps)
    IN <<c[1] + n[1] * t, c[2] + n[2] * t, c[3] + n[3] * t>>
OnSphereExists(r, di) == r % BallDirs[di][4] = 0

(* table triggers *)
Table  == JsonDeserialize(IOEnv.C20_TRIGGERS)
Trig   == Table.triggers
NT     == Len(Trig)
Exps   == {"vanilla", "tbc", "wrath"}
IdsOf  == [e \in Exps |-> {Trig[i].id : i \in {j \in 1..NT : Trig[j].exp = e}}]
MaxId  == [e \in Exps |-> CHOOSE m \in IdsOf[e] : \A x \in IdsOf[e] : x <= m]
MinId  == [e \in Exps |-> CHOOSE m \in IdsOf[e] : \A x \in IdsOf[e] : x >= m]
MapsOf(e) == Table.maps[e]
IsSquare(t) == t.shape = "square"
TrigF(t, ax) == t.dims[ax] * 5 + Tol * OS            \* half extent + tolerance in 1/100 yard
TrigOff(t, k) ==
    IF IsSquare(t)
    THEN <<LevelMult(TrigF(t, 1), 1, k[1], EpsT, 5 * OS),
           LevelMult(TrigF(t, 2), 1, k[2], EpsT, 5 * OS),
           LevelMult(TrigF(t, 3), 1, k[3], EpsT, 5 * OS)>>
    ELSE BallP(<<0, 0, 0>>, t.dims[1] * 10, k[1], k[2], EpsT)
TrigGeoIn(t, k) ==
    IF IsSquare(t) THEN InFrame(TrigOff(t, k), t.dims)
    ELSE InCircleGeo(TrigOff(t, k), <<0, 0, 0>>, t.dims[1] * 10)
(* a map of the same expansion other than the trigger's own: the next / the one half way round *)
OtherMap(t, which) ==
    LET ms == MapsOf(t.exp) n == Len(ms)
        step == IF which = 1 THEN 1 ELSE IF n \div 2 = 0 THEN 1 ELSE n \div 2
    IN ms[((t.mapi - 1 + step) % n) + 1]

ASSUME NT > 0
ASSUME \A i \in 1..NT : Trig[i].exp \in Exps /\ Trig[i].shape \in {"square", "circle"}
ASSUME \A i \in 1..NT : \A j \in 1..Len(Trig[i].dims) : Trig[i].dims[j] > 0
ASSUME \A i \in 1..NT : MapsOf(Trig[i].exp)[Trig[i].mapi] = Trig[i].map
ASSUME \A e \in Exps : Len(MapsOf(e)) >= 2
(* ids are unique inside a table, otherwise "verify the trigger id" would be ambiguous *)
ASSUME \A e \in Exps : Cardinality(IdsOf[e]) = Cardinality({j \in 1..NT : Trig[j].exp = e})

(* dist *)
NP == Len(DistPts)

---------------------------------------------------------------------------
Init ==
    \/ /\ mode = "box"  /\ obj \in AllBoxes /\ cur = <<1, 1, 1>> /\ var = "same"
    \/ /\ mode = "ball" /\ obj \in Balls    /\ cur = <<1, 1>>    /\ var = "same"
    \/ /\ mode = "dist" /\ obj = 0          /\ cur = <<1, 1>>    /\ var = "same"
    \/ /\ mode = "trig" /\ obj \in 1..NT    /\ cur = (IF IsSquare(Trig[obj]) THEN <<1, 1, 1>> ELSE <<1, 1>>)
       /\ var = "same"
    \/ /\ mode = "exp"  /\ obj \in Exps     /\ cur = <<>>        /\ var = "same"

SquareLike == mode = "box" \/ (mode = "trig" /\ IsSquare(Trig[obj]))
RoundLike  == mode = "ball" \/ (mode = "trig" /\ ~IsSquare(Trig[obj]))
Levels     == IF mode = "box" THEN NL ELSE TNL

StepX == /\ SquareLike /\ var = "same" /\ cur[1] < Levels
         /\ cur' = <<cur[1] + 1, cur[2], cur[3]>> /\ UNCHANGED <<mode, obj, var>>
StepY == /\ SquareLike /\ var = "same" /\ cur[2] < Levels
         /\ cur' = <<cur[1], cur[2] + 1, cur[3]>> /\ UNCHANGED <<mode, obj, var>>
StepZ == /\ SquareLike /\ var = "same" /\ cur[3] < Levels
         /\ cur' = <<cur[1], cur[2], cur[3] + 1>> /\ UNCHANGED <<mode, obj, var>>

StepDir == /\ RoundLike /\ var = "same" /\ cur[1] < NDirs /\ cur[2] \in {2, 3}
           /\ cur' = <<cur[1] + 1, cur[2]>> /\ UNCHANGED <<mode, obj, var>>
(* radial levels: 1 centre -> 2 just inside -> 3 just outside; model balls also 4 = exactly on *)
StepRadial == /\ RoundLike /\ var = "same" /\ cur[2] < 3
              /\ cur' = <<cur[1], cur[2] + 1>> /\ UNCHANGED <<mode, obj, var>>
StepOnSphere == /\ mode = "ball" /\ var = "same" /\ cur[2] = 3 /\ OnSphereExists(obj.r, cur[1])
                /\ cur' = <<cur[1], 4>> /\ UNCHANGED <<mode, obj, var>>

GeoIn ==
    CASE mode = "box"  -> InBoxGeo(BoxP(obj, cur), obj)
      [] mode = "ball" -> InCircleGeo(BallP(obj.c, obj.r, cur[1], cur[2], EpsB), obj.c, obj.r)
      [] mode = "trig" -> TrigGeoIn(Trig[obj], cur)
      [] OTHER -> FALSE

(* the same position on another map *)
ToWrongMap  == /\ mode \in {"box", "ball", "trig"} /\ var = "same" /\ GeoIn
               /\ SquareLike => \A i \in 1..3 : cur[i] <= 5
               /\ var' = "wrongmap" /\ UNCHANGED <<mode, obj, cur>>
ToWrongMap2 == /\ mode = "trig" /\ var = "same" /\ GeoIn /\ cur[1] = 1 /\ cur[2] = 1
               /\ var' = "wrongmap2" /\ UNCHANGED <<mode, obj, cur>>

AtStart == mode = "trig" /\ var = "same" /\ cur[1] = 1 /\ cur[2] = 1 /\ (IsSquare(Trig[obj]) => cur[3] = 1)
UnknownBelow == /\ AtStart /\ Trig[obj].id > 0 /\ Trig[obj].id - 1 \notin IdsOf[Trig[obj].exp]
                /\ var' = "unk_below" /\ UNCHANGED <<mode, obj, cur>>
UnknownAbove == /\ AtStart /\ Trig[obj].id + 1 \notin IdsOf[Trig[obj].exp]
                /\ var' = "unk_above" /\ UNCHANGED <<mode, obj, cur>>
UnknownZero  == /\ AtStart /\ Trig[obj].id = MinId[Trig[obj].exp] /\ 0 \notin IdsOf[Trig[obj].exp]
                /\ var' = "unk_zero" /\ UNCHANGED <<mode, obj, cur>>
UnknownHuge  == /\ AtStart /\ Trig[obj].id = MaxId[Trig[obj].exp]
                /\ var' = "unk_huge" /\ UNCHANGED <<mode, obj, cur>>

StepFrom == /\ mode = "dist" /\ cur[1] < NP /\ cur' = <<cur[1] + 1, cur[2]>> /\ UNCHANGED <<mode, obj, var>>
StepTo   == /\ mode = "dist" /\ cur[2] < NP /\ cur' = <<cur[1], cur[2] + 1>> /\ UNCHANGED <<mode, obj, var>>

Next == \/ StepX \/ StepY \/ StepZ \/ StepDir \/ StepRadial \/ StepOnSphere
        \/ ToWrongMap \/ ToWrongMap2
        \/ UnknownBelow \/ UnknownAbove \/ UnknownZero \/ UnknownHuge
        \/ StepFrom \/ StepTo

Spec == Init /\ [][Next]_vars

---------------------------------------------------------------------------
(* Model-level properties *)
TypeOK ==
    /\ mode \in {"box", "ball", "dist", "trig", "exp"}
    /\ var \in {"same", "wrongmap", "wrongmap2", "unk_below", "unk_above", "unk_zero", "unk_huge"}
    /\ mode = "box" => obj \in AllBoxes /\ \A i \in 1..3 : cur[i] \in 1..NL
    /\ mode = "trig" => obj \in 1..NT

(* Placing a probe (rotate by +yaw, translate) and the definition's frame map (translate,      *)
(* rotate by -yaw) are inverse: the frame coordinates of the world point are the probe itself. *)
FrameInverts ==
    mode = "box" =>
        LET d == BoxD(obj, cur) h == obj.yaw[3]
        IN /\ FrameX(d, obj.yaw) = h * (h * BoxU0(obj, cur))
           /\ FrameY(d, obj.yaw) = h * (h * BoxV0(obj, cur))

(* The rotation preserves the squared distance to the centre. *)
RotationPreservesDist2 ==
    mode = "box" =>
        LET d == BoxD(obj, cur) h == obj.yaw[3]
        IN Dist2(BoxP(obj, cur), obj.c) = Sq(h * BoxU0(obj, cur)) + Sq(h * BoxV0(obj, cur)) + Sq(BoxW(obj, cur))

(* The definition's verdict on the world point = what the probe was built to be:               *)
(* inside iff every axis level is an inside level.  Two independent computations.              *)
ClassAgrees == mode = "box" => (InBoxGeo(BoxP(obj, cur), obj) <=> BoxClassIn(cur))

(* Every probe keeps at least Eps from every face (measured on the world point). *)
ClearOfFaces ==
    mode = "box" =>
        LET d == BoxD(obj, cur) h == obj.yaw[3]
        IN /\ GapX(d, obj.yaw, obj.dims, S) >= 2 * h * Eps
           /\ GapY(d, obj.yaw, obj.dims, S) >= 2 * h * Eps
           /\ GapZ(d, obj.dims, S) >= 2 * Eps

(* Just-inside probes lie in the tolerance band (beyond the bare half extent), so a test       *)
(* without the 2 yards, or with them on one axis only, answers differently.                    *)
NearInsideNeedsTolerance ==
    mode = "box" =>
        /\ cur[1] \in {2, 4} => 2 * Abs(obj.yaw[3] * BoxU0(obj, cur)) > obj.dims[1]
        /\ cur[2] \in {2, 4} => 2 * Abs(obj.yaw[3] * BoxV0(obj, cur)) > obj.dims[2]
        /\ cur[3] \in {2, 4} => 2 * Abs(BoxW(obj, cur)) > obj.dims[3]

(* Containment is invariant under rotating the box and the point together about the centre.   *)
CoRotationInvariant ==
    mode = "box" =>
        \A r \in CoRotations :
            InBoxQ(Rotate(BoxD(obj, cur), r), r[3], Compose(obj.yaw, r), obj.dims, S)
                <=> InBoxGeo(BoxP(obj, cur), obj)

(* A quarter turn of the box exchanges the roles of length and width. *)
QuarterTurnSwaps ==
    mode = "box" =>
        (InBoxQ(BoxD(obj, cur), 1, Compose(obj.yaw, <<0, 1, 1>>),
                <<obj.dims[2], obj.dims[1], obj.dims[3]>>, S)
            <=> InBoxGeo(BoxP(obj, cur), obj))

(* A map other than the box's never contains the point. *)
MapMatters == mode = "box" => ~InBox(BoxP(obj, cur), "B", obj)

BallOK ==
    mode = "ball" =>
        LET p == BallP(obj.c, obj.r, cur[1], cur[2], EpsB)
            n == BallDirs[cur[1]][4]
            t == BallT(obj.r, n, cur[2], EpsB)
        IN /\ Dist2(p, obj.c) = Sq(n * t)                     \* the direction's norm is exact
           /\ Dist2(p, obj.c) = Dist2(obj.c, p)
           /\ ISqrt(Dist2(p, obj.c)) = n * t
           /\ InCircleGeo(p, obj.c, obj.r) <=> cur[2] \in {1, 2}
           /\ cur[2] = 2 => obj.r - n * t >= EpsB
           /\ cur[2] = 3 => n * t - obj.r >= EpsB
           /\ cur[2] = 4 => n * t = obj.r /\ Dist2(p, obj.c) < 16777216   \* exact in f32
           /\ \A r \in CoRotations :                               \* rotation preserves Dist2
                 Dist2(Rotate(<<p[1] - obj.c[1], p[2] - obj.c[2], p[3] - obj.c[3]>>, r), <<0, 0, 0>>)
                   = Sq(r[3]) * Dist2xy(p, obj.c) + Sq(p[3] - obj.c[3])

TrigOK ==
    (mode = "trig" /\ var = "same") =>
        LET t == Trig[obj] o == TrigOff(t, cur)
        IN IF IsSquare(t)
           THEN /\ TrigGeoIn(t, cur) <=> BoxClassIn(cur)
                /\ \A ax \in 1..3 : Abs(2 * Abs(o[ax]) - 2 * TrigF(t, ax)) >= 2 * EpsT
                /\ \A ax \in 1..3 : cur[ax] \in {2, 4} => 2 * Abs(o[ax]) > t.dims[ax] * 10
           ELSE LET n == BallDirs[cur[1]][4] tt == BallT(t.dims[1] * 10, n, cur[2], EpsT)
                IN /\ Dist2(o, <<0, 0, 0>>) = Sq(n * tt)
                   /\ TrigGeoIn(t, cur) <=> cur[2] \in {1, 2}
                   /\ cur[2] = 2 => t.dims[1] * 10 - n * tt >= EpsT
                   /\ cur[2] = 3 => n * tt - t.dims[1] * 10 >= EpsT

---------------------------------------------------------------------------
(* Behaviour records (spec -> implementation). *)
DistRec ==
    LET a == DistPts[cur[1]] b == DistPts[cur[2]]
        sc == a[4]
        d2 == Dist2(a, b) lo == ISqrt(d2) sq == Sq(lo) = d2
        d2xy == Dist2xy(a, b) lo2 == ISqrt(d2xy) sq2 == Sq(lo2) = d2xy
        exact == d2 < 16777216
    IN [kind |-> "geometry", t |-> "dist", s |-> sc, from |-> <<a[1], a[2], a[3]>>, to |-> <<b[1], b[2], b[3]>>,
        d2 |-> d2,
        lo |-> IF exact THEN lo ELSE lo - 1,
        hi |-> IF exact THEN (IF sq THEN lo ELSE lo + 1) ELSE lo + 2,
        lo2 |-> IF exact THEN lo2 ELSE lo2 - 1,
        hi2 |-> IF exact THEN (IF sq2 THEN lo2 ELSE lo2 + 1) ELSE lo2 + 2,
        within |-> <<[r |-> lo + 3, expect |-> TRUE]>>
                   \o (IF lo >= 4 THEN <<[r |-> lo - 2, expect |-> FALSE]>> ELSE <<>>)
                   \o (IF exact /\ sq /\ lo > 0 THEN <<[r |-> lo, expect |-> FALSE]>> ELSE <<>>)]

TrigRec ==
    LET t == Trig[obj]
        geo == TrigGeoIn(t, cur)
        usemap == CASE var = "wrongmap" -> OtherMap(t, 1) [] var = "wrongmap2" -> OtherMap(t, 2) [] OTHER -> t.map
        same == usemap = t.map
    IN IF var \in {"same", "wrongmap", "wrongmap2"}
       THEN [kind |-> "geometry", t |-> "trig", exp |-> t.exp, id |-> t.id, shape |-> t.shape,
             dims10 |-> t.dims, os |-> OS, off |-> TrigOff(t, cur), map |-> usemap, samemap |-> same,
             lv |-> cur, expect |-> IF same /\ geo THEN "success" ELSE "outside"]
       ELSE [kind |-> "geometry", t |-> "unk", exp |-> t.exp, near |-> t.id,
             id |-> CASE var = "unk_below" -> ToString(t.id - 1)
                      [] var = "unk_above" -> ToString(t.id + 1)
                      [] var = "unk_zero"  -> "0"
                      [] var = "unk_huge"  -> "4294967295",
             expect |-> "not_found"]

Emit ==
    CASE mode = "box" ->
            LET p == BoxP(obj, cur) geo == InBoxGeo(p, obj) pm == IF var = "same" THEN "A" ELSE "B"
            IN PrintT("REPLAY " \o ToJson(
                [kind |-> "geometry", t |-> "box", s |-> S, c |-> obj.c, dims |-> obj.dims, yaw |-> obj.yaw,
                 turns |-> obj.turns, p |-> p, lv |-> cur, samemap |-> (var = "same"), geo |-> geo,
                 inside |-> InBox(p, pm, obj)]))
      [] mode = "ball" ->
            LET p == BallP(obj.c, obj.r, cur[1], cur[2], EpsB) geo == InCircleGeo(p, obj.c, obj.r)
                pm == IF var = "same" THEN "A" ELSE "B"
            IN PrintT("REPLAY " \o ToJson(
                [kind |-> "geometry", t |-> "ball", s |-> SB, c |-> obj.c, r |-> obj.r, p |-> p, lv |-> cur,
                 d |-> ISqrt(Dist2(p, obj.c)), samemap |-> (var = "same"), geo |-> geo,
                 inside |-> InCircle(p, pm, obj.c, "A", obj.r)]))
      [] mode = "dist" -> IF DistPts[cur[1]][4] = DistPts[cur[2]][4]
                          THEN PrintT("REPLAY " \o ToJson(DistRec)) ELSE TRUE
      [] mode = "trig" -> PrintT("REPLAY " \o ToJson(TrigRec))
      [] mode = "exp" ->
            PrintT("REPLAY " \o ToJson(
                [kind |-> "geometry", t |-> "exp", exp |-> obj, count |-> Cardinality(IdsOf[obj]),
                 maxid |-> MaxId[obj], minid |-> MinId[obj]]))

---------------------------------------------------------------------------
(* Configurations (bound through the .cfg files). *)
QuickTriples    == {<<3, 4, 5>>, <<5, 12, 13>>, <<8, 15, 17>>, <<7, 24, 25>>, <<20, 21, 29>>}
ThoroughTriples == QuickTriples \cup {<<9, 40, 41>>, <<12, 35, 37>>, <<11, 60, 61>>, <<28, 45, 53>>, <<33, 56, 65>>}
(* 8 x 8 x 8, 4 x 16 x 6, 16 x 4 x 10 yards (aspect 1:1, 1:4, 4:1) and 9.75 x 7.5 x 2.25 *)
QuickShapes     == {<<2048, 2048, 2048>>, <<1024, 4096, 1536>>, <<4096, 1024, 2560>>, <<2496, 1920, 576>>}
ThoroughShapes  == QuickShapes \cup {<<384, 16384, 768>>, <<16384, 384, 768>>, <<8192, 8192, 5120>>,
                                     <<640, 640, 640>>, <<128, 10240, 512>>}
(* (0,0,0) and (-8761.75, 848.5, 87.75) yards; thorough adds (100.5,-50.25,20) and (14468,-14468,-100) *)
QuickCentres    == {<<0, 0, 0>>, <<-2243008, 217216, 22464>>}
ThoroughCentres == QuickCentres \cup {<<25728, -12864, 5120>>, <<3703808, -3703808, -25600>>}
QuickTurns      == {0}
ThoroughTurns   == {-1, 0, 1}
QuickDirs == <<
    <<1, 0, 0, 1>>, <<-1, 0, 0, 1>>, <<0, 1, 0, 1>>, <<0, -1, 0, 1>>, <<0, 0, 1, 1>>, <<0, 0, -1, 1>>,
    <<3, 4, 0, 5>>, <<-4, 3, 0, 5>>, <<0, -3, 4, 5>>, <<4, 0, -3, 5>>,
    <<1, 2, 2, 3>>, <<-2, 1, -2, 3>>, <<2, -2, -1, 3>>,
    <<2, 3, 6, 7>>, <<-6, 2, 3, 7>>, <<3, -6, 2, 7>>, <<-2, -3, -6, 7>>, <<6, -2, -3, 7>>,
    <<1, 4, 8, 9>>, <<-4, 4, 7, 9>>, <<8, -1, -4, 9>>, <<2, 6, 9, 11>>, <<-6, 7, -6, 11>> >>
ThoroughDirs == QuickDirs \o <<
    <<-3, -4, 0, 5>>, <<0, 3, -4, 5>>, <<-1, -2, -2, 3>>, <<2, 2, 1, 3>>, <<-3, 6, -2, 7>>, <<6, 3, 2, 7>>,
    <<-8, 4, 1, 9>>, <<7, -4, 4, 9>>, <<-9, -6, 2, 11>>, <<6, 6, 7, 11>>, <<3, 4, 12, 13>>, <<-12, 3, -4, 13>>,
    <<2, 10, 11, 15>>, <<-10, -11, 2, 15>>, <<1, 12, 12, 17>>, <<12, -1, -12, 17>> >>
(* radius 8, 10.5, 1, 150 yards at 1/16 yard; centres near the origin and at world scale *)
QuickBalls == {[c |-> <<0, 0, 0>>, r |-> 128], [c |-> <<-170336, 18866, 772>>, r |-> 168],
               [c |-> <<160, -80, 16>>, r |-> 16], [c |-> <<46791, -12774, 2586>>, r |-> 2400],
               [c |-> <<16, 32, -48>>, r |-> 315]}
ThoroughBalls == QuickBalls \cup {[c |-> <<231488, -231488, 100>>, r |-> 432], [c |-> <<-1, 1, 0>>, r |-> 3465],
                                  [c |-> <<5, 5, 5>>, r |-> 45]}
(* <<x, y, z, units per yard>>; pairs are formed inside one scale class only *)
QuickPts == <<
    <<0, 0, 0, 4>>, <<4, 0, 0, 4>>, <<12, 16, 0, 4>>, <<8, 12, 24, 4>>, <<-100, 37, 5, 4>>, <<0, 0, -7, 4>>,
    <<1001, -2002, 303, 4>>, <<-1500, 1500, 12, 4>>, <<-99, 37, 5, 4>>, <<1, 1, 1, 4>>,
    <<0, 0, 0, 1>>, <<-8762, 849, 88, 1>>, <<14468, -14468, -100, 1>>, <<-8949, -132, 83, 1>>,
    <<10311, 832, 1326, 1>>, <<-8762, 849, -88, 1>> >>
ThoroughPts == QuickPts \o <<
    <<2, 3, 6, 4>>, <<-2, -3, -6, 4>>, <<400, 300, 0, 4>>, <<0, -300, 400, 4>>, <<2047, -2047, 2047, 4>>,
    <<-2047, 2047, -2047, 4>>, <<1676, 1678, 121, 1>>, <<-17000, 17000, 2000, 1>>, <<3, 4, 12, 1>> >>
=============================================================================
