SPECIFICATION Spec
CONSTANTS
    Triples <- ThoroughTriples
    Shapes <- ThoroughShapes
    Centres <- ThoroughCentres
    Turns <- ThoroughTurns
    NL = 9
    TNL = 9
    BallDirs <- ThoroughDirs
    Balls <- ThoroughBalls
    DistPts <- ThoroughPts
INVARIANT TypeOK
INVARIANT FrameInverts
INVARIANT RotationPreservesDist2
INVARIANT ClassAgrees
INVARIANT ClearOfFaces
INVARIANT NearInsideNeedsTolerance
INVARIANT CoRotationInvariant
INVARIANT QuarterTurnSwaps
INVARIANT MapMatters
INVARIANT BallOK
INVARIANT TrigOK
INVARIANT Emit
CHECK_DEADLOCK FALSE
