------------------------------ MODULE IrRefine ------------------------------
(***************************************************************************)
(* C10, faithfulness clause: the intermediate representation (IR) the       *)
(* generator emits describes every object of the wowm sources exactly as an *)
(* independent reading of the wowm text does - omitting nothing, inventing  *)
(* nothing.                                                                 *)
(*                                                                          *)
(*   Src  the object table of the independent front-end (tools/wowm_front), *)
(*        lowered by tools/irlower.py src_records (lexical only: literals   *)
(*        also as decimal strings, version tag values split into patterns)  *)
(*   IR   the objects of the regenerated IR, lowered by ir_records          *)
(*        (structural only: nulls dropped, wide numbers tagged, embedded    *)
(*        struct copies replaced by a pointer to the deep-equal top level   *)
(*        struct, `prepared_objects` dropped)                               *)
(*                                                                          *)
(*   Abs(i)      abstraction function: IR object -> abstract object record  *)
(*   Norm(s, V)  the abstract record of source object s at version instance *)
(*               V (its normal form)                                        *)
(*   Faithful == /\ \A s, V \in Insts(s) : \E! i : Same(Abs(IR[i]), Norm(s, V))   (omits nothing; *)
(*                  when the sources hold k identical objects - two tests are written twice -     *)
(*                  exactly k images are required: Fwd compares |images| with |twins|)            *)
(*               /\ \A i : \E s, V \in Insts(s) : Same(Abs(IR[i]), Norm(s, V))    (invents nothing)*)
(*               /\ \A i : Bound(i)      (names used by an IR object denote what the source says)  *)
(*                                                                          *)
(* The normalisations the IR legitimately applies, each stated here as part *)
(* of Abs / Norm / Insts (anything not listed is compared literally):       *)
(*  N1 version expansion: an object tagged `paste_versions = "a b c"` has   *)
(*     one instance per pattern (tags.md); any other object has exactly one *)
(*     instance carrying its whole version set.  `#tag_all` values are      *)
(*     already merged into the tag lists by the front-end (commands.md).    *)
(*     Version sets are compared as sets of patterns.                       *)
(*  N2 conditionals: the IR keeps, per arm, the list of enumerator names    *)
(*     the arm is taken for, and `definer_type` (Enum: equality / `||`      *)
(*     membership; Flag: `&`).  `!= X` is the enumerators of the variable's *)
(*     type other than X, in declaration order; `else` is one more arm      *)
(*     taken for the enumerators no earlier arm names, in declaration       *)
(*     order.  The variable's type is resolved by the version rule of       *)
(*     versioning-with-tags.md (the unique same-named object that covers    *)
(*     the instance).  `else if` chains are flattened in order.             *)
(*  N3 `optional` is a property of the container in the IR; Abs appends it  *)
(*     as the last member (lang-spec: optional can only be last).           *)
(*  N4 several `comment` (or `display`) values are joined with a newline;   *)
(*     comment/display text is compared modulo surrounding whitespace (the  *)
(*     lowering strips both sides).  Boolean tags: absent = false.          *)
(*  N5 the `compressed` tag of an array member lives in its data type.      *)
(*  N6 `self.size` is denoted by a non-null size_of_fields_before_size.     *)
(*  N7 structs tagged `used_in_update_mask` are imaged in the update-mask   *)
(*     tables, their members grouped into 4-byte words; Abs concatenates    *)
(*     the words.                                                           *)
(*  N8 tests are IR objects of their own (carried inside the container they *)
(*     exercise - see Bound); test values are typed in the IR, so for every *)
(*     test scalar Abs yields the facts the IR states about the token       *)
(*     (decimal value / float value / source text / quotedness) and Same    *)
(*     requires each of them to be a fact of the source token (SubRec).     *)
(*     An UpdateMask value names fields as <TYPE>_<NAME>.                   *)
(* Object tags compared (tags.md and the tags the corpus uses): comment,     *)
(* versions, compressed, non_network_type, used_in_update_mask,             *)
(* unimplemented, zero_is_always_valid, test.  The published schema has no  *)
(* place for the last two, so Abs reads them as absent = false and an       *)
(* object carrying one of them is reported (tags.zero_is_always_valid).     *)
(* Not compared (not listed by the property): sizes, file_info (only used   *)
(* to pick the candidate a difference is explained against), used_in_if,    *)
(* used_as_size_in, objects_used_in, only_has_io_error, has_manual_size_    *)
(* field, manual_size_subtraction, original_string of enumerator values,    *)
(* the Rust-only `rust_base_type` tag.                                      *)
(***************************************************************************)
EXTENDS Integers, Sequences, FiniteSets, TLC, Json, IOUtils

Src == ndJsonDeserialize(IOEnv.C10_SRC)
IR == ndJsonDeserialize(IOEnv.C10_IR)
SrcIdx == JsonDeserialize(IOEnv.C10_SRCIDX)      \* name -> <<source ids>>
IrIdx == JsonDeserialize(IOEnv.C10_IRIDX)        \* name -> <<IR ids>>
NShards == atoi(IOEnv.C10_NSHARDS)
Shard == atoi(IOEnv.C10_SHARD)

Range(f) == {f[i] : i \in DOMAIN f}
Has(r, k) == k \in DOMAIN r
Get(r, k, d) == IF k \in DOMAIN r THEN r[k] ELSE d
Least(S) == CHOOSE i \in S : \A j \in S : i <= j
IsPrefix(q, p) == Len(q) <= Len(p) /\ \A i \in 1..Len(q) : q[i] = p[i]

RECURSIVE JoinFrom(_, _)
JoinFrom(ss, i) == IF i > Len(ss) THEN "" ELSE IF i = Len(ss) THEN ss[i] ELSE ss[i] \o "\n" \o JoinFrom(ss, i + 1)
JoinNL(ss) == JoinFrom(ss, 1)
RECURSIVE ConcatFrom(_, _)
ConcatFrom(ss, i) == IF i > Len(ss) THEN <<>> ELSE ss[i] \o ConcatFrom(ss, i + 1)
Concat(ss) == ConcatFrom(ss, 1)

TagTrue(t, k) == Has(t, k) /\ Len(t[k]) > 0 /\ t[k][Len(t[k])] = "true"
TagLast(t, k) == IF Has(t, k) /\ Len(t[k]) > 0 THEN t[k][Len(t[k])] ELSE ""

----------------------------------------------------------------------------
(* Versions.  A version record: [w |-> world?, all |-> BOOLEAN, ps |-> set of integer tuples]    *)
Ver(w, all, ps) == [w |-> w, all |-> all, ps |-> IF all THEN {} ELSE ps]

(* N1 *)
Insts(s) ==
    LET v == s.ver IN
    IF v.hasp THEN (IF v.pall THEN {Ver(TRUE, TRUE, {})} ELSE {}) \cup {Ver(TRUE, FALSE, {p}) : p \in Range(v.ppats)}
    ELSE IF v.hasl THEN {Ver(FALSE, v.lall, {<<n>> : n \in Range(v.lvs)})}
    ELSE {Ver(TRUE, v.wall, Range(v.wpats))}

WorldPat(p) == <<p.major>> \o (IF ~Has(p, "minor") THEN <<>> ELSE <<p.minor>> \o
                              (IF ~Has(p, "patch") THEN <<>> ELSE <<p.patch>> \o
                               (IF ~Has(p, "build") THEN <<>> ELSE <<p.build>>)))
IrVer(tags) ==
    LET v == tags.version
        vt == v.version_type IN
    IF v.version_type_tag = "login"
    THEN Ver(FALSE, vt.login_version_tag = "all", {<<n>> : n \in Range(Get(vt, "versions", <<>>))})
    ELSE Ver(TRUE, vt.world_version_tag = "all", {WorldPat(p) : p \in Range(Get(vt, "versions", <<>>))})

(* versioning-with-tags.md: a name resolves to an object that is as specific or less specific    *)
Covers(U, V) == U.w = V.w /\ (U.all \/ (~V.all /\ \A p \in V.ps : \E q \in U.ps : IsPrefix(q, p)))
SrcCovers(s, V) == \E U \in Insts(s) : Covers(U, V)
Resolve(n, V) ==
    LET c == IF n \in DOMAIN SrcIdx THEN {i \in Range(SrcIdx[n]) : Src[i].kind # "test" /\ SrcCovers(Src[i], V)} ELSE {}
    IN IF Cardinality(c) = 1 THEN CHOOSE i \in c : TRUE ELSE 0

----------------------------------------------------------------------------
(* Tags *)
NormOTags(t) == [comment |-> JoinNL(Get(t, "comment", <<>>)),
                 compressed |-> TagTrue(t, "compressed"),
                 non_network_type |-> TagTrue(t, "non_network_type"),
                 used_in_update_mask |-> TagTrue(t, "used_in_update_mask"),
                 unimplemented |-> TagTrue(t, "unimplemented"),
                 zero_is_always_valid |-> TagTrue(t, "zero_is_always_valid"),
                 test |-> TagTrue(t, "test")]
AbsOTags(t) == [comment |-> Get(t, "comment", ""),
                compressed |-> Get(t, "compressed", FALSE),
                non_network_type |-> Get(t, "non_network_type", FALSE),
                used_in_update_mask |-> Get(t, "used_in_update_mask", FALSE),
                unimplemented |-> Get(t, "unimplemented", FALSE),
                zero_is_always_valid |-> Get(t, "zero_is_always_valid", FALSE),
                test |-> Get(t, "test", FALSE)]
(* member / enumerator tags; valid_range = "from to" *)
NormMTags(t) == [comment |-> JoinNL(Get(t, "comment", <<>>)),
                 display |-> JoinNL(Get(t, "display", <<>>)),
                 maximum_length |-> TagLast(t, "maximum_length"),
                 valid_range |-> TagLast(t, "valid_range")]
AbsMTags(t) == [comment |-> Get(t, "comment", ""),
                display |-> Get(t, "display", ""),
                maximum_length |-> Get(t, "maximum_length", ""),
                valid_range |-> IF Has(t, "valid_range") THEN t.valid_range.from \o " " \o t.valid_range.to ELSE ""]

----------------------------------------------------------------------------
(* Types *)
IntTy == [U8 |-> "u8", I8 |-> "i8", U16 |-> "u16", I16 |-> "i16", U32 |-> "u32", I32 |-> "i32",
          U64 |-> "u64", I64 |-> "i64", U48 |-> "u48"]
IntTyOf(x) == IF x \in DOMAIN IntTy THEN IntTy[x] ELSE "?" \o x
BoolTy == [U8 |-> "Bool", U16 |-> "Bool16", U32 |-> "Bool32", U64 |-> "Bool64"]
(* IR data_type_tag -> wowm type name where they are spelled differently *)
BuiltinName(tag) == CASE tag = "FloatingPoint" -> "f32"
                      [] tag = "MonsterMoveSpline" -> "MonsterMoveSplines"
                      [] OTHER -> tag
KindOf == [Struct |-> "struct", CLogin |-> "clogin", SLogin |-> "slogin", Msg |-> "msg", CMsg |-> "cmsg", SMsg |-> "smsg"]

NoArr == [arr |-> "none", n |-> "", cf |-> "", compressed |-> FALSE]
AbsType(d) ==
    LET t == d.data_type_tag IN
    CASE t = "Integer" -> [ty |-> IntTyOf(d.integer_type), up |-> ""] @@ NoArr
      [] t = "Bool" -> [ty |-> IF d.integer_type \in DOMAIN BoolTy THEN BoolTy[d.integer_type] ELSE "?Bool", up |-> ""] @@ NoArr
      [] t \in {"Enum", "Flag"} -> [ty |-> d.type_name, up |-> IF d.upcast THEN IntTyOf(d.integer_type) ELSE ""] @@ NoArr
      [] t = "Struct" -> [ty |-> d.struct_data.name, up |-> ""] @@ NoArr
      [] t = "Array" ->
           LET it == d.inner_type
               at == it.array_type_tag
               st == d.size.array_size_tag
           IN [ty |-> CASE at = "Integer" -> IntTyOf(it.integer_type)
                        [] at = "Struct" -> it.struct_data.name
                        [] OTHER -> at,
               up |-> "",
               arr |-> CASE st = "Fixed" -> "fixed" [] st = "Variable" -> "var" [] OTHER -> "endless",
               n |-> IF st = "Fixed" THEN d.size.size ELSE "",
               cf |-> IF st = "Variable" THEN d.size.size ELSE "",
               compressed |-> d.compressed]
      [] OTHER -> [ty |-> BuiltinName(t), up |-> ""] @@ NoArr

AbsDef(c) ==
    [m |-> "decl", name |-> c.name,
     const |-> IF Has(c, "size_of_fields_before_size") THEN "self.size"                 \* N6
               ELSE IF Has(c, "constant_value") THEN c.constant_value.value ELSE "",
     tags |-> AbsMTags(c.tags)] @@ AbsType(c.data_type)

NormDecl(m) ==
    [m |-> "decl", name |-> m.name, ty |-> m.ty, up |-> m.up, arr |-> m.arr, n |-> m.n, cf |-> m.cf,
     compressed |-> TagTrue(m.tags, "compressed"),                                       \* N5
     const |-> IF ~m.const.some THEN "" ELSE IF m.const.raw = "self.size" THEN "self.size" ELSE m.const.dec,
     tags |-> NormMTags(m.tags)]

----------------------------------------------------------------------------
(* Members.  Abstract member: decl record | [m |-> "if", arms |-> <<[var, op, vals, body]>>]     *)
(*                            | [m |-> "opt", name, body] | [m |-> "unimpl"]                    *)
RECURSIVE AbsMs(_), AbsIf(_)
AbsMs(ms) == [j \in DOMAIN ms |->
                 IF ms[j].struct_member_tag = "Definition" THEN AbsDef(ms[j].struct_member_content)
                 ELSE [m |-> "if", arms |-> AbsIf(ms[j].struct_member_content)]]
AbsIf(c) ==                                                                              \* N2
    <<[var |-> c.variable_name, op |-> IF c.definer_type = "Flag" THEN "and" ELSE "in",
       vals |-> c.values, body |-> AbsMs(c.members)]>>
    \o Concat([j \in DOMAIN c.else_if_statements |-> AbsIf(c.else_if_statements[j])])

RECURSIVE NormMs(_, _, _, _)
NormIf(m, V, scope) ==                                                                   \* N2
    LET var == m.arms[1].conds[1].var
        d == IF var \in DOMAIN scope THEN Resolve(scope[var], V) ELSE 0
        names == IF d = 0 \/ ~Has(Src[IF d = 0 THEN 1 ELSE d], "enums") THEN <<>>
                 ELSE [j \in DOMAIN Src[d].enums |-> Src[d].enums[j].n]
        Ops(a) == {a.conds[j].op : j \in DOMAIN a.conds}
        Named(a) == [j \in DOMAIN a.conds |-> a.conds[j].val]
        Vals(a) == IF Ops(a) = {"!="} THEN SelectSeq(names, LAMBDA n : n \notin Range(Named(a))) ELSE Named(a)
        arms == [j \in DOMAIN m.arms |->
                    [var |-> m.arms[j].conds[1].var,
                     op |-> IF Ops(m.arms[j]) = {"&"} THEN "and" ELSE "in",
                     vals |-> Vals(m.arms[j]),
                     body |-> NormMs(m.arms[j].body, 1, V, scope)]]
        used == UNION {Range(arms[j].vals) : j \in DOMAIN arms}
        elsearm == [var |-> var, op |-> arms[1].op,
                    vals |-> SelectSeq(names, LAMBDA n : n \notin used),
                    body |-> NormMs(m.els, 1, V, scope)]
    IN [m |-> "if", arms |-> IF m.haselse THEN Append(arms, elsearm) ELSE arms]

NormMs(ms, k, V, scope) ==
    IF k > Len(ms) THEN <<>>
    ELSE LET m == ms[k] IN
         CASE m.m = "decl" -> <<NormDecl(m)>> \o NormMs(ms, k + 1, V, (m.name :> m.ty) @@ scope)
           [] m.m = "if" -> <<NormIf(m, V, scope)>> \o NormMs(ms, k + 1, V, scope)
           [] m.m = "opt" -> <<[m |-> "opt", name |-> m.name, body |-> NormMs(m.body, 1, V, scope)]>>
                             \o NormMs(ms, k + 1, V, scope)
           [] OTHER -> <<[m |-> "unimpl"]>> \o NormMs(ms, k + 1, V, scope)

----------------------------------------------------------------------------
(* Test values (N8) *)
NumTags == {"Integer", "DateTime", "Guid", "IpAddress", "Seconds", "Milliseconds", "Gold", "Level"}
UmPrefix == [Object |-> "OBJECT", Item |-> "ITEM", Unit |-> "UNIT", Player |-> "PLAYER", Container |-> "CONTAINER",
             GameObject |-> "GAMEOBJECT", DynamicObject |-> "DYNAMICOBJECT", Corpse |-> "CORPSE"]
Scalars(ss) == [t |-> "v", v |-> ss]
RECURSIVE AbsTFs(_), AbsTV(_)
AbsTFs(ms) == [j \in DOMAIN ms |-> [name |-> ms[j].variable_name, val |-> AbsTV(ms[j].value)]]
AbsTV(v) ==
    LET t == v.test_value_tag
        c == v.content IN
    CASE t \in NumTags -> Scalars(<<[dec |-> c.value, text |-> c.original_string]>>)
      [] t = "Enum" -> Scalars(<<[text |-> c.original_string, quoted |-> FALSE]>>)
      [] t = "Flag" -> Scalars([j \in DOMAIN c |-> [raw |-> c[j], quoted |-> FALSE]])
      [] t = "String" -> Scalars(<<[raw |-> c, quoted |-> TRUE]>>)
      [] t = "Bool" -> Scalars(<<[raw |-> IF c THEN "TRUE" ELSE "FALSE", quoted |-> FALSE]>>)
      [] t = "Population" -> Scalars(<<[flt |-> c.flt]>>)
      [] t = "FloatingPoint" -> Scalars(<<[flt |-> c.value.flt, text |-> c.original_string]>>)
      [] t = "Array" -> [t |-> "array", v |-> c.values]
      [] t = "SubObject" -> [t |-> "obj", f |-> AbsTFs(c.members)]
      [] t = "ArrayOfSubObject" -> [t |-> "objs", f |-> [j \in DOMAIN c.members |-> AbsTFs(c.members[j])]]
      [] t = "UpdateMask" ->
           [t |-> "obj", f |-> [j \in DOMAIN c |->
               [name |-> (IF c[j].update_mask_type \in DOMAIN UmPrefix THEN UmPrefix[c[j].update_mask_type] ELSE "?")
                         \o "_" \o c[j].update_mask_name,
                val |-> Scalars(<<[raw |-> c[j].update_mask_value]>>)]]]
      [] t = "MonsterMoveSpline" ->
           [t |-> "objs", f |-> [j \in DOMAIN c |->
               <<[name |-> "x", val |-> Scalars(<<[flt |-> c[j].x.flt]>>)],
                 [name |-> "y", val |-> Scalars(<<[flt |-> c[j].y.flt]>>)],
                 [name |-> "z", val |-> Scalars(<<[flt |-> c[j].z.flt]>>)]>>]]
      [] OTHER -> [t |-> "?" \o t]

SubRec(a, s) == \A k \in DOMAIN a : k \in DOMAIN s /\ a[k] = s[k]
(* array elements are printed as strings: the decimal value of a number token, the text of a string token *)
ElemMatch(x, s) == IF s.quoted THEN x = s.raw ELSE x = s.dec
RECURSIVE TFsMatch(_, _), TVMatch(_, _)
TFsMatch(a, s) == Len(a) = Len(s) /\ \A j \in DOMAIN a : a[j].name = s[j].name /\ TVMatch(a[j].val, s[j].val)
TVMatch(a, s) ==
    /\ a.t = s.t
    /\ CASE a.t = "v" -> Len(a.v) = Len(s.v) /\ \A j \in DOMAIN a.v : SubRec(a.v[j], s.v[j])
         [] a.t = "array" -> Len(a.v) = Len(s.v) /\ \A j \in DOMAIN a.v : ElemMatch(a.v[j], s.v[j])
         [] a.t = "obj" -> TFsMatch(a.f, s.f)
         [] a.t = "objs" -> Len(a.f) = Len(s.f) /\ \A j \in DOMAIN a.f : TFsMatch(a.f[j], s.f[j])
         [] OTHER -> FALSE

----------------------------------------------------------------------------
(* The abstraction function and the source normal form *)
Abs(i) ==
    LET o == i.o IN
    CASE i.coll \in {"enums", "flags"} ->
           [kind |-> IF o.definer_type = "Flag" THEN "flag" ELSE "enum", name |-> o.name,
            base |-> IntTyOf(o.integer_type),
            enums |-> [j \in DOMAIN o.enumerators |->
                         [n |-> o.enumerators[j].name, v |-> o.enumerators[j].value.value,
                          tags |-> AbsMTags(o.enumerators[j].tags)]],
            tags |-> AbsOTags(o.tags), vers |-> IrVer(o.tags)]
      [] i.coll \in {"structs", "messages"} ->
           [kind |-> IF o.object_type.container_type_tag \in DOMAIN KindOf THEN KindOf[o.object_type.container_type_tag] ELSE "?",
            name |-> o.name,
            op |-> IF Has(o.object_type, "opcode") THEN ToString(o.object_type.opcode) ELSE "",
            members |-> AbsMs(o.members)
                        \o (IF Has(o, "optional")                                        \* N3
                            THEN <<[m |-> "opt", name |-> o.optional.name, body |-> AbsMs(o.optional.members)]>>
                            ELSE <<>>),
            tags |-> AbsOTags(o.tags), vers |-> IrVer(o.tags)]
      [] i.coll = "update_mask" ->                                                       \* N7
           [kind |-> "struct", name |-> o.name, op |-> "",
            members |-> Concat([w \in DOMAIN o.members |-> [j \in DOMAIN o.members[w] |-> AbsDef(o.members[w][j].member)]]),
            tags |-> AbsOTags(o.tags), vers |-> IrVer(o.tags)]
      [] i.coll = "tests" ->
           [kind |-> "test", name |-> o.subject, fields |-> AbsTFs(o.members),
            bytes |-> [j \in DOMAIN o.raw_bytes |-> ToString(o.raw_bytes[j])],
            tags |-> AbsOTags(o.tags), vers |-> IrVer(o.tags)]
      [] OTHER -> [kind |-> "?"]

Norm(s, V) ==
    CASE s.kind \in {"enum", "flag"} ->
           [kind |-> s.kind, name |-> s.name, base |-> s.base,
            enums |-> [j \in DOMAIN s.enums |-> [n |-> s.enums[j].n, v |-> s.enums[j].val.dec,
                                                  tags |-> NormMTags(s.enums[j].tags)]],
            tags |-> NormOTags(s.tags), vers |-> V]
      [] s.kind = "test" ->
           [kind |-> "test", name |-> s.name, fields |-> [j \in DOMAIN s.fields |-> [name |-> s.fields[j].name, val |-> s.fields[j].val]],
            bytes |-> [j \in DOMAIN s.bytes |-> s.bytes[j].dec],
            tags |-> NormOTags(s.tags), vers |-> V]
      [] OTHER ->
           [kind |-> s.kind, name |-> s.name, op |-> IF s.op.some THEN s.op.dec ELSE "",
            members |-> NormMs(s.members, 1, V, <<>>),
            tags |-> NormOTags(s.tags), vers |-> V]

(* equality of abstract records; for tests the scalar facts are compared by SubRec (N8) *)
Same(a, n) ==
    IF a.kind = "test" /\ n.kind = "test"
    THEN /\ a.name = n.name /\ a.bytes = n.bytes /\ a.tags = n.tags /\ a.vers = n.vers
         /\ TFsMatch(a.fields, n.fields)
    ELSE a = n

----------------------------------------------------------------------------
(* Diagnostics: first differing field path between two abstract records.     *)
NoDiff == [p |-> "", a |-> "", b |-> ""]
Leaf(p, x, y) == IF x = y THEN NoDiff ELSE [p |-> p, a |-> ToString(x), b |-> ToString(y)]
FirstOf(ds) == IF \E i \in DOMAIN ds : ds[i].p # "" THEN ds[Least({i \in DOMAIN ds : ds[i].p # ""})] ELSE NoDiff
Idx(p, i) == p \o "[" \o ToString(i) \o "]"
LenDiff(p, a, b) == [p |-> p \o ".length", a |-> ToString(Len(a)), b |-> ToString(Len(b))]
Min2(x, y) == IF x < y THEN x ELSE y

DiffTags(p, a, b) ==
    LET ks == DOMAIN a \cap DOMAIN b
        bad == {k \in ks : a[k] # b[k]}
    IN IF bad = {} THEN Leaf(p, a, b) ELSE LET k == CHOOSE kk \in bad : TRUE IN Leaf(p \o "." \o k, a[k], b[k])

RECURSIVE DiffMs(_, _, _), DiffM(_, _, _), DiffArms(_, _, _)
DiffMs(p, a, b) ==
    LET bad == {i \in 1..Min2(Len(a), Len(b)) : a[i] # b[i]}
    IN IF bad # {} THEN DiffM(Idx(p, Least(bad)), a[Least(bad)], b[Least(bad)])
       ELSE IF Len(a) # Len(b) THEN LenDiff(p, a, b) ELSE NoDiff
DiffM(p, x, y) ==
    IF x.m # y.m THEN Leaf(p \o ".member_kind", x.m, y.m)
    ELSE CASE x.m = "decl" -> FirstOf(<<Leaf(p \o ".name", x.name, y.name), Leaf(p \o ".type", x.ty, y.ty),
                                        Leaf(p \o ".upcast", x.up, y.up), Leaf(p \o ".array_kind", x.arr, y.arr),
                                        Leaf(p \o ".array_size", x.n, y.n), Leaf(p \o ".array_count_field", x.cf, y.cf),
                                        Leaf(p \o ".compressed", x.compressed, y.compressed),
                                        Leaf(p \o ".constant", x.const, y.const), DiffTags(p \o ".tags", x.tags, y.tags)>>)
           [] x.m = "if" -> DiffArms(p \o ".arms", x.arms, y.arms)
           [] x.m = "opt" -> FirstOf(<<Leaf(p \o ".name", x.name, y.name), DiffMs(p \o ".body", x.body, y.body)>>)
           [] OTHER -> NoDiff
DiffArms(p, a, b) ==
    LET bad == {i \in 1..Min2(Len(a), Len(b)) : a[i] # b[i]}
    IN IF bad # {}
       THEN LET i == Least(bad) IN
            FirstOf(<<Leaf(Idx(p, i) \o ".variable", a[i].var, b[i].var), Leaf(Idx(p, i) \o ".operator", a[i].op, b[i].op),
                      Leaf(Idx(p, i) \o ".enumerators", a[i].vals, b[i].vals), DiffMs(Idx(p, i) \o ".body", a[i].body, b[i].body)>>)
       ELSE IF Len(a) # Len(b) THEN LenDiff(p, a, b) ELSE NoDiff

DiffEnums(p, a, b) ==
    LET bad == {i \in 1..Min2(Len(a), Len(b)) : a[i] # b[i]}
    IN IF bad # {}
       THEN LET i == Least(bad) IN
            FirstOf(<<Leaf(Idx(p, i) \o ".name", a[i].n, b[i].n), Leaf(Idx(p, i) \o ".value", a[i].v, b[i].v),
                      DiffTags(Idx(p, i) \o ".tags", a[i].tags, b[i].tags)>>)
       ELSE IF Len(a) # Len(b) THEN LenDiff(p, a, b) ELSE NoDiff

RECURSIVE DiffTFs(_, _, _), DiffTV(_, _, _)
DiffTFs(p, a, s) ==
    LET bad == {i \in 1..Min2(Len(a), Len(s)) : a[i].name # s[i].name \/ ~TVMatch(a[i].val, s[i].val)}
    IN IF bad # {}
       THEN LET i == Least(bad) IN
            IF a[i].name # s[i].name THEN Leaf(Idx(p, i) \o ".name", a[i].name, s[i].name)
            ELSE DiffTV(p \o "." \o a[i].name, a[i].val, s[i].val)
       ELSE IF Len(a) # Len(s) THEN LenDiff(p, a, s) ELSE NoDiff
DiffTV(p, a, s) ==
    IF a.t # s.t THEN Leaf(p \o ".shape", a.t, s.t)
    ELSE CASE a.t \in {"v", "array"} ->
                LET bad == {j \in 1..Min2(Len(a.v), Len(s.v)) : IF a.t = "v" THEN ~SubRec(a.v[j], s.v[j]) ELSE ~ElemMatch(a.v[j], s.v[j])}
                IN IF bad # {} THEN Leaf(Idx(p, Least(bad)), a.v[Least(bad)], s.v[Least(bad)])
                   ELSE LenDiff(p, a.v, s.v)
           [] a.t = "obj" -> DiffTFs(p, a.f, s.f)
           [] a.t = "objs" ->
                LET bad == {j \in 1..Min2(Len(a.f), Len(s.f)) : ~TFsMatch(a.f[j], s.f[j])}
                IN IF bad # {} THEN DiffTFs(Idx(p, Least(bad)), a.f[Least(bad)], s.f[Least(bad)])
                   ELSE LenDiff(p, a.f, s.f)
           [] OTHER -> Leaf(p, a, s)

(* a = Abs(IR object), n = Norm(source object, V) *)
Diff(a, n) ==
    IF Same(a, n) THEN NoDiff
    ELSE LET d ==
        IF a.kind # n.kind THEN Leaf("kind", a.kind, n.kind)
        ELSE FirstOf(<<Leaf("name", a.name, n.name),
                       Leaf("versions", a.vers, n.vers),
                       DiffTags("tags", a.tags, n.tags),
                       CASE a.kind \in {"enum", "flag"} ->
                              FirstOf(<<Leaf("integer_type", a.base, n.base), DiffEnums("enumerators", a.enums, n.enums)>>)
                         [] a.kind = "test" ->
                              FirstOf(<<Leaf("bytes", a.bytes, n.bytes), DiffTFs("fields", a.fields, n.fields)>>)
                         [] OTHER ->
                              FirstOf(<<Leaf("opcode", a.op, n.op), DiffMs("members", a.members, n.members)>>)>>)
         IN IF d.p = "" THEN [p |-> "?", a |-> "", b |-> ""] ELSE d

----------------------------------------------------------------------------
(* Binding of names (part of "member types", "integer types", "tests attached to the right       *)
(* object"): what a name used inside an IR object denotes agrees with the source's version rule.  *)
(*  B1 every embedded struct copy is identical to a top-level struct image (ptr # 0), and that    *)
(*     image sits at the source position of the struct the name resolves to;                      *)
(*  B2 an Enum / Flag typed member resolves to a source enum / flag respectively, and when not    *)
(*     upcast its integer_type is that definer's base type;                                       *)
(*  B3 a test is carried by a container with the test's subject name whose versions cover the     *)
(*     test's versions.                                                                           *)
BindType(d, V, p) ==
    LET t == d.data_type_tag
        StructOk(sd) == LET r == Resolve(sd.name, V) IN
                        IF sd.ptr = 0 THEN p \o ": embedded struct_data of " \o sd.name \o " is not a copy of a top-level struct"
                        ELSE IF r = 0 THEN p \o ": struct " \o sd.name \o " does not resolve for this version"
                        ELSE IF IR[sd.ptr].file # Src[r].file \/ IR[sd.ptr].line # Src[r].line
                             THEN p \o ": struct " \o sd.name \o " is bound to another version's definition"
                        ELSE ""
    IN CASE t \in {"Enum", "Flag"} ->
              LET r == Resolve(d.type_name, V) IN
              IF r = 0 THEN p \o ": " \o d.type_name \o " does not resolve for this version"
              ELSE IF Src[r].kind # (IF t = "Enum" THEN "enum" ELSE "flag") THEN p \o ": " \o d.type_name \o " is a " \o Src[r].kind
              ELSE IF ~d.upcast /\ IntTyOf(d.integer_type) # Src[r].base THEN p \o ": integer_type differs from base type of " \o d.type_name
              ELSE ""
         [] t = "Struct" -> StructOk(d.struct_data)
         [] t = "Array" /\ d.inner_type.array_type_tag = "Struct" -> StructOk(d.inner_type.struct_data)
         [] OTHER -> ""

FirstStr(ss) == IF \E i \in DOMAIN ss : ss[i] # "" THEN ss[Least({i \in DOMAIN ss : ss[i] # ""})] ELSE ""
RECURSIVE BindMs(_, _, _), BindIf(_, _, _)
BindMs(ms, V, p) ==
    FirstStr([j \in DOMAIN ms |->
        IF ms[j].struct_member_tag = "Definition"
        THEN BindType(ms[j].struct_member_content.data_type, V, p \o "." \o ms[j].struct_member_content.name)
        ELSE BindIf(ms[j].struct_member_content, V, p)])
BindIf(c, V, p) ==
    FirstStr(<<BindType(c.original_type, V, p \o ".if(" \o c.variable_name \o ").original_type"),
               BindMs(c.members, V, p),
               FirstStr([j \in DOMAIN c.else_if_statements |-> BindIf(c.else_if_statements[j], V, p)])>>)

(*  B4 the numeric value a test states for an enum field is the value of the named enumerator in *)
(*     the definer the field's type resolves to (fields of sub-objects are looked up in the      *)
(*     struct the carrying member embeds).                                                       *)
RECURSIVE DefsIn(_), DefsInIf(_)
DefsIn(ms) == Concat([j \in DOMAIN ms |-> IF ms[j].struct_member_tag = "Definition" THEN <<ms[j].struct_member_content>>
                                            ELSE DefsInIf(ms[j].struct_member_content)])
DefsInIf(c) == DefsIn(c.members) \o Concat([j \in DOMAIN c.else_if_statements |-> DefsInIf(c.else_if_statements[j])])
AllDefs(o) == DefsIn(o.members) \o (IF Has(o, "optional") THEN DefsIn(o.optional.members) ELSE <<>>)
TypeOfField(o, name) == LET ds == SelectSeq(AllDefs(o), LAMBDA d : d.name = name)
                        IN IF ds = <<>> THEN [data_type_tag |-> "?"] ELSE ds[1].data_type

RECURSIVE BindTFs(_, _, _, _)
BindTFs(ms, cont, V, p) ==
    FirstStr([j \in DOMAIN ms |->
        LET f == ms[j]
            q == p \o "." \o f.variable_name
            dt == TypeOfField(cont, f.variable_name)
            t == f.value.test_value_tag
            c == f.value.content
        IN CASE t = "Enum" ->
                  IF dt.data_type_tag # "Enum" THEN q \o ": not an enum field of " \o cont.name
                  ELSE LET r == Resolve(dt.type_name, V) IN
                       IF r = 0 THEN q \o ": " \o dt.type_name \o " does not resolve for the test's version"
                       ELSE LET es == SelectSeq(Src[r].enums, LAMBDA e : e.n = c.original_string) IN
                            IF es = <<>> THEN q \o ": " \o c.original_string \o " is not an enumerator of " \o dt.type_name
                            ELSE IF es[1].val.dec # c.value THEN q \o ": value differs from the enumerator's value"
                            ELSE ""
             [] t = "SubObject" ->
                  IF dt.data_type_tag # "Struct" \/ dt.struct_data.ptr = 0 THEN q \o ": not a struct field of " \o cont.name
                  ELSE BindTFs(c.members, IR[dt.struct_data.ptr].o, V, q)
             [] t = "ArrayOfSubObject" ->
                  IF dt.data_type_tag # "Array" \/ dt.inner_type.array_type_tag # "Struct" \/ dt.inner_type.struct_data.ptr = 0
                  THEN q \o ": not a struct array field of " \o cont.name
                  ELSE FirstStr([e \in DOMAIN c.members |-> BindTFs(c.members[e], IR[dt.inner_type.struct_data.ptr].o, V, Idx(q, e))])
             [] OTHER -> ""])

Bound(i) ==
    LET o == i.o
        V == IrVer(o.tags) IN
    CASE i.coll \in {"structs", "messages"} ->
           FirstStr(<<BindMs(o.members, V, "members"),
                      IF Has(o, "optional") THEN BindMs(o.optional.members, V, "optional") ELSE "">>)
      [] i.coll = "update_mask" ->
           FirstStr([w \in DOMAIN o.members |->
               FirstStr([j \in DOMAIN o.members[w] |-> BindType(o.members[w][j].member.data_type, V, "members." \o o.members[w][j].member.name)])])
      [] i.coll = "tests" ->
           IF i.owner = 0 THEN "test has no carrying container"
           ELSE IF IR[i.owner].o.name # o.subject THEN "test is carried by " \o IR[i.owner].o.name
           ELSE IF ~Covers(IrVer(IR[i.owner].o.tags), V) THEN "carrying container's versions do not cover the test's"
           ELSE BindTFs(o.members, IR[i.owner].o, V, "fields")
      [] OTHER -> ""

----------------------------------------------------------------------------
(* Evaluation.  Work items: source ids 1..Len(Src), then IR ids; a shard takes every NShards-th.  *)
(* Candidates are restricted to same-named objects (Same implies equal names).                    *)
IrNamed(n) == IF n \in DOMAIN IrIdx THEN Range(IrIdx[n]) ELSE {}
SrcNamed(n) == IF n \in DOMAIN SrcIdx THEN Range(SrcIdx[n]) ELSE {}

Fwd(sid) ==
    LET s == Src[sid] IN
    {LET n == Norm(s, V)
         cands == {i \in IrNamed(s.name) : (IR[i].coll = "tests") = (s.kind = "test")}
         imgs == {i \in cands : Same(Abs(IR[i]), n)}
         twins == {x \in SrcNamed(s.name) : \E W \in Insts(Src[x]) : Norm(Src[x], W) = n}   \* identical source objects
         near == {i \in cands : IR[i].file = s.file /\ IR[i].line = s.line}        \* explanation only
         d == IF Cardinality(imgs) = Cardinality(twins) THEN NoDiff
              ELSE IF Cardinality(imgs) > 0 THEN [p |-> "number of images differs from number of identical source objects",
                                                  a |-> ToString(imgs), b |-> ToString(twins)]
              ELSE IF near = {} THEN [p |-> "no IR object with this name at this source position", a |-> "", b |-> ""]
              ELSE LET ds == {Diff(Abs(IR[i]), n) : i \in near}
                       notver == {x \in ds : x.p # "versions"}
                   IN IF notver # {} THEN CHOOSE x \in notver : TRUE ELSE CHOOSE x \in ds : TRUE
     IN [kind |-> "fwd", sid |-> sid, name |-> s.name, okind |-> s.kind, file |-> s.file, line |-> s.line,
         vers |-> ToString(V), images |-> Cardinality(imgs), twins |-> Cardinality(twins), path |-> d.p, ir |-> d.a, src |-> d.b]
     : V \in Insts(s)}

Bwd(iid) ==
    LET i == IR[iid]
        a == Abs(i)
        cands == {<<sid, V>> \in UNION {{<<x, W>> : W \in Insts(Src[x])} : x \in SrcNamed(i.name)} :
                    (Src[sid].kind = "test") = (i.coll = "tests")}
        pre == {c \in cands : Same(a, Norm(Src[c[1]], c[2]))}
        near == {c \in cands : Src[c[1]].file = i.file /\ Src[c[1]].line = i.line}
        d == IF pre # {} THEN NoDiff
             ELSE IF near = {} THEN [p |-> "no source object with this name at this source position", a |-> "", b |-> ""]
             ELSE LET ds == {Diff(a, Norm(Src[c[1]], c[2])) : c \in near}
                      notver == {x \in ds : x.p # "versions"}
                  IN IF notver # {} THEN CHOOSE x \in notver : TRUE ELSE CHOOSE x \in ds : TRUE
    IN {[kind |-> "bwd", iid |-> iid, name |-> i.name, coll |-> i.coll, file |-> i.file, line |-> i.line,
         sources |-> Cardinality(pre), path |-> d.p, ir |-> d.a, src |-> d.b, bound |-> Bound(i)]}

NItems == Len(Src) + Len(IR)
Judge(k) == IF k <= Len(Src) THEN Fwd(k) ELSE Bwd(k - Len(Src))

VARIABLES k, verdict
Init == k = Shard + 1 /\ verdict = IF k > NItems THEN {} ELSE Judge(k)
Step == /\ k + NShards <= NItems
        /\ k' = k + NShards
        /\ verdict' = Judge(k + NShards)
Spec == Init /\ [][Step]_<<k, verdict>>

(* Faithful, item by item (the driver reads the printed verdicts so that every failing object is  *)
(* reported with its first differing path, not only the first one TLC meets)                      *)
ItemFaithful == \A v \in verdict : IF v.kind = "fwd" THEN v.images = v.twins ELSE (v.sources >= 1 /\ v.bound = "")
EmitVerdict == \A v \in verdict : PrintT("REPLAY " \o ToJson(v))
=============================================================================
