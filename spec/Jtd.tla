-------------------------------- MODULE Jtd --------------------------------
(***************************************************************************)
(* JSON Type Definition (RFC 8927) validity, as a recursive predicate over  *)
(* a TYPED encoding of JSON values.                                         *)
(*                                                                          *)
(* TLC values do not carry JSON's types (1, 1.0, "1", true, null, {} and [] *)
(* are not distinguishable after Json!Deserialize), so the lowering         *)
(* (tools/irlower.py, typed()) tags every node:                             *)
(*   [t |-> "obj",  f |-> [key |-> node, ...]]                              *)
(*   [t |-> "arr",  v |-> <<node, ...>>]                                    *)
(*   [t |-> "str",  s |-> "..."]                                            *)
(*   [t |-> "int",  n |-> n]            integral number, |n| < 2^31         *)
(*   [t |-> "big",  neg |-> b, d |-> <<decimal digits>>]   wider integers   *)
(*   [t |-> "frac", s |-> "..."]        non-integral number                 *)
(*   [t |-> "bool", b |-> b]   and   [t |-> "null"]                         *)
(* A schema is lowered to a uniform record (schema_lower()):                *)
(*   form \in {"empty","ref","type","enum","elements","properties",         *)
(*             "values","discriminator"}, nullable, and the keywords of the *)
(*   form: ref, type, enum, elements, props, oprops, additional, values,    *)
(*   disc, mapping.  `defs` is the root's definitions (name -> schema).     *)
(*                                                                          *)
(* Valid(defs, s, x) is section 3.3 of the RFC, form by form.               *)
(* Why(defs, s, x, p) is a diagnostic: the instance path of the first       *)
(* violation ("" iff Valid) - it repeats the case analysis and is only used *)
(* to explain a rejection.                                                  *)
(***************************************************************************)
EXTENDS Integers, Sequences, FiniteSets, TLC

Range(f) == {f[i] : i \in DOMAIN f}

(* decimal digit sequences (most significant first, no leading zeros) *)
RECURSIVE LexLeq(_, _, _)
LexLeq(a, b, i) == IF i > Len(a) THEN TRUE
                   ELSE IF a[i] < b[i] THEN TRUE
                   ELSE IF a[i] > b[i] THEN FALSE
                   ELSE LexLeq(a, b, i + 1)
DigLeq(a, b) == Len(a) < Len(b) \/ (Len(a) = Len(b) /\ LexLeq(a, b, 1))

IsNumber(x) == x.t \in {"int", "big", "frac"}
IntIn(x, lo, hi) == x.t = "int" /\ lo <= x.n /\ x.n <= hi

(* RFC 8927 section 3.3.3 (type form).  "timestamp" (RFC 3339 string) is only checked to be a    *)
(* string - the published schema does not use it.                                               *)
TypeOk(ty, x) ==
    CASE ty = "boolean" -> x.t = "bool"
      [] ty = "string" -> x.t = "str"
      [] ty = "timestamp" -> x.t = "str"
      [] ty \in {"float32", "float64"} -> IsNumber(x)
      [] ty = "int8" -> IntIn(x, -128, 127)
      [] ty = "uint8" -> IntIn(x, 0, 255)
      [] ty = "int16" -> IntIn(x, -32768, 32767)
      [] ty = "uint16" -> IntIn(x, 0, 65535)
      [] ty = "int32" -> x.t = "int" \/ (x.t = "big" /\ x.neg /\ x.d = <<2, 1, 4, 7, 4, 8, 3, 6, 4, 8>>)
      [] ty = "uint32" -> (x.t = "int" /\ x.n >= 0)
                          \/ (x.t = "big" /\ ~x.neg /\ DigLeq(x.d, <<4, 2, 9, 4, 9, 6, 7, 2, 9, 5>>))
      [] OTHER -> FALSE

RECURSIVE Valid(_, _, _), ValidProps(_, _, _, _)

(* properties form; `exempt` = the discriminator key when reached through a mapping (3.3.8)      *)
ValidProps(defs, s, x, exempt) ==
    /\ x.t = "obj"
    /\ \A k \in DOMAIN s.props : k \in DOMAIN x.f /\ Valid(defs, s.props[k], x.f[k])
    /\ \A k \in DOMAIN s.oprops : k \in DOMAIN x.f => Valid(defs, s.oprops[k], x.f[k])
    /\ s.additional \/ DOMAIN x.f \subseteq (DOMAIN s.props \cup DOMAIN s.oprops \cup exempt)

Valid(defs, s, x) ==
    IF s.nullable /\ x.t = "null" THEN TRUE
    ELSE CASE s.form = "empty" -> TRUE
           [] s.form = "ref" -> s.ref \in DOMAIN defs /\ Valid(defs, defs[s.ref], x)
           [] s.form = "type" -> TypeOk(s.type, x)
           [] s.form = "enum" -> x.t = "str" /\ x.s \in Range(s.enum)
           [] s.form = "elements" -> x.t = "arr" /\ \A i \in DOMAIN x.v : Valid(defs, s.elements, x.v[i])
           [] s.form = "properties" -> ValidProps(defs, s, x, {})
           [] s.form = "values" -> x.t = "obj" /\ \A k \in DOMAIN x.f : Valid(defs, s.values, x.f[k])
           [] s.form = "discriminator" ->
                /\ x.t = "obj"
                /\ s.disc \in DOMAIN x.f
                /\ x.f[s.disc].t = "str"
                /\ x.f[s.disc].s \in DOMAIN s.mapping
                /\ ValidProps(defs, s.mapping[x.f[s.disc].s], x, {s.disc})
           [] OTHER -> FALSE

(* ---- diagnostic: instance path of the first violation ---- *)
Least(S) == CHOOSE i \in S : \A j \in S : i <= j
FirstNonEmpty(ss) == IF \E i \in DOMAIN ss : ss[i] # "" THEN ss[Least({i \in DOMAIN ss : ss[i] # ""})] ELSE ""

RECURSIVE Why(_, _, _, _), WhyProps(_, _, _, _, _)
WhyProps(defs, s, x, exempt, p) ==
    IF x.t # "obj" THEN p \o ": expected object, found " \o x.t
    ELSE LET missing == {k \in DOMAIN s.props : k \notin DOMAIN x.f}
             extra == DOMAIN x.f \ (DOMAIN s.props \cup DOMAIN s.oprops \cup exempt)
             badreq == {k \in DOMAIN s.props \ missing : ~Valid(defs, s.props[k], x.f[k])}
             badopt == {k \in DOMAIN s.oprops \cap DOMAIN x.f : ~Valid(defs, s.oprops[k], x.f[k])}
         IN IF missing # {} THEN p \o ": missing required property " \o (CHOOSE k \in missing : TRUE)
            ELSE IF badreq # {} THEN LET k == CHOOSE kk \in badreq : TRUE IN Why(defs, s.props[k], x.f[k], p \o "/" \o k)
            ELSE IF badopt # {} THEN LET k == CHOOSE kk \in badopt : TRUE IN Why(defs, s.oprops[k], x.f[k], p \o "/" \o k)
            ELSE IF ~s.additional /\ extra # {} THEN p \o ": additional property " \o (CHOOSE k \in extra : TRUE)
            ELSE ""

Why(defs, s, x, p) ==
    IF Valid(defs, s, x) THEN ""
    ELSE CASE s.form = "ref" -> IF s.ref \in DOMAIN defs THEN Why(defs, defs[s.ref], x, p) ELSE p \o ": undefined ref " \o s.ref
           [] s.form = "type" -> p \o ": expected " \o s.type \o ", found " \o x.t
           [] s.form = "enum" -> p \o ": not one of the enum values (" \o x.t \o ")"
           [] s.form = "elements" ->
                IF x.t # "arr" THEN p \o ": expected array, found " \o x.t
                ELSE LET i == Least({j \in DOMAIN x.v : ~Valid(defs, s.elements, x.v[j])})
                     IN Why(defs, s.elements, x.v[i], p \o "/" \o ToString(i - 1))
           [] s.form = "properties" -> WhyProps(defs, s, x, {}, p)
           [] s.form = "values" ->
                IF x.t # "obj" THEN p \o ": expected object, found " \o x.t
                ELSE LET k == CHOOSE kk \in {j \in DOMAIN x.f : ~Valid(defs, s.values, x.f[j])} : TRUE
                     IN Why(defs, s.values, x.f[k], p \o "/" \o k)
           [] s.form = "discriminator" ->
                IF x.t # "obj" THEN p \o ": expected object, found " \o x.t
                ELSE IF s.disc \notin DOMAIN x.f THEN p \o ": missing discriminator " \o s.disc
                ELSE IF x.f[s.disc].t # "str" THEN p \o "/" \o s.disc \o ": discriminator is not a string"
                ELSE IF x.f[s.disc].s \notin DOMAIN s.mapping THEN p \o "/" \o s.disc \o ": unknown mapping " \o x.f[s.disc].s
                ELSE WhyProps(defs, s.mapping[x.f[s.disc].s], x, {s.disc}, p)
           [] OTHER -> p \o ": unknown schema form " \o s.form
=============================================================================
