SPECIFICATION CSpec
INVARIANT EmitIV
CHECK_DEADLOCK FALSE
