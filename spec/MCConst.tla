------------------------------ MODULE MCConst ------------------------------
(* Prints, for every message of the corpus and every context it is valid in, the exact extremes *)
(* of its body length (interval abstraction of WowmWire).  Used to select the constant-sized     *)
(* messages for the fixed-size fault family of C04.                                              *)
EXTENDS WowmWire

VARIABLES oi

Mine(i) == i % NShards = Shard /\ IsMsg(Objs[i]) /\ ~Objs[i].test /\ ~Objs[i].unimpl /\ ~Objs[i].skip
IVs(i) == {[id |-> i, exp |-> c.exp, lv |-> c.lv, lo |-> ContainerIV(Objs[i], c).lo, hi |-> ContainerIV(Objs[i], c).hi] :
             c \in {cc \in Ctxs : InCtx(Objs[i], cc)}}

Frozen == /\ root = 0 /\ prof = 0 /\ stack = <<>> /\ scopes = <<>> /\ out = <<>> /\ fi = 0
          /\ regions = <<>> /\ sizepos = 0 /\ sizew = 0 /\ phase = "const" /\ note = "" /\ ev = <<>>
CInit == Frozen /\ oi = 1
CNext == oi < Len(Objs) /\ oi' = oi + 1 /\ UNCHANGED vars
CSpec == CInit /\ [][CNext]_<<oi, vars>>

EmitIV == Mine(oi) => \A r \in IVs(oi) : PrintT("REPLAY " \o ToJson([kind |-> "iv"] @@ r))
=============================================================================
