\* Reference configuration (quick bounds).  tools/checks/c08.py derives the configurations it
\* runs from this file: bounds per tier, the variant lines of GenTreeVariant.cfg, and Cells.
SPECIFICATION Spec
CONSTANTS
  Paths <- MCPaths
  Class <- MCClass
  Stage <- MCStage
  Produced <- MCProduced
  NoPath = "-"
  MaxCrash = 2
  MaxPerturbed = 3
  WholeCreates = FALSE
  DocsPruned = FALSE
  OpcTracked = FALSE
  Cells = {}
INVARIANT TypeOK
INVARIANT ConstOK
INVARIANT HandledCorrect
INVARIANT Idempotent
INVARIANT Progress
INVARIANT Explained
PROPERTY NoForeignRemoval
PROPERTY NoIdleWrite
CHECK_DEADLOCK FALSE
