----------------------------- MODULE MCGenTree -----------------------------
(* The bounded universe on which GenTree is model checked: one produced path of every class in   *)
(* every stage it occurs in, and one unproduced ("extra") path of every class that can have one. *)
EXTENDS GenTree

MCPaths == {"w1", "o1", "ox", "t1", "d1", "dx", "i1", "m1", "mx", "c1", "cx", "w2", "i2"}

MCClass == [p \in MCPaths |->
    CASE p \in {"w1", "w2"} -> "whole"
      [] p \in {"o1", "ox"} -> "obj"
      [] p = "t1"           -> "tail"
      [] p \in {"d1", "dx"} -> "doc"
      [] p \in {"i1", "i2"} -> "ins"
      [] p \in {"m1", "mx"} -> "modrs"
      [] p \in {"c1", "cx"} -> "opc"]

MCStage == [p \in MCPaths |->
    CASE p = "w1" -> 1
      [] p \in {"o1", "ox"} -> 2
      [] p \in {"t1", "d1", "dx"} -> 3
      [] p = "i1" -> 4
      [] p \in {"m1", "mx"} -> 5
      [] p \in {"c1", "cx"} -> 6
      [] p \in {"w2", "i2"} -> 7]

MCProduced == [p \in MCPaths |-> p \notin {"ox", "dx", "mx", "cx"}]
=============================================================================
