SPECIFICATION Spec
INVARIANT EmitVerdict
CHECK_DEADLOCK FALSE
