------------------------------- MODULE MCJtd -------------------------------
(***************************************************************************)
(* C10, schema clause: the regenerated intermediate_representation.json is  *)
(* valid against the published intermediate_representation_schema.json.     *)
(*                                                                          *)
(* The document is checked compositionally (validity of the `elements` form *)
(* is the conjunction of the validity of the elements): one instance record *)
(* is the document with the big object arrays emptied (path = <<>>, checked *)
(* against the root schema), every other record is ONE element of one of    *)
(* those arrays together with the property path of the array; the schema    *)
(* the element has to satisfy is found by following that path through the   *)
(* schema itself (ElemSchemaAt) - the glue names no schema definition.      *)
(*                                                                          *)
(* State machine: `k` steps through the instance records; the invariant     *)
(* prints one verdict per record (driver collects them).                    *)
(***************************************************************************)
EXTENDS Jtd, Json, IOUtils

Schema == JsonDeserialize(IOEnv.JTD_SCHEMA)        \* [root |-> schema, defs |-> [name |-> schema]]
Inst == ndJsonDeserialize(IOEnv.JTD_INSTANCES)     \* <<[id, what, path, node]>>
Defs == Schema.defs
Root == Schema.root

RECURSIVE Deref(_)
Deref(s) == IF s.form = "ref" /\ s.ref \in DOMAIN Defs THEN Deref(Defs[s.ref]) ELSE s

NoSchema == [form |-> "none", nullable |-> FALSE]
RECURSIVE Follow(_, _, _)
Follow(s, path, i) ==
    IF i > Len(path) THEN s
    ELSE LET d == Deref(s) IN
         IF d.form # "properties" THEN NoSchema
         ELSE IF path[i] \in DOMAIN d.props THEN Follow(d.props[path[i]], path, i + 1)
         ELSE IF path[i] \in DOMAIN d.oprops THEN Follow(d.oprops[path[i]], path, i + 1)
         ELSE NoSchema
ElemSchemaAt(path) ==
    IF path = <<>> THEN Root
    ELSE LET d == Deref(Follow(Root, path, 1)) IN IF d.form = "elements" THEN d.elements ELSE NoSchema

Judge(r) ==
    LET s == ElemSchemaAt(r.path)
        ok == Valid(Defs, s, r.node)
    IN [kind |-> "jtd", id |-> r.id, what |-> r.what, valid |-> ok,
        why |-> IF ok THEN "" ELSE Why(Defs, s, r.node, "")]

VARIABLES k, verdict
Init == k = 1 /\ verdict = IF Len(Inst) = 0 THEN {} ELSE {Judge(Inst[1])}
Step == /\ k < Len(Inst)
        /\ k' = k + 1
        /\ verdict' = {Judge(Inst[k + 1])}
Spec == Init /\ [][Step]_<<k, verdict>>

(* the property: every record is valid.  Checked by the driver on the printed verdicts so that   *)
(* ALL invalid records are reported, not only the first.                                        *)
AllValid == \A v \in verdict : v.valid
EmitVerdict == \A v \in verdict : PrintT("REPLAY " \o ToJson(v))
=============================================================================
