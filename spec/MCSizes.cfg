SPECIFICATION SSpec
INVARIANT EmitVerdict
CHECK_DEADLOCK FALSE
