------------------------------ MODULE MCSizes ------------------------------
(***************************************************************************)
(* C09: the sizes the generator publishes (minimum_size, maximum_size,      *)
(* constant_sized in the regenerated intermediate representation, and the   *)
(* guard literal compiled into every decoder) against the exact extremes    *)
(* of the definition computed by the interval abstraction of WowmWire.      *)
(*                                                                          *)
(* State machine: one state per (container, context); `Check` moves through *)
(* the declared records.  The invariant compares each declared record with  *)
(* ContainerIV.                                                             *)
(***************************************************************************)
EXTENDS WowmWire

Decl == ndJsonDeserialize(IOEnv.WOWM_DECL)   \* [oid, min, max, const, ctxs : [exp, lv, hasguard, gmin, gmax]]

VARIABLES di, verdict

Judge(d, c) ==
    LET o == Objs[d.oid]
        g == d.ctxs[CHOOSE j \in 1..Len(d.ctxs) : d.ctxs[j].exp = c.exp /\ d.ctxs[j].lv = c.lv]
        t == ContainerIV(o, c)
        minOk == o.comp \/ d.min <= t.lo   \* a compressed body has no predictable minimum
        maxOk == t.hi >= INF \/ t.hi <= d.max
        constOk == d.const <=> (t.lo = t.hi)
        constVal == d.const => (d.min = t.lo /\ d.max = t.lo)
        guardOk == ~g.hasguard \/ ((o.comp \/ g.gmin <= t.lo) /\ (t.hi >= INF \/ t.hi <= g.gmax))
    IN [oid |-> d.oid, name |-> o.name, exp |-> c.exp, lv |-> c.lv, lo |-> t.lo, hi |-> t.hi,
        dmin |-> d.min, dmax |-> d.max, dconst |-> d.const, gmin |-> g.gmin, gmax |-> g.gmax, hasguard |-> g.hasguard,
        minOk |-> minOk, maxOk |-> maxOk, constOk |-> constOk /\ constVal, guardOk |-> guardOk,
        constSound |-> (d.const => (t.lo = t.hi)) /\ constVal]   \* soundness half only: a constant claim is true

(* an IR record is judged in every context it claims AND the definition is valid for *)
Claims(d, c) == \E j \in 1..Len(d.ctxs) : d.ctxs[j].exp = c.exp /\ d.ctxs[j].lv = c.lv
JudgeAll(d) == {Judge(d, c) : c \in {cc \in Ctxs : InCtx(Objs[d.oid], cc) /\ Claims(d, cc)}}

(* the walker's own variables are not used by this module *)
Frozen == /\ root = 0 /\ prof = 0 /\ stack = <<>> /\ scopes = <<>> /\ out = <<>> /\ fi = 0
          /\ regions = <<>> /\ sizepos = 0 /\ sizew = 0 /\ phase = "sizes" /\ note = "" /\ ev = <<>>
SInit == Frozen /\ di = 1 /\ verdict = IF Len(Decl) = 0 THEN {} ELSE JudgeAll(Decl[1])
SNext == /\ di < Len(Decl)
         /\ di' = di + 1
         /\ verdict' = JudgeAll(Decl[di + 1])
         /\ UNCHANGED vars
SSpec == SInit /\ [][SNext]_<<di, verdict, vars>>

(* every judged record is printed; the driver reports the ones that do not hold *)
EmitVerdict == \A v \in verdict : PrintT("REPLAY " \o ToJson([kind |-> "sizes"] @@ v))
=============================================================================
