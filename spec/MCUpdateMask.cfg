SPECIFICATION Spec
VIEW View
INVARIANT TypeOK
INVARIANT WireForm
INVARIANT SizeIsLen
INVARIANT ReadWritten
INVARIANT SmallFrame
INVARIANT Emit
PROPERTY GetAfterSet
CHECK_DEADLOCK FALSE
