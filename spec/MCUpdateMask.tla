---------------------------- MODULE MCUpdateMask ----------------------------
(***************************************************************************)
(* Exhaustive exploration of UpdateMask for ONE object kind of ONE         *)
(* expansion over a representative set of typed accessors (chosen from the *)
(* published field table by tools/gen_mask.py: GUID pair at bits 0-1, INT  *)
(* at 3, a FLOAT, a BYTES and a TWO_SHORT field where the kind has one,    *)
(* the accessors around the 31/32 block boundary and the kind's last one). *)
(*                                                                         *)
(* Configuration comes from the JSON file named by env MASKCFG:            *)
(*   exp, kind, typeWord (4 bytes), depth, acc = <<[off, n], ...>>,        *)
(*   probe = bits whose dirty flag is observed.                            *)
(*                                                                         *)
(* `hist` (the operations so far) is a history variable kept out of the    *)
(* fingerprint by VIEW, so TLC explores the graph of mask states, not the  *)
(* tree of paths.  For every state below the depth bound one REPLAY record *)
(* is printed: the history that reaches it, its own projection and, for    *)
(* EVERY enabled operation, the projection of the successor.  The harness  *)
(* replays the history on the real typed mask and applies each operation   *)
(* to a clone, so every (state, operation) pair of the graph is executed   *)
(* against the real code exactly once.                                     *)
(***************************************************************************)
EXTENDS UpdateMask, Json, IOUtils

VARIABLES hist

vars == <<blocks, header, dirty, values, out, hist>>
View == <<blocks, header, dirty, values>>

Cfg   == JsonDeserialize(IOEnv.MASKCFG)
Exp   == Cfg.exp
Depth == Cfg.depth
Acc   == Cfg.acc
NA    == Len(Acc)
Probe == {Cfg.probe[i] : i \in 1..Len(Cfg.probe)}
TypeWord == Cfg.typeWord

Vals == <<ZeroWord, <<1, 0, 0, 0>>, <<255, 255, 255, 255>>>>
(* words of value choice k for an accessor of n words: consecutive words   *)
(* take consecutive members of Vals, so the halves of a GUID differ.       *)
WordsFor(n, k) == [j \in 1..n |-> Vals[((k + j - 2) % 3) + 1]]

(* Which value a Set writes is a function of the state, not a free choice  *)
(* (a free choice multiplies the graph by 3 per field without adding a     *)
(* new kind of step): the first Set of accessor i writes choice (i mod 3)  *)
(* + 1, every further Set of the same accessor the next choice, cyclically.*)
(* So all of 0, 1 and 0xFFFFFFFF are written at depth 1 already, every     *)
(* accessor overwrites with a different value, and reaches 0.              *)
ValIdx(w) == CHOOSE k \in 1..3 : Vals[k] = w
NextChoice(s, i) ==
    IF Acc[i].off \in s.header
    THEN (ValIdx(s.values[Acc[i].off]) % 3) + 1
    ELSE (i % 3) + 1

AccBits(i) == {Acc[i].off + j : j \in 0..(Acc[i].n - 1)}

Op(o, a, v) == [o |-> o, a |-> a, v |-> v]

ApplyOp(s, op) ==
    CASE op.o = "set"      -> SetSt(s, Acc[op.a].off, WordsFor(Acc[op.a].n, op.v))
      [] op.o = "reset"    -> DirtyResetSt(s)
      [] op.o = "full"     -> MarkFullyDirtySt(s)
      [] op.o = "write"    -> s
      [] op.o = "readback" -> Parse(Wire(s))

EnabledOps(s) ==
    {Op("set", i, NextChoice(s, i)) : i \in 1..NA}
    \cup {Op("reset", 0, 0), Op("full", 0, 0), Op("write", 0, 0)}
    \cup (IF 2 \in Sent(s) THEN {Op("readback", 0, 0)} ELSE {})

---------------------------------------------------------------------------
Init == /\ blocks = 1 /\ header = {2} /\ dirty = {2} /\ values = (2 :> TypeWord)
        /\ out = [bytes |-> <<>>, size |-> 0]
        /\ hist = <<>>

Below == Len(hist) < Depth

DoSet(i, k) == /\ Below /\ Set(Acc[i].off, WordsFor(Acc[i].n, k))
               /\ hist' = Append(hist, Op("set", i, k))
DoReset     == Below /\ DirtyReset /\ hist' = Append(hist, Op("reset", 0, 0))
DoFull      == Below /\ MarkFullyDirty /\ hist' = Append(hist, Op("full", 0, 0))
DoWrite     == Below /\ Write /\ hist' = Append(hist, Op("write", 0, 0))
DoReadBack  == /\ Below /\ 2 \in Sent(Cur) /\ Read(Wire(Cur))
               /\ hist' = Append(hist, Op("readback", 0, 0))

DoSetAny == \E i \in 1..NA : DoSet(i, NextChoice(Cur, i))

Next == \/ DoSetAny
        \/ DoReset \/ DoFull \/ DoWrite \/ DoReadBack

Spec == Init /\ [][Next]_vars

---------------------------------------------------------------------------
(* GetAfterSet, as a property of every step: a setter makes its own getter  *)
(* return the value set and leaves every getter of a disjoint accessor      *)
(* alone; dirty operations and Write change no getter; a read-back keeps    *)
(* the fields that were sent and drops the others.                          *)
Get(s, i) == GetSt(s, Acc[i].off, Acc[i].n)

GetAfterSetStep ==
    LET op == hist'[Len(hist')]
        s  == Cur
        t  == [blocks |-> blocks', header |-> header', dirty |-> dirty', values |-> values']
    IN CASE op.o = "set" ->
              /\ Get(t, op.a) = WordsFor(Acc[op.a].n, op.v)
              /\ \A j \in 1..NA : (AccBits(j) \cap AccBits(op.a) = {}) => Get(t, j) = Get(s, j)
         [] op.o \in {"reset", "full", "write"} ->
              \A j \in 1..NA : Get(t, j) = Get(s, j)
         [] op.o = "readback" ->
              \A j \in 1..NA : Get(t, j) = IF AccBits(j) \subseteq Sent(s) THEN Get(s, j) ELSE <<>>

GetAfterSet == [][GetAfterSetStep]_vars

(* The representative accessors of a well formed table do not overlap. *)
AccDisjoint == \A i, j \in 1..NA : i # j => AccBits(i) \cap AccBits(j) = {}
ASSUME AccDisjoint
ASSUME \A i \in 1..NA : 2 \notin AccBits(i)

(* Frames stay in the two byte size form. *)
SmallFrame == Len(Frame(Exp, Wire(Cur))) < 32000

---------------------------------------------------------------------------
(* Projection of a state = everything the public API lets us observe. *)
Proj(s) ==
    LET w  == Wire(s)
        pb == {b \in Probe : b < 32 * s.blocks}
    IN [frame |-> Frame(Exp, w),
        size  |-> Len(BodyPrefix(Exp)) + WireSize(s),
        gets  |-> [i \in 1..NA |-> FlatWords(Get(s, i))],
        probe |-> SortedBits(pb),
        dirty |-> SortedBits(pb \cap s.dirty),
        any   |-> s.dirty # {}]

OpJson(op) ==
    IF op.o = "set"
    THEN [o |-> "set", a |-> op.a, w |-> WordsFor(Acc[op.a].n, op.v)]
    ELSE [o |-> op.o, a |-> 0, w |-> <<>>]

Emit ==
    Below =>
        LET ops == SetToSeq(EnabledOps(Cur))
        IN PrintT("REPLAY " \o ToJson(
              [hist |-> [i \in 1..Len(hist) |-> OpJson(hist[i])],
               self |-> Proj(Cur),
               succ |-> [i \in 1..Len(ops) |->
                            [op |-> OpJson(ops[i]), proj |-> Proj(ApplyOp(Cur, ops[i]))]]]))
=============================================================================
