SPECIFICATION XSpec
INVARIANT EmitExample
POSTCONDITION AllJudged
CHECK_DEADLOCK FALSE
