------------------------- MODULE TraceDocExamples -------------------------
(***************************************************************************)
(* C18, example half.  The documentation printer is a second, independent   *)
(* wire walker: for every corpus `test` it prints the bytes of the message  *)
(* in annotated groups (`bytes, // path: Type ...`).  Each documented       *)
(* example is a TRACE: the list of its groups in page order.  This module   *)
(* validates every trace against the definition's decoder (WowmWire!Dec):   *)
(*                                                                          *)
(*  (i)   the concatenation of the groups' bytes is the byte sequence of a  *)
(*        corpus `test` of that message (the candidates are passed in the   *)
(*        record); bytes that the page prints to the right of a `//` on the *)
(*        same line are comment text, not bytes: the strict concatenation   *)
(*        leaves them out, and an example that only matches with them is    *)
(*        rejected with that reason (after the rest was checked);           *)
(*  (ii)  the header groups are consistent: `size` holds the length of what *)
(*        follows it, `opcode (N)` holds the object's opcode at the width   *)
(*        of the direction and N is its decimal value;                      *)
(*  (iii) stepping through the body groups and the decoder's field events   *)
(*        side by side, every group is enabled by one of the group rules    *)
(*        below - same boundaries in the same order;                        *)
(*  (iv)  the leaf field name of the group's path is the event's field name *)
(*        (for an enum field also: the enumerator named in the annotation   *)
(*        is the one whose value the bytes hold, and for enum and flag      *)
(*        fields the value literal printed in the annotation equals the     *)
(*        bytes).                                                           *)
(*                                                                          *)
(* Group rules (derived from the pages; one action each, so `-coverage`     *)
(* shows which were exercised):                                             *)
(*  FieldGroup      a scalar member (integer, float, Guid, PackedGuid,      *)
(*                  CString, enum, flag, ...) is one group = one event.     *)
(*  PrimArrayGroup  an array whose element type is a built-in type is       *)
(*                  documented as ONE group `name: T[..]` covering the      *)
(*                  events of all its elements (each named [T]).            *)
(*  ArrayTrailer    an array of structs is documented element by element    *)
(*                  (groups `[i].Struct.field`), followed by an EMPTY group *)
(*                  `name: Struct[..]`; an empty built-in array is an empty *)
(*                  group too.  Consumes no event; the name must be the     *)
(*                  name of an array declaration with that element type.    *)
(*  OptionalMarker  `// Optional name`: empty, allowed iff bytes remain and *)
(*                  the definition has an optional block of that name.      *)
(*  BeginString / BeginSized / EndCompound                                  *)
(*                  String and SizedCString are documented as a length      *)
(*                  group (`string length`, `SizedCString.length`) plus the *)
(*                  named content group: together ONE event.                *)
(*  BeginMask / MaskCount / MaskBlock / MaskItem / EndMask                  *)
(*                  an UpdateMask is documented as `// UpdateMask`,         *)
(*                  `amount_of_blocks`, one `Block i` group per block (as   *)
(*                  many as the count byte says, numbered from 0), `Item`   *)
(*                  groups of 4 bytes, and an empty closing group with the  *)
(*                  field's name: together ONE event.                       *)
(* Members of a struct-typed member are documented as `Struct.field`; only  *)
(* the leaf name is compared (the events carry leaf names).                 *)
(* If no rule is enabled for the current group the trace stalls there:      *)
(* `Reject` records group and expected event and moves on to the next       *)
(* example.  Examples of compressed messages / with compressed members are  *)
(* not inflatable in the model and are reported as status "compressed".     *)
(***************************************************************************)
EXTENDS DocCommon

Exs == ndJsonDeserialize(IOEnv.DOC_EXAMPLES)

VARIABLES xi, gi, ei, acc, cur, xphase, xverdict, fired
xvars == <<xi, gi, ei, acc, cur, xphase, xverdict, fired>>

---------------------------------------------------------------------------
RECURSIVE ConcatFrom(_, _, _)
ConcatFrom(gs, j, strict) ==
    IF j > Len(gs) THEN <<>>
    ELSE (IF strict /\ gs[j].incomment THEN <<>> ELSE gs[j].bytes) \o ConcatFrom(gs, j + 1, strict)

RECURSIVE OffsFrom(_, _, _)
(* offsets (relative to the first body group) of groups j.. ; one extra entry = total length *)
OffsFrom(gs, j, at) == IF j > Len(gs) THEN <<at>> ELSE <<at>> \o OffsFrom(gs, j + 1, at + Len(gs[j].bytes))

RECURSIVE BlkHasComp(_)
BlkHasComp(b) ==
    \E j \in 1..Len(Blks[b].ins) :
        LET i == Blks[b].ins[j] IN
        \/ i.op = "decl" /\ i.comp
        \/ i.op = "if" /\ (\/ \E a \in 1..Len(i.arms) : BlkHasComp(i.arms[a].blk)
                           \/ i.els > 0 /\ BlkHasComp(i.els))
        \/ i.op = "opt" /\ BlkHasComp(i.blk)

(* every array declaration of the corpus, as <<name, element type>> *)
AllArrDecls ==
    UNION {{<<Blks[b].ins[j].name, Blks[b].ins[j].ty>> :
               j \in {k \in 1..Len(Blks[b].ins) : Blks[b].ins[k].op = "decl" /\ Blks[b].ins[k].arr # "none"}} :
           b \in 1..Len(Blks)}
AllOptNames ==
    UNION {{Blks[b].ins[j].name : j \in {k \in 1..Len(Blks[b].ins) : Blks[b].ins[k].op = "opt"}} : b \in 1..Len(Blks)}

NoAcc == [mode |-> "none", at |-> 0, stage |-> "", need |-> 0, blocks |-> 0]
NoCur == [status |-> "", why |-> "", ev |-> <<>>, offs |-> <<>>, nh |-> 0, ng |-> 0, blen |-> 0, concat |-> "",
          exp |-> "", lv |-> 0]

Prepare(x) ==
    IF x.sid = 0 THEN [NoCur EXCEPT !.status = "no_source"]
    ELSE
    LET o == Objs[x.sid]
        login == o.kind \in {"clogin", "slogin"}
        dir == IF o.kind \in {"cmsg", "clogin"} THEN "client" ELSE "server"
        oplen == IF login THEN 1 ELSE IF dir = "client" THEN 4 ELSE 2
        nh == IF login THEN 1 ELSE 2
        hl == IF login THEN 1 ELSE 2 + oplen
        gs == x.groups
        full == ConcatFrom(gs, 1, FALSE)
        strict == ConcatFrom(gs, 1, TRUE)
        hdrOk == /\ Len(gs) >= nh
                 /\ IF login
                    THEN /\ gs[1].mark = "hopcode" /\ gs[1].bytes = SubSeq(o.op, 1, 1)
                         /\ gs[1].rest = ToString(o.op[1])
                    ELSE /\ gs[1].mark = "hsize" /\ Len(gs[1].bytes) = 2
                         /\ gs[1].bytes[1] * 256 + gs[1].bytes[2] = Len(full) - 2
                         /\ gs[2].mark = "hopcode" /\ gs[2].bytes = SubSeq(o.op, 1, oplen)
                         /\ gs[2].rest = ToString(OpInt(o, 2))
        hit == {k \in 1..Len(x.cands) : x.cands[k].frame = full}
        strictHit == {k \in 1..Len(x.cands) : x.cands[k].frame = strict}
        tctx == {c \in Ctxs : InCtx(o, c) /\ \E k \in hit : \E j \in 1..Len(x.cands[k].ctxs) :
                                   x.cands[k].ctxs[j].exp = c.exp /\ x.cands[k].ctxs[j].lv = c.lv}
        ctxs == IF tctx # {} THEN tctx ELSE JudgeCtxs(o)
        body == SubSeq(full, hl + 1, Len(full))
        decs == {[c |-> c, r |-> Dec(o, c, body)] : c \in ctxs}
        good == {d \in decs : d.r.ok}
        d == IF good # {} THEN CHOOSE dd \in good : TRUE ELSE CHOOSE dd \in decs : TRUE
        base == [NoCur EXCEPT !.nh = nh, !.ng = Len(gs) - nh, !.blen = Len(body)]
    IN IF o.kind \notin {"cmsg", "smsg", "clogin", "slogin"} THEN [base EXCEPT !.status = "unsupported_kind"]
       ELSE IF o.comp \/ BlkHasComp(o.blk) THEN [base EXCEPT !.status = "compressed"]
       ELSE IF ~hdrOk THEN [base EXCEPT !.status = "bad_header"]
       ELSE IF hit = {} THEN [base EXCEPT !.status = "no_vector",
                                          !.why = "the groups do not concatenate to any corpus test of the message"]
       ELSE [base EXCEPT !.status = IF d.r.ok THEN "run" ELSE "definition_rejects_bytes", !.why = d.r.why,
                         !.ev = d.r.ev, !.offs = OffsFrom(gs, nh + 1, 0),
                         !.concat = IF strictHit # {} THEN "ok" ELSE "bytes_printed_inside_a_comment",
                         !.exp = d.c.exp, !.lv = d.c.lv]

---------------------------------------------------------------------------
X == Exs[xi]
G == X.groups[cur.nh + gi]
Off == cur.offs[gi]
GLen == Len(G.bytes)
HasEv == ei <= Len(cur.ev)
E == cur.ev[ei]
InGroups == xphase = "groups" /\ gi <= cur.ng
Plain == acc.mode = "none"

EnumNameOk ==
    /\ (E.k = "enum" /\ E.tid > 0) =>
          \E j \in 1..Len(Objs[E.tid].enums) :
              Objs[E.tid].enums[j].n = G.ename /\ SubSeq(Objs[E.tid].enums[j].le, 1, GLen) = G.bytes
    (* the value literal printed in the annotation of an enum / flag field is the value of the bytes *)
    /\ (E.k \in {"enum", "flag"} /\ G.haslit /\ GLen <= 8) => SubSeq(G.litle, 1, GLen) = G.bytes

(* index of the last event of the run of [T] element events that ends where the group ends; 0 if none *)
RunEnd ==
    LET ms == {m \in ei..Len(cur.ev) : /\ cur.ev[m].at + cur.ev[m].len = Off + GLen
                                       /\ \A j \in ei..m : cur.ev[j].n = "[" \o G.ety \o "]"}
    IN IF ms = {} THEN 0 ELSE CHOOSE m \in ms : TRUE

G_Field == /\ InGroups /\ Plain /\ G.mark = "field" /\ ~G.isarr /\ GLen > 0 /\ HasEv
           /\ E.at = Off /\ E.len = GLen /\ E.n = G.leaf /\ EnumNameOk
G_PrimArray == /\ InGroups /\ Plain /\ G.mark = "field" /\ G.isarr /\ GLen > 0 /\ HasEv
               /\ E.at = Off /\ RunEnd > 0 /\ <<G.leaf, G.ety>> \in AllArrDecls
G_Trailer == InGroups /\ Plain /\ G.mark = "field" /\ G.isarr /\ GLen = 0 /\ <<G.leaf, G.ety>> \in AllArrDecls
G_Optional == InGroups /\ Plain /\ G.mark = "optional" /\ GLen = 0 /\ Off < cur.blen /\ G.leaf \in AllOptNames
G_BeginString == InGroups /\ Plain /\ G.mark = "str_len" /\ GLen = 1 /\ HasEv /\ E.k = "String" /\ E.at = Off
G_BeginSized == InGroups /\ Plain /\ G.mark = "scs_len" /\ GLen = 4 /\ HasEv /\ E.k = "SizedCString" /\ E.at = Off
G_EndCompound == /\ InGroups /\ acc.mode \in {"String", "SizedCString"} /\ G.mark = "field" /\ ~G.isarr /\ HasEv
                 /\ E.at = acc.at /\ E.len = Off + GLen - acc.at /\ E.n = G.leaf
G_BeginMask == InGroups /\ Plain /\ G.mark = "um_begin" /\ GLen = 0 /\ HasEv /\ E.k = "UpdateMask" /\ E.at = Off
G_MaskCount == InGroups /\ acc.mode = "UpdateMask" /\ acc.stage = "count" /\ G.mark = "um_count" /\ GLen = 1 /\ Off = acc.at
G_MaskBlock == /\ InGroups /\ acc.mode = "UpdateMask" /\ acc.stage = "blocks" /\ G.mark = "um_block" /\ GLen = 4
               /\ G.num = acc.blocks /\ acc.blocks < acc.need
G_MaskItem == /\ InGroups /\ acc.mode = "UpdateMask" /\ acc.stage \in {"blocks", "items"} /\ acc.blocks = acc.need
              /\ G.mark = "um_item" /\ GLen = 4
G_EndMask == /\ InGroups /\ acc.mode = "UpdateMask" /\ acc.stage \in {"blocks", "items"} /\ acc.blocks = acc.need
             /\ G.mark = "field" /\ ~G.isarr /\ GLen = 0 /\ HasEv /\ G.leaf = E.n /\ Off = E.at + E.len

AnyGuard == \/ G_Field \/ G_PrimArray \/ G_Trailer \/ G_Optional \/ G_BeginString \/ G_BeginSized \/ G_EndCompound
            \/ G_BeginMask \/ G_MaskCount \/ G_MaskBlock \/ G_MaskItem \/ G_EndMask

Keep == UNCHANGED <<xi, cur, xphase, xverdict, vars>>
(* own per-action counters (TLC's -coverage runs out of memory on this module) *)
Count(a) == fired' = [fired EXCEPT ![a] = @ + 1]
Consume(a, ne, na) == gi' = gi + 1 /\ ei' = ne /\ acc' = na /\ Count(a) /\ Keep

FieldGroup == G_Field /\ Consume("FieldGroup", ei + 1, acc)
PrimArrayGroup == G_PrimArray /\ Consume("PrimArrayGroup", RunEnd + 1, acc)
ArrayTrailer == G_Trailer /\ Consume("ArrayTrailer", ei, acc)
OptionalMarker == G_Optional /\ Consume("OptionalMarker", ei, acc)
BeginString == G_BeginString /\ Consume("BeginString", ei, [NoAcc EXCEPT !.mode = "String", !.at = Off])
BeginSized == G_BeginSized /\ Consume("BeginSized", ei, [NoAcc EXCEPT !.mode = "SizedCString", !.at = Off])
EndCompound == G_EndCompound /\ Consume("EndCompound", ei + 1, NoAcc)
BeginMask == G_BeginMask /\ Consume("BeginMask", ei, [NoAcc EXCEPT !.mode = "UpdateMask", !.at = Off, !.stage = "count"])
MaskCount == G_MaskCount /\ Consume("MaskCount", ei, [acc EXCEPT !.stage = "blocks", !.need = G.bytes[1]])
MaskBlock == G_MaskBlock /\ Consume("MaskBlock", ei, [acc EXCEPT !.blocks = @ + 1])
MaskItem == G_MaskItem /\ Consume("MaskItem", ei, [acc EXCEPT !.stage = "items"])
EndMask == G_EndMask /\ Consume("EndMask", ei + 1, NoAcc)

Verdict(status, why) ==
    [kind |-> "example", xid |-> X.xid, path |-> X.path, line |-> X.line, n |-> X.n, sid |-> X.sid, name |-> X.name,
     status |-> status, why |-> why, group |-> gi, gline |-> IF InGroups THEN G.line ELSE 0,
     gtext |-> IF InGroups THEN G.text ELSE "",
     want |-> IF xphase = "groups" /\ HasEv THEN [n |-> E.n, at |-> E.at, len |-> E.len, k |-> E.k] ELSE [n |-> "", at |-> 0, len |-> 0, k |-> ""],
     goff |-> IF InGroups THEN Off ELSE 0, glen |-> IF InGroups THEN GLen ELSE 0,
     exp |-> cur.exp, lv |-> cur.lv, nev |-> Len(cur.ev), ngroups |-> cur.ng, concat |-> cur.concat]

Judged(a, v) == xverdict' = v /\ xphase' = "judged" /\ Count(a) /\ UNCHANGED <<xi, gi, ei, acc, cur, vars>>

Reject == /\ InGroups /\ ~AnyGuard
          /\ Judged("Reject", Verdict("rejected", "no group rule of the definition matches this group"))

EndOfGroups ==
    /\ xphase = "groups" /\ gi > cur.ng
    /\ Judged("EndOfGroups", IF ei = Len(cur.ev) + 1 /\ Plain
              THEN (IF cur.concat = "ok" THEN Verdict("accepted", "") ELSE Verdict("rejected", cur.concat))
              ELSE Verdict("rejected", "groups ended before the decoder's events did"))

Begin ==
    /\ xphase = "next" /\ xi <= Len(Exs)
    /\ LET c == Prepare(Exs[xi]) IN
       /\ cur' = c /\ gi' = 1 /\ ei' = 1 /\ acc' = NoAcc
       /\ IF c.status = "run" THEN xphase' = "groups" /\ xverdict' = xverdict
          ELSE /\ xphase' = "judged"
               /\ xverdict' = [kind |-> "example", xid |-> Exs[xi].xid, path |-> Exs[xi].path, line |-> Exs[xi].line,
                               n |-> Exs[xi].n, sid |-> Exs[xi].sid, name |-> Exs[xi].name, status |-> c.status,
                               why |-> c.why, group |-> 0, gline |-> 0, gtext |-> "",
                               want |-> [n |-> "", at |-> 0, len |-> 0, k |-> ""], goff |-> 0, glen |-> 0,
                               exp |-> c.exp, lv |-> c.lv, nev |-> Len(c.ev), ngroups |-> c.ng, concat |-> c.concat]
    /\ Count("Begin")
    /\ UNCHANGED <<xi, vars>>

Advance ==
    /\ xphase = "judged"
    /\ TLCSet(1, xi)
    /\ xi' = xi + 1 /\ xphase' = "next"
    /\ UNCHANGED <<gi, ei, acc, cur, xverdict, fired, vars>>

ActionNames == {"Begin", "FieldGroup", "PrimArrayGroup", "ArrayTrailer", "OptionalMarker", "BeginString", "BeginSized",
                "EndCompound", "BeginMask", "MaskCount", "MaskBlock", "MaskItem", "EndMask", "Reject", "EndOfGroups"}

Frozen == /\ root = 0 /\ prof = 0 /\ stack = <<>> /\ scopes = <<>> /\ out = <<>> /\ fi = 0
          /\ regions = <<>> /\ sizepos = 0 /\ sizew = 0 /\ phase = "examples" /\ note = "" /\ ev = <<>>

XInit == /\ Frozen /\ xi = 1 /\ gi = 1 /\ ei = 1 /\ acc = NoAcc /\ cur = NoCur /\ xphase = "next"
         /\ xverdict = [kind |-> "none"]
         /\ fired = [a \in ActionNames |-> 0]
         /\ TLCSet(1, 0)
XNext == \/ Begin \/ FieldGroup \/ PrimArrayGroup \/ ArrayTrailer \/ OptionalMarker
         \/ BeginString \/ BeginSized \/ EndCompound
         \/ BeginMask \/ MaskCount \/ MaskBlock \/ MaskItem \/ EndMask
         \/ Reject \/ EndOfGroups \/ Advance
XSpec == XInit /\ [][XNext]_<<xvars, vars>>

EmitExample == /\ (xphase = "judged") => PrintT("REPLAY " \o ToJson(xverdict))
               /\ (xphase = "next" /\ xi = Len(Exs) + 1) => PrintT("REPLAY " \o ToJson([kind |-> "summary", fired |-> fired]))
(* acceptance of the run itself: every example was consumed *)
AllJudged == TLCGet(1) = Len(Exs)
=============================================================================
