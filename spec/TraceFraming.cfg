SPECIFICATION TSpec
INVARIANT TypeOK
INVARIANT HeaderExact
INVARIANT Aligned
INVARIANT RoundTrip
INVARIANT KeysAligned
INVARIANT InStep
INVARIANT BodyClear
POSTCONDITION TraceAccepted
CHECK_DEADLOCK FALSE
