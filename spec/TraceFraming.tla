---------------------------- MODULE TraceFraming ----------------------------
(***************************************************************************)
(* Trace validation for C02 / C05 (implementation -> specification).       *)
(*                                                                         *)
(* IOEnv.TRACE names an ndjson file of events OBSERVED by the harness      *)
(* (`vh frames drive`) while it executed random message sequences against  *)
(* the real writers, readers and cipher halves:                            *)
(*   reset  {exp, crypt, entry}            a new connection                *)
(*   wframe {dir, name, body, hdr, total, declared, bodyOk, encTotal,      *)
(*           differsAt, cipherHdrOk, encInStep}      one message written   *)
(*   rframe {dir, name, consumed, end, res, opcode, decInStep}  one read   *)
(* Every event must be the corresponding step of Framing: a wframe is      *)
(* WriteFrame with exactly the header bytes of the grammar, the total and  *)
(* declared length of the model, ciphertext differing from plaintext only  *)
(* inside the header and the writer's half at the model's keystream        *)
(* position; an rframe is ReadFrame consuming exactly what the model's     *)
(* reader consumes, delivering the written message (or, for a frame beyond *)
(* a policy cap, InvalidSize), with the reader's half in step.             *)
(* An event that is not a step is reported (REPLAY record of kind          *)
(* "reject") and the rest of that connection is skipped.  The trace is     *)
(* accepted iff every line was consumed (POSTCONDITION) and nothing was    *)
(* rejected.                                                               *)
(***************************************************************************)
EXTENDS Framing

Rec == ndJsonDeserialize(IOEnv.TRACE)

VARIABLES l,     \* next line of the trace
          skip   \* skipping the rest of a connection after a rejected event

tvars == <<vars, l, skip>>

Ev == Rec[l]
IsEv(k) == l <= Len(Rec) /\ Ev.ev = k
Adv == l' = l + 1

TInit == l = 1 /\ skip = TRUE /\ InitWith("vanilla", {}, "opcode", FALSE)

TReset ==
    /\ IsEv("reset") /\ Adv /\ skip' = FALSE
    /\ exp' = Ev.exp /\ dirs' = Dirs /\ entry' = Ev.entry /\ crypt' = Ev.crypt
    /\ stream' = EmptyF /\ order' = <<>> /\ wpos' = ZeroF /\ ri' = ZeroF /\ rpos' = ZeroF
    /\ delivered' = EmptyF /\ enc' = ZeroF /\ dec' = ZeroF /\ sw' = 0

HasMsg == \E m \in PoolOf(exp, Ev.dir) : m.name = Ev.name
WMsg == CHOOSE m \in PoolOf(exp, Ev.dir) : m.name = Ev.name

WOK ==
    /\ HasMsg
    /\ LET m == WMsg
           n == Ev.body
           d == Ev.dir
       IN /\ n >= m.min /\ (m.kind = "fixed" => n = m.len) /\ Expressible(exp, d, n)
          /\ Ev.hdr = EncodeHeader(exp, d, m.opcode, n)
          /\ Ev.total = HeaderLen(exp, d, n) + n
          /\ Ev.declared = Ev.total
          /\ Ev.bodyOk
          /\ Ev.encTotal = Ev.total
          /\ \A i \in 1..Len(Ev.differsAt) : Ev.differsAt[i] < (IF crypt THEN HeaderLen(exp, d, n) ELSE 0)
          /\ Ev.cipherHdrOk /\ Ev.encInStep

TWrite ==
    /\ IsEv("wframe") /\ ~skip /\ WOK
    /\ WriteFrame(Ev.dir, WMsg, Ev.body)
    /\ Adv /\ UNCHANGED skip

ROK ==
    LET d == Ev.dir IN
    /\ ri[d] < Len(stream[d])
    /\ LET f == stream[d][ri[d] + 1]
           p == ParseHeader(exp, d, f.hdr)
           b == BodyFrom(exp, d, p)
       IN /\ Ev.consumed = p.hlen + b
          /\ Ev.end = rpos[d] + p.hlen + b
          /\ Ev.name = f.name
          /\ IF entry = "expect_other" THEN Ev.res = "opcode_err" /\ Ev.opcode = f.opcode
             ELSE Ev.res = "same" \/ (f.soft /\ Ev.res = "invalid_size")
          /\ Ev.decInStep

TRead ==
    /\ IsEv("rframe") /\ ~skip /\ ROK
    /\ ReadFrame(Ev.dir)
    /\ Adv /\ UNCHANGED skip

TReject ==
    /\ ~skip
    /\ (IsEv("wframe") /\ ~WOK) \/ (IsEv("rframe") /\ ~ROK)
    /\ PrintT("REPLAY " \o ToJson([kind |-> "reject", line |-> l, ev |-> Ev.ev, dir |-> Ev.dir, name |-> Ev.name,
                                    exp |-> exp, crypt |-> crypt, entry |-> entry]))
    /\ skip' = TRUE /\ Adv /\ UNCHANGED vars

TSkip == skip /\ l <= Len(Rec) /\ Ev.ev # "reset" /\ Adv /\ UNCHANGED <<vars, skip>>

TNext == TReset \/ TWrite \/ TRead \/ TReject \/ TSkip

TSpec == TInit /\ [][TNext]_tvars

TraceAccepted ==
    LET d == TLCGet("stats").diameter IN
    IF d - 1 = Len(Rec) THEN TRUE
    ELSE Print(<<"TRACE-REJECTED at line", d, Rec[d]>>, FALSE)
=============================================================================
