\* Reference configuration for trace validation (run with -workers 1, StateDeque, env TRACE=<file>).
SPECIFICATION TSpec
CONSTANTS
  Paths <- TPaths
  Class <- TClass
  Stage <- TStage
  Produced <- TProduced
  NoPath = 0
  MaxCrash = 9
  MaxPerturbed = 0
  WholeCreates = FALSE
  DocsPruned = FALSE
  OpcTracked = FALSE
  Cells = {}
INVARIANT TraceOK
INVARIANT EmitFinal
POSTCONDITION TraceAccepted
CHECK_DEADLOCK FALSE
