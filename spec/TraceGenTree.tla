---------------------------- MODULE TraceGenTree ----------------------------
(***************************************************************************)
(* Trace validation for C08 (implementation -> specification).             *)
(*                                                                         *)
(* IOEnv.TRACE names an ndjson file.  Line 1 describes the scratch tree    *)
(* the real generator was started on (for every path of the generated      *)
(* directories: class, stage, produced, content state); every further line *)
(* is one file operation recorded by hook H2 in the real generator (path   *)
(* names replaced by their index in line 1), or a process boundary         *)
(* (`exit` with the status, `rerun` = a new process on the same tree).     *)
(*                                                                         *)
(* Each event must be a step of GenTree: a `write`/`skip` of p is          *)
(* WriteIfDifferent(p) with the same outcome and the same `existed` flag,  *)
(* a `remove` of p is RemoveUnwritten(p), `scan n` is Scan with the same    *)
(* count, a kill is Crash / CrashTruncate(p), exit status 101 is Panic.    *)
(* The trace is accepted iff every line is consumed (POSTCONDITION).       *)
(* The final status (done / diverged / panicked) is printed for the driver.*)
(***************************************************************************)
EXTENDS GenTree, IOUtils

(* TLC caches this value only once the search has started: while the initial state is computed  *)
(* every use re-parses the file, so TInit and the definitions it uses touch the constants a       *)
(* handful of times only (LET-bound, see Left0 and Canon in GenTree).                             *)
Rec == ndJsonDeserialize(IOEnv.TRACE)
Hdr == Rec[1]

TPaths    == 1..Hdr.n
TClass    == Hdr.cls
TStage    == Hdr.stage
TProduced == Hdr.prod

VARIABLES l,    \* the next line of the trace
          pm    \* path whose `managed` event (ModFiles mark) is still expected, 0 if none

tvars == <<vars, l, pm>>

Ev == Rec[l]
IsEv(k) == l <= Len(Rec) /\ Ev.ev = k
Adv == l' = l + 1
NoPending == pm = 0

TInit == l = 2 /\ pm = 0 /\ InitWith(Hdr.st)

TSkip ==
    /\ IsEv("skip") /\ NoPending
    /\ WriteIfDifferent(Ev.p) /\ op'.k = "skip"
    /\ pm' = IF ViaModFiles(Ev.p) THEN Ev.p ELSE 0
    /\ Adv

TWrite ==
    /\ IsEv("write") /\ NoPending
    /\ WriteIfDifferent(Ev.p) /\ op'.k = "write" /\ op'.ex = Ev.ex
    /\ pm' = IF ViaModFiles(Ev.p) THEN Ev.p ELSE 0
    /\ Adv

TManaged ==
    /\ IsEv("managed") /\ pm = Ev.p /\ Ev.p \in marked
    /\ pm' = 0 /\ Adv /\ UNCHANGED vars

TScan == IsEv("scan") /\ NoPending /\ Scan /\ op'.n = Ev.n /\ Adv /\ UNCHANGED pm

TRmStart == IsEv("rmstart") /\ NoPending /\ WriteModulesDone /\ op'.n = Ev.n /\ Adv /\ UNCHANGED pm

TRemove ==
    /\ IsEv("remove") /\ NoPending
    /\ RemoveUnwritten(Ev.p) \/ PruneDoc(Ev.p)
    /\ Adv /\ UNCHANGED pm

TRmDone == IsEv("rmdone") /\ NoPending /\ RemoveDone /\ Adv /\ UNCHANGED pm

(* end of write_login_opcodes/write_world_opcodes: all opcode files handled, nothing later started *)
TOpcDone ==
    /\ IsEv("opcdone") /\ NoPending
    /\ status = "running" /\ pc = "post" /\ left[6] = 0 /\ left[7] = Left0[7]
    /\ Adv /\ UNCHANGED <<vars, pm>>

TDone == IsEv("done") /\ NoPending /\ Finish /\ Adv /\ UNCHANGED pm

TCrash ==
    /\ IsEv("crash") /\ NoPending
    /\ \/ /\ Ev.before = "write" /\ WouldWrite(Ev.p)
          /\ IF Ev.trunc THEN CrashTruncate(Ev.p) ELSE Crash
       \/ /\ Ev.before = "remove" /\ ~Ev.trunc
          /\ \/ pc = "rm" /\ Ev.p \in Unwritten
             \/ DocsPruned /\ pc = "mid" /\ Ev.p \in ExtraDocs
          /\ Crash
    /\ Adv /\ UNCHANGED pm

TExit ==
    /\ IsEv("exit")
    /\ \/ Ev.rc = 0 /\ status \in {"done", "diverged"} /\ UNCHANGED vars
       \/ Ev.rc = 77 /\ status = "crashed" /\ UNCHANGED vars
       \/ Ev.rc = 101 /\ NoPending /\ \E p \in Paths : Panic(p)
    /\ Adv /\ UNCHANGED pm

TRerun == IsEv("rerun") /\ Rerun /\ pm' = 0 /\ Adv

TNext == TSkip \/ TWrite \/ TManaged \/ TScan \/ TRmStart \/ TRemove \/ TRmDone \/ TOpcDone
         \/ TDone \/ TCrash \/ TExit \/ TRerun

TSpec == TInit /\ [][TNext]_tvars

---------------------------------------------------------------------------
TraceAccepted ==
    LET d == TLCGet("stats").diameter IN
    IF d = Len(Rec) THEN TRUE
    ELSE Print(<<"TRACE-REJECTED at line", d + 1, Rec[d + 1]>>, FALSE)

HandledSane == pm # 0 => pm \in handled

TraceOK == Idempotent /\ HandledSane /\ ConstOK

Some(S) == IF S = {} THEN {} ELSE {CHOOSE x \in S : TRUE}

EmitFinal ==
    l > Len(Rec) =>
        PrintT("REPLAY " \o ToJson([kind |-> "final", status |-> status, crashes |-> crashes, lines |-> Len(Rec),
                                    nbad |-> Cardinality(IF Bad THEN Culprits ELSE {}),
                                    cells |-> IF Bad THEN {CellOf(p) : p \in Culprits} ELSE {},
                                    witness |-> IF Bad THEN Some(Culprits) ELSE {}]))
=============================================================================
