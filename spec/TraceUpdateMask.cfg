SPECIFICATION Spec
INVARIANT TypeOKT
POSTCONDITION TraceAccepted
CHECK_DEADLOCK FALSE
