--------------------------- MODULE TraceUpdateMask ---------------------------
(***************************************************************************)
(* Trace validation for C13 (implementation -> specification).             *)
(*                                                                         *)
(* IOEnv.TRACE     ndjson of events recorded from the real typed masks     *)
(*                 (vh mask exec): new / bset / finalize / set / get /     *)
(*                 dirty_reset / mark_fully_dirty / has_dirty / is_dirty / *)
(*                 write / readback, always with arguments and results.    *)
(* IOEnv.MASKTABLE the PUBLISHED field table (types/update-mask.md) lowered*)
(*                 by tools/gen_mask.py: per expansion and object kind the *)
(*                 row (name, off, size, ty) filed under each accessor     *)
(*                 name, plus the published member layout of the structs   *)
(*                 that CUSTOM accessors take (docs/visibleitem.md, ...).  *)
(*                                                                         *)
(* An event is accepted only as the UpdateMask action it names:            *)
(*  set(acc, arg)  as Set of exactly the words that the table row filed    *)
(*                 under `acc` prescribes for an argument of that type:    *)
(*                 first word at row.off (+ index * stride for indexed     *)
(*                 families), word count and byte/short lanes implied by   *)
(*                 the value type, every word inside [off, off + size),    *)
(*                 and the value type must be the one the row's Type says; *)
(*  write          iff frame and declared size are the model's;            *)
(*  get            iff the result is what the model's bits hold AND is the *)
(*                 value last set through that accessor (GetAfterSet);     *)
(*  readback       iff the model's written form is readable exactly when   *)
(*                 the implementation read it.                             *)
(* The spec is total: a line that cannot be accepted is consumed by a      *)
(* Reject step which prints the line number and skips to the next `new`,   *)
(* so one run reports every disagreement, and the POSTCONDITION checks     *)
(* that every line was consumed.                                           *)
(***************************************************************************)
EXTENDS UpdateMask, Json, IOUtils

VARIABLES l, mode, exp, kind, last

tvars == <<blocks, header, dirty, values, out, l, mode, exp, kind, last>>

Rec   == ndJsonDeserialize(IOEnv.TRACE)
Table == JsonDeserialize(IOEnv.MASKTABLE)

Ev == Rec[l]
T  == Table[exp][kind]

Has(r, f) == f \in DOMAIN r

---------------------------------------------------------------------------
(* What the published table prescribes for one accessor call *)

SigOf(row) ==
    CASE row.ty = "INT"       -> "i32"
      [] row.ty = "FLOAT"     -> "f32"
      [] row.ty = "GUID"      -> "guid"
      [] row.ty = "BYTES"     -> "u8x4"
      [] row.ty = "TWO_SHORT" -> "u16x2"
      [] row.ty = "CUSTOM"    -> IF Len(row.layout) > 0 THEN "struct" ELSE "slot_guid"
      [] OTHER                -> "?"

ShortWord(a, b) == <<a % 256, a \div 256, b % 256, b \div 256>>

(* struct arrays: element `index` occupies [off + index*stride, +stride) *)
Stride(row) == row.size \div row.count
StructWordsOK(row) ==
    /\ row.count > 0 /\ row.size % row.count = 0
    /\ \A i \in 1..Len(row.layout) : row.layout[i].boff + row.layout[i].bsize <= 4 * Stride(row)

(* member covering byte p (0 based) of the struct image, 0 if none *)
Cover(row, p) ==
    LET c == {i \in 1..Len(row.layout) :
                 row.layout[i].boff <= p /\ p < row.layout[i].boff + row.layout[i].bsize}
    IN IF c = {} THEN 0 ELSE CHOOSE i \in c : TRUE

(* words of the element that carry at least one byte of a non-constant member *)
StructWordIdx(row) ==
    {w \in 0..(Stride(row) - 1) :
        \E p \in (4 * w)..(4 * w + 3) : Cover(row, p) # 0 /\ ~row.layout[Cover(row, p)].const}

MembersOK(row, mem) ==
    \A i \in 1..Len(row.layout) :
        row.layout[i].const \/ (Has(mem, row.layout[i].m) /\ Len(mem[row.layout[i].m]) = row.layout[i].bsize)

StructByte(row, mem, p) ==
    LET i == Cover(row, p)
    IN IF i = 0 \/ row.layout[i].const THEN 0 ELSE mem[row.layout[i].m][p - row.layout[i].boff + 1]

StructPairs(row, idx, mem) ==
    LET base == row.off + idx * Stride(row)
    IN [b \in {base + w : w \in StructWordIdx(row)} |->
            [k \in 1..4 |-> StructByte(row, mem, 4 * (b - base) + k - 1)]]

(* bit -> word function an accessor call must set; <<>> (empty) if the call *)
(* cannot be mapped onto the row (wrong value type, index outside the row). *)
ArgOK(row, arg) ==
    /\ Has(arg, "t") /\ Has(arg, "v") /\ arg.t = SigOf(row)
    /\ CASE arg.t \in {"i32", "f32"} -> Len(arg.v) = 4 /\ row.size >= 1
         [] arg.t = "guid"           -> Len(arg.v) = 8 /\ row.size >= 2
         [] arg.t = "u8x4"           -> Len(arg.v) = 4 /\ row.size >= 1
         [] arg.t = "u16x2"          -> Len(arg.v) = 2 /\ row.size >= 1
         [] arg.t = "slot_guid"      -> Len(arg.v) = 8 /\ Has(arg, "index") /\ 2 * arg.index + 2 <= row.size
         [] arg.t = "struct"         -> /\ Has(arg, "index") /\ StructWordsOK(row)
                                        /\ arg.index < row.count /\ MembersOK(row, arg.v)
         [] OTHER                    -> FALSE

Pairs(row, arg) ==
    CASE arg.t \in {"i32", "f32"} -> (row.off :> arg.v)
      [] arg.t = "guid"      -> (row.off :> SubSeq(arg.v, 1, 4)) @@ ((row.off + 1) :> SubSeq(arg.v, 5, 8))
      [] arg.t = "u8x4"      -> (row.off :> arg.v)
      [] arg.t = "u16x2"     -> (row.off :> ShortWord(arg.v[1], arg.v[2]))
      [] arg.t = "slot_guid" -> LET o == row.off + 2 * arg.index
                                IN (o :> SubSeq(arg.v, 1, 4)) @@ ((o + 1) :> SubSeq(arg.v, 5, 8))
      [] arg.t = "struct"    -> StructPairs(row, arg.index, arg.v)

InsideRow(row, m) == \A b \in DOMAIN m : row.off <= b /\ b < row.off + row.size

SetMapSt(s, m) ==
    LET bits == DOMAIN m
        hdr  == s.header \cup bits
        top  == CHOOSE b \in bits : \A c \in bits : c <= b
    IN [blocks |-> Larger(s.blocks, BlocksForBit(top)),
        header |-> hdr,
        dirty  |-> s.dirty \cup bits,
        values |-> [b \in hdr |-> IF b \in bits THEN m[b] ELSE s.values[b]]]

(* key under which the last value set through an accessor is remembered *)
KeyOf(acc, arg) == <<acc, IF Has(arg, "index") THEN arg.index ELSE 0>>

(* what a getter must return, given the words the model holds *)
Typed(t, m, row, idx) ==      \* m: bit -> word, for the bits of that call
    CASE t \in {"i32", "f32", "u8x4"} -> m[row.off]
      [] t = "guid"      -> m[row.off] \o m[row.off + 1]
      [] t = "u16x2"     -> <<m[row.off][1] + 256 * m[row.off][2], m[row.off][3] + 256 * m[row.off][4]>>
      [] t = "slot_guid" -> m[row.off + 2 * idx] \o m[row.off + 2 * idx + 1]

GetBits(row, t, idx) ==
    CASE t \in {"i32", "f32", "u8x4", "u16x2"} -> {row.off}
      [] t = "guid"      -> {row.off, row.off + 1}
      [] t = "slot_guid" -> {row.off + 2 * idx, row.off + 2 * idx + 1}
      [] t = "struct"    -> {row.off + idx * Stride(row) + w : w \in StructWordIdx(row)}

StructRetOK(row, idx, ret) ==     \* every non-constant member equals the model's bytes
    LET base == row.off + idx * Stride(row)
    IN \A i \in 1..Len(row.layout) :
          row.layout[i].const \/
          ( /\ Has(ret, row.layout[i].m)
            /\ ret[row.layout[i].m] =
                 [k \in 1..row.layout[i].bsize |->
                     values[base + ((row.layout[i].boff + k - 1) \div 4)][((row.layout[i].boff + k - 1) % 4) + 1]] )

---------------------------------------------------------------------------
Init == /\ l = 1 /\ mode = "idle" /\ exp = "vanilla" /\ kind = "item" /\ last = <<>>
        /\ blocks = 1 /\ header = {2} /\ dirty = {2} /\ values = (2 :> ZeroWord)
        /\ out = [bytes |-> <<>>, size |-> 0]

More == l <= Len(Rec)
IsEvent(e) == More /\ Ev.ev = e
Clean == ~Has(Ev, "panic") /\ ~Has(Ev, "error")

Keep == UNCHANGED <<blocks, header, dirty, values, out, exp, kind, last>>

Reject(why) ==
    /\ PrintT("REPLAY " \o ToJson([kind |-> "reject", line |-> l, why |-> why]))
    /\ mode' = "skip" /\ Keep

(* consume one line; `ok` decides between the action and Reject *)
Skipping == /\ More /\ Ev.ev # "new" /\ mode = "skip" /\ l' = l + 1 /\ mode' = mode /\ Keep

EvNew ==
    /\ IsEvent("new") /\ l' = l + 1
    /\ IF /\ Ev.exp \in DOMAIN Table /\ Ev.kind \in DOMAIN Table[Ev.exp] /\ Ev.via \in {"mask", "builder"}
       THEN /\ exp' = Ev.exp /\ kind' = Ev.kind /\ last' = <<>>
            /\ New(Table[Ev.exp][Ev.kind].typeWord)
            /\ mode' = Ev.via
       ELSE Reject("new: unknown expansion/kind")

SetCommon(wantMode) ==
    /\ l' = l + 1
    /\ IF mode # wantMode THEN Reject("setter in the wrong phase")
       ELSE IF ~Clean THEN Reject("setter panicked or failed")
       ELSE IF ~(Ev.acc \in DOMAIN T.rows) THEN Reject("no table row under this accessor name")
       ELSE LET row == T.rows[Ev.acc] IN
            IF ~ArgOK(row, Ev.arg) THEN Reject("value type / index does not fit the table row")
            ELSE LET m == Pairs(row, Ev.arg) IN
                 IF DOMAIN m = {} \/ ~InsideRow(row, m) THEN Reject("words outside the table row")
                 ELSE /\ Becomes(SetMapSt(Cur, m))
                      /\ last' = [k \in (DOMAIN last) \cup {KeyOf(Ev.acc, Ev.arg)} |->
                                    IF k = KeyOf(Ev.acc, Ev.arg)
                                    THEN [bits |-> DOMAIN m, t |-> Ev.arg.t, v |-> Ev.arg.v]
                                    ELSE last[k]]
                      /\ UNCHANGED <<out, exp, kind, mode>>

EvSet  == mode # "skip" /\ IsEvent("set") /\ SetCommon("mask")
EvBSet == mode # "skip" /\ IsEvent("bset") /\ SetCommon("builder")

EvFinalize ==
    /\ mode # "skip" /\ IsEvent("finalize") /\ l' = l + 1
    /\ IF mode = "builder" /\ Clean /\ dirty = header   \* a builder has only been set: everything is dirty
       THEN mode' = "mask" /\ Keep
       ELSE Reject("finalize outside the builder phase")

EvDirtyReset ==
    /\ mode # "skip" /\ IsEvent("dirty_reset") /\ l' = l + 1
    /\ IF mode = "mask" /\ Clean
       THEN DirtyReset /\ UNCHANGED <<mode, exp, kind, last>>
       ELSE Reject("dirty_reset failed")

EvMarkFullyDirty ==
    /\ mode # "skip" /\ IsEvent("mark_fully_dirty") /\ l' = l + 1
    /\ IF mode = "mask" /\ Clean
       THEN MarkFullyDirty /\ UNCHANGED <<mode, exp, kind, last>>
       ELSE Reject("mark_fully_dirty failed")

EvHasDirty ==
    /\ mode # "skip" /\ IsEvent("has_dirty") /\ l' = l + 1
    /\ IF mode = "mask" /\ Clean /\ Ev.ret = (dirty # {})
       THEN mode' = mode /\ Keep
       ELSE Reject("has_any_dirty_fields disagrees")

(* is_bit_dirty for a bit the object has no block for: the property is     *)
(* silent, `false` and a panic are both tolerated (the panic is counted).  *)
EvIsDirty ==
    /\ mode # "skip" /\ IsEvent("is_dirty") /\ l' = l + 1
    /\ IF /\ mode = "mask"
          /\ IF Ev.bit < 32 * blocks
             THEN Ev.ret = IF Ev.bit \in dirty THEN "true" ELSE "false"
             ELSE Ev.ret \in {"false", "panic"}
       THEN mode' = mode /\ Keep
       ELSE Reject("is_bit_dirty disagrees")

EvWrite ==
    /\ mode # "skip" /\ IsEvent("write") /\ l' = l + 1
    /\ IF /\ mode = "mask" /\ Clean
          /\ Ev.frame = Frame(exp, Wire(Cur))
          /\ Ev.size = Len(BodyPrefix(exp)) + WireSize(Cur)
       THEN Write /\ UNCHANGED <<mode, exp, kind, last>>
       ELSE Reject("written frame or declared size differs")

EvReadBack ==
    /\ mode # "skip" /\ IsEvent("readback") /\ l' = l + 1
    /\ IF mode = "mask" /\ Ev.ok = (2 \in Sent(Cur))
       THEN IF Ev.ok
            THEN /\ Read(Wire(Cur))
                 /\ last' = [k \in {k \in DOMAIN last : last[k].bits \subseteq Sent(Cur)} |-> last[k]]
                 /\ UNCHANGED <<mode, exp, kind>>
            ELSE mode' = mode /\ Keep
       ELSE Reject("read-back outcome differs")

GetOK ==
    /\ mode = "mask" /\ Clean /\ Ev.acc \in DOMAIN T.rows
    /\ LET row == T.rows[Ev.acc]
           t   == SigOf(row)
           idx == IF Has(Ev, "index") THEN Ev.index ELSE 0
           key == <<Ev.acc, idx>>
           bits == GetBits(row, t, idx)
       IN /\ t # "?"
          /\ (t = "struct") => (StructWordsOK(row) /\ idx < row.count)
          \* table faithfulness: the result is what the bits of that row hold
          /\ IF bits \subseteq header
             THEN /\ Ev.some
                  /\ IF t = "struct" THEN StructRetOK(row, idx, Ev.ret)
                     ELSE Ev.ret = Typed(t, [b \in bits |-> values[b]], row, idx)
             ELSE (bits \cap header = {}) => ~Ev.some
          \* GetAfterSet: the result is the value last set through this accessor
          /\ IF key \in DOMAIN last
             THEN /\ Ev.some
                  /\ IF t = "struct"
                     THEN \A i \in 1..Len(row.layout) :
                             row.layout[i].const \/ Ev.ret[row.layout[i].m] = last[key].v[row.layout[i].m]
                     ELSE Ev.ret = last[key].v
             ELSE TRUE

EvGet ==
    /\ mode # "skip" /\ IsEvent("get") /\ l' = l + 1
    /\ IF GetOK THEN mode' = mode /\ Keep
       ELSE Reject("getter result differs from the model or from the value last set")

Next == \/ EvNew \/ EvSet \/ EvBSet \/ EvFinalize \/ EvDirtyReset \/ EvMarkFullyDirty
        \/ EvHasDirty \/ EvIsDirty \/ EvWrite \/ EvReadBack \/ EvGet \/ Skipping

Spec == Init /\ [][Next]_tvars

---------------------------------------------------------------------------
(* Model level statement about the PUBLISHED table itself: rows of one     *)
(* object kind must not overlap, otherwise GetAfterSet cannot hold for the *)
(* two fields.  Overlaps are printed (and then driven against the code).   *)
RowsOverlap(a, b) == a.off < b.off + b.size /\ b.off < a.off + a.size

TableReport ==
    \A e \in DOMAIN Table : \A k \in DOMAIN Table[e] :
        LET rows == Table[e][k].all
        IN \A i, j \in 1..Len(rows) :
              (i < j /\ RowsOverlap(rows[i], rows[j])) =>
                  PrintT("REPLAY " \o ToJson([kind |-> "overlap", exp |-> e, okind |-> k,
                                              a |-> rows[i], b |-> rows[j]]))
ASSUME TableReport

TypeOKT == TypeOK /\ mode \in {"idle", "mask", "builder", "skip"}

(* every line consumed *)
TraceAccepted ==
    LET d == TLCGet("stats").diameter
    IN IF d - 1 = Len(Rec) THEN TRUE
       ELSE Print(<<"TRACE NOT CONSUMED", d - 1, Len(Rec)>>, FALSE)
=============================================================================
