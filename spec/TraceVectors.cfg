SPECIFICATION VSpec
INVARIANT EmitVec
POSTCONDITION AllConsumed
CHECK_DEADLOCK FALSE
