---------------------------- MODULE TraceVectors ----------------------------
(***************************************************************************)
(* Implementation -> specification for byte strings the model did NOT       *)
(* choose: the `test` vectors of the corpus (authoritative worked examples, *)
(* DESIGN.md Appendix A) and documentation examples.  Each record is a full *)
(* frame with the message name and context; the definition's decoder        *)
(* (WowmWire!Dec) must accept it - header consistent, every byte consumed   *)
(* in definition order - and the field events it consumed are printed so    *)
(* that the driver can compare them with what the real code / the doc       *)
(* annotation says.                                                          *)
(***************************************************************************)
EXTENDS WowmWire

Vecs == ndJsonDeserialize(IOEnv.WOWM_VECTORS)   \* [vid, name, exp, lv, dir, frame]

VARIABLES vi, vverdict

CtxOfVec(v) == IF v.exp = "login" THEN LoginCtx(v.lv) ELSE CHOOSE c \in Ctxs : c.world /\ c.exp = v.exp

JudgeVec(v) ==
    LET c == CtxOfVec(v)
        cands == {i \in 1..Len(Objs) : IsMsg(Objs[i]) /\ Objs[i].name = v.name /\ InCtx(Objs[i], c) /\ v.dir \in Dirs(Objs[i])}
        base == [vid |-> v.vid, name |-> v.name, exp |-> v.exp, lv |-> v.lv, dir |-> v.dir]
    IN IF cands = {} THEN base @@ [status |-> "no_definition", why |-> "", ev |-> <<>>]
       ELSE LET o == Objs[CHOOSE i \in cands : TRUE]
                oplen == IF ~c.world THEN 1 ELSE IF v.dir = "client" THEN 4 ELSE 2
                large == c.world /\ c.exp = "wrath" /\ v.dir = "server" /\ v.frame[1] >= 128
                szlen == IF ~c.world THEN 0 ELSE IF large THEN 3 ELSE 2
                hl == szlen + oplen
                body == SubSeq(v.frame, hl + 1, Len(v.frame))
                sizeval == IF ~c.world THEN 0
                           ELSE IF large THEN (v.frame[1] - 128) * 65536 + v.frame[2] * 256 + v.frame[3]
                           ELSE v.frame[1] * 256 + v.frame[2]
                hdrOk == /\ Len(v.frame) >= hl
                         /\ SubSeq(v.frame, szlen + 1, hl) = SubSeq(o.op, 1, oplen)
                         /\ (c.world => sizeval = Len(body) + oplen)
            IN IF ~hdrOk THEN base @@ [status |-> "bad_header", why |-> "", ev |-> <<>>]
               ELSE IF o.comp THEN base @@ [status |-> "skipped", why |-> "compressed message", ev |-> <<>>]
               ELSE LET r == Dec(o, c, body) IN
                    base @@ [status |-> IF r.ok THEN "accepted"
                                        ELSE IF r.why = "" THEN "rejected" ELSE "rejected",
                             why |-> r.why, ev |-> r.ev]

Frozen == /\ root = 0 /\ prof = 0 /\ stack = <<>> /\ scopes = <<>> /\ out = <<>> /\ fi = 0
          /\ regions = <<>> /\ sizepos = 0 /\ sizew = 0 /\ phase = "vectors" /\ note = "" /\ ev = <<>>
VInit == Frozen /\ vi = 1 /\ vverdict = JudgeVec(Vecs[1])
VNext == vi < Len(Vecs) /\ vi' = vi + 1 /\ vverdict' = JudgeVec(Vecs[vi + 1]) /\ UNCHANGED vars
VSpec == VInit /\ [][VNext]_<<vi, vverdict, vars>>

EmitVec == PrintT("REPLAY " \o ToJson([kind |-> "vector"] @@ vverdict))
(* acceptance: the whole trace (all vectors) was consumed *)
AllConsumed == TLCGet("stats").diameter = Len(Vecs)
=============================================================================
