----------------------------- MODULE UpdateMask -----------------------------
(***************************************************************************)
(* The update mask object of wowm_language/src/types/update-mask.md as a   *)
(* state machine (property C13).                                           *)
(*                                                                         *)
(*   blocks  number of u32 mask blocks the object currently owns           *)
(*   header  set of field bits that are present                            *)
(*   dirty   set of field bits that are marked "to be sent"                *)
(*   values  header -> Word   (a Word is a tuple of 4 bytes, little endian; *)
(*           TLC integers are 32 bit signed, so no u32 is ever an integer) *)
(*   out     ghost: what the last Write produced ([bytes, size])           *)
(*                                                                         *)
(* Wire form (update-mask.md, "Representation"): one u8 = number of mask   *)
(* blocks, that many u32 blocks whose set bits are the fields that follow, *)
(* then one u32 per set bit in ascending bit order.  The fields that are   *)
(* sent are the ones present AND dirty (property text).                    *)
(*                                                                         *)
(* A typed accessor touches `n` consecutive words starting at bit `off`;   *)
(* which (off, n) belong to which name is the business of the field table  *)
(* (module TraceUpdateMask checks every accessor against it).              *)
(***************************************************************************)
EXTENDS Naturals, Sequences, FiniteSets, SequencesExt, TLC

VARIABLES blocks, header, dirty, values, out

mvars == <<blocks, header, dirty, values, out>>

Byte     == 0..255
ZeroWord == <<0, 0, 0, 0>>
IsWord(w) == /\ Len(w) = 4 /\ \A i \in 1..4 : w[i] \in Byte

Larger(a, b) == IF a >= b THEN a ELSE b
Pow2 == <<1, 2, 4, 8, 16, 32, 64, 128>>

(* Number of blocks needed so that bit b has a place: bits 0..31 live in   *)
(* block 0, 32..63 in block 1, ... (the doc's index = offset / 32).        *)
BlocksForBit(b) == (b \div 32) + 1
AllBits(nb) == 0..(32 * nb - 1)

(***************************************************************************)
(* The state as one record, and the operations as functions on it, so that *)
(* the same definitions serve the actions below, the successor projections *)
(* printed for the replay, and the trace specification.                    *)
(***************************************************************************)
Cur == [blocks |-> blocks, header |-> header, dirty |-> dirty, values |-> values]

Becomes(t) == /\ blocks' = t.blocks /\ header' = t.header
              /\ dirty' = t.dirty   /\ values' = t.values

NewSt(typeWord) ==
    [blocks |-> 1, header |-> {2}, dirty |-> {2}, values |-> (2 :> typeWord)]

(* Set n = Len(ws) consecutive words starting at bit off. *)
SetSt(s, off, ws) ==
    LET bits == {off + i - 1 : i \in 1..Len(ws)}
        hdr  == s.header \cup bits
    IN [blocks |-> Larger(s.blocks, BlocksForBit(off + Len(ws) - 1)),
        header |-> hdr,
        dirty  |-> s.dirty \cup bits,
        values |-> [b \in hdr |-> IF b \in bits THEN ws[b - off + 1] ELSE s.values[b]]]

DirtyResetSt(s)     == [s EXCEPT !.dirty = {}]
(* "fully dirty": every bit the object has room for is marked.  Bits that  *)
(* are not present are never sent (Sent below), so marking them is not     *)
(* observable on the wire; it is observable through is_bit_dirty.          *)
MarkFullyDirtySt(s) == [s EXCEPT !.dirty = AllBits(s.blocks)]

Sent(s) == s.header \cap s.dirty

(* ---- encoder: the doc's write() ---- *)
MaskByte(S, p) ==     \* p-th byte (0 based) of the mask area covers bits 8p .. 8p+7
    LET b == 8 * p
        T(i) == IF (b + i) \in S THEN Pow2[i + 1] ELSE 0
    IN T(0) + T(1) + T(2) + T(3) + T(4) + T(5) + T(6) + T(7)

MaskBytes(S, nb) ==
    LET nz == {b \div 8 : b \in S}          \* the only bytes that can be non-zero
    IN [p \in 1..(4 * nb) |-> IF (p - 1) \in nz THEN MaskByte(S, p - 1) ELSE 0]

SortedBits(S) == SetToSortSeq(S, <)

ValueBytes(S, vals) ==
    LET bs == SortedBits(S)
    IN [p \in 1..(4 * Len(bs)) |-> vals[bs[((p - 1) \div 4) + 1]][((p - 1) % 4) + 1]]

Wire(s) == <<s.blocks>> \o MaskBytes(Sent(s), s.blocks) \o ValueBytes(Sent(s), s.values)

(* ---- the doc's size() , written independently of Wire ---- *)
WireSize(s) == 1 + 4 * s.blocks + 4 * Cardinality(Sent(s))

(* ---- decoder: the doc's read(), written independently of Wire ---- *)
BitInBytes(bytes, nb, b) ==        \* is mask bit b set in the mask area of `bytes`
    ((bytes[2 + (b \div 8)] \div Pow2[(b % 8) + 1]) % 2) = 1

(* all set mask bits: look only inside the non-zero mask bytes *)
MaskBitsOf(bytes, nb) ==
    LET nzb == {p \in 0..(4 * nb - 1) : bytes[2 + p] # 0}
    IN UNION {{8 * p + i : i \in {j \in 0..7 : BitInBytes(bytes, nb, 8 * p + j)}} : p \in nzb}

ParseOK(bytes) ==
    /\ Len(bytes) >= 1
    /\ Len(bytes) >= 1 + 4 * bytes[1]
    /\ LET nb == bytes[1]
           S  == MaskBitsOf(bytes, nb)
       IN Len(bytes) = 1 + 4 * nb + 4 * Cardinality(S)

Parse(bytes) ==
    LET nb == bytes[1]
        S  == MaskBitsOf(bytes, nb)
        base == 1 + 4 * nb
        Rank(b) == Cardinality({c \in S : c < b})
    IN [blocks |-> nb, header |-> S, dirty |-> S,
        values |-> [b \in S |-> SubSeq(bytes, base + 4 * Rank(b) + 1, base + 4 * Rank(b) + 4)]]

(* A decoded mask is only defined when it carries OBJECT_TYPE (bit 2). *)
Readable(bytes) == ParseOK(bytes) /\ BitInBytes(bytes, bytes[1], 2)

(***************************************************************************)
(* Getters: what a typed getter of an accessor at (off, n) returns.        *)
(* <<>> stands for None.  Typed setters always set all n words together,   *)
(* so through the typed API a field is either wholly present or absent;    *)
(* what a getter does on a half-present GUID (only reachable by decoding   *)
(* foreign bytes) is outside the property and not modelled.                *)
(***************************************************************************)
GetSt(s, off, n) ==
    IF off \in s.header /\ \A i \in 0..(n - 1) : (off + i) \in s.header
    THEN [i \in 1..n |-> s.values[off + i - 1]]
    ELSE <<>>

FlatWords(ws) == [p \in 1..(4 * Len(ws)) |-> ws[((p - 1) \div 4) + 1][((p - 1) % 4) + 1]]

(***************************************************************************)
(* The mask travels inside SMSG_UPDATE_OBJECT (docs/smsg_update_object.md, *)
(* docs/object.md, ir/implementing_world.md): server header = u16 big      *)
(* endian size (opcode + body), u16 little endian opcode 0x00A9; body =    *)
(* u32 amount_of_objects (1), u8 has_transport (0; Vanilla and TBC only),  *)
(* Object { u8 update_type = VALUES (0), PackedGuid of guid 0 = one zero   *)
(* mask byte, UpdateMask }.  Sizes used here stay below 0x7FFF so Wrath's  *)
(* three byte size form never applies.                                     *)
(***************************************************************************)
BodyPrefix(exp) ==
    IF exp = "wrath" THEN <<1, 0, 0, 0, 0, 0>> ELSE <<1, 0, 0, 0, 0, 0, 0>>

Frame(exp, maskBytes) ==
    LET body == BodyPrefix(exp) \o maskBytes
        size == 2 + Len(body)
    IN <<size \div 256, size % 256, 169, 0>> \o body

BodySize(exp, maskBytes) == Len(BodyPrefix(exp)) + Len(maskBytes)

---------------------------------------------------------------------------
(* Actions *)
New(typeWord) == Becomes(NewSt(typeWord)) /\ out' = [bytes |-> <<>>, size |-> 0]

Set(off, ws) == Becomes(SetSt(Cur, off, ws)) /\ UNCHANGED out

DirtyReset == Becomes(DirtyResetSt(Cur)) /\ UNCHANGED out

MarkFullyDirty == Becomes(MarkFullyDirtySt(Cur)) /\ UNCHANGED out

Write == /\ out' = [bytes |-> Wire(Cur), size |-> WireSize(Cur)]
         /\ UNCHANGED <<blocks, header, dirty, values>>

Read(bytes) == /\ Readable(bytes)
               /\ Becomes(Parse(bytes))
               /\ UNCHANGED out

---------------------------------------------------------------------------
(* Properties of the design (checked by TLC in MCUpdateMask) *)
TypeOK ==
    /\ blocks \in 1..255
    /\ header \subseteq AllBits(blocks) /\ 2 \in header
    /\ dirty \subseteq AllBits(blocks)
    /\ DOMAIN values = header
    /\ \A b \in header : IsWord(values[b])

(* WireForm: the written form decodes, by the doc's reader, to exactly the *)
(* present-and-dirty fields with their values, ascending.                  *)
WireFormOf(s) ==
    LET w == Wire(s)
    IN /\ ParseOK(w)
       /\ Parse(w).blocks = s.blocks
       /\ Parse(w).header = Sent(s)
       /\ \A b \in Sent(s) : Parse(w).values[b] = s.values[b]
WireForm == WireFormOf(Cur)

(* SizeIsLen: the reported size is the number of bytes written. *)
SizeIsLen == WireSize(Cur) = Len(Wire(Cur)) /\ out.size = Len(out.bytes)

(* ReadWritten: decoding a written form that carries bit 2 returns exactly *)
(* the written fields (and a decoded mask is dirty in all of them).        *)
ReadWritten ==
    (2 \in Sent(Cur)) =>
        LET r == Parse(Wire(Cur))
        IN /\ Readable(Wire(Cur))
           /\ r.header = Sent(Cur) /\ r.dirty = Sent(Cur)
           /\ Wire(r) = Wire(Cur)
=============================================================================
