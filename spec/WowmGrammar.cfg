SPECIFICATION Spec
INVARIANT TypeOK
INVARIANT DefinersOk
INVARIANT NamesUnique
INVARIANT TailLast
INVARIANT IfsWellFormed
INVARIANT EmitRecord
CHECK_DEADLOCK FALSE
