----------------------------- MODULE WowmGrammar -----------------------------
(***************************************************************************)
(* C07: a CONSTRUCTIVE specification of well-formed wowm programs.          *)
(*                                                                          *)
(* State = a partial program: the definers (enum / flag) and structs built  *)
(* so far, and the container under construction as a stack of open blocks   *)
(* (top level, if arm, else arm, optional).  Every action adds one piece of *)
(* syntax and is guarded by the well-formedness rules of the language       *)
(* documents (wowm_language/src/spec/lang-spec.md; the sentence a guard     *)
(* transcribes is quoted next to it).  Hence every behaviour that reaches   *)
(* phase "done" is a program the language accepts, and every well-formed    *)
(* program over the feature set below (up to the bounds) is reachable.      *)
(*                                                                          *)
(* Feature set (DESIGN.md 4.2, what the corpus uses): integer and built-in  *)
(* scalar types, constants, self.size, enum / flag fields with and without  *)
(* upcast, struct fields, fixed / variable / endless arrays of integers,    *)
(* guids, CStrings and structs, if / else if / else with ==, !=, &, ||,     *)
(* nested one level, the optional tail.                                     *)
(*                                                                          *)
(* `tlc -simulate` walks this machine; a finished program is printed as one *)
(* REPLAY record (tools/wowm_print.py turns it into the front-end's object  *)
(* table and into wowm text).                                               *)
(***************************************************************************)
EXTENDS Naturals, Sequences, FiniteSets, TLC, Json, IOUtils

MaxDefs          == atoi(IOEnv.WG_MAXDEFS)      \* definers per program
MaxStructs       == atoi(IOEnv.WG_MAXSTRUCTS)   \* structs per program
MaxStructMembers == atoi(IOEnv.WG_MAXSMEM)      \* member budget of a struct
MaxMsgMembers    == atoi(IOEnv.WG_MAXMMEM)      \* member budget of the message

VARIABLES phase,    \* "idle" (between containers) | "struct" | "msg" | "done"
          defs,     \* finished definers
          structs,  \* finished structs (member lists)
          mkind,    \* kind of the message ("cmsg" | "smsg"), "" before it is started
          open,     \* stack of open blocks of the container under construction
          left,     \* remaining member budget of the container
          nf,       \* number of identifiers handed out in the container (names are f1, f2, ...)
          msg,      \* member list of the finished message
          plan      \* <<number of definers, number of structs>> of the program (fixed in Init)

vars == <<phase, defs, structs, mkind, open, left, nf, msg, plan>>

---------------------------------------------------------------------------
(* lang-spec "Definer": <basic_type> is an integer type u8, u16, u32, u64 *)
Bases == {"u8", "u16", "u32", "u64"}
Width(t) == CASE t \in {"u8", "i8"} -> 1 [] t \in {"u16", "i16"} -> 2
              [] t \in {"u32", "i32"} -> 4 [] t \in {"u64", "i64"} -> 8 [] OTHER -> 0

(* "The allowed number formats in definers": decimal, hexadecimal, binary, string.  Each literal *)
(* is listed with the smallest width that holds it and its value as little-endian bytes.         *)
EnumLits == <<
    [lit |-> "0",                  w |-> 1, str |-> FALSE, le |-> <<0, 0, 0, 0, 0, 0, 0, 0>>],
    [lit |-> "1",                  w |-> 1, str |-> FALSE, le |-> <<1, 0, 0, 0, 0, 0, 0, 0>>],
    [lit |-> "0x02",               w |-> 1, str |-> FALSE, le |-> <<2, 0, 0, 0, 0, 0, 0, 0>>],
    [lit |-> "0b0101",             w |-> 1, str |-> FALSE, le |-> <<5, 0, 0, 0, 0, 0, 0, 0>>],
    [lit |-> "0x7F",               w |-> 1, str |-> FALSE, le |-> <<127, 0, 0, 0, 0, 0, 0, 0>>],
    [lit |-> "255",                w |-> 1, str |-> FALSE, le |-> <<255, 0, 0, 0, 0, 0, 0, 0>>],
    [lit |-> "0x0100",             w |-> 2, str |-> FALSE, le |-> <<0, 1, 0, 0, 0, 0, 0, 0>>],
    [lit |-> "AB",                 w |-> 2, str |-> TRUE,  le |-> <<66, 65, 0, 0, 0, 0, 0, 0>>],
    [lit |-> "65535",              w |-> 2, str |-> FALSE, le |-> <<255, 255, 0, 0, 0, 0, 0, 0>>],
    [lit |-> "0x00010000",         w |-> 4, str |-> FALSE, le |-> <<0, 0, 1, 0, 0, 0, 0, 0>>],
    [lit |-> "0xFFFFFFFF",         w |-> 4, str |-> FALSE, le |-> <<255, 255, 255, 255, 0, 0, 0, 0>>],
    [lit |-> "0x0000000100000000", w |-> 8, str |-> FALSE, le |-> <<0, 0, 0, 0, 1, 0, 0, 0>>],
    [lit |-> "0xFFFFFFFFFFFFFFFF", w |-> 8, str |-> FALSE, le |-> <<255, 255, 255, 255, 255, 255, 255, 255>>] >>

(* flag enumerators: single bits (the enumerators an `&` condition can name) *)
FlagLits == <<
    [lit |-> "0x01",               w |-> 1, str |-> FALSE, le |-> <<1, 0, 0, 0, 0, 0, 0, 0>>],
    [lit |-> "0x02",               w |-> 1, str |-> FALSE, le |-> <<2, 0, 0, 0, 0, 0, 0, 0>>],
    [lit |-> "0b00010000",         w |-> 1, str |-> FALSE, le |-> <<16, 0, 0, 0, 0, 0, 0, 0>>],
    [lit |-> "0x80",               w |-> 1, str |-> FALSE, le |-> <<128, 0, 0, 0, 0, 0, 0, 0>>],
    [lit |-> "0x0100",             w |-> 2, str |-> FALSE, le |-> <<0, 1, 0, 0, 0, 0, 0, 0>>],
    [lit |-> "0x8000",             w |-> 2, str |-> FALSE, le |-> <<0, 128, 0, 0, 0, 0, 0, 0>>],
    [lit |-> "0x00010000",         w |-> 4, str |-> FALSE, le |-> <<0, 0, 1, 0, 0, 0, 0, 0>>],
    [lit |-> "0x80000000",         w |-> 4, str |-> FALSE, le |-> <<0, 0, 0, 128, 0, 0, 0, 0>>],
    [lit |-> "0x0000000100000000", w |-> 8, str |-> FALSE, le |-> <<0, 0, 0, 0, 1, 0, 0, 0>>],
    [lit |-> "0x8000000000000000", w |-> 8, str |-> FALSE, le |-> <<0, 0, 0, 0, 0, 0, 0, 128>>] >>

(* "Enums can not have multiple names with the same value": the literals denote distinct values *)
ASSUME \A i, j \in 1..Len(EnumLits) : i # j => EnumLits[i].le # EnumLits[j].le
ASSUME \A i, j \in 1..Len(FlagLits) : i # j => FlagLits[i].le # FlagLits[j].le
(* every literal fits the width it is listed with *)
ASSUME \A i \in 1..Len(EnumLits) : \A b \in (EnumLits[i].w + 1)..8 : EnumLits[i].le[b] = 0
ASSUME \A i \in 1..Len(FlagLits) : \A b \in (FlagLits[i].w + 1)..8 : FlagLits[i].le[b] = 0

Lits(kind) == IF kind = "enum" THEN EnumLits ELSE FlagLits
FitIdx(kind, base) == SelectSeq([i \in 1..Len(Lits(kind)) |-> i], LAMBDA i : Lits(kind)[i].w <= Width(base))
ENameOf == <<"ALPHA", "BRAVO", "CHARLIE", "DELTA">>

DefName(i)    == (IF defs[i].kind = "enum" THEN "E" ELSE "F") \o ToString(i)
StructName(i) == "S" \o ToString(i)
FName         == "f" \o ToString(nf + 1)

---------------------------------------------------------------------------
(* members, uniform record shape (tools/wowm_print.py raises it to the front-end's shape) *)
Blank == [m |-> "", type |-> "", upcast |-> "", arr |-> "none", n |-> 0, field |-> "", name |-> "",
          const |-> "", arms |-> <<>>, els |-> <<>>, haselse |-> FALSE, body |-> <<>>]
Decl(ty, nm) == [Blank EXCEPT !.m = "decl", !.type = ty, !.name = nm]

Frame(k) == [k |-> k, items |-> <<>>, vars |-> {}, last |-> FALSE,
             ivar |-> "", iop |-> "", idef |-> 0, conds |-> <<>>, used |-> {}, done |-> <<>>, oname |-> ""]

F == open[Len(open)]
Building == phase \in {"struct", "msg"}
IfDepth == Cardinality({i \in 1..Len(open) : open[i].k \in {"arm", "else"}})
InOptional == \E i \in 1..Len(open) : open[i].k = "opt"

(* "<variable_name> is the name of a variable from a declaration that has previously appeared":   *)
(* the declarations of the enclosing blocks that precede the current point.  A declaration inside *)
(* an arm that has been closed is not visible (it may not have been sent).                        *)
Visible == UNION {open[i].vars : i \in 1..Len(open)}

(* a struct, and the optional block, begin with a scalar: an element / a present tail is never 0 bytes *)
NeedsByteFirst == F.items = <<>> /\ ((phase = "struct" /\ Len(open) = 1) \/ F.k = "opt")

CanAdd == Building /\ left > 0 /\ ~F.last

Put(item, newvars, lastflag) ==
    /\ open' = [open EXCEPT ![Len(open)].items = Append(@, item),
                            ![Len(open)].vars = @ \cup newvars,
                            ![Len(open)].last = lastflag]
    /\ left' = left - 1
    /\ nf' = nf + 1
    /\ UNCHANGED <<phase, defs, structs, mkind, msg, plan>>

---------------------------------------------------------------------------
(* ---- definers ---- *)
AddDefiner ==
    /\ phase = "idle" /\ Len(defs) < plan[1]
    /\ \E kind \in {"enum", "flag"}, base \in Bases :
         LET idx == FitIdx(kind, base) IN
         \E n \in 1..4, start \in 1..Len(idx), zero \in BOOLEAN :
            /\ n <= Len(idx)
            /\ (zero => kind = "flag")      \* flags may carry a NONE = 0 enumerator
            /\ LET en == [j \in 1..n |->
                            LET l == Lits(kind)[idx[((start + j - 2) % Len(idx)) + 1]]
                            IN [name |-> ENameOf[j], lit |-> l.lit, str |-> l.str, zero |-> FALSE]]
                   en0 == IF zero THEN <<[name |-> "NONE", lit |-> "0x00", str |-> FALSE, zero |-> TRUE]>> \o en
                          ELSE en
               IN defs' = Append(defs, [kind |-> kind, base |-> base, enumerators |-> en0])
    /\ UNCHANGED <<phase, structs, mkind, open, left, nf, msg, plan>>

(* ---- containers ---- *)
StartStruct ==
    /\ phase = "idle" /\ Len(defs) = plan[1] /\ Len(structs) < plan[2]
    /\ \E b \in 1..MaxStructMembers :
         /\ left' = b
         /\ phase' = "struct" /\ open' = <<Frame("top")>> /\ nf' = 0
    /\ UNCHANGED <<defs, structs, mkind, msg, plan>>

StartMsg ==
    /\ phase = "idle" /\ mkind = "" /\ Len(defs) = plan[1] /\ Len(structs) = plan[2]
    /\ \E k \in {"cmsg", "smsg"}, b \in 0..MaxMsgMembers :
         /\ mkind' = k /\ left' = b
         /\ phase' = "msg" /\ open' = <<Frame("top")>> /\ nf' = 0
    /\ UNCHANGED <<defs, structs, msg, plan>>

(* an empty message is a program (MSG_LOOKING_FOR_GROUP_Client); a struct has at least one member. *)
(* The size of a container is decided by its budget (drawn when it is started), not by this step.  *)
EndContainer ==
    /\ Building /\ Len(open) = 1 /\ (left = 0 \/ F.last)
    /\ IF phase = "struct"
       THEN /\ F.items # <<>>
            /\ structs' = Append(structs, F.items)
            /\ phase' = "idle" /\ msg' = msg
       ELSE /\ msg' = F.items /\ phase' = "done" /\ structs' = structs
    /\ open' = <<>> /\ left' = 0
    /\ UNCHANGED <<defs, mkind, nf, plan>>

---------------------------------------------------------------------------
(* ---- scalar declarations ---- *)
IntTypes    == {"u8", "u16", "u32", "u64", "i32"}
CountTypes  == {"u8", "u16", "u32"}
OtherScalar == {"f32", "Bool", "Bool32", "Guid", "PackedGuid", "CString", "SizedCString", "DateTime",
                "Gold", "Level", "Level16", "Level32", "Seconds", "Milliseconds", "Spell", "Spell16", "Item"}
FixedWidth  == IntTypes \cup (OtherScalar \ {"PackedGuid", "CString", "SizedCString"})

AddScalar ==
    \E ty \in IntTypes \cup OtherScalar :
         Put(Decl(ty, FName),
             IF ty \in CountTypes THEN {[name |-> FName, vk |-> "int", d |-> 0]} ELSE {}, FALSE)

(* "The optional <constant_value> defines which value this field should always be sent as" *)
ConstLits(ty) == {"0", "0xFF"} \cup (IF Width(ty) >= 2 THEN {"0x0100"} ELSE {})
                 \cup (IF Width(ty) >= 4 THEN {"0xFFFFFFFF"} ELSE {})
AddConst ==
    \E ty \in {"u8", "u16", "u32", "u64"} : \E v \in ConstLits(ty) :
         Put([Decl(ty, FName) EXCEPT !.const = v], {}, FALSE)

(* self.size (corpus: Mail, MiniMoveMessage, SMSG_MULTIPLE_MOVES, the login messages): a field of  *)
(* the container itself at a fixed offset - top level, preceded only by fixed-width scalars -, one  *)
(* per container.                                                                                   *)
AddSelfSize ==
    /\ Len(open) = 1
    /\ \A i \in 1..Len(F.items) :
         /\ F.items[i].m = "decl" /\ F.items[i].arr = "none" /\ F.items[i].type \in FixedWidth
         /\ F.items[i].const # "self.size"
    /\ \E ty \in {"u16", "u32"} :
         Put([Decl(ty, FName) EXCEPT !.const = "self.size"], {}, FALSE)

(* "The optional <upcast> is used for an enum which should be sent over the network as a different *)
(* type ... an integer type of larger size"                                                        *)
Upcasts(d) == {""} \cup (IF defs[d].kind = "enum"
                          THEN {t \in {"u16", "u32", "u64"} : Width(t) > Width(defs[d].base)} ELSE {})
AddDefField(kind) ==
    /\ CanAdd
    /\ \E d \in {x \in 1..Len(defs) : defs[x].kind = kind} : \E up \in Upcasts(d) :
         Put([Decl(DefName(d), FName) EXCEPT !.upcast = up],
             {[name |-> FName, vk |-> defs[d].kind, d |-> d]}, FALSE)

AddStructField ==
    /\ CanAdd
    /\ \E s \in 1..Len(structs) : Put(Decl(StructName(s), FName), {}, FALSE)

(* ---- arrays: <type>[<length>], length = constant | previous integer field | '-' ---- *)
ArrElems == {"u8", "u16", "u32", "u64", "Guid", "PackedGuid", "CString"}
            \cup {StructName(s) : s \in 1..Len(structs)}

AddFixedArray ==
    /\ TRUE
    /\ \E ety \in ArrElems, n \in 1..3 :
         Put([Decl(ety, FName) EXCEPT !.arr = "fixed", !.n = n], {}, FALSE)

(* "a previous integer field in the same object" *)
AddVarArray ==
    /\ ~NeedsByteFirst
    /\ \E ety \in ArrElems, c \in {v \in Visible : v.vk = "int"} :
         Put([Decl(ety, FName) EXCEPT !.arr = "var", !.field = c.name], {}, FALSE)

(* "Endless arrays ... deduced from the total size of the message minus the sizes of any previous  *)
(* fields": nothing may follow it, so it is the last member of a MESSAGE (top level).              *)
AddEndlessArray ==
    /\ phase = "msg" /\ Len(open) = 1
    /\ \E ety \in ArrElems :
         Put([Decl(ety, FName) EXCEPT !.arr = "endless"], {}, TRUE)

(* One step per KIND of member: TLC's simulator draws the action first and the successor second, *)
(* so the mix of members is steered by how the steps are grouped, not by the size of type lists.  *)
AddPlain   == CanAdd /\ \E c \in {"scalar", "const", "selfsize"} :
                 CASE c = "scalar" -> AddScalar [] c = "const" -> AddConst [] c = "selfsize" -> AddSelfSize
AddFixed   == CanAdd /\ AddFixedArray
AddVar     == CanAdd /\ AddVarArray
(* the members that end a message are drawn when its budget runs out *)
AddEndless == CanAdd /\ left = 1 /\ AddEndlessArray

---------------------------------------------------------------------------
(* ---- if / else if / else ---- *)
Enumerators(d) == {defs[d].enumerators[j].name : j \in {jj \in 1..Len(defs[d].enumerators) : ~defs[d].enumerators[jj].zero}}
CondSeq(d, v, op, S) ==
    LET idx == SelectSeq([j \in 1..Len(defs[d].enumerators) |-> j], LAMBDA j : defs[d].enumerators[j].name \in S)
    IN [j \in 1..Len(idx) |-> [var |-> v, op |-> op, val |-> defs[d].enumerators[idx[j]].name]]

(* "<operator> is either ==, &, or !=": `&` tests a flag, `==` / `!=` an enum;                   *)
(* "If statements that use != can not have any else if or || options".                            *)
(* "nested one level": at most two if statements are open at a time.                              *)
OpenIf(op) ==
    /\ CanAdd /\ ~NeedsByteFirst /\ left >= 2 /\ IfDepth < 2
    /\ \E v \in {x \in Visible : x.vk = (IF op = "&" THEN "flag" ELSE "enum")} :
       \E S \in (SUBSET Enumerators(v.d)) \ {{}} :
         /\ op = "!=" => Cardinality(S) = 1
         /\ Cardinality(S) <= 3
         /\ open' = Append(open, [Frame("arm") EXCEPT !.ivar = v.name, !.iop = op, !.idef = v.d,
                                                      !.conds = CondSeq(v.d, v.name, op, S), !.used = S])
         /\ left' = left - 1
    /\ UNCHANGED <<phase, defs, structs, mkind, nf, msg, plan>>

ArmOf(f) == [conds |-> f.conds, body |-> f.items]

(* "The variable name must be the same in all statements"; every enumerator is named at most once *)
(* in one if statement (a second arm for it could never be taken).                                *)
ElseIf ==
    /\ Building /\ F.k = "arm" /\ F.items # <<>> /\ F.iop # "!=" /\ left >= 1
    /\ \E S \in (SUBSET (Enumerators(F.idef) \ F.used)) \ {{}} :
         /\ Cardinality(S) <= 2
         /\ open' = [open EXCEPT ![Len(open)] =
                        [@ EXCEPT !.done = Append(@, ArmOf(F)), !.items = <<>>, !.vars = {},
                                  !.conds = CondSeq(F.idef, F.ivar, F.iop, S), !.used = @ \cup S]]
    /\ UNCHANGED <<phase, defs, structs, mkind, left, nf, msg, plan>>

(* an else arm that can be taken: some enumerator is left for it (`&`: no tested bit set) *)
Else ==
    /\ Building /\ F.k = "arm" /\ F.items # <<>> /\ left >= 1
    /\ (F.iop = "==" => F.used # Enumerators(F.idef))
    /\ open' = [open EXCEPT ![Len(open)] =
                   [@ EXCEPT !.k = "else", !.done = Append(@, ArmOf(F)), !.items = <<>>, !.vars = {}]]
    /\ UNCHANGED <<phase, defs, structs, mkind, left, nf, msg, plan>>

EndIf ==
    /\ Building /\ F.k \in {"arm", "else"} /\ F.items # <<>>
    /\ LET item == IF F.k = "arm"
                   THEN [Blank EXCEPT !.m = "if", !.arms = Append(F.done, ArmOf(F))]
                   ELSE [Blank EXCEPT !.m = "if", !.arms = F.done, !.els = F.items, !.haselse = TRUE]
           rest == SubSeq(open, 1, Len(open) - 1)
       IN open' = [rest EXCEPT ![Len(rest)].items = Append(@, item)]
    /\ UNCHANGED <<phase, defs, structs, mkind, left, nf, msg, plan>>

(* ---- optional: "Optional statements can only occur as the last element of a message" ---- *)
OpenOptional ==
    /\ CanAdd /\ phase = "msg" /\ Len(open) = 1 /\ left >= 2 /\ left <= 4
    /\ open' = Append(open, [Frame("opt") EXCEPT !.oname = FName])
    /\ left' = left - 1 /\ nf' = nf + 1
    /\ UNCHANGED <<phase, defs, structs, mkind, msg, plan>>

CloseOptional ==
    /\ Building /\ F.k = "opt" /\ F.items # <<>>
    /\ LET item == [Blank EXCEPT !.m = "optional", !.name = F.oname, !.body = F.items]
           rest == SubSeq(open, 1, Len(open) - 1)
       IN open' = [rest EXCEPT ![Len(rest)].items = Append(@, item), ![Len(rest)].last = TRUE]
    /\ UNCHANGED <<phase, defs, structs, mkind, left, nf, msg, plan>>

Next ==
    \/ AddDefiner \/ StartStruct \/ StartMsg \/ EndContainer
    \/ AddPlain \/ AddDefField("enum") \/ AddDefField("flag") \/ AddStructField
    \/ AddFixed \/ AddVar \/ AddEndless
    \/ OpenIf("==") \/ OpenIf("!=") \/ OpenIf("&") \/ ElseIf \/ Else \/ EndIf \/ OpenOptional \/ CloseOptional

Init ==
    /\ phase = "idle" /\ defs = <<>> /\ structs = <<>> /\ mkind = "" /\ open = <<>>
    /\ left = 0 /\ nf = 0 /\ msg = <<>>
    /\ plan \in (0..MaxDefs) \X (0..MaxStructs)

Spec == Init /\ [][Next]_vars

---------------------------------------------------------------------------
(* Independent re-statement of the rules on what has been built (the guards above must imply it). *)
RECURSIVE DeclNames(_)
DeclNames(ms) ==
    IF ms = <<>> THEN <<>>
    ELSE LET h == ms[1]
             own == CASE h.m = "decl" -> <<h.name>>
                      [] h.m = "optional" -> <<h.name>> \o DeclNames(h.body)
                      [] h.m = "if" -> LET RECURSIVE ArmNames(_)
                                           ArmNames(as) == IF as = <<>> THEN <<>>
                                                           ELSE DeclNames(as[1].body) \o ArmNames(Tail(as))
                                       IN ArmNames(h.arms) \o DeclNames(h.els)
                      [] OTHER -> <<>>
         IN own \o DeclNames(Tail(ms))

NoDup(s) == \A i, j \in 1..Len(s) : i # j => s[i] # s[j]

(* "Two declarations or optional statements in the same object must not have identical identifiers, *)
(* even across if statement blocks."                                                               *)
NamesUnique ==
    /\ phase = "done" => NoDup(DeclNames(msg))
    /\ \A s \in 1..Len(structs) : NoDup(DeclNames(structs[s]))

(* optional and endless array only as the last top-level member of the message *)
TailLast ==
    phase = "done" =>
        \A i \in 1..Len(msg) :
            (msg[i].m = "optional" \/ (msg[i].m = "decl" /\ msg[i].arr = "endless")) => i = Len(msg)

RECURSIVE IfsOk(_)
IfsOk(ms) ==
    \A i \in 1..Len(ms) :
        LET h == ms[i] IN
        CASE h.m = "if" ->
                LET cs == [a \in 1..Len(h.arms) |-> h.arms[a].conds] IN
                /\ Len(h.arms) >= 1
                /\ \A a \in 1..Len(h.arms) :
                     /\ Len(cs[a]) >= 1 /\ h.arms[a].body # <<>>
                     /\ \A c \in 1..Len(cs[a]) : cs[a][c].var = cs[1][1].var /\ cs[a][c].op = cs[1][1].op
                     /\ IfsOk(h.arms[a].body)
                /\ (cs[1][1].op = "!=" => Len(h.arms) = 1 /\ Len(cs[1]) = 1)
                /\ (h.haselse => h.els # <<>> /\ IfsOk(h.els))
          [] h.m = "optional" -> IfsOk(h.body)
          [] OTHER -> TRUE

IfsWellFormed ==
    /\ phase = "done" => IfsOk(msg)
    /\ \A s \in 1..Len(structs) : IfsOk(structs[s])

DefinersOk ==
    \A d \in 1..Len(defs) :
        /\ Len(defs[d].enumerators) >= 1
        /\ NoDup([j \in 1..Len(defs[d].enumerators) |-> defs[d].enumerators[j].name])
        /\ NoDup([j \in 1..Len(defs[d].enumerators) |-> defs[d].enumerators[j].lit])

TypeOK ==
    /\ phase \in {"idle", "struct", "msg", "done"}
    /\ Len(defs) <= MaxDefs /\ Len(structs) <= MaxStructs
    /\ left \in 0..(MaxMsgMembers + MaxStructMembers)
    /\ mkind \in {"", "cmsg", "smsg"}

Program ==
    [defs |-> [d \in 1..Len(defs) |-> [kind |-> defs[d].kind, name |-> DefName(d), base |-> defs[d].base,
                                       enumerators |-> defs[d].enumerators]],
     structs |-> [s \in 1..Len(structs) |-> [name |-> StructName(s), members |-> structs[s]]],
     kind |-> mkind, members |-> msg]

EmitRecord == (phase = "done") => PrintT("REPLAY " \o ToJson(Program))
=============================================================================
