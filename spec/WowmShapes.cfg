SPECIFICATION Spec
INVARIANT TypeOK
INVARIANT WellFormed
INVARIANT EmitRecord
CHECK_DEADLOCK FALSE
