----------------------------- MODULE WowmShapes -----------------------------
(***************************************************************************)
(* C07, second program source: an EXHAUSTIVE small-scope family next to the *)
(* random walks of WowmGrammar.                                             *)
(*                                                                          *)
(* What a generator derives for an `if` statement (minimum / maximum size,  *)
(* the size guard of the reader, the shape of the synthesised type) depends *)
(* on how the extents of the arms are ORDERED: which arm is the smallest,   *)
(* which the largest, whether the else arm lies below, between or above     *)
(* the others.  Random walks reach a given ordering only by luck (an else   *)
(* arm at all in 3 % of the programs).  This machine builds one if          *)
(* statement arm by arm and takes every arm from a menu of member lists     *)
(* whose extents differ in kind (fixed small, fixed large, bounded variable,*)
(* unbounded), so TLC's breadth-first search enumerates EVERY combination   *)
(* up to the bounds - every ordering of arm extents occurs.                 *)
(*                                                                          *)
(* Program shape (well-formed by the same rules WowmGrammar transcribes):   *)
(*     u16 lead; <T> t; if (t <op> ..) { arm } [else if (..) { arm }]*      *)
(*     [else { arm }] [u8 tail;]                                            *)
(* with T an enum (==, !=) or a flag (&) of four enumerators, arm number i  *)
(* testing enumerator i (the first arm of `==` optionally two, joined by    *)
(* ||), so an else arm can always be taken.  `!=` has one arm and no        *)
(* else-if; `&` gets no else here (finding c07-flag-else).                  *)
(* The finished program is printed in WowmGrammar's record shape.           *)
(***************************************************************************)
EXTENDS Naturals, Sequences, FiniteSets, TLC, Json, IOUtils

MenuSize == atoi(IOEnv.WS_MENU)      \* how many of the menu entries below are used
MaxArms  == atoi(IOEnv.WS_MAXARMS)   \* arms of one if statement (without the else arm)
Ops      == IF IOEnv.WS_OPS = "eq" THEN {"=="} ELSE {"==", "!=", "&"}
AllVariants == IOEnv.WS_VARIANTS = "all"   \* "min": no || arm, always a member after the if

VARIABLES stage,   \* "op" | "arms" | "done"
          op,      \* operator of the if statement
          orr,     \* first arm tests two enumerators joined by ||
          arms,    \* menu numbers of the arms so far
          els,     \* menu number of the else arm, 0 = none
          tail     \* a member follows the if statement
vars == <<stage, op, orr, arms, els, tail>>

Blank == [m |-> "", type |-> "", upcast |-> "", arr |-> "none", n |-> 0, field |-> "", name |-> "",
          const |-> "", arms |-> <<>>, els |-> <<>>, haselse |-> FALSE, body |-> <<>>]
Decl(ty) == [Blank EXCEPT !.m = "decl", !.type = ty]

(* The menu.  Extents (bytes): 1: 4..4   2: 1..9   3: 1..unbounded   4: 1..1   5: 8..8   6: 1..256 *)
Menu == <<
    << Decl("u32") >>,
    << Decl("PackedGuid") >>,
    << Decl("CString") >>,
    << Decl("u8") >>,
    << Decl("u16"), [Decl("u16") EXCEPT !.arr = "fixed", !.n = 3] >>,
    << Decl("u8"), [Decl("u8") EXCEPT !.arr = "var", !.field = "@prev"] >> >>
ASSUME MenuSize \in 1..Len(Menu)

ENames == <<"ALPHA", "BRAVO", "CHARLIE", "DELTA">>
EnumDef == [kind |-> "enum", name |-> "E1", base |-> "u8",
            enumerators |-> << [name |-> "ALPHA", lit |-> "1", str |-> FALSE, zero |-> FALSE],
                               [name |-> "BRAVO", lit |-> "0x02", str |-> FALSE, zero |-> FALSE],
                               [name |-> "CHARLIE", lit |-> "0x7F", str |-> FALSE, zero |-> FALSE],
                               [name |-> "DELTA", lit |-> "255", str |-> FALSE, zero |-> FALSE] >>]
FlagDef == [kind |-> "flag", name |-> "F1", base |-> "u8",
            enumerators |-> << [name |-> "ALPHA", lit |-> "0x01", str |-> FALSE, zero |-> FALSE],
                               [name |-> "BRAVO", lit |-> "0x02", str |-> FALSE, zero |-> FALSE],
                               [name |-> "CHARLIE", lit |-> "0b00010000", str |-> FALSE, zero |-> FALSE],
                               [name |-> "DELTA", lit |-> "0x80", str |-> FALSE, zero |-> FALSE] >>]

---------------------------------------------------------------------------
Init == stage = "op" /\ op = "" /\ orr = FALSE /\ arms = <<>> /\ els = 0 /\ tail = FALSE

ChooseOp ==
    /\ stage = "op"
    /\ \E o \in Ops, r \in BOOLEAN, t \in BOOLEAN :
         /\ (r => o = "==")              \* one || variant per program, on the first arm of an == if
         /\ (~AllVariants => (~r /\ t))
         /\ op' = o /\ orr' = r /\ tail' = t
    /\ stage' = "arms"
    /\ UNCHANGED <<arms, els>>

(* "If statements that use != can not have any else if or || options" *)
AddArm ==
    /\ stage = "arms" /\ els = 0
    /\ Len(arms) < (IF op = "!=" THEN 1 ELSE MaxArms)
    /\ Len(arms) + (IF orr THEN 1 ELSE 0) < Len(ENames) - 1     \* an enumerator stays for the else arm
    /\ \E k \in 1..MenuSize : arms' = Append(arms, k)
    /\ UNCHANGED <<stage, op, orr, els, tail>>

AddElse ==
    /\ stage = "arms" /\ arms # <<>> /\ els = 0 /\ op # "&"
    /\ \E k \in 1..MenuSize : els' = k
    /\ UNCHANGED <<stage, op, orr, arms, tail>>

Finish ==
    /\ stage = "arms" /\ arms # <<>>
    /\ stage' = "done"
    /\ UNCHANGED <<op, orr, arms, els, tail>>

Next == ChooseOp \/ AddArm \/ AddElse \/ Finish
Spec == Init /\ [][Next]_vars

---------------------------------------------------------------------------
(* Names f1, f2, ... in order of appearance ("Two declarations ... must not have identical identifiers, *)
(* even across if statement blocks"); the count of a variable array is the member before it.           *)
Named(ms, first) ==
    [j \in 1..Len(ms) |->
        [ms[j] EXCEPT !.name = "f" \o ToString(first + j - 1),
                      !.field = IF ms[j].field = "@prev" THEN "f" \o ToString(first + j - 2) ELSE ms[j].field]]

RECURSIVE StartOf(_)
(* number of the first name of arm i (the two leading members take f1, f2) *)
StartOf(i) == IF i = 1 THEN 3 ELSE StartOf(i - 1) + Len(Menu[arms[i - 1]])
ElseStart == StartOf(Len(arms)) + Len(Menu[arms[Len(arms)]])
TailStart == ElseStart + (IF els = 0 THEN 0 ELSE Len(Menu[els]))

ArmEnums(i) == IF orr THEN (IF i = 1 THEN <<1, 2>> ELSE <<i + 1>>) ELSE <<i>>
Conds(i) == [c \in 1..Len(ArmEnums(i)) |-> [var |-> "f2", op |-> op, val |-> ENames[ArmEnums(i)[c]]]]

IfMember ==
    [Blank EXCEPT !.m = "if",
                  !.arms = [i \in 1..Len(arms) |-> [conds |-> Conds(i), body |-> Named(Menu[arms[i]], StartOf(i))]],
                  !.els = IF els = 0 THEN <<>> ELSE Named(Menu[els], ElseStart),
                  !.haselse = (els # 0)]

Program ==
    [defs |-> << IF op = "&" THEN FlagDef ELSE EnumDef >>,
     structs |-> <<>>,
     kind |-> IF Len(arms) % 2 = 0 THEN "cmsg" ELSE "smsg",
     members |-> << [Decl("u16") EXCEPT !.name = "f1"],
                    [Decl(IF op = "&" THEN "F1" ELSE "E1") EXCEPT !.name = "f2"],
                    IfMember >>
                 \o (IF tail THEN << [Decl("u8") EXCEPT !.name = "f" \o ToString(TailStart)] >> ELSE <<>>)]

---------------------------------------------------------------------------
TypeOK ==
    /\ stage \in {"op", "arms", "done"}
    /\ Len(arms) <= MaxArms /\ els \in 0..MenuSize
    /\ \A i \in 1..Len(arms) : arms[i] \in 1..MenuSize

(* the rules of lang-spec the construction must respect, restated on the finished program *)
WellFormed ==
    stage = "done" =>
        /\ (op = "!=" => Len(arms) = 1 /\ ~orr)
        /\ (op = "&" => els = 0)
        /\ \A i, j \in 1..Len(arms) : i # j => (\A a \in 1..Len(ArmEnums(i)) : \A b \in 1..Len(ArmEnums(j)) :
                                                   ArmEnums(i)[a] # ArmEnums(j)[b])
        /\ \E e \in 1..Len(ENames) : \A i \in 1..Len(arms) : \A a \in 1..Len(ArmEnums(i)) : ArmEnums(i)[a] # e

EmitRecord == (stage = "done") => PrintT("REPLAY " \o ToJson(Program))
=============================================================================
