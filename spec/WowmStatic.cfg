SPECIFICATION Spec
INVARIANT TypeOK
INVARIANT CorpusWellFormed
INVARIANT LocalityHolds
INVARIANT EmitRecord
CHECK_DEADLOCK FALSE
