------------------------------ MODULE WowmStatic ------------------------------
(***************************************************************************)
(* Static semantics of a wowm program (property C16): the version lattice, *)
(* name lookup through versions, and the static rules of the language with *)
(* the diagnostic (process exit status) the compiler reports for each.      *)
(*                                                                          *)
(* A PROGRAM is an object table produced by the independent front-end       *)
(* (tools/wowm_front.py) and lowered by tools/static_lower.py: the real     *)
(* corpus (program 0) and, for k > 0, the corpus with the objects of ONE    *)
(* file replaced by the objects the front-end reads from the mutated text   *)
(* of that file (Muts[k]).  The machine below walks a program through the   *)
(* rules (one `Check` step per rule, in the order in which the compiler     *)
(* happens to process them), collects the set of rules it breaks and ends   *)
(* in `Finish`, which publishes                                             *)
(*     Diagnose(program) = status of the first rule violated, 0 if none.    *)
(* The ORDER is an implementation artefact (the documents do not fix it):   *)
(* a program that breaks more than one rule is flagged `ambiguous` and the  *)
(* conformance check does not use its prediction.                           *)
(*                                                                          *)
(* Sources: wowm_language/src/spec/lang-spec.md (definers, containers,      *)
(* declarations, upcasts, if statements), spec/tags.md (versions,           *)
(* paste_versions, login_versions), versioning-with-tags.md (lookup:        *)
(* "names that are as specific or less specific", "there can not be two     *)
(* objects with the same name and the same version", "world and login       *)
(* versions"), and the enumeration of rules in the statement of C16 for the *)
(* three rules the documents do not spell out (recursive type, misplaced    *)
(* self.size, opcode index).  Exit statuses: error_printer/mod.rs.          *)
(***************************************************************************)
EXTENDS Naturals, Sequences, FiniteSets, TLC, Json, IOUtils, SequencesExt

Objs   == ndJsonDeserialize(IOEnv.WS_OBJECTS)   \* the corpus, lowered; Objs[i].id = i
NameIx == JsonDeserialize(IOEnv.WS_INDEX)       \* name -> sequence of ids (lexical index)
UsedBy == JsonDeserialize(IOEnv.WS_USEDBY)      \* type name -> ids of objects with a declaration of that type
OpIx   == JsonDeserialize(IOEnv.WS_OPCODES)     \* expansion -> [message name -> opcode]: the opcode index
Muts   == ndJsonDeserialize(IOEnv.WS_MUTANTS)   \* mutated programs: [id, file, objs]
FullN  == atoi(IOEnv.WS_FULLCHECK)              \* programs 1..FullN are ALSO evaluated without the locality restriction

VARIABLES k, pc, viol
vars == <<k, pc, viol>>


---------------------------------------------------------------------------
(* The version lattice.  A pattern is a sequence of naturals of length 0..4:  *)
(* <<>> is `*`, <<1>> is major 1, <<1,12>> is 1.12, <<1,12,1>>, <<1,12,1,5875>>*)
(* (tags.md "versions").  Login versions are patterns of length 0..1.         *)
Covers(p, q)   == IsPrefix(p, q)                       \* p is as specific or less specific than q
Overlaps(p, q) == IsPrefix(p, q) \/ IsPrefix(q, p)     \* some client version is matched by both
FulfillsAll(A, B) == \A q \in B : \E p \in A : Covers(p, q)
Intersects(A, B)  == \E p \in A, q \in B : Overlaps(p, q)
(* `*` "overrides all other options" (tags.md) *)
Norm(S) == IF <<>> \in S THEN {<<>>} ELSE S

(* Lattice laws, checked by TLC over the patterns the statement of C16 names. *)
LawPats == {<<1>>, <<1, 12>>, <<1, 12, 1>>, <<1, 12, 1, 5875>>, <<2>>, <<2, 4, 3>>, <<3>>, <<3, 3, 5>>, <<>>}
(* concrete client versions: the denotation of a pattern is the set of client versions it matches *)
Clients == {<<a, b, c, d>> : a \in {1, 2, 3}, b \in {12, 4, 3, 0}, c \in {1, 3, 5, 0}, d \in {5875, 8606, 0}}
Den(p) == {v \in Clients : IsPrefix(p, v)}
SmallSets == {S \in SUBSET LawPats : Cardinality(S) <= 2}

ASSUME CoversReflexive     == \A p \in LawPats : Covers(p, p)
ASSUME CoversAntisymmetric == \A p, q \in LawPats : Covers(p, q) /\ Covers(q, p) => p = q
ASSUME CoversTransitive    == \A p, q, r \in LawPats : Covers(p, q) /\ Covers(q, r) => Covers(p, r)
ASSUME CoversImpliesOverlaps == \A p, q \in LawPats : Covers(p, q) => Overlaps(p, q)
ASSUME OverlapsSymmetric   == \A p, q \in LawPats : Overlaps(p, q) <=> Overlaps(q, p)
ASSUME StarIsTop           == \A p \in LawPats : Covers(<<>>, p) /\ (Covers(p, <<>>) => p = <<>>)
ASSUME CoversIsInclusion   == \A p, q \in LawPats : Covers(p, q) <=> Den(q) \subseteq Den(p)
ASSUME OverlapsIsMeeting   == \A p, q \in LawPats : Overlaps(p, q) <=> Den(p) \cap Den(q) # {}
ASSUME SiblingsDisjoint    == ~Overlaps(<<1>>, <<2>>) /\ ~Overlaps(<<1, 12>>, <<2, 4, 3>>) /\ ~Overlaps(<<3, 3, 5>>, <<3, 3, 4>>)
ASSUME FulfillsMonotoneLeft  == \A A, A2, B \in SmallSets : A \subseteq A2 /\ FulfillsAll(A, B) => FulfillsAll(A2, B)
ASSUME FulfillsAntitoneRight == \A A, B, B2 \in SmallSets : B2 \subseteq B /\ FulfillsAll(A, B) => FulfillsAll(A, B2)
ASSUME FulfillsTransitive  == \A A, B, C \in SmallSets : FulfillsAll(A, B) /\ FulfillsAll(B, C) => FulfillsAll(A, C)
ASSUME FulfillsImpliesIntersects == \A A, B \in SmallSets : B # {} /\ FulfillsAll(A, B) => Intersects(A, B)
ASSUME IntersectsSymmetric == \A A, B \in SmallSets : Intersects(A, B) <=> Intersects(B, A)
ASSUME NormIsStar          == \A A \in SmallSets : <<>> \in A => \A B \in SmallSets : FulfillsAll(Norm(A), B)

---------------------------------------------------------------------------
(* Programs and object references.                                          *)
(* A reference is <<src, i, j>>: src "b" = corpus object Objs[i], "m" = i-th *)
(* object of the mutated file; j = 0, or j > 0 for the j-th copy that        *)
(* `paste_versions` stands for (tags.md: paste_versions "would be the same  *)
(* as" one object per listed version).                                       *)
MutFile(kk) == IF kk = 0 THEN "" ELSE Muts[kk].file
MutObjs(kk) == IF kk = 0 THEN <<>> ELSE Muts[kk].objs
O(kk, r) == IF r[1] = "b" THEN Objs[r[2]] ELSE MutObjs(kk)[r[2]]
Pastes(o) == IF Len(o.pv) = 0 THEN {0} ELSE 1..Len(o.pv)
BaseIds(n) == IF n \in DOMAIN NameIx THEN ToSet(NameIx[n]) ELSE {}
UserIds(n) == IF n \in DOMAIN UsedBy THEN ToSet(UsedBy[n]) ELSE {}
Live(kk, i) == Objs[i].file # MutFile(kk)           \* corpus object still part of program kk

RefsOfBase(I) == UNION {{<<"b", i, j>> : j \in Pastes(Objs[i])} : i \in I}
MutRefs(kk) == UNION {{<<"m", i, j>> : j \in Pastes(MutObjs(kk)[i])} : i \in 1..Len(MutObjs(kk))}
AllRefs(kk) == RefsOfBase({i \in 1..Len(Objs) : Live(kk, i)}) \cup MutRefs(kk)
ByName(kk, n) == RefsOfBase({i \in BaseIds(n) : Live(kk, i)})
                 \cup {r \in MutRefs(kk) : MutObjs(kk)[r[2]].name = n}

(* Locality: replacing the objects of one file can change the verdict of a rule only for the new  *)
(* objects, for objects sharing a name with an old or new object of that file (clash rule) and for *)
(* objects that declare a member of such a name (lookup rules).  Every rule below looks only at    *)
(* one object, the objects its declarations name, and its namesakes.                               *)
Touched(kk) == {Objs[i].name : i \in {j \in 1..Len(Objs) : Objs[j].file = MutFile(kk)}}
               \cup {MutObjs(kk)[i].name : i \in 1..Len(MutObjs(kk))}
Relevant(kk) == MutRefs(kk)
                \cup RefsOfBase({i \in UNION {BaseIds(n) \cup UserIds(n) : n \in Touched(kk)} : Live(kk, i)})
Scope(kk, full) == IF kk = 0 \/ full THEN AllRefs(kk) ELSE Relevant(kk)

World(kk, r) == LET o == O(kk, r) IN Norm(ToSet(o.wv) \cup (IF r[3] = 0 THEN {} ELSE {o.pv[r[3]]}))
Login(kk, r) == Norm(ToSet(O(kk, r).lv))
VKind(kk, r) == CASE World(kk, r) # {} /\ Login(kk, r) = {} -> "world"
                  [] World(kk, r) = {} /\ Login(kk, r) # {} -> "login"
                  [] World(kk, r) # {} /\ Login(kk, r) # {} -> "both"
                  [] OTHER -> "none"

(* versioning-with-tags.md: a dependency must be "as specific or less specific" for EVERY version  *)
(* of its user ("versions must fully deliver what they promise").  A user that breaks the         *)
(* version-kind rules itself promises nothing: the lookup rules are not applied to it (Versioned). *)
Provides(kk, p, u) ==
    CASE VKind(kk, u) = "world" -> FulfillsAll(World(kk, p), World(kk, u))
      [] VKind(kk, u) = "login" -> FulfillsAll(Login(kk, p), Login(kk, u))
      [] OTHER -> FALSE
Resolve(kk, u, n) == {p \in ByName(kk, n) : Provides(kk, p, u)}
(* the rules that depend on lookup speak about objects that have one kind of version *)
Versioned(kk, u) == VKind(kk, u) \in {"world", "login"}

---------------------------------------------------------------------------
(* Syntax helpers *)
Builtin == {"u8", "u16", "u32", "u64", "i8", "i16", "i32", "i64", "u48", "f32", "Bool", "Bool32", "PackedGuid",
            "Guid", "NamedGuid", "DateTime", "CString", "SizedCString", "String", "UpdateMask",
            "MonsterMoveSplines", "AuraMask", "AchievementDoneArray", "AchievementInProgressArray",
            "EnchantMask", "InspectTalentGearMask", "Gold", "Population", "Level", "Level16", "Level32",
            "VariableItemRandomProperty", "AddonArray", "IpAddress", "Seconds", "Milliseconds", "Spell",
            "Spell16", "Item", "CacheMask"}
(* built-in types whose encoding has one fixed length (lang-spec table) *)
FixedBuiltin == {"u8", "u16", "u32", "u64", "i8", "i16", "i32", "i64", "u48", "f32", "Bool", "Bool32", "Guid",
                 "DateTime", "Gold", "Population", "Level", "Level16", "Level32", "IpAddress", "Seconds",
                 "Milliseconds", "Spell", "Spell16", "Item"}
Unsigned == {"u8", "u16", "u32", "u64", "u48"}
Signed   == {"i8", "i16", "i32", "i64"}
IntTypes == Unsigned \cup Signed
Width(t) == CASE t \in {"u8", "i8"} -> 1 [] t \in {"u16", "i16"} -> 2 [] t \in {"u32", "i32"} -> 4
              [] t = "u48" -> 6 [] t \in {"u64", "i64"} -> 8 [] OTHER -> 0
IsDefiner(o)   == o.kind \in {"enum", "flag"}
IsContainer(o) == ~IsDefiner(o)
IsWorldMsg(o)  == o.kind \in {"cmsg", "smsg", "msg"}

RECURSIVE AllDecls(_), ArmDecls(_), AllIfs(_), ArmIfs(_)
(* every declaration / every if statement of a member list, at any depth ("even across if statement blocks") *)
AllDecls(ms) ==
    IF Len(ms) = 0 THEN <<>>
    ELSE LET m == Head(ms) IN
         (CASE m.m = "decl" -> <<m>>
            [] m.m = "if"   -> ArmDecls(m.arms) \o AllDecls(m.els)
            [] m.m = "opt"  -> AllDecls(m.body)
            [] OTHER        -> <<>>) \o AllDecls(Tail(ms))
ArmDecls(arms) == IF Len(arms) = 0 THEN <<>> ELSE AllDecls(Head(arms).body) \o ArmDecls(Tail(arms))
AllIfs(ms) ==
    IF Len(ms) = 0 THEN <<>>
    ELSE LET m == Head(ms) IN
         (CASE m.m = "if"  -> <<m>> \o ArmIfs(m.arms) \o AllIfs(m.els)
            [] m.m = "opt" -> AllIfs(m.body)
            [] OTHER       -> <<>>) \o AllIfs(Tail(ms))
ArmIfs(arms) == IF Len(arms) = 0 THEN <<>> ELSE AllIfs(Head(arms).body) \o ArmIfs(Tail(arms))

DeclsOf(o) == AllDecls(o.mem)
DeclNamed(o, n) == LET ds == DeclsOf(o) IN {ds[i] : i \in {j \in 1..Len(ds) : ds[j].name = n}}
ENames(e) == {e.enums[i].n : i \in 1..Len(e.enums)}
(* the definers a variable of container u may denote: the resolutions of its declared type *)
VarDefiners(kk, u, var) ==
    UNION {{p \in Resolve(kk, u, d.ty) : IsDefiner(O(kk, p))} : d \in DeclNamed(O(kk, u), var)}
(* "The variable name must be the same in all statements": the variable of an if statement is the one its first condition names *)
IfVar(ifm) == ifm.arms[1].conds[1].var
CondsOf(ifm) == UNION {ToSet(ifm.arms[a].conds) : a \in 1..Len(ifm.arms)}

---------------------------------------------------------------------------
(* The rules.  Each is a predicate "object r of program kk breaks the rule". *)

(* lang-spec Declaration: "<type> is either a built-in or user defined type"; versioning-with-tags *)
UnknownType(kk, r) ==
    LET o == O(kk, r) ds == DeclsOf(o) IN
    IsContainer(o) /\ Versioned(kk, r) /\ \E i \in 1..Len(ds) : ds[i].ty \notin Builtin /\ Resolve(kk, r, ds[i].ty) = {}

(* C16: "recursive type": a container with a member of its own type *)
RecursiveType(kk, r) ==
    LET o == O(kk, r) ds == DeclsOf(o) IN
    IsContainer(o) /\ \E i \in 1..Len(ds) : ds[i].ty = o.name

(* lang-spec If Statement: "<definer_enumerator> is a valid enumerator in the type of <variable_name>" *)
MissingEnumerator(kk, r) ==
    LET o == O(kk, r) ifs == AllIfs(o.mem) IN
    IsContainer(o) /\ Versioned(kk, r) /\ \E i \in 1..Len(ifs) :
        \E c \in CondsOf(ifs[i]) : \E d \in VarDefiners(kk, r, IfVar(ifs[i])) : c.val \notin ENames(O(kk, d))

(* enum: "only one value is valid" - compared with == / != ; flag: "several values are valid at the same time" - tested with & *)
EnumWithAnd(kk, r) ==
    LET o == O(kk, r) ifs == AllIfs(o.mem) IN
    IsContainer(o) /\ Versioned(kk, r) /\ \E i \in 1..Len(ifs) :
        \E c \in CondsOf(ifs[i]) : c.op = "&" /\ \E d \in VarDefiners(kk, r, IfVar(ifs[i])) : O(kk, d).kind = "enum"
FlagWithEquals(kk, r) ==
    LET o == O(kk, r) ifs == AllIfs(o.mem) IN
    IsContainer(o) /\ Versioned(kk, r) /\ \E i \in 1..Len(ifs) :
        \E c \in CondsOf(ifs[i]) : c.op \in {"==", "!="} /\ \E d \in VarDefiners(kk, r, IfVar(ifs[i])) : O(kk, d).kind = "flag"

(* versioning-with-tags "World and Login versions": an object has exactly one kind of version *)
NoVersion(kk, r)    == VKind(kk, r) = "none"
BothVersions(kk, r) == VKind(kk, r) = "both"

(* "There can not be two objects with the same name and the same version." *)
OverlappingVersions(kk, r) ==
    \E r2 \in ByName(kk, O(kk, r).name) :
        r2 # r /\ (Intersects(World(kk, r), World(kk, r2)) \/ Intersects(Login(kk, r), Login(kk, r2)))

(* "Two declarations ... in the same object must not have identical identifiers, even across if statement blocks." *)
DuplicateFieldNames(kk, r) ==
    LET o == O(kk, r) ds == DeclsOf(o) IN
    IsContainer(o) /\ \E i, j \in 1..Len(ds) : i < j /\ ds[i].name = ds[j].name

(* Definer: "<value> is a valid value" in one of the allowed number formats *)
InvalidEnumeratorValue(kk, r) ==
    LET o == O(kk, r) IN IsDefiner(o) /\ \E i \in 1..Len(o.enums) : o.enums[i].k = "bad"
(* "Enums can not have multiple names with the same value, while flags can." *)
DuplicateEnumeratorValues(kk, r) ==
    LET o == O(kk, r)
        good == {i \in 1..Len(o.enums) : o.enums[i].k # "bad"}
    IN o.kind = "enum" /\ Cardinality({<<o.enums[i].k, o.enums[i].le>> : i \in good}) < Cardinality(good)
(* the value must be representable in the base type: unsigned n-bit 0 .. 2^n - 1; signed n-bit: the  *)
(* documents give no usable bound (the table says "i32 ... max value 4294967296"), so the wide       *)
(* reading -2^(n-1) .. 2^n - 1 (any value that has an n-bit pattern) is taken for signed types.      *)
ZeroFrom(le, i) == \A j \in i..Len(le) : le[j] = 0
FitsMagnitude(le, w) == ZeroFrom(le, w + 1)                          \* < 2^(8w)
FitsNegative(le, w) == /\ ZeroFrom(le, w + 1)                         \* magnitude <= 2^(8w-1)
                       /\ (le[w] < 128 \/ (le[w] = 128 /\ \A j \in 1..(w - 1) : le[j] = 0))
InRange(e, base) ==
    CASE e.k = "int" -> FitsMagnitude(e.le, Width(base))
      [] e.k = "neg" -> base \in Signed /\ FitsNegative(e.le, Width(base))
      [] OTHER -> TRUE
EnumeratorOutOfRange(kk, r) ==
    LET o == O(kk, r) IN
    IsDefiner(o) /\ o.base \in IntTypes /\ \E i \in 1..Len(o.enums) : ~InRange(o.enums[i], o.base)
(* "<basic_type> is an integer type"; "Flags can not be signed types, while enums can." *)
InvalidBaseType(kk, r) == LET o == O(kk, r) IN IsDefiner(o) /\ o.base \notin IntTypes
FlagWithSignedType(kk, r) == LET o == O(kk, r) IN o.kind = "flag" /\ o.base \in Signed

(* If Statement: "The variable name must be the same in all statements." *)
MismatchedIfVariables(kk, r) ==
    LET o == O(kk, r) ifs == AllIfs(o.mem) IN
    IsContainer(o) /\ \E i \in 1..Len(ifs) : \E c \in CondsOf(ifs[i]) : c.var # IfVar(ifs[i])

(* Declaration: "The optional <upcast> is used for an enum"; "an integer type of larger size" *)
UnsupportedUpcast(kk, r) ==
    LET o == O(kk, r) ds == DeclsOf(o) IN
    IsContainer(o) /\ \E i \in 1..Len(ds) : ds[i].up # "" /\ ds[i].ty \in Builtin
UpcastNotLarger(kk, r) ==
    LET o == O(kk, r) ds == DeclsOf(o) IN
    IsContainer(o) /\ Versioned(kk, r) /\ \E i \in 1..Len(ds) :
        /\ ds[i].up \in IntTypes /\ ds[i].ty \notin Builtin
        /\ \E d \in Resolve(kk, r, ds[i].ty) :
              IsDefiner(O(kk, d)) /\ O(kk, d).base \in IntTypes /\ Width(ds[i].up) <= Width(O(kk, d).base)

(* C16 "misplaced self.size": the field set to self.size must sit at a fixed offset, i.e. every     *)
(* member before it has one fixed encoded length.                                                   *)
RECURSIVE FixedMembers(_, _, _, _)
FixedDecl(kk, u, d, fuel) ==
    /\ d.arr \in {"none", "fixed"}
    /\ \/ d.ty \in FixedBuiltin
       \/ /\ d.ty \notin Builtin
          /\ \A p \in Resolve(kk, u, d.ty) :
                IsDefiner(O(kk, p)) \/ (fuel > 0 /\ FixedMembers(kk, p, O(kk, p).mem, fuel - 1))
FixedMembers(kk, u, ms, fuel) ==
    \A i \in 1..Len(ms) : ms[i].m = "decl" /\ FixedDecl(kk, u, ms[i], fuel)
MisplacedSelfSize(kk, r) ==
    LET o == O(kk, r) IN
    IsContainer(o) /\ Versioned(kk, r) /\ \E i \in 1..Len(o.mem) :
        /\ o.mem[i].m = "decl" /\ o.mem[i].const = "self.size"
        /\ ~FixedMembers(kk, r, SubSeq(o.mem, 1, i - 1), 4)

(* C16 "message name/opcode not matching the opcode index": a world message that exists in one of   *)
(* the three indexed client versions must be listed there under its name with its opcode.           *)
IndexVersion(e) == CASE e = "vanilla" -> <<1, 12>> [] e = "tbc" -> <<2, 4, 3, 8606>> [] e = "wrath" -> <<3, 3, 5, 12340>>
Expansions == {"vanilla", "tbc", "wrath"}
EndsWith(s, suf) == Len(s) >= Len(suf) /\ SubSeq(s, Len(s) - Len(suf) + 1, Len(s)) = suf
(* MSG_X_Client / MSG_X_Server are the two directions of index entry MSG_X *)
RealName(n) == IF EndsWith(n, "_Client") THEN SubSeq(n, 1, Len(n) - 7)
               ELSE IF EndsWith(n, "_Server") THEN SubSeq(n, 1, Len(n) - 7) ELSE n
IndexOpcodeSets == [e \in Expansions |-> {OpIx[e][n] : n \in DOMAIN OpIx[e]}]    \* evaluated once
IndexOpcodes(e) == IndexOpcodeSets[e]
InExpansion(kk, r, e) == VKind(kk, r) = "world" /\ FulfillsAll(World(kk, r), {IndexVersion(e)})
WrongOpcode(kk, r) ==
    LET o == O(kk, r) IN
    IsWorldMsg(o) /\ \E e \in Expansions :
        InExpansion(kk, r, e) /\ RealName(o.name) \in DOMAIN OpIx[e] /\ OpIx[e][RealName(o.name)] # o.op
WrongNameInIndex(kk, r) ==
    LET o == O(kk, r) IN
    IsWorldMsg(o) /\ \E e \in Expansions :
        InExpansion(kk, r, e) /\ RealName(o.name) \notin DOMAIN OpIx[e] /\ o.op \in IndexOpcodes(e)
NotInIndex(kk, r) ==
    LET o == O(kk, r) IN
    IsWorldMsg(o) /\ \E e \in Expansions :
        InExpansion(kk, r, e) /\ RealName(o.name) \notin DOMAIN OpIx[e] /\ o.op \notin IndexOpcodes(e)

---------------------------------------------------------------------------
(* Rule table: name, exit status (error_printer/mod.rs), in the compiler's processing order:       *)
(* while reading each file; when definers are built; the clash check; per container; after output.  *)
Rules == <<
    [n |-> "invalid_enumerator_value",   code |-> 10],
    [n |-> "invalid_base_type",          code |-> 12],
    [n |-> "flag_with_signed_type",      code |-> 21],
    [n |-> "both_versions",              code |-> 16],
    [n |-> "no_version",                 code |-> 6],
    [n |-> "mismatched_if_variables",    code |-> 13],
    [n |-> "unsupported_upcast",         code |-> 14],
    [n |-> "duplicate_field_names",      code |-> 17],
    [n |-> "enumerator_out_of_range",    code |-> 22],
    [n |-> "duplicate_enumerator_values", code |-> 11],
    [n |-> "overlapping_versions",       code |-> 15],
    [n |-> "recursive_type",             code |-> 2],
    [n |-> "unknown_type",               code |-> 1],
    [n |-> "enum_with_and",              code |-> 4],
    [n |-> "flag_with_equals",           code |-> 5],
    [n |-> "misplaced_self_size",        code |-> 9],
    [n |-> "missing_enumerator",         code |-> 3],
    [n |-> "upcast_not_larger",          code |-> 20],
    [n |-> "wrong_opcode",               code |-> 7],
    [n |-> "wrong_name_in_index",        code |-> 19],
    [n |-> "not_in_index",               code |-> 18] >>

Breaks(rule, kk, r) ==
    CASE rule = "invalid_enumerator_value"    -> InvalidEnumeratorValue(kk, r)
      [] rule = "invalid_base_type"           -> InvalidBaseType(kk, r)
      [] rule = "flag_with_signed_type"       -> FlagWithSignedType(kk, r)
      [] rule = "both_versions"               -> BothVersions(kk, r)
      [] rule = "no_version"                  -> NoVersion(kk, r)
      [] rule = "mismatched_if_variables"     -> MismatchedIfVariables(kk, r)
      [] rule = "unsupported_upcast"          -> UnsupportedUpcast(kk, r)
      [] rule = "duplicate_field_names"       -> DuplicateFieldNames(kk, r)
      [] rule = "enumerator_out_of_range"     -> EnumeratorOutOfRange(kk, r)
      [] rule = "duplicate_enumerator_values" -> DuplicateEnumeratorValues(kk, r)
      [] rule = "overlapping_versions"        -> OverlappingVersions(kk, r)
      [] rule = "recursive_type"              -> RecursiveType(kk, r)
      [] rule = "unknown_type"                -> UnknownType(kk, r)
      [] rule = "enum_with_and"               -> EnumWithAnd(kk, r)
      [] rule = "flag_with_equals"            -> FlagWithEquals(kk, r)
      [] rule = "misplaced_self_size"         -> MisplacedSelfSize(kk, r)
      [] rule = "missing_enumerator"          -> MissingEnumerator(kk, r)
      [] rule = "upcast_not_larger"           -> UpcastNotLarger(kk, r)
      [] rule = "wrong_opcode"                -> WrongOpcode(kk, r)
      [] rule = "wrong_name_in_index"         -> WrongNameInIndex(kk, r)
      [] rule = "not_in_index"                -> NotInIndex(kk, r)

Violators(rule, kk, full) == {r \in Scope(kk, full) : Breaks(rule, kk, r)}
Violated(rule, kk, full) == \E r \in Scope(kk, full) : Breaks(rule, kk, r)

(* The closed forms the machine below is checked against. *)
ViolatedSet(kk, full) == {Rules[i].code : i \in {j \in 1..Len(Rules) : Violated(Rules[j].n, kk, full)}}
WellFormed(kk) == ViolatedSet(kk, FALSE) = {}
FirstOf(S) == IF S = {} THEN 0
              ELSE Rules[CHOOSE i \in 1..Len(Rules) : Rules[i].code \in S /\ \A j \in 1..(i - 1) : Rules[j].code \notin S].code
Diagnose(kk) == FirstOf(ViolatedSet(kk, FALSE))

---------------------------------------------------------------------------
(* The machine: program kk is taken through the rules one Check step at a time. *)
Init == k \in 0..Len(Muts) /\ pc = 1 /\ viol = {}

Check(rule) ==
    /\ pc <= Len(Rules) /\ Rules[pc].n = rule
    /\ viol' = IF Violated(rule, k, FALSE) THEN viol \cup {Rules[pc].code} ELSE viol
    /\ pc' = pc + 1
    /\ UNCHANGED k

CheckInvalidEnumeratorValue    == Check("invalid_enumerator_value")
CheckInvalidBaseType           == Check("invalid_base_type")
CheckFlagWithSignedType        == Check("flag_with_signed_type")
CheckBothVersions              == Check("both_versions")
CheckNoVersion                 == Check("no_version")
CheckMismatchedIfVariables     == Check("mismatched_if_variables")
CheckUnsupportedUpcast         == Check("unsupported_upcast")
CheckDuplicateFieldNames       == Check("duplicate_field_names")
CheckEnumeratorOutOfRange      == Check("enumerator_out_of_range")
CheckDuplicateEnumeratorValues == Check("duplicate_enumerator_values")
CheckOverlappingVersions       == Check("overlapping_versions")
CheckRecursiveType             == Check("recursive_type")
CheckUnknownType               == Check("unknown_type")
CheckEnumWithAnd               == Check("enum_with_and")
CheckFlagWithEquals            == Check("flag_with_equals")
CheckMisplacedSelfSize         == Check("misplaced_self_size")
CheckMissingEnumerator         == Check("missing_enumerator")
CheckUpcastNotLarger           == Check("upcast_not_larger")
CheckWrongOpcode               == Check("wrong_opcode")
CheckWrongNameInIndex          == Check("wrong_name_in_index")
CheckNotInIndex                == Check("not_in_index")

(* Accept / Reject: the terminal step; pc = Len(Rules) + 2 marks a finished program *)
Accept == pc = Len(Rules) + 1 /\ viol = {} /\ pc' = pc + 1 /\ UNCHANGED <<k, viol>>
Reject == pc = Len(Rules) + 1 /\ viol # {} /\ pc' = pc + 1 /\ UNCHANGED <<k, viol>>

Next == \/ CheckInvalidEnumeratorValue \/ CheckInvalidBaseType \/ CheckFlagWithSignedType
        \/ CheckBothVersions \/ CheckNoVersion \/ CheckMismatchedIfVariables \/ CheckUnsupportedUpcast
        \/ CheckDuplicateFieldNames \/ CheckEnumeratorOutOfRange \/ CheckDuplicateEnumeratorValues
        \/ CheckOverlappingVersions \/ CheckRecursiveType \/ CheckUnknownType \/ CheckEnumWithAnd
        \/ CheckFlagWithEquals \/ CheckMisplacedSelfSize \/ CheckMissingEnumerator \/ CheckUpcastNotLarger
        \/ CheckWrongOpcode \/ CheckWrongNameInIndex \/ CheckNotInIndex
        \/ Accept \/ Reject

Spec == Init /\ [][Next]_vars

Done == pc = Len(Rules) + 2

TypeOK == /\ k \in 0..Len(Muts) /\ pc \in 1..(Len(Rules) + 2)
          /\ viol \subseteq {Rules[i].code : i \in 1..Len(Rules)}

(* the real corpus is a well-formed program *)
CorpusWellFormed == (k = 0 /\ pc > 1) => viol = {}

(* locality lemma, checked on programs 1..FullN: restricting the rules to the objects a mutation  *)
(* can reach gives the same verdict as evaluating them on the whole program                        *)
LocalityHolds == (Done /\ k \in 1..FullN) => viol = ViolatedSet(k, TRUE)

SeqOfSet(S) == SetToSortSeq(S, <)
Record == [kind |-> "static", mut |-> IF k = 0 THEN 0 ELSE Muts[k].id,
           status |-> FirstOf(viol), violated |-> SeqOfSet(viol), ambiguous |-> Cardinality(viol) > 1,
           scope |-> Cardinality(Scope(k, FALSE))]
EmitRecord == Done => PrintT("REPLAY " \o ToJson(Record))

(* debugging aid (WS_DEBUG=1): which objects break which rule in the corpus *)
Why == [i \in 1..Len(Rules) |-> {O(0, r).name : r \in Violators(Rules[i].n, 0, FALSE)}]
ASSUME IOEnv.WS_DEBUG # "1" \/ PrintT(Why)
=============================================================================
