----------------------------- MODULE WowmTypes -----------------------------
(***************************************************************************)
(* Byte-level meaning of the wowm built-in types, transcribed from          *)
(* wowm_language/src/spec/lang-spec.md and wowm_language/src/types/*.md.    *)
(* Every value is a sequence of bytes (0..255); TLC integers are 32 bit, so *)
(* no wire integer wider than 31 bits is ever held as a number.             *)
(*                                                                          *)
(* `Pat*(k)` operators give the k-th canonical test pattern of a type: the   *)
(* walker (WowmWire) draws field values from them by profile rotation.      *)
(***************************************************************************)
EXTENDS Naturals, Sequences, FiniteSets, IOUtils

Byte == 0..255

RECURSIVE LE(_, _)
(* little-endian bytes of a natural n < 2^31 at width w *)
LE(n, w) == IF w = 0 THEN <<>> ELSE <<n % 256>> \o LE(n \div 256, w - 1)

RECURSIVE Rep(_, _)
Rep(b, n) == IF n = 0 THEN <<>> ELSE <<b>> \o Rep(b, n - 1)

Pow2(k) == CASE k = 0 -> 1 [] k = 1 -> 2 [] k = 2 -> 4 [] k = 3 -> 8
             [] k = 4 -> 16 [] k = 5 -> 32 [] k = 6 -> 64 [] k = 7 -> 128

RECURSIVE SumOfSet(_)
SumOfSet(S) == IF S = {} THEN 0 ELSE LET x == CHOOSE y \in S : TRUE IN x + SumOfSet(S \ {x})

(* bytes (width w) of the integer whose set bits are S (bit 0 = least significant) *)
BytesOfBits(S, w) ==
    [j \in 1..w |-> SumOfSet({Pow2(k) : k \in {kk \in 0..7 : (8 * (j - 1) + kk) \in S}})]

BitsOfByte(b) == {k \in 0..7 : (b \div Pow2(k)) % 2 = 1}
BitsOfBytes(bs) == UNION {{8 * (j - 1) + k : k \in BitsOfByte(bs[j])} : j \in 1..Len(bs)}

RevSeq(s) == [i \in 1..Len(s) |-> s[Len(s) + 1 - i]]

IsZero(bs) == \A i \in 1..Len(bs) : bs[i] = 0

(* ---- integer patterns ------------------------------------------------ *)
NIntPat == 6
IntPat(w, k) ==
    LET c == k % NIntPat IN
    CASE c = 0 -> Rep(0, w)
      [] c = 1 -> Rep(255, w)
      [] c = 2 -> <<1>> \o Rep(0, w - 1)
      [] c = 3 -> Rep(0, w - 1) \o <<128>>
      [] c = 4 -> Rep(255, w - 1) \o <<127>>
      [] c = 5 -> [i \in 1..w |-> (k + 16 * i) % 256]

(* a value inside an inclusive range lo..hi (both < 2^31), rotating through lo, hi, middle *)
RangePat(lo, hi, w, k) ==
    LET c == k % 3 IN
    LE(CASE c = 0 -> lo [] c = 1 -> hi [] c = 2 -> lo + ((hi - lo) \div 2), w)

BoolPat(w, k) == <<k % 2>> \o Rep(0, w - 1)

F32Pat(k) ==
    LET c == k % 6 IN
    CASE c = 0 -> <<0, 0, 0, 0>>            \* 0.0
      [] c = 1 -> <<0, 0, 128, 63>>         \* 1.0
      [] c = 2 -> <<0, 0, 0, 128>>          \* -0.0
      [] c = 3 -> <<255, 255, 127, 127>>    \* f32::MAX
      [] c = 4 -> <<121, 233, 246, 66>>     \* 123.456
      [] c = 5 -> <<0, 0, 200, 195>>        \* -400.0

(* DateTime (types/datetime.md): y<<24 | m<<20 | d<<14 | w<<11 | h<<6 | mi, all zero based, *)
(* weekday 0 = Sunday.  The instants below are valid per spec/DateTime.tla.                *)
DT(y, m, d, w, h, mi) == LE(m * 1048576 + d * 16384 + w * 2048 + h * 64 + mi, 3) \o <<y>>
DateTimePat(k) ==
    LET c == k % 5 IN
    CASE c = 0 -> DT(0, 0, 0, 6, 0, 0)        \* Sat 2000-01-01 00:00
      [] c = 1 -> DT(0, 1, 28, 2, 23, 59)     \* Tue 2000-02-29 23:59
      [] c = 2 -> DT(255, 11, 30, 1, 12, 30)  \* Mon 2255-12-31 12:30
      [] c = 3 -> DT(24, 1, 28, 4, 1, 1)      \* Thu 2024-02-29 01:01
      [] c = 4 -> DT(100, 0, 0, 5, 0, 1)      \* Fri 2100-01-01 00:01

(* ---- strings ---------------------------------------------------------- *)
(* UTF-8 contents without NUL *)
(* The sixth pattern is LONG (200 bytes): a size guard whose maximum was computed too small      *)
(* rejects it, which strings of a few bytes never show.                                         *)
\* (IOEnv.WOWM_LONGSTR overrides the length: C06 uses 256 / 257, the boundary of the login crate's
\* CString cap, where the three generated reader copies must still consume the same bytes)
LongLen == IF "WOWM_LONGSTR" \in DOMAIN IOEnv THEN atoi(IOEnv.WOWM_LONGSTR) ELSE 200
LongStr == [j \in 1..LongLen |-> 97 + (j % 26)]
StrPat(k) ==
    LET c == k % 6 IN
    CASE c = 0 -> <<>>
      [] c = 1 -> <<97>>                               \* "a"
      [] c = 2 -> <<72, 101, 108, 108, 111>>           \* "Hello"
      [] c = 3 -> <<195, 169, 226, 130, 172>>          \* "e-acute euro"
      [] c = 4 -> <<240, 157, 132, 158, 32, 120>>      \* "G-clef x"
      [] c = 5 -> LongStr

Trunc(s, n) == IF n > 0 /\ Len(s) > n THEN SubSeq(s, 1, n) ELSE s

(* ASCII-only patterns are used when a maximum_length tag could cut a multi-byte scalar *)
CStringOf(s) == s \o <<0>>
StringOf(s) == <<Len(s)>> \o s
SizedCStringOf(s) == LE(Len(s) + 1, 4) \o s \o <<0>>

(* ---- guids ------------------------------------------------------------ *)
GuidPat(k) ==
    LET c == k % 6 IN
    CASE c = 0 -> Rep(0, 8)
      [] c = 1 -> <<1>> \o Rep(0, 7)
      [] c = 2 -> <<8, 7, 6, 5, 4, 3, 2, 1>>
      [] c = 3 -> <<0, 222, 0, 173, 0, 0, 0, 0>>
      [] c = 4 -> Rep(0, 7) \o <<255>>
      [] c = 5 -> <<239, 190, 173, 222, 0, 0, 16, 241>>

(* types/packed-guid.md: mask byte, then the non-zero bytes in ascending significance *)
PackedGuidOf(g) ==
    LET nz == {i \in 1..8 : g[i] # 0}
        mask == SumOfSet({Pow2(i - 1) : i \in nz})
        RECURSIVE Collect(_)
        Collect(i) == IF i > 8 THEN <<>>
                      ELSE (IF g[i] # 0 THEN <<g[i]>> ELSE <<>>) \o Collect(i + 1)
    IN <<mask>> \o Collect(1)

(* ---- masks ------------------------------------------------------------ *)
(* population of a pattern mask with nbits bits *)
MaskPopPat(nbits, k) ==
    LET c == k % 4 IN
    CASE c = 0 -> {}
      [] c = 1 -> {0}
      [] c = 2 -> {0, nbits - 1}
      [] c = 3 -> {1, 7, 8, nbits - 2}

(* MonsterMoveSplines (types/monster-move-spline.md): u32 count, first spline 3 x f32, the   *)
(* others packed u32 (x: 11 bits, y: 11 bits, z: 10 bits, in quarter units).  The documented *)
(* conversion divides by 4 in integers, so only multiples of 4 are canonical components.     *)
PackedSpline(x4, y4, z4) ==
    \* value = x4*4 + (y4*4)*2^11 + (z4*4)*2^22 with x4,y4 < 512, z4 < 256 kept below 2^31 by z4 < 128
    LE(x4 * 4 + y4 * 8192 + z4 * 16777216, 4)

SplinesOf(n, k) ==
    LE(n, 4) \o
    (IF n = 0 THEN <<>>
     ELSE F32Pat(k) \o F32Pat(k + 1) \o F32Pat(k + 4) \o
          (IF n = 1 THEN <<>>
           ELSE PackedSpline(1 + (k % 7), 2, 3) \o (IF n = 2 THEN <<>> ELSE PackedSpline(0, 0, 0))))
=============================================================================
