SPECIFICATION Spec
INVARIANT TypeOK
INVARIANT SizeAgrees
INVARIANT EmitRecord
CHECK_DEADLOCK FALSE
