SPECIFICATION Spec
INVARIANT TypeOK
INVARIANT SizeAgrees
INVARIANT UniquelyDecodable
INVARIANT EmitRecord
CHECK_DEADLOCK FALSE
