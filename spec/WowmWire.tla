------------------------------ MODULE WowmWire ------------------------------
(***************************************************************************)
(* The wire meaning of a wowm container, written once as a state machine    *)
(* (the "wire walker") and instantiated by TLC for every message of the     *)
(* corpus: the object table produced by the independent front-end           *)
(* (tools/wowm_front.py, lowered by tools/lower.py) is loaded from JSON.    *)
(*                                                                          *)
(* One step per member of the definition: emit a primitive, emit an enum /  *)
(* flag value, take an if / else-if / else arm, enter / leave a struct,     *)
(* begin / continue / end an array, take or skip the optional tail.  A      *)
(* choice is a TLC branch iff it changes the STRUCTURE of the encoding      *)
(* (controlling enumerators and flag bits, array lengths, optional          *)
(* presence, zero / non-zero of NamedGuid-like types); all other values     *)
(* come from a profile rotation over per-type extreme patterns (WowmTypes). *)
(*                                                                          *)
(* Sources: wowm_language/src/spec/lang-spec.md, tags.md, compression.md,   *)
(* versioning-with-tags.md, types/*.md, ir/implementing_{login,world}.md.   *)
(***************************************************************************)
EXTENDS Naturals, Sequences, FiniteSets, TLC, Json, IOUtils, SequencesExt, WowmTypes

Objs    == ndJsonDeserialize(IOEnv.WOWM_OBJECTS)
Blks    == ndJsonDeserialize(IOEnv.WOWM_BLOCKS)
Index   == JsonDeserialize(IOEnv.WOWM_INDEX)
NShards == atoi(IOEnv.WOWM_NSHARDS)
Shard   == atoi(IOEnv.WOWM_SHARD)
NProf   == atoi(IOEnv.WOWM_NPROF)
MaxLen  == atoi(IOEnv.WOWM_MAXLEN)
Only    == IOEnv.WOWM_ONLY          \* "", one message name, or "@login" (all login messages)
Deep    == IOEnv.WOWM_DEEP = "1"    \* thorough: more flag subsets / enumerators
FaultMode == IF "WOWM_FAULTS" \in DOMAIN IOEnv THEN IOEnv.WOWM_FAULTS ELSE "0"       \* "0" | "c03" | "c04": also print fault records (see Fault families)
FaultEvery == IF "WOWM_FAULT_EVERY" \in DOMAIN IOEnv THEN atoi(IOEnv.WOWM_FAULT_EVERY) ELSE 1  \* faults are derived from every n-th behaviour
FaultPhase == IF "WOWM_FAULT_PHASE" \in DOMAIN IOEnv THEN atoi(IOEnv.WOWM_FAULT_PHASE) ELSE 0  \* which residue class (rotated by VERIF_SEED)

VARIABLES root, prof, stack, scopes, out, fi, regions, sizepos, sizew, phase, note, ev

vars == <<root, prof, stack, scopes, out, fi, regions, sizepos, sizew, phase, note, ev>>

---------------------------------------------------------------------------
(* Versions (versioning-with-tags.md): a pattern covers a version iff it is a prefix of it. *)
WorldCtx(e, v) == [world |-> TRUE, exp |-> e, ver |-> v, lv |-> 0]
LoginCtx(n)    == [world |-> FALSE, exp |-> "login", ver |-> <<>>, lv |-> n]
Ctxs == {WorldCtx("vanilla", <<1, 12>>), WorldCtx("tbc", <<2, 4, 3, 8606>>),
         WorldCtx("wrath", <<3, 3, 5, 12340>>)} \cup {LoginCtx(n) : n \in {2, 3, 5, 6, 7, 8}}

InCtx(o, c) ==
    IF c.world THEN o.all \/ \E i \in 1..Len(o.pats) : IsPrefix(o.pats[i], c.ver)
    ELSE o.lall \/ \E i \in 1..Len(o.lv) : o.lv[i] = c.lv

Resolvable(n, c) == n \in DOMAIN Index /\ \E i \in 1..Len(Index[n]) : InCtx(Objs[Index[n][i]], c)
Resolve(n, c) == Index[n][CHOOSE i \in 1..Len(Index[n]) : InCtx(Objs[Index[n][i]], c)]

IsMsg(o) == o.kind \in {"cmsg", "smsg", "msg", "clogin", "slogin"}
Dirs(o) == CASE o.kind \in {"cmsg", "clogin"} -> {"client"}
             [] o.kind \in {"smsg", "slogin"} -> {"server"}
             [] o.kind = "msg" -> {"client", "server"}
             [] OTHER -> {}

Roots == {r \in [id : 1..Len(Objs), ctx : Ctxs, dir : {"client", "server"}] :
            LET o == Objs[r.id] IN
            /\ IsMsg(o) /\ ~o.test /\ ~o.unimpl /\ ~o.skip
            /\ r.dir \in Dirs(o)
            /\ InCtx(o, r.ctx)
            /\ r.id % NShards = Shard
            /\ (Only = "" \/ o.name = Only \/ (Only = "@login" /\ ~r.ctx.world))}

---------------------------------------------------------------------------
(* Frames and scopes *)
BlkFrame(b, own) == [k |-> "blk", blk |-> b, pc |-> 1, own |-> own, left |-> 0, ety |-> "",
                     sent |-> FALSE, cpos |-> 0, avoid |-> FALSE, spos |-> 0, sw |-> 0, det |-> FALSE]
(* element of a sentinel-terminated array: its first field must not equal the sentinel *)
ElemFrame(b, avoid) == [BlkFrame(b, TRUE) EXCEPT !.avoid = avoid]
ArrFrame(ety, n, sent, cpos) == [k |-> "arr", blk |-> 0, pc |-> 0, own |-> FALSE, left |-> n,
                                 ety |-> ety, sent |-> sent, cpos |-> cpos, avoid |-> FALSE, spos |-> 0, sw |-> 0, det |-> FALSE]

Top == stack[Len(stack)]
Ins == Blks[Top.blk].ins[Top.pc]
Scope == scopes[Len(scopes)]
K == fi + prof

Bump(st) == [st EXCEPT ![Len(st)].pc = @ + 1]
(* Bounded branching: inside a deterministic frame (second and later elements of a struct array, *)
(* and everything nested in them) a choice point takes ONE option, picked by rotation on K.      *)
(* A bound on the product of choices of ONE behaviour (generated programs can put ten choice points *)
(* in a row): after DetAfter emitted fields the remaining choice points take one option each, by   *)
(* rotation.  Unset for the corpus (its messages are walked in full).                              *)
DetAfter == IF "WOWM_DET_AFTER" \in DOMAIN IOEnv THEN atoi(IOEnv.WOWM_DET_AFTER) ELSE 1000000
Det == Top.det \/ fi >= DetAfter
Pick(n) == IF Det THEN {(K % n) + 1} ELSE 1..n
PickLen(S) == IF Det THEN {CHOOSE x \in S : Cardinality({y \in S : y < x}) = K % Cardinality(S)} ELSE S
Push(st, f) == Append(st, [f EXCEPT !.det = (st[Len(st)].det \/ f.det)])
Info(tid, en, bits, n) == [tid |-> tid, en |-> en, bits |-> bits, n |-> n, free |-> {}]
Remember(i, info) ==
    IF i.cnt \/ i.ctl
    THEN [scopes EXCEPT ![Len(scopes)] = (i.name :> info) @@ @]
    ELSE scopes

SimpleTypes == {"u8", "i8", "u16", "i16", "u32", "i32", "u64", "i64", "u48", "f32", "Bool", "Bool32",
                "PackedGuid", "Guid", "DateTime", "CString", "SizedCString", "String", "Gold",
                "Population", "Level", "Level16", "Level32", "IpAddress", "Seconds", "Milliseconds",
                "Spell", "Spell16", "Item"}

IntLike(i, w, k) == IF i.hv THEN RangePat(i.vlo, i.vhi, w, k) ELSE IntPat(w, k)
StrFor(i, k) == IF i.maxlen > 0 THEN Trunc(StrPat(k % 3), i.maxlen) ELSE StrPat(k)

SimpleBytes(i, ty, k) ==
    CASE ty \in {"u8", "i8"} -> IntLike(i, 1, k)
      [] ty \in {"u16", "i16", "Spell16"} -> IntLike(i, 2, k)
      [] ty \in {"u32", "i32", "Gold", "Seconds", "Milliseconds", "Spell", "Item"} -> IntLike(i, 4, k)
      [] ty \in {"u64", "i64"} -> IntLike(i, 8, k)
      [] ty = "u48" -> IntLike(i, 6, k)
      [] ty = "Level" -> IntPat(1, k)
      [] ty = "Level16" -> IntPat(1, k) \o <<0>>
      [] ty = "Level32" -> IntPat(1, k) \o <<0, 0, 0>>
      [] ty = "Bool" -> BoolPat(1, k)
      [] ty = "Bool32" -> BoolPat(4, k)
      [] ty \in {"f32", "Population"} -> F32Pat(k)
      [] ty = "Guid" -> GuidPat(k)
      [] ty = "PackedGuid" -> PackedGuidOf(GuidPat(k))
      [] ty = "DateTime" -> DateTimePat(k)
      [] ty = "IpAddress" -> IntPat(4, k)
      [] ty = "CString" -> CStringOf(StrFor(i, k))
      [] ty = "SizedCString" -> SizedCStringOf(StrFor(i, k))
      [] ty = "String" -> StringOf(Trunc(StrFor(i, k), 255))      \* one length byte

IntWidth(ty) == CASE ty \in {"u8", "i8"} -> 1 [] ty \in {"u16", "i16"} -> 2
                  [] ty \in {"u32", "i32"} -> 4 [] ty \in {"u64", "i64"} -> 8 [] OTHER -> 0

RECURSIVE ConcatN(_, _, _, _)
(* n consecutive simple values of type ty starting at pattern index k *)
ConcatN(i, ty, k, n) == IF n = 0 THEN <<>> ELSE SimpleBytes(i, ty, k) \o ConcatN(i, ty, k + 1, n - 1)

---------------------------------------------------------------------------
(* Definers *)
ENames(e) == {e.enums[j].n : j \in 1..Len(e.enums)}
EByName(e, nm) == e.enums[CHOOSE j \in 1..Len(e.enums) : e.enums[j].n = nm]
Tested(i) == {i.tested[j] : j \in 1..Len(i.tested)}

(* Choices are SEQUENCES so that a deterministic frame (see Det below) can pick one by rotation. *)
SeqOfIdx(e, idxs) == [j \in 1..Len(idxs) |-> e.enums[idxs[j]].n]
RECURSIVE IdxFilter(_, _, _)
IdxFilter(e, P(_), j) == IF j > Len(e.enums) THEN <<>>
                         ELSE (IF P(e.enums[j].n) THEN <<j>> ELSE <<>>) \o IdxFilter(e, P, j + 1)

EnumChoices(i, e, k) ==
    IF i.ctl
    THEN LET t == Tested(i) \cap ENames(e)
             InT(nm) == nm \in t
             NotT(nm) == nm \notin t
             ts == SeqOfIdx(e, IdxFilter(e, InT, 1))
             us == SeqOfIdx(e, IdxFilter(e, NotT, 1))
         IN  IF Deep THEN ts \o us
             ELSE ts \o (IF us = <<>> THEN <<>> ELSE <<us[(k % Len(us)) + 1]>>)
    ELSE <<e.enums[(k % Len(e.enums)) + 1].n>>

FlagBits(f, S) == UNION {BitsOfBytes(EByName(f, nm).le) : nm \in S}

FlagChoices(i, f, k) ==
    IF i.ctl
    THEN LET t == Tested(i) \cap ENames(f)
             InT(nm) == nm \in t
             ts == SeqOfIdx(f, IdxFilter(f, InT, 1))
             (* every other single tested bit is accompanied by all the enumerators no condition   *)
             (* names: they do not change the structure, but a reader that compares the whole      *)
             (* value where the definition tests one bit takes another path                        *)
             u == ENames(f) \ t
         IN  << {} >> \o [j \in 1..Len(ts) |-> IF (j + k) % 2 = 0 THEN {ts[j]} ELSE {ts[j]} \cup u] \o << t >>
             \o (IF Deep THEN << ENames(f) >> \o [j \in 1..(Len(ts) - 1) |-> {ts[j], ts[j + 1]}] ELSE <<>>)
    ELSE LET c == k % 3 IN
         << CASE c = 0 -> {} [] c = 1 -> ENames(f) [] c = 2 -> {f.enums[(k % Len(f.enums)) + 1].n} >>

CondHolds(c, sc) ==
    LET info == sc[c.var] IN
    CASE c.cmp = "==" -> info.en = c.val
      [] c.cmp = "!=" -> info.en # c.val
      [] c.cmp = "&"  -> FlagBits(Objs[info.tid], {c.val}) \cap info.bits # {}
ArmHolds(a, sc) == \E j \in 1..Len(a.conds) : CondHolds(a.conds[j], sc)
FirstArm(i, sc) ==
    LET hs == {j \in 1..Len(i.arms) : ArmHolds(i.arms[j], sc)}
    IN IF hs = {} THEN 0 ELSE CHOOSE j \in hs : \A x \in hs : j <= x

---------------------------------------------------------------------------
(***************************************************************************)
(* Interval abstraction of the same walk (used by C09 and by the fixed-size *)
(* fault family of C04): the exact extremes of the length of a container    *)
(* over its whole conditional structure.  A choice is enumerated only where *)
(* it changes the structure (controlling enumerators, all subsets of the    *)
(* tested flag bits); everything else contributes its documented interval.  *)
(* INF stands for "unbounded" (a CString has no length limit in the         *)
(* language; an endless array is bounded only by the frame).                *)
(***************************************************************************)
INF == 100000000
Plus(a, b) == IF a >= INF \/ b >= INF THEN INF ELSE (IF a + b >= INF THEN INF ELSE a + b)
Times(n, a) == IF a >= INF \/ n >= INF THEN (IF n = 0 \/ a = 0 THEN 0 ELSE INF)
               ELSE (IF n > 0 /\ a > (INF \div n) THEN INF ELSE n * a)
IV(lo, hi) == [lo |-> lo, hi |-> hi]
IVAdd(x, y) == IV(Plus(x.lo, y.lo), Plus(x.hi, y.hi))
Min2(a, b) == IF a <= b THEN a ELSE b
Max2(a, b) == IF a >= b THEN a ELSE b
IVJoin(x, y) == IV(Min2(x.lo, y.lo), Max2(x.hi, y.hi))
RECURSIVE IVJoinAll(_)
IVJoinAll(S) == LET x == CHOOSE y \in S : TRUE IN IF S = {x} THEN x ELSE IVJoin(x, IVJoinAll(S \ {x}))

(* largest count a count field of width w (or valid_range) can announce *)
MaxCountOfWidth(w) == CASE w = 1 -> 255 [] w = 2 -> 65535 [] OTHER -> INF

RECURSIVE SizeOfType(_, _, _), SizeFrom(_, _, _, _), SizeOfBlockFresh(_, _)

(* interval of one value of builtin type ty *)
BuiltinIV(i, ty, c) ==
    CASE ty \in {"u8", "i8", "Bool", "Level"} -> IV(1, 1)
      [] ty \in {"u16", "i16", "Spell16", "Level16"} -> IV(2, 2)
      [] ty \in {"u32", "i32", "Gold", "Seconds", "Milliseconds", "Spell", "Item", "f32", "Population",
                 "Bool32", "Level32", "DateTime", "IpAddress"} -> IV(4, 4)
      [] ty \in {"u64", "i64", "Guid"} -> IV(8, 8)
      [] ty = "u48" -> IV(6, 6)
      [] ty = "PackedGuid" -> IV(1, 9)
      [] ty = "CString" -> IV(1, IF i.maxlen > 0 THEN i.maxlen + 1 ELSE INF)
      [] ty = "SizedCString" -> IV(5, IF i.maxlen > 0 THEN i.maxlen + 5 ELSE INF)
      [] ty = "String" -> IV(1, 256)
      [] ty = "NamedGuid" -> IV(8, INF)
      [] ty = "VariableItemRandomProperty" -> IV(4, 8)
      [] ty = "MonsterMoveSplines" -> IV(4, INF)
      [] ty = "AuraMask" -> IF c.exp = "vanilla" THEN IV(4, 4 + 32 * 2)
                             ELSE IV(8, Plus(8, Times(64, SizeOfType("Aura", c, 0).hi)))
      [] ty = "EnchantMask" -> IV(2, 2 + 16 * 2)
      [] ty = "CacheMask" -> IV(4, 4 + 32 * 4)
      [] ty = "InspectTalentGearMask" -> IV(4, Plus(4, Times(32, SizeOfType("InspectTalentGear", c, 0).hi)))
      [] ty = "UpdateMask" -> IV(1, INF)
      [] ty \in {"AchievementDoneArray", "AchievementInProgressArray"} -> IV(4, INF)
      [] ty = "AddonArray" -> IV(0, INF)

(* interval of one value of a (builtin or user) type name; upw = upcast width or 0 *)
SizeOfType(ty, c, upw) ==
    IF Resolvable(ty, c)
    THEN LET o == Objs[Resolve(ty, c)] IN
         IF o.kind \in {"enum", "flag"} THEN (IF upw > 0 THEN IV(upw, upw) ELSE IV(o.w, o.w))
         ELSE SizeOfBlockFresh(o.blk, c)
    ELSE BuiltinIV([maxlen |-> 0], ty, c)

SubsetsOf(S) == SUBSET S

(* Structural recursion: the interval of block b from instruction pc on, under env (function    *)
(* field name -> Info for the controlling / count fields of the enclosing container).  A field   *)
(* declared inside a conditional block is visible only inside that block, so its choices are    *)
(* enumerated over the remainder of that block only.                                            *)
SizeFrom(b, pc, env, c) ==
    LET ins == Blks[b].ins IN
    IF pc > Len(ins) THEN IV(0, 0)
    ELSE LET i == ins[pc]
             rest(e) == SizeFrom(b, pc + 1, e, c)
         IN CASE i.op = "decl" ->
                 IF i.arr # "none"
                 THEN LET el == IF i.builtin THEN BuiltinIV(i, i.ty, c) ELSE SizeOfType(i.ty, c, 0)
                          arr == CASE i.arr = "fixed" -> IV(Times(i.n, el.lo), Times(i.n, el.hi))
                                   [] i.arr = "var" -> IV(0, Times(env[i.cf].n, el.hi))
                                   [] i.arr = "endless" -> IV(0, INF)
                      IN IVAdd(IF i.comp THEN IV(4, INF) ELSE arr, rest(env))
                 ELSE IF i.builtin
                 THEN LET w == IntWidth(i.ty)
                          e2 == IF i.cnt
                                THEN (i.name :> Info(0, "", {}, IF i.hv THEN i.vhi ELSE MaxCountOfWidth(w))) @@ env
                                ELSE env
                      IN IVAdd(BuiltinIV(i, i.ty, c), rest(e2))
                 ELSE IF ~Resolvable(i.ty, c) THEN IV(0, INF)
                 ELSE LET tid == Resolve(i.ty, c)
                          o == Objs[tid]
                      IN IF o.kind = "struct" THEN IVAdd(SizeOfBlockFresh(o.blk, c), rest(env))
                         ELSE LET w == IF i.upw > 0 THEN i.upw ELSE o.w IN
                              IF ~i.ctl THEN IVAdd(IV(w, w), rest(env))
                              ELSE IF o.kind = "enum"
                              THEN IVAdd(IV(w, w),
                                         IVJoinAll({rest((i.name :> Info(tid, nm, {}, 0)) @@ env) : nm \in ENames(o)}))
                              ELSE IVAdd(IV(w, w),
                                         LET free == {i.free[j] : j \in 1..Len(i.free)} \cap ENames(o) IN
                                         IVJoinAll({rest((i.name :> [Info(tid, "", FlagBits(o, S), 0) EXCEPT !.free = free]) @@ env) :
                                                    S \in SubsetsOf((Tested(i) \cap ENames(o)) \ free)}))
              [] i.op = "if" ->
                 LET a == FirstArm(i, env)
                     indep == /\ Len(i.arms) = 1 /\ i.els = 0 /\ Len(i.arms[1].conds) = 1
                              /\ i.arms[1].conds[1].cmp = "&"
                              /\ i.arms[1].conds[1].val \in env[i.arms[1].conds[1].var].free
                 IN
                 (* a flag bit tested only by plain independent ifs: taken or not, independently *)
                 IF indep THEN IVAdd(IVJoin(IV(0, 0), SizeFrom(i.arms[1].blk, 1, env, c)), rest(env))
                 ELSE IF a > 0 THEN IVAdd(SizeFrom(i.arms[a].blk, 1, env, c), rest(env))
                 ELSE IF i.els > 0 THEN IVAdd(SizeFrom(i.els, 1, env, c), rest(env))
                 ELSE rest(env)
              [] i.op = "opt" ->
                 IVAdd(IVJoin(IV(0, 0), SizeFrom(i.blk, 1, env, c)), rest(env))
              [] i.op = "unimpl" -> IV(0, INF)

SizeOfBlockFresh(b, c) == SizeFrom(b, 1, <<>>, c)

(* extremes of the body of a container object in context c (message-level compression adds the *)
(* u32 decompressed size and makes the rest unpredictable)                                      *)
ContainerIV(o, c) ==
    IF o.comp THEN IV(4, INF) ELSE SizeOfBlockFresh(o.blk, c)

---------------------------------------------------------------------------
Init ==
    \E r \in Roots, p \in 0..(NProf - 1) :
        /\ root = r /\ prof = p
        /\ stack = <<BlkFrame(Objs[r.id].blk, TRUE)>>
        /\ scopes = << <<>> >>
        /\ out = <<>> /\ fi = 0 /\ regions = <<>> /\ sizepos = 0 /\ sizew = 0
        /\ phase = "enc" /\ note = "" /\ ev = <<>>

Running == phase = "enc" /\ stack # <<>>
AtIns == Running /\ Top.k = "blk" /\ Top.pc <= Len(Blks[Top.blk].ins)
AtDecl == AtIns /\ Ins.op = "decl"

UserKind(i) == IF Resolvable(i.ty, root.ctx) THEN Objs[Resolve(i.ty, root.ctx)].kind ELSE "none"

EvName == IF Top.k = "blk" THEN Ins.name ELSE "[" \o Top.ety \o "]"
EvElemKind == IF Resolvable(Top.ety, root.ctx) THEN Objs[Resolve(Top.ety, root.ctx)].kind ELSE "none"
(* what kind of field an event is (used by the fault families of C03 / C04) *)
EvKind ==
    IF Top.k = "arr" THEN EvElemKind
    ELSE IF Ins.selfsize THEN "size"
    ELSE IF Ins.hasc THEN "const"
    ELSE IF Ins.arr # "none" THEN "array"
    ELSE IF Ins.cnt THEN "count"
    ELSE IF Ins.builtin THEN Ins.ty
    ELSE UserKind(Ins)
EvTid ==
    IF Top.k = "arr" THEN (IF EvElemKind \in {"enum", "flag"} THEN Resolve(Top.ety, root.ctx) ELSE 0)
    ELSE IF Ins.op = "decl" /\ ~Ins.builtin /\ Ins.arr = "none" /\ UserKind(Ins) \in {"enum", "flag"}
         THEN Resolve(Ins.ty, root.ctx) ELSE 0
Emit(bytes, st, sc) ==
    /\ out' = out \o bytes /\ stack' = st /\ scopes' = sc /\ fi' = fi + 1
    /\ ev' = Append(ev, [n |-> EvName, at |-> Len(out), len |-> Len(bytes), k |-> EvKind, tid |-> EvTid])
    /\ UNCHANGED <<root, prof, regions, sizepos, sizew, phase, note>>

Abort(why) ==
    /\ phase' = "skip" /\ note' = why
    /\ UNCHANGED <<root, prof, stack, scopes, out, fi, regions, sizepos, sizew, ev>>

(* ---- scalar declarations ---- *)
EmitConst ==
    /\ AtDecl /\ Ins.arr = "none" /\ Ins.hasc /\ ~Ins.selfsize
    /\ LET w == IntWidth(Ins.ty) IN
       Emit(SubSeq(Ins.cbytes, 1, w), Bump(stack), scopes)

EmitSelfSize ==
    /\ AtDecl /\ Ins.arr = "none" /\ Ins.selfsize
    /\ IF ~Top.own THEN Abort("self.size inside a conditional block")
       ELSE LET w == IntWidth(Ins.ty) IN
            /\ out' = out \o Rep(0, w)
            /\ stack' = [Bump(stack) EXCEPT ![Len(stack)].spos = Len(out) + 1, ![Len(stack)].sw = w]
            /\ fi' = fi + 1
            /\ UNCHANGED <<root, prof, scopes, regions, sizepos, sizew, phase, note, ev>>

EmitCount ==
    /\ AtDecl /\ Ins.arr = "none" /\ ~Ins.hasc /\ Ins.builtin /\ Ins.cnt
    /\ \E n \in PickLen({m \in 0..MaxLen : Ins.hv => (m >= Ins.vlo /\ m <= Ins.vhi)}) :
         /\ TRUE
         /\ Emit(LE(n, IntWidth(Ins.ty)), Bump(stack), Remember(Ins, Info(0, "", {}, n)))

EmitSimple ==
    /\ AtDecl /\ Ins.arr = "none" /\ ~Ins.hasc /\ Ins.builtin /\ ~Ins.cnt
    /\ Ins.ty \in SimpleTypes
    /\ LET raw == SimpleBytes(Ins, Ins.ty, K)
           b == IF Top.avoid /\ Top.pc = 1 /\ raw = Rep(255, Len(raw))
                THEN <<254>> \o Rep(255, Len(raw) - 1) ELSE raw
       IN Emit(b, Bump(stack), scopes)

EmitNamedGuid ==
    /\ AtDecl /\ Ins.arr = "none" /\ Ins.ty = "NamedGuid"
    /\ \E c \in Pick(2) :
         IF c = 1 THEN Emit(Rep(0, 8), Bump(stack), scopes)
         ELSE Emit(GuidPat(1 + (K % 5)) \o CStringOf(StrPat(K % 5)), Bump(stack), scopes)

EmitVarItemRandomProp ==
    /\ AtDecl /\ Ins.arr = "none" /\ Ins.ty = "VariableItemRandomProperty"
    /\ \E c \in Pick(2) :
         IF c = 1 THEN Emit(Rep(0, 4), Bump(stack), scopes)
         ELSE Emit(IntPat(4, 1 + (K % 5)) \o IntPat(4, K), Bump(stack), scopes)

EmitSplines ==
    /\ AtDecl /\ Ins.arr = "none" /\ Ins.ty = "MonsterMoveSplines"
    /\ \E n \in PickLen(0..MaxLen) : Emit(SplinesOf(n, K), Bump(stack), scopes)

(* masks whose members are plain integers: pattern, then one member per set bit *)
SimpleMask(pw, mw, pop, k) ==
    BytesOfBits(pop, pw) \o ConcatN([hv |-> FALSE, maxlen |-> 0], IF mw = 2 THEN "u16" ELSE "u32", k, Cardinality(pop))

EmitSimpleMask ==
    /\ AtDecl /\ Ins.arr = "none"
    /\ \/ Ins.ty = "AuraMask" /\ root.ctx.exp = "vanilla"
          /\ Emit(SimpleMask(4, 2, MaskPopPat(32, K), K), Bump(stack), scopes)
       \/ Ins.ty = "EnchantMask"
          /\ Emit(SimpleMask(2, 2, MaskPopPat(16, K), K), Bump(stack), scopes)
       \/ Ins.ty = "CacheMask"
          /\ Emit(SimpleMask(4, 4, MaskPopPat(32, K), K), Bump(stack), scopes)

(* masks whose members are structs of the corpus: pattern now, members through an array frame *)
EmitStructMask ==
    /\ AtDecl /\ Ins.arr = "none"
    /\ \/ /\ Ins.ty = "AuraMask" /\ root.ctx.exp \in {"tbc", "wrath"}
          /\ LET pop == MaskPopPat(64, K) IN
             Emit(BytesOfBits(pop, 8), Push(Bump(stack), ArrFrame("Aura", Cardinality(pop), FALSE, 0)), scopes)
       \/ /\ Ins.ty = "InspectTalentGearMask"
          /\ LET pop == MaskPopPat(32, K) IN
             Emit(BytesOfBits(pop, 4),
                  Push(Bump(stack), ArrFrame("InspectTalentGear", Cardinality(pop), FALSE, 0)), scopes)

(* sentinel-terminated arrays (types/achievement-*-array.md) *)
EmitSentinelArray ==
    /\ AtDecl /\ Ins.arr = "none" /\ Ins.ty \in {"AchievementDoneArray", "AchievementInProgressArray"}
    /\ \E n \in 0..MaxLen :
         /\ stack' = Append(Bump(stack),
                            ArrFrame(IF Ins.ty = "AchievementDoneArray" THEN "AchievementDone"
                                     ELSE "AchievementInProgress", n, TRUE, 0))
         /\ UNCHANGED <<root, prof, scopes, out, fi, regions, sizepos, sizew, phase, note, ev>>

(* UpdateMask (types/update-mask.md): u8 block count, the u32 mask blocks, one u32 per set bit in *)
(* ascending bit order.  Inside messages only masks that carry OBJECT_TYPE (bit 2) with a defined *)
(* type value are canonical (the object kind is derived from it).                                *)
TypeVals == <<3, 7, 9, 25, 33, 65, 129>>   \* object|item, +container, object|unit, +player, gameobject, dynamicobject, corpse
UpdateMaskPat(k) ==
    LET c == k % 3
        tyv == LE(TypeVals[(k % 7) + 1], 4)
    IN CASE c = 0 -> <<1>> \o LE(7, 4) \o GuidPat(k) \o tyv
         [] c = 1 -> <<2>> \o LE(7, 4) \o LE(2, 4) \o GuidPat(k) \o tyv \o IntPat(4, k)
         [] c = 2 -> <<1>> \o LE(4, 4) \o tyv

EmitUpdateMask ==
    /\ AtDecl /\ Ins.arr = "none" /\ Ins.ty = "UpdateMask"
    /\ Emit(UpdateMaskPat(K), Bump(stack), scopes)

Unsupported ==
    /\ AtDecl /\ Ins.builtin
    /\ Ins.ty \in {"AddonArray"}
    /\ Abort("builtin " \o Ins.ty)

(* ---- user types ---- *)
EnumWidth(i, e) == IF i.upw > 0 THEN i.upw ELSE e.w

EmitEnum ==
    /\ AtDecl /\ Ins.arr = "none" /\ ~Ins.builtin /\ UserKind(Ins) = "enum"
    /\ LET tid == Resolve(Ins.ty, root.ctx)
           e == Objs[tid]
           ch == EnumChoices(Ins, e, K)
       IN \E c \in Pick(Len(ch)) :
            Emit(SubSeq(EByName(e, ch[c]).le, 1, EnumWidth(Ins, e)), Bump(stack),
                 Remember(Ins, Info(tid, ch[c], {}, 0)))

EmitFlag ==
    /\ AtDecl /\ Ins.arr = "none" /\ ~Ins.builtin /\ UserKind(Ins) = "flag"
    /\ LET tid == Resolve(Ins.ty, root.ctx)
           f == Objs[tid]
           ch == FlagChoices(Ins, f, K)
       IN \E c \in Pick(Len(ch)) :
            LET bits == FlagBits(f, ch[c]) IN
            Emit(BytesOfBits(bits, EnumWidth(Ins, f)), Bump(stack),
                 Remember(Ins, Info(tid, "", bits, 0)))

EnterStruct ==
    /\ AtDecl /\ Ins.arr = "none" /\ ~Ins.builtin /\ UserKind(Ins) = "struct"
    /\ LET s == Objs[Resolve(Ins.ty, root.ctx)] IN
       IF s.unimpl THEN Abort("unimplemented struct " \o s.name)
       ELSE /\ stack' = Push(Bump(stack), BlkFrame(s.blk, TRUE))
            /\ scopes' = Append(scopes, <<>>)
            /\ UNCHANGED <<root, prof, out, fi, regions, sizepos, sizew, phase, note, ev>>

UnknownType ==
    /\ AtDecl /\ ~Ins.builtin /\ UserKind(Ins) \notin {"enum", "flag", "struct"}
    /\ Abort("unresolved type " \o Ins.ty)

(* ---- arrays ---- *)
ArrLens(i) == CASE i.arr = "fixed" -> {i.n}
                [] i.arr = "var" -> {Scope[i.cf].n}
                [] i.arr = "endless" -> 0..MaxLen

ArrayPrim ==
    /\ AtDecl /\ Ins.arr # "none" /\ Ins.builtin /\ Ins.ty \in SimpleTypes
    /\ \E n \in PickLen(ArrLens(Ins)) :
         LET payload == ConcatN(Ins, Ins.ty, K, n) IN
         IF Ins.comp
         THEN /\ out' = out \o LE(Len(payload), 4) \o payload
              /\ regions' = Append(regions, [from |-> Len(out) + 5, to |-> Len(out) + 4 + Len(payload)])
              /\ stack' = Bump(stack) /\ fi' = fi + 1
              /\ ev' = ev \o <<[n |-> Ins.name \o ".decompressed_size", at |-> Len(out), len |-> 4, k |-> "size", tid |-> 0],
                               [n |-> Ins.name, at |-> Len(out) + 4, len |-> Len(payload), k |-> "array", tid |-> 0]>>
              /\ UNCHANGED <<root, prof, scopes, sizepos, sizew, phase, note>>
         ELSE Emit(payload, Bump(stack), scopes)

ArrayBegin ==
    /\ AtDecl /\ Ins.arr # "none" /\ ~(Ins.builtin /\ Ins.ty \in SimpleTypes)
    /\ \E n \in PickLen(ArrLens(Ins)) :
         /\ stack' = Push(Bump(stack), ArrFrame(Ins.ty, n, FALSE, IF Ins.comp THEN Len(out) + 1 ELSE 0))
         /\ out' = IF Ins.comp THEN out \o Rep(0, 4) ELSE out
         /\ UNCHANGED <<root, prof, scopes, fi, regions, sizepos, sizew, phase, note, ev>>

ElemKind == IF Resolvable(Top.ety, root.ctx) THEN Objs[Resolve(Top.ety, root.ctx)].kind ELSE "none"
DecLeft(st) == [st EXCEPT ![Len(st)].left = @ - 1, ![Len(st)].pc = @ + 1]
NoTags == [hv |-> FALSE, maxlen |-> 0, ctl |-> FALSE, cnt |-> FALSE, upw |-> 0, name |-> "",
           tested |-> <<>>]

ArrayNextStruct ==
    /\ Running /\ Top.k = "arr" /\ Top.left > 0 /\ ElemKind = "struct"
    /\ LET s == Objs[Resolve(Top.ety, root.ctx)] IN
       IF s.unimpl THEN Abort("unimplemented struct " \o s.name)
       ELSE /\ stack' = Push(DecLeft(stack), [ElemFrame(s.blk, Top.sent) EXCEPT !.det = Top.pc > 0])
            /\ scopes' = Append(scopes, <<>>)
            /\ UNCHANGED <<root, prof, out, fi, regions, sizepos, sizew, phase, note, ev>>

ArrayNextDefiner ==
    /\ Running /\ Top.k = "arr" /\ Top.left > 0 /\ ElemKind \in {"enum", "flag"}
    /\ LET d == Objs[Resolve(Top.ety, root.ctx)] IN
       IF ElemKind = "enum"
       THEN Emit(SubSeq(d.enums[(K % Len(d.enums)) + 1].le, 1, d.w), DecLeft(stack), scopes)
       ELSE Emit(BytesOfBits(FlagBits(d, FlagChoices(NoTags, d, K)[1]), d.w), DecLeft(stack), scopes)

ArrayNextOther ==
    /\ Running /\ Top.k = "arr" /\ Top.left > 0 /\ ElemKind = "none"
    /\ Abort("array element type " \o Top.ety)

ArrayEnd ==
    /\ Running /\ Top.k = "arr" /\ Top.left = 0
    /\ LET o1 == IF Top.sent THEN out \o <<255, 255, 255, 255>> ELSE out IN
       IF Top.cpos > 0
       THEN LET plen == Len(o1) - (Top.cpos + 3)
                lenb == LE(plen, 4)
            IN /\ out' = [j \in 1..Len(o1) |->
                            IF j >= Top.cpos /\ j < Top.cpos + 4 THEN lenb[j - Top.cpos + 1] ELSE o1[j]]
               /\ regions' = Append(regions, [from |-> Top.cpos + 4, to |-> Len(o1)])
       ELSE out' = o1 /\ regions' = regions
    /\ stack' = SubSeq(stack, 1, Len(stack) - 1)
    /\ UNCHANGED <<root, prof, scopes, fi, sizepos, sizew, phase, note, ev>>

(* ---- control ---- *)
TakeArm ==
    /\ AtIns /\ Ins.op = "if"
    /\ LET a == FirstArm(Ins, Scope) IN
       /\ a > 0
       /\ stack' = Push(Bump(stack), BlkFrame(Ins.arms[a].blk, FALSE))
    /\ UNCHANGED <<root, prof, scopes, out, fi, regions, sizepos, sizew, phase, note, ev>>

TakeElse ==
    /\ AtIns /\ Ins.op = "if" /\ FirstArm(Ins, Scope) = 0 /\ Ins.els > 0
    /\ stack' = Push(Bump(stack), BlkFrame(Ins.els, FALSE))
    /\ UNCHANGED <<root, prof, scopes, out, fi, regions, sizepos, sizew, phase, note, ev>>

SkipIf ==
    /\ AtIns /\ Ins.op = "if" /\ FirstArm(Ins, Scope) = 0 /\ Ins.els = 0
    /\ stack' = Bump(stack)
    /\ UNCHANGED <<root, prof, scopes, out, fi, regions, sizepos, sizew, phase, note, ev>>

(* A count field declared BEFORE the optional block whose array is declared IN it counts the     *)
(* elements that are present: in a canonical encoding it is 0 when the block is absent (the      *)
(* documents do not say; any other value could not be told from a present block by the count,    *)
(* and no value type can carry it).  So the block may be absent only if those counts are 0.      *)
OuterCountsZero(b) ==
    \A k \in 1..Len(Blks[b].ins) :
        LET j == Blks[b].ins[k] IN
        (j.op = "decl" /\ j.arr = "var" /\ j.cf \in DOMAIN Scope) => Scope[j.cf].n = 0

OptionalPresent ==
    /\ AtIns /\ Ins.op = "opt" /\ (1 \in Pick(2) \/ ~OuterCountsZero(Ins.blk))
    /\ stack' = Push(Bump(stack), BlkFrame(Ins.blk, FALSE))
    /\ UNCHANGED <<root, prof, scopes, out, fi, regions, sizepos, sizew, phase, note, ev>>

OptionalAbsent ==
    /\ AtIns /\ Ins.op = "opt" /\ 2 \in Pick(2) /\ OuterCountsZero(Ins.blk)
    /\ stack' = Bump(stack)
    /\ UNCHANGED <<root, prof, scopes, out, fi, regions, sizepos, sizew, phase, note, ev>>

UnimplementedMember ==
    /\ AtIns /\ Ins.op = "unimpl"
    /\ Abort("unimplemented member")

(* lang-spec: a field set to self.size holds the number of bytes of its container that follow it *)
Patched(o, pos, w) ==
    IF pos = 0 THEN o
    ELSE LET v == LE(Len(o) - (pos + w - 1), w)
         IN [j \in 1..Len(o) |-> IF j >= pos /\ j < pos + w THEN v[j - pos + 1] ELSE o[j]]

LeaveBlock ==
    /\ Running /\ Top.k = "blk" /\ Top.pc > Len(Blks[Top.blk].ins)
    /\ stack' = SubSeq(stack, 1, Len(stack) - 1)
    /\ scopes' = IF Top.own THEN SubSeq(scopes, 1, Len(scopes) - 1) ELSE scopes
    /\ out' = Patched(out, Top.spos, Top.sw)
    /\ UNCHANGED <<root, prof, fi, regions, sizepos, sizew, phase, note, ev>>

Finish ==
    /\ phase = "enc" /\ stack = <<>>
    /\ phase' = "done"
    /\ UNCHANGED <<root, prof, stack, scopes, out, fi, regions, sizepos, sizew, note, ev>>

Next ==
    \/ EmitConst \/ EmitSelfSize \/ EmitCount \/ EmitSimple \/ EmitNamedGuid
    \/ EmitVarItemRandomProp \/ EmitSplines \/ EmitSimpleMask \/ EmitStructMask
    \/ EmitSentinelArray \/ EmitUpdateMask \/ Unsupported
    \/ EmitEnum \/ EmitFlag \/ EnterStruct \/ UnknownType
    \/ ArrayPrim \/ ArrayBegin \/ ArrayNextStruct \/ ArrayNextDefiner \/ ArrayNextOther \/ ArrayEnd
    \/ TakeArm \/ TakeElse \/ SkipIf \/ OptionalPresent \/ OptionalAbsent \/ UnimplementedMember
    \/ LeaveBlock \/ Finish

Spec == Init /\ [][Next]_vars

---------------------------------------------------------------------------
(* The finished frame (ir/implementing_world.md, implementing_login.md). *)
RootObj == Objs[root.id]

(* login: self.size counts the bytes after the size field *)
Body ==
    LET o1 == IF sizepos = 0 THEN out
              ELSE LET v == LE(Len(out) - (sizepos + sizew - 1), sizew)
                   IN [j \in 1..Len(out) |-> IF j >= sizepos /\ j < sizepos + sizew
                                             THEN v[j - sizepos + 1] ELSE out[j]]
    IN IF RootObj.comp THEN LE(Len(o1), 4) \o o1 ELSE o1

BodyRegions ==
    IF RootObj.comp THEN <<[from |-> 5, to |-> Len(out) + 4]>> ELSE regions

OpLen == IF ~root.ctx.world THEN 1 ELSE IF root.dir = "client" THEN 4 ELSE 2

SizeField(n) ==
    IF root.ctx.exp = "wrath" /\ root.dir = "server" /\ n > 32767
    THEN <<128 + (n \div 65536), (n \div 256) % 256, n % 256>>
    ELSE <<(n \div 256) % 256, n % 256>>

Header ==
    IF root.ctx.world
    THEN SizeField(Len(Body) + OpLen) \o SubSeq(RootObj.op, 1, OpLen)
    ELSE SubSeq(RootObj.op, 1, 1)

Record ==
    [kind |-> "codec", id |-> root.id, name |-> RootObj.name, exp |-> root.ctx.exp, lv |-> root.ctx.lv,
     dir |-> root.dir, prof |-> prof, hdr |-> Header, body |-> Body, regions |-> BodyRegions,
     msgcomp |-> RootObj.comp, ev |-> ev]

TypeOK ==
    /\ phase \in {"enc", "done", "skip"}
    /\ \A j \in 1..Len(out) : out[j] \in 0..255
    /\ Len(scopes) >= 0

(* SizeAgrees: the header's size field equals the number of bytes after it (2-byte form here) *)
SizeAgrees ==
    (phase = "done" /\ root.ctx.world /\ Len(Body) + OpLen <= 32767) =>
        Header[1] * 256 + Header[2] = Len(Body) + OpLen

---------------------------------------------------------------------------
(***************************************************************************)
(* Decoder of the definition: the mirror of the walk above as a recursive   *)
(* operator.  Dec(obj, ctx, body) reads `body` the way the definition says - *)
(* widths from the types, enumerators and flag bits from the bytes read,    *)
(* array counts from count fields, endless arrays and the optional tail from *)
(* the remaining length - and returns the field events it consumed, or the  *)
(* reason it failed.  Used for: UniquelyDecodable (every encoding the walker *)
(* produces decodes to the same field events), validation of byte strings   *)
(* the model did NOT choose (corpus test vectors, documentation examples).  *)
(***************************************************************************)
DeclSet(d, w) == {SubSeq(d.enums[j].le, 1, w) : j \in 1..Len(d.enums)}
DSt(pos, evs) == [ok |-> TRUE, why |-> "", pos |-> pos, ev |-> evs]
DFail(st, why) == [st EXCEPT !.ok = FALSE, !.why = why]
DEv(n, at, len, k, tid) == [n |-> n, at |-> at, len |-> len, k |-> k, tid |-> tid]
Bytes(inp, pos, n) == SubSeq(inp, pos + 1, pos + n)

(* value of up to 4 little-endian bytes as a number, INF if it does not fit 31 bits *)
ValLE(bs) ==
    IF Len(bs) > 4 /\ ~IsZero(SubSeq(bs, 5, Len(bs))) THEN INF
    ELSE IF Len(bs) >= 4 /\ bs[4] >= 128 THEN INF
    ELSE (IF Len(bs) >= 1 THEN bs[1] ELSE 0) + (IF Len(bs) >= 2 THEN bs[2] * 256 ELSE 0)
         + (IF Len(bs) >= 3 THEN bs[3] * 65536 ELSE 0) + (IF Len(bs) >= 4 THEN bs[4] * 16777216 ELSE 0)

DTake(st, inp, n, name, k, tid) ==
    IF ~st.ok THEN st
    ELSE IF n >= INF \/ st.pos + n > Len(inp) THEN DFail(st, "end of input inside " \o name)
    ELSE [st EXCEPT !.pos = @ + n, !.ev = Append(@, DEv(name, st.pos, n, k, tid))]

PopCount(bs) == Cardinality(BitsOfBytes(bs))

(* first index >= pos + 1 holding a zero byte, 0 if none *)
FirstZero(inp, pos) ==
    LET zs == {j \in (pos + 1)..Len(inp) : inp[j] = 0}
    IN IF zs = {} THEN 0 ELSE CHOOSE j \in zs : \A x \in zs : j <= x

(* length in bytes of one value of a builtin type that does not need the corpus *)
SelfDelimited(ty, inp, pos, c) ==
    CASE ty \in {"u8", "i8", "Bool", "Level"} -> 1
      [] ty \in {"u16", "i16", "Spell16", "Level16"} -> 2
      [] ty \in {"u32", "i32", "Gold", "Seconds", "Milliseconds", "Spell", "Item", "f32", "Population",
                 "Bool32", "Level32", "DateTime", "IpAddress"} -> 4
      [] ty \in {"u64", "i64", "Guid"} -> 8
      [] ty = "u48" -> 6
      [] ty = "PackedGuid" -> IF pos + 1 > Len(inp) THEN INF ELSE 1 + PopCount(<<inp[pos + 1]>>)
      [] ty = "CString" -> LET z == FirstZero(inp, pos) IN IF z = 0 THEN INF ELSE z - pos
      [] ty = "SizedCString" -> IF pos + 4 > Len(inp) THEN INF
                                ELSE LET l == ValLE(Bytes(inp, pos, 4)) IN IF l = 0 THEN INF ELSE Plus(4, l)
      [] ty = "String" -> IF pos + 1 > Len(inp) THEN INF ELSE 1 + inp[pos + 1]
      [] ty = "NamedGuid" ->
            IF pos + 8 > Len(inp) THEN INF
            ELSE IF IsZero(Bytes(inp, pos, 8)) THEN 8
            ELSE LET z == FirstZero(inp, pos + 8) IN IF z = 0 THEN INF ELSE z - pos
      [] ty = "VariableItemRandomProperty" ->
            IF pos + 4 > Len(inp) THEN INF ELSE IF IsZero(Bytes(inp, pos, 4)) THEN 4 ELSE 8
      [] ty = "MonsterMoveSplines" ->
            IF pos + 4 > Len(inp) THEN INF
            ELSE LET n == ValLE(Bytes(inp, pos, 4)) IN
                 IF n = 0 THEN 4 ELSE Plus(4 + 12, Times(n - 1, 4))
      [] ty = "EnchantMask" -> IF pos + 2 > Len(inp) THEN INF ELSE 2 + 2 * PopCount(Bytes(inp, pos, 2))
      [] ty = "CacheMask" -> IF pos + 4 > Len(inp) THEN INF ELSE 4 + 4 * PopCount(Bytes(inp, pos, 4))
      [] ty = "AuraMask" -> IF c.exp # "vanilla" \/ pos + 4 > Len(inp) THEN INF
                             ELSE 4 + 2 * PopCount(Bytes(inp, pos, 4))
      [] ty = "UpdateMask" ->
            IF pos + 1 > Len(inp) THEN INF
            ELSE LET nb == inp[pos + 1] IN
                 IF pos + 1 + 4 * nb > Len(inp) THEN INF
                 ELSE 1 + 4 * nb + 4 * PopCount(Bytes(inp, pos + 1, 4 * nb))
      [] OTHER -> INF

RECURSIVE DecFrom(_, _, _, _, _, _), DecValue(_, _, _, _, _, _), DecElems(_, _, _, _, _, _), DecUntilEnd(_, _, _, _, _),
          DecSentinel(_, _, _, _)

(* one value of type name ty (builtin or user) at st.pos; nm is the event name *)
DecValue(ty, upw, nm, st, inp, c) ==
    IF ~st.ok THEN st
    ELSE IF Resolvable(ty, c)
    THEN LET tid == Resolve(ty, c)
             o == Objs[tid]
         IN IF o.kind \in {"enum", "flag"}
            THEN LET w == IF upw > 0 THEN upw ELSE o.w
                     s2 == DTake(st, inp, w, nm, o.kind, tid)
                 IN IF ~s2.ok THEN s2
                    ELSE IF o.kind = "enum" /\ Bytes(inp, st.pos, w) \notin DeclSet(o, w)
                    THEN DFail(s2, "undeclared enumerator in " \o nm)
                    ELSE s2
            ELSE IF o.unimpl THEN DFail(st, "unimplemented struct " \o o.name)
            ELSE DecFrom(o.blk, 1, <<>>, st, inp, c)
    ELSE IF ty = "AuraMask" /\ c.exp # "vanilla"
    THEN LET s2 == DTake(st, inp, 8, nm, ty, 0) IN
         IF ~s2.ok THEN s2 ELSE DecElems("Aura", PopCount(Bytes(inp, st.pos, 8)), nm, s2, inp, c)
    ELSE IF ty = "InspectTalentGearMask"
    THEN LET s2 == DTake(st, inp, 4, nm, ty, 0) IN
         IF ~s2.ok THEN s2 ELSE DecElems("InspectTalentGear", PopCount(Bytes(inp, st.pos, 4)), nm, s2, inp, c)
    ELSE IF ty \in {"AchievementDoneArray", "AchievementInProgressArray"}
    THEN DecSentinel(IF ty = "AchievementDoneArray" THEN "AchievementDone" ELSE "AchievementInProgress", st, inp, c)
    ELSE DTake(st, inp, SelfDelimited(ty, inp, st.pos, c), nm, ty, 0)

DecElems(ty, n, nm, st, inp, c) ==
    IF ~st.ok \/ n = 0 THEN st
    ELSE IF n >= INF THEN DFail(st, "count too large for " \o nm)
    ELSE DecElems(ty, n - 1, nm, DecValue(ty, 0, "[" \o ty \o "]", st, inp, c), inp, c)

DecUntilEnd(ty, nm, st, inp, c) ==
    IF ~st.ok \/ st.pos >= Len(inp) THEN st
    ELSE LET s2 == DecValue(ty, 0, "[" \o ty \o "]", st, inp, c) IN
         IF s2.ok /\ s2.pos = st.pos THEN DFail(s2, "empty element in endless array " \o nm)
         ELSE DecUntilEnd(ty, nm, s2, inp, c)

DecSentinel(ty, st, inp, c) ==
    IF ~st.ok THEN st
    ELSE IF st.pos + 4 > Len(inp) THEN DFail(st, "end of input before sentinel")
    ELSE IF Bytes(inp, st.pos, 4) = <<255, 255, 255, 255>> THEN DTake(st, inp, 4, "sentinel", "sentinel", 0)
    ELSE DecSentinel(ty, DecValue(ty, 0, "[" \o ty \o "]", st, inp, c), inp, c)

DecFrom(b, pc, env, st, inp, c) ==
    LET ins == Blks[b].ins IN
    IF ~st.ok \/ pc > Len(ins) THEN st
    ELSE LET i == ins[pc]
             rest(e, s2) == DecFrom(b, pc + 1, e, s2, inp, c)
         IN CASE i.op = "decl" ->
                 IF i.arr # "none"
                 THEN IF i.comp THEN DFail(st, "compressed array " \o i.name \o " (not inflatable in the model)")
                      ELSE LET s2 == CASE i.arr = "fixed" -> DecElems(i.ty, i.n, i.name, st, inp, c)
                                       [] i.arr = "var" -> DecElems(i.ty, env[i.cf].n, i.name, st, inp, c)
                                       [] i.arr = "endless" -> DecUntilEnd(i.ty, i.name, st, inp, c)
                           IN rest(env, s2)
                 ELSE IF i.builtin /\ (i.cnt \/ i.hasc)
                 THEN LET w == IntWidth(i.ty)
                          s2 == DTake(st, inp, w, i.name, IF i.selfsize THEN "size" ELSE IF i.hasc THEN "const" ELSE "count", 0)
                          e2 == IF i.cnt /\ s2.ok THEN (i.name :> Info(0, "", {}, ValLE(Bytes(inp, st.pos, w)))) @@ env ELSE env
                      IN rest(e2, s2)
                 ELSE LET s2 == DecValue(i.ty, i.upw, i.name, st, inp, c) IN
                      IF s2.ok /\ i.ctl /\ Resolvable(i.ty, c)
                      THEN LET tid == Resolve(i.ty, c)
                               o == Objs[tid]
                               w == IF i.upw > 0 THEN i.upw ELSE o.w
                               bs == Bytes(inp, st.pos, w)
                               info == IF o.kind = "enum"
                                       THEN Info(tid, o.enums[CHOOSE j \in 1..Len(o.enums) : SubSeq(o.enums[j].le, 1, w) = bs].n, {}, 0)
                                       ELSE Info(tid, "", BitsOfBytes(bs), 0)
                           IN rest((i.name :> info) @@ env, s2)
                      ELSE rest(env, s2)
              [] i.op = "if" ->
                 LET a == FirstArm(i, env) IN
                 IF a > 0 THEN rest(env, DecFrom(i.arms[a].blk, 1, env, st, inp, c))
                 ELSE IF i.els > 0 THEN rest(env, DecFrom(i.els, 1, env, st, inp, c))
                 ELSE rest(env, st)
              [] i.op = "opt" ->
                 IF st.pos < Len(inp) THEN rest(env, DecFrom(i.blk, 1, env, st, inp, c)) ELSE rest(env, st)
              [] i.op = "unimpl" -> DFail(st, "unimplemented member")

(* decode a whole body; accepted iff everything was consumed *)
Dec(o, c, body) ==
    LET r == DecFrom(o.blk, 1, <<>>, DSt(0, <<>>), body, c) IN
    IF r.ok /\ r.pos # Len(body) THEN DFail(r, "bytes left over") ELSE r

---------------------------------------------------------------------------
(***************************************************************************)
(* Fault families.  A fault is a canonical encoding altered at ONE chosen   *)
(* place.  C04 (specified faults - the decoder of the definition must fail  *)
(* in a specified way): an enum-typed field carrying, at its full wire      *)
(* width, a number that is not a declared value; a constant-sized message   *)
(* with a different body length; an opcode not defined for the direction    *)
(* and version.  C03 (totality - any outcome but a crash): every field set  *)
(* to extreme patterns, truncation at every field boundary with and without *)
(* a consistent header, trailing garbage, corrupt compressed payloads.      *)
(***************************************************************************)
SetField(b, e, nb) == [j \in 1..Len(b) |-> IF j > e.at /\ j <= e.at + e.len THEN nb[j - e.at] ELSE b[j]]

LessLE(a, b) == \E i \in 1..Len(a) : a[i] < b[i] /\ \A j \in (i + 1)..Len(a) : a[j] = b[j]
RECURSIVE IncLE(_)
IncLE(b) == IF b = <<>> THEN <<>>
            ELSE IF b[1] < 255 THEN <<b[1] + 1>> \o Tail(b) ELSE <<0>> \o IncLE(Tail(b))


BadEnumValues(d, w) ==
    LET D == DeclSet(d, w)
        mx == CHOOSE x \in D : \A y \in D : ~LessLE(x, y)
        gaps == {n \in 0..Len(d.enums) : LE(n, w) \notin D}   \* pigeonhole: one of them is undeclared
        gap == IF gaps = {} THEN {} ELSE {LE(CHOOSE n \in gaps : \A m \in gaps : n <= m, w)}
        alias == IF w > d.w
                 THEN {[x EXCEPT ![d.w + 1] = 1] : x \in D}      \* declared value + 2^(8 * base width)
                 ELSE {}
    IN ({Rep(255, w), IncLE(mx)} \cup gap \cup alias) \ D

HeaderFor(n) ==
    IF root.ctx.world THEN SizeField(n + OpLen) \o SubSeq(RootObj.op, 1, OpLen)
    ELSE SubSeq(RootObj.op, 1, 1)

FaultBase(fk, site, hdr, body, outcome, val) ==
    [kind |-> "fault", fk |-> fk, site |-> site, id |-> root.id, name |-> RootObj.name, exp |-> root.ctx.exp,
     lv |-> root.ctx.lv, dir |-> root.dir, prof |-> prof, hdr |-> hdr, body |-> body, regions |-> BodyRegions,
     msgcomp |-> RootObj.comp, outcome |-> outcome, val |-> val]

EnumEvents == {j \in 1..Len(ev) : ev[j].k = "enum" /\ ev[j].tid > 0}

(* self.size fields and message-level compression shift offsets: events are body-relative only when *)
(* the body is the plain walk output                                                               *)
PlainBody == ~RootObj.comp

C04EnumFaults ==
    IF ~PlainBody THEN {}
    ELSE UNION {{FaultBase("enum", ev[j].n, Header, SetField(Body, ev[j], v), "err_enum", v) :
                    v \in BadEnumValues(Objs[ev[j].tid], ev[j].len)} : j \in EnumEvents}

(* the constant-sized (message, context) pairs are computed once by MCConst.tla and passed in *)
ConstRoots == IF "WOWM_CONST" \in DOMAIN IOEnv THEN JsonDeserialize(IOEnv.WOWM_CONST) ELSE <<>>
IsConstSized == root.ctx.world /\ PlainBody /\ regions = <<>>
                /\ \E j \in 1..Len(ConstRoots) : ConstRoots[j].id = root.id /\ ConstRoots[j].exp = root.ctx.exp

C04SizeFaults ==
    IF ~IsConstSized THEN {}
    ELSE LET b == Body IN
         {FaultBase("size", "longer", HeaderFor(Len(b) + 1), b \o <<0>>, "err_any", <<>>),
          FaultBase("size", "longer4", HeaderFor(Len(b) + 4), b \o <<0, 0, 0, 0>>, "err_any", <<>>)}
         \cup (IF Len(b) >= 1
                THEN {FaultBase("size", "shorter", HeaderFor(Len(b) - 1), SubSeq(b, 1, Len(b) - 1), "err_any", <<>>),
                      FaultBase("size", "empty", HeaderFor(0), <<>>, "err_any", <<>>)}
                ELSE {})

C03Patterns(w) == {Rep(0, w), Rep(255, w), <<1>> \o Rep(0, w - 1), Rep(255, w - 1) \o <<127>>, <<2>> \o Rep(0, w - 1)}

C03Faults ==
    IF ~PlainBody
    THEN {FaultBase("set", "decompressed_size", Header, SetField(Body, [at |-> 0, len |-> 4], v), "any", v) :
            v \in C03Patterns(4)}
    ELSE LET b == Body IN
         UNION {{FaultBase("set", ev[j].n, Header, SetField(b, ev[j], v), "any", v) :
                    v \in (IF ev[j].len = 0 THEN {} ELSE C03Patterns(ev[j].len))} : j \in 1..Len(ev)}
         \cup (IF regions # <<>> THEN {}
               ELSE {FaultBase("truncate", ev[j].n, HeaderFor(ev[j].at), SubSeq(b, 1, ev[j].at), "any", <<>>) : j \in 1..Len(ev)}
                    \cup {FaultBase("truncate_keep_header", ev[j].n, Header, SubSeq(b, 1, ev[j].at), "any", <<>>) : j \in 1..Len(ev)}
                    \cup {FaultBase("garbage", "tail", HeaderFor(Len(b) + 3), b \o <<255, 0, 7>>, "any", <<>>),
                          FaultBase("header_size", "plus1", HeaderFor(Len(b) + 1), b, "any", <<>>),
                          FaultBase("header_size", "zero", HeaderFor(0), b, "any", <<>>)})

(* an over-long unterminated string in place of a CString, the frame cut at every later boundary *)
Splice(b, e, nb, upto) == SubSeq(b, 1, e.at) \o nb \o SubSeq(b, e.at + e.len + 1, upto)
C03LongStrings ==
    IF ~PlainBody THEN {}
    ELSE LET b == Body
             strs == {j \in 1..Len(ev) : ev[j].k = "CString"}
             cuts(j) == {ev[k].at + ev[k].len : k \in j..Len(ev)} \cup {ev[k].at : k \in (j + 1)..Len(ev)}
             firstRegion == IF regions = <<>> THEN Len(b) + 1 ELSE regions[1].from
         IN UNION {UNION {{[FaultBase("long_string", ev[j].n, HeaderFor(Len(Splice(b, ev[j], Rep(65, n), cut))),
                                      Splice(b, ev[j], Rep(65, n), cut), "any", <<>>) EXCEPT !.regions = <<>>] :
                              cut \in {x \in cuts(j) : x < firstRegion}} : n \in {255, 256, 257}} : j \in strs}

FaultsDue == phase = "done" /\ prof = 0 /\ FaultMode # "0" /\ (Len(out) + root.id + FaultPhase) % FaultEvery = 0

FaultSet == IF FaultMode = "c04" THEN C04EnumFaults \cup C04SizeFaults ELSE C03Faults \cup C03LongStrings

(* undefined opcodes: around every defined one and at the extremes, per context and direction *)
OpInt(o, n) == IF n = 1 THEN o.op[1] ELSE o.op[1] + 256 * o.op[2]
DefinedOps(c, d) == {OpInt(Objs[i], IF c.world THEN 2 ELSE 1) :
                       i \in {k \in 1..Len(Objs) : IsMsg(Objs[k]) /\ ~Objs[k].test /\ InCtx(Objs[k], c) /\ d \in Dirs(Objs[k])}}
UndefinedOps(c, d) ==
    LET D == DefinedOps(c, d)
        top == IF c.world THEN 65535 ELSE 255
        cand == {n + 1 : n \in D} \cup {n - 1 : n \in {m \in D : m > 0}} \cup {0, top, top - 1}
    IN {n \in cand : n \notin D /\ n >= 0 /\ n <= top}
OpFault(c, d, n) ==
    [kind |-> "fault", fk |-> "opcode", site |-> "opcode", id |-> 0, name |-> "", exp |-> c.exp, lv |-> c.lv,
     dir |-> d, prof |-> 0,
     hdr |-> IF c.world
             THEN <<0, IF d = "client" THEN 4 ELSE 2>> \o LE(n, IF d = "client" THEN 4 ELSE 2)
             ELSE LE(n, 1),
     body |-> <<>>, regions |-> <<>>, msgcomp |-> FALSE, outcome |-> "err_opcode", val |-> LE(n, 4)]
(* a client header carries the opcode in 4 bytes: a defined opcode plus 2^16 / 2^24 is undefined too *)
OpFaultWide(c, n, hi) ==
    [OpFault(c, "client", n) EXCEPT !.hdr = <<0, 4>> \o LE(n, 2) \o hi, !.val = LE(n, 2) \o hi, !.site = "opcode_high_bytes"]
OpFaults ==
    UNION {UNION {{OpFault(c, d, n) : n \in UndefinedOps(c, d)} : d \in {"client", "server"}} : c \in Ctxs}
    \cup UNION {{OpFaultWide(c, n, hi) : n \in DefinedOps(c, "client"), hi \in {<<1, 0>>, <<0, 1>>}} :
                 c \in {cc \in Ctxs : cc.world}}

ASSUME (FaultMode = "c04" /\ Shard = 0) =>
         \A f \in OpFaults : PrintT("REPLAY " \o ToJson(f))

(* every encoding the walker produces is read back by the definition's own decoding rule: all of *)
(* it is consumed and every field boundary of the encoder is a field boundary of the decoder     *)
UniquelyDecodable ==
    (phase = "done" /\ PlainBody /\ regions = <<>>) =>
        LET r == Dec(RootObj, root.ctx, Body)
            starts == {r.ev[j].at : j \in 1..Len(r.ev)} \cup {Len(Body)}
        IN /\ r.ok
           /\ \A j \in 1..Len(ev) : ev[j].at \in starts

EmitRecord ==
    /\ (phase = "done") => PrintT("REPLAY " \o ToJson(Record))
    /\ FaultsDue => \A f \in FaultSet : PrintT("REPLAY " \o ToJson(f))
    /\ (phase = "skip") => PrintT("REPLAY " \o ToJson([kind |-> "skip", id |-> root.id, name |-> RootObj.name,
                                                       exp |-> root.ctx.exp, lv |-> root.ctx.lv, dir |-> root.dir,
                                                       why |-> note]))
=============================================================================
