SPECIFICATION Spec
INVARIANT TypeOK
INVARIANT SizeAgrees
INVARIANT UniquelyDecodable
CHECK_DEADLOCK FALSE
