#!/bin/sh
# Runs the repository's baseline test suite with the verification guard OFF and prints a summary.
cd /repo
cargo nextest run --workspace --no-fail-fast --tool-config-file pb:/w/lib/nextest.toml --profile pb --test-threads 8 --offline 2>&1 | grep -E "Summary|^\s+FAIL|error:" | sort -u
