#!/bin/sh
# Runs the repository's baseline test suite on a CLEAN checkout of /repo's HEAD (other agents keep
# uncommitted candidate patches in /repo's working tree). Guard OFF. Prints the summary line.
set -e
WT=/tmp/wowm-baseline-wt
git -C /repo worktree remove --force $WT 2>/dev/null || true
rm -rf $WT
git -C /repo worktree add -q --detach $WT HEAD
cd $WT
CARGO_TARGET_DIR=/verif/.cache/baseline-target cargo nextest run --workspace --no-fail-fast --tool-config-file pb:/w/lib/nextest.toml --profile pb --test-threads 8 --offline 2>&1 | grep -E "Summary|^\s+FAIL|error:" | sort -u
cd /
git -C /repo worktree remove --force $WT
