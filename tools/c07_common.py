"""Machinery of check C07 (tools/checks/c07.py): the path from a WowmGrammar program to freshly
generated, compiled codecs.

  grammar(n, ...)         runs spec/WowmGrammar.tla in simulation mode, returns distinct programs
  slots(corpus)           existing simple Vanilla world messages whose body a program may replace
  embed(ws, programs)     rewrites the slots' .wowm files in the scratch workspace `ws`
  generate(ws)            runs the real generator (hook H1) on `ws`
  write_harness / build_harness   second harness workspace /verif/harness_c07 linked to `ws`
  attribute_*             map a generator diagnostic / rustc error to the program that caused it

Nothing here knows what a program means: it moves text and names around.
"""
import collections
import json
import os
import random
import re
import shutil
import subprocess
import time

from tools import common as C
from tools import regen
from tools import wowm_front as F
from tools import wowm_print as P

GEN_TARGET = os.path.join(C.CACHE, "gen-target-C07")
GEN_BIN = os.path.join(GEN_TARGET, "debug", "wow_message_parser")
HARNESS = os.path.join(C.VERIF, "harness_c07")
HARNESS_TARGET = os.path.join(C.CACHE, "c07-harness-target")
JOBS = 6
VANILLA_PATTERNS = {"1", "1.12", "1.12.1"}
GRAMMAR_ENV = {"WG_MAXDEFS": 3, "WG_MAXSTRUCTS": 2, "WG_MAXSMEM": 4, "WG_MAXMMEM": 10}


# ----------------------------------------------------------------------------------------------
# grammar
# ----------------------------------------------------------------------------------------------

def grammar(n, tag="c07", seed=None, workers=4):
    """At least n distinct programs (fewer only if the simulation keeps repeating itself).
    Returns (programs, stats)."""
    progs, seen = [], set()
    stats = {"generated": 0, "walks": 0, "runs": 0, "wall": 0.0}
    s = C.seed() if seed is None else seed
    attempt = 0
    while len(progs) < n and attempt < 6:
        need = n - len(progs)
        per_worker = max(4, (need + need // 4) // workers + 1)
        res = C.run_tlc("WowmGrammar", workers=workers, simulate=per_worker, depth=200, env=GRAMMAR_ENV,
                        name="%s-grammar-%d" % (tag, attempt), timeout=600, seed_=s + 7919 * attempt, xmx="3g")
        stats["generated"] += res.generated
        stats["walks"] += len(res.replay)
        stats["runs"] += 1
        stats["wall"] += res.wall
        for r in res.replay:
            k = json.dumps(r, sort_keys=True)
            if k in seen:
                continue
            seen.add(k)
            progs.append(r)
        attempt += 1
    # deterministic order for a given seed: TLC workers print in a racy order
    progs.sort(key=lambda r: json.dumps(r, sort_keys=True))
    random.Random(s).shuffle(progs)
    return progs[:n], stats


SHAPE_RUNS = {
    # every if statement of <= 2 arms (+ else) over the menu {fixed 4, bounded 1..9, unbounded}, `==`
    "quick": [{"WS_MENU": 3, "WS_MAXARMS": 2, "WS_OPS": "eq", "WS_VARIANTS": "min"}],
    # the whole menu with all three operators, and three-arm statements over the small menu
    "thorough": [{"WS_MENU": 6, "WS_MAXARMS": 2, "WS_OPS": "all", "WS_VARIANTS": "min"},
                 {"WS_MENU": 3, "WS_MAXARMS": 3, "WS_OPS": "eq", "WS_VARIANTS": "min"},
                 {"WS_MENU": 2, "WS_MAXARMS": 2, "WS_OPS": "eq", "WS_VARIANTS": "all"}],
}


def shapes(tier, tag="c07"):
    """The exhaustive small-scope family of spec/WowmShapes.tla (breadth-first, complete).
    Returns (programs, stats); programs in a deterministic order, without duplicates."""
    progs, seen = [], set()
    stats = {"generated": 0, "distinct": 0, "runs": 0, "wall": 0.0, "bounds": SHAPE_RUNS[tier]}
    for k, env in enumerate(SHAPE_RUNS[tier]):
        res = C.run_tlc("WowmShapes", workers=1, env=env, name="%s-shapes-%d" % (tag, k), timeout=600)
        stats["generated"] += res.generated
        stats["distinct"] += res.distinct
        stats["runs"] += 1
        stats["wall"] += res.wall
        for r in res.replay:
            key = json.dumps(r, sort_keys=True)
            if key not in seen:
                seen.add(key)
                progs.append(r)
    progs.sort(key=lambda r: json.dumps(r, sort_keys=True))
    return progs, stats


# ----------------------------------------------------------------------------------------------
# slots
# ----------------------------------------------------------------------------------------------

def _handwritten_message_names():
    roots = ["wow_world_messages/src/helper", "wow_world_messages/src/manual", "wow_world_messages/src/util",
             "wow_world_messages/src/traits", "wow_world_messages/src/lib.rs", "wow_world_messages/src/errors.rs",
             "wow_world_messages/tests", "wow_world_messages/benches", "examples"]
    text = []
    for r in roots:
        p = os.path.join(C.REPO, r)
        if os.path.isfile(p):
            text.append(open(p, errors="replace").read())
            continue
        for dp, dn, fn in os.walk(p):
            for f in fn:
                if f.endswith(".rs") and f != "opcode_to_name.rs":
                    text.append(open(os.path.join(dp, f), errors="replace").read())
    for sub in ("vh", "vh_base"):
        d = os.path.join(C.HARNESS, sub, "src")
        for f in os.listdir(d):
            if f.endswith(".rs"):
                text.append(open(os.path.join(d, f), errors="replace").read())
    return set(re.findall(r"\b[CS]?MSG_[A-Za-z0-9_]+\b", "\n".join(text)))


def slots(corpus):
    """World cmsg / smsg objects that exist in Vanilla, live alone in their .wowm file, have no test
    attached, carry no special tag and are not named by hand-written Rust.  kind -> [object]."""
    tested = {o["name"] for o in corpus if o["kind"] == "test"}
    byfile = collections.Counter(o["file"] for o in corpus)
    named = _handwritten_message_names()
    out = {"cmsg": [], "smsg": []}
    for o in corpus:
        if o["kind"] not in out or o.get("corpus") != "world":
            continue
        t = o["tags"]
        if "paste_versions" in t or "versions" not in t:
            continue
        pats = [p for v in t["versions"] for p in v.split()]
        if "*" in pats or not (set(pats) & VANILLA_PATTERNS):
            continue
        if o["name"] in tested or o["name"] in named or byfile[o["file"]] != 1:
            continue
        if any(k in t for k in ("compressed", "test", "skip_codegen", "unimplemented", "login_versions")):
            continue
        out[o["kind"]].append(o)
    for k in out:
        out[k].sort(key=lambda o: o["name"])
    return out


def assign(programs, slot_table, seed, first=0):
    """program i -> slot of its kind (seeded). Returns list of dicts {idx, prog, slot, prefix, objs}.
    first: number of the first program (names stay unique over the batches of one run)."""
    rng = random.Random(seed)
    pools = {k: list(v) for k, v in slot_table.items()}
    for k in pools:
        rng.shuffle(pools[k])
    out = []
    for i, prog in enumerate(programs, first):
        pool = pools[prog["kind"]]
        if not pool:
            raise C.ToolError("not enough %s slots for the batch" % prog["kind"])
        slot = pool.pop()
        prefix = "Vf" + P.letters(i + 27).capitalize()     # VfAa, VfAb, ... (two letters up to 650 programs)
        objs = P.raise_program(prog, prefix, slot["name"], slot["opcode"])
        out.append({"idx": i, "prog": prog, "slot": slot, "prefix": prefix, "objs": objs})
    return out


def slot_file_text(entry):
    """The text that replaces the slot's .wowm file: the original object restricted to the other
    expansions (if any) followed by the program."""
    slot = entry["slot"]
    keep = [p for v in slot["tags"]["versions"] for p in v.split() if p not in VANILLA_PATTERNS]
    parts = ["/* C07: body of %s replaced by generated program %s */\n" % (slot["name"], entry["prefix"])]
    if keep:
        orig = json.loads(json.dumps({k: v for k, v in slot.items() if k not in ("file", "line", "corpus")}))
        orig["tags"]["versions"] = [" ".join(keep)]
        parts.append(P.print_object(orig))
    parts.append(P.print_objects(entry["objs"]))
    return "\n".join(parts)


def embed(ws, entries):
    for e in entries:
        path = os.path.join(ws, "wow_message_parser", "wowm", e["slot"]["file"])
        with open(path, "w") as f:
            f.write(slot_file_text(e))


def restore(ws, entries):
    """Puts the original .wowm text of the given slots back."""
    for e in entries:
        rel = os.path.join("wow_message_parser", "wowm", e["slot"]["file"])
        shutil.copy(os.path.join(C.REPO, rel), os.path.join(ws, rel))


# ----------------------------------------------------------------------------------------------
# generator
# ----------------------------------------------------------------------------------------------

def build_generator():
    t0 = time.time()
    e = C.cargo_env()
    e["RUSTFLAGS"] = "--cfg wowm_verif --check-cfg cfg(wowm_verif)"
    e["CARGO_TARGET_DIR"] = GEN_TARGET
    p = subprocess.run(["cargo", "build", "--offline", "-j", str(JOBS), "-p", "wow_message_parser"], cwd=C.REPO,
                       env=e, capture_output=True, text=True)
    if p.returncode != 0:
        raise C.ToolError("generator build failed:\n" + p.stderr[-4000:])
    C.log("[C07] generator built in %.1fs" % (time.time() - t0))
    return GEN_BIN


def generate(ws, timeout=900):
    e = dict(os.environ)
    e["WOWM_VERIF_WORKSPACE"] = ws
    for k in ("WOWM_VERIF_TRACE", "WOWM_VERIF_CRASH_AT", "WOWM_VERIF_CRASH_MODE"):
        e.pop(k, None)
    t0 = time.time()
    try:
        p = subprocess.run([GEN_BIN], cwd=ws, env=e, capture_output=True, text=True, errors="replace",
                           timeout=timeout)
        rc, out, err = p.returncode, p.stdout, p.stderr
    except subprocess.TimeoutExpired:
        rc, out, err = "timeout", "", ""
    return rc, out, err, time.time() - t0


def attribute_generator_failure(err, entries):
    """Entries whose names (slot, prefixed types, file) occur in the generator's diagnostic."""
    hit = []
    for e in entries:
        keys = [e["prefix"], e["prefix"].lower(), e["slot"]["name"], os.path.basename(e["slot"]["file"])]
        if any(k in err for k in keys):
            hit.append(e)
    return hit


# ----------------------------------------------------------------------------------------------
# second harness workspace, linked against the scratch crates
# ----------------------------------------------------------------------------------------------

def _write_if_changed(path, text):
    try:
        if open(path).read() == text:
            return
    except OSError:
        pass
    os.makedirs(os.path.dirname(path), exist_ok=True)
    with open(path, "w") as f:
        f.write(text)


def write_harness(ws):
    """/verif/harness_c07: `vh codec` reduced to Vanilla (derived from harness/vh/src/codec.rs at check
    time), path dependencies on the scratch workspace `ws`."""
    src = os.path.join(HARNESS, "vh7", "src")
    vh = os.path.join(C.HARNESS, "vh", "src")
    codec = open(os.path.join(vh, "codec.rs")).read()
    out = []
    for line in codec.splitlines():
        if re.match(r'\s*\("(tbc|wrath)",', line):
            continue
        line = line.replace("use wow_world_messages::{tbc, vanilla, wrath};", "use wow_world_messages::vanilla;")
        out.append(line)
    _write_if_changed(os.path.join(src, "codec.rs"),
                      "// @generated by tools/c07_common.py from harness/vh/src/codec.rs (Vanilla only). Do not edit.\n"
                      + "\n".join(out) + "\n")
    _write_if_changed(os.path.join(src, "util.rs"), open(os.path.join(vh, "util.rs")).read())
    disp = os.path.join(vh, "generated", "login_dispatch.rs")
    if not os.path.exists(disp):
        subprocess.run(["python3", "-m", "tools.gen_dispatch"], cwd=C.VERIF, check=True)
    _write_if_changed(os.path.join(src, "generated", "login_dispatch.rs"), open(disp).read())
    # the typed expect entry points name shipped messages; the scratch tree replaces some of them
    _write_if_changed(os.path.join(src, "generated", "expect_dispatch.rs"),
                      "// @generated by tools/c07_common.py: no typed expect entry points in the C07 harness\n"
                      "pub fn expect(_exp: &str, _name: &str, _input: &[u8]) -> Option<Result<(), String>> {\n    None\n}\n")
    _write_if_changed(os.path.join(src, "main.rs"), """//! @generated by tools/c07_common.py - `vh codec` against the codecs generated from C07's programs.
mod codec;
mod util;

fn main() {
    let args: Vec<String> = std::env::args().collect();
    let rc = match args.get(1).map(|s| s.as_str()) {
        Some("codec") => codec::run(&args[2..]),
        _ => {
            eprintln!("usage: vh7 codec");
            2
        }
    };
    std::process::exit(rc);
}
""")
    _write_if_changed(os.path.join(HARNESS, "vh7", "Cargo.toml"), """# @generated by tools/c07_common.py
[package]
name = "vh7"
version = "0.0.0"
edition = "2021"
publish = false

[dependencies]
wow_world_messages = { path = "%(ws)s/wow_world_messages", default-features = false, features = ["sync", "tokio", "async-std", "vanilla"] }
wow_login_messages = { path = "%(ws)s/wow_login_messages", default-features = false, features = ["sync"] }
serde_json = "1"
flate2 = { version = "1", default-features = false, features = ["zlib"] }
libc = "0.2"
""" % {"ws": ws})
    _write_if_changed(os.path.join(HARNESS, "Cargo.toml"), """# @generated by tools/c07_common.py
[workspace]
members = ["vh7"]
resolver = "2"

[profile.dev]
opt-level = 1
debug = false
overflow-checks = true
debug-assertions = true
incremental = false
""")
    _write_if_changed(os.path.join(HARNESS, ".cargo", "config.toml"), """[net]
offline = true

[build]
target-dir = "../.cache/c07-harness-target"
rustflags = ["--cfg", "wowm_verif", "--check-cfg", "cfg(wowm_verif)"]
""")
    lock = os.path.join(HARNESS, "Cargo.lock")
    if not os.path.exists(lock):
        shutil.copy(os.path.join(C.HARNESS, "Cargo.lock"), lock)


def build_harness(timeout=3000):
    """Returns (binary or None, stderr). None = the scratch crates (or the harness) do not compile."""
    t0 = time.time()
    p = subprocess.run(["cargo", "build", "--offline", "-j", str(JOBS), "-p", "vh7", "--message-format", "short"],
                       cwd=HARNESS, env=C.cargo_env(), capture_output=True, text=True, timeout=timeout)
    C.log("[C07] scratch crates + harness build: rc=%s in %.1fs" % (p.returncode, time.time() - t0))
    if p.returncode != 0:
        return None, p.stderr
    return os.path.join(HARNESS_TARGET, "debug", "vh7"), p.stderr


_RE_ERR = re.compile(r"^(?P<file>[^\s:]+\.rs):(?P<line>\d+):\d+: error(?:\[(?P<code>E\d+)\])?: (?P<msg>.*)$")


def rustc_errors(stderr, ws):
    """[(relative file, code, message)] from `--message-format short` output."""
    out = []
    for line in stderr.splitlines():
        m = _RE_ERR.match(line.strip())
        if m:
            f = m.group("file")
            if f.startswith(ws):
                f = os.path.relpath(f, ws)
            out.append((f, m.group("code") or "", m.group("msg")))
    return out


def attribute_rustc_errors(errors, entries):
    """entry idx -> [errors]. A generated file belongs to a program if its name is the slot's message
    name or carries the program's type prefix; errors elsewhere are returned under key None."""
    by = collections.defaultdict(list)
    keys = []
    for e in entries:
        ks = [e["slot"]["name"].lower() + ".rs", e["prefix"].lower()]
        keys.append((e["idx"], ks, e["prefix"], e["slot"]["name"]))
    for f, code, msg in errors:
        base = os.path.basename(f).lower()
        owner = None
        for idx, ks, prefix, sname in keys:
            if base == ks[0] or ks[1] in base.replace("_", "") or prefix in msg or sname in msg:
                owner = idx
                break
        by[owner].append((f, code, msg))
    return by
