"""C01 - every message decodes from and re-encodes to the bytes its wowm definition says.

spec/WowmWire.tla (the wire walker) is run by TLC over every message of the corpus as parsed by the
independent front-end; every terminal behaviour (one canonical encoding) is replayed into the real
readers/writers through the public opcode enums (harness `vh codec`).
"""
import collections
import json
import os
import re
import time

from tools import common as C
from tools import replay as R
from tools import wire
from tools import codec_common as CC

PROP = "C01"


def run(tier):
    t0 = time.time()
    ctx = CC.explore(tier, tag="c01")
    binary = C.build_harness("vh")
    verdicts, totals = CC.replay_codec(binary, ctx)
    v = C.Verdicts(PROP)
    for o in verdicts:
        v.report(CC.observation(o), replay=lambda o=o: CC.replay_body(o, ctx))
    vec = vectors_stage(ctx, binary, v)
    rc = v.finish()
    CC.write_codec_evidence(PROP, tier, ctx, totals, verdicts, v, time.time() - t0, extra_cov={"corpus_vectors": vec})
    return rc


def vectors_stage(ctx, binary, v):
    """Implementation -> specification for inputs the model did not choose: every `test` vector of the
    corpus must be accepted by the definition's decoder (spec/TraceVectors.tla, POSTCONDITION all
    vectors consumed) and by the real code (decode, variant, exact consumption, re-encode)."""
    from tools import vectors
    vecs = vectors.corpus_vectors(ctx["corpus"])
    path = os.path.join(ctx["outdir"], "vectors.ndjson")
    with open(path, "w") as f:
        for x in vecs:
            f.write(json.dumps({k: x[k] for k in ("vid", "name", "exp", "lv", "dir", "frame")}) + "\n")
    ldir = ctx["ldir"]
    env = {"WOWM_OBJECTS": ldir + "/objects.ndjson", "WOWM_BLOCKS": ldir + "/blocks.ndjson",
           "WOWM_INDEX": ldir + "/index.json", "WOWM_NSHARDS": 1, "WOWM_SHARD": 0, "WOWM_NPROF": 1,
           "WOWM_MAXLEN": 2, "WOWM_ONLY": "", "WOWM_DEEP": "0", "WOWM_FAULTS": "0", "WOWM_FAULT_EVERY": 1, "WOWM_FAULT_PHASE": 0,
           "WOWM_CONST": wire.EMPTY_LIST, "WOWM_VECTORS": path}
    res = C.run_tlc("TraceVectors", workers=1, timeout=600, env=env, name="c01-vectors", coverage=False)
    byid = {x["vid"]: x for x in vecs}
    status = collections.Counter()
    accepted = []
    for r in res.replay:
        if r.get("kind") != "vector":
            continue
        st = r["status"]
        if st == "rejected" and "not inflatable" in r.get("why", ""):
            st = "skipped"
        status[st] += 1
        x = byid[r["vid"]]
        if st == "accepted":
            accepted.append(x)
        elif st != "skipped":
            v.report({"name": r["name"], "exp": r["exp"], "lv": r["lv"], "dir": r["dir"], "verdict": "vector_" + st,
                      "sig": r.get("why", "")}, replay={"vector": x, "model": r})
    if len(res.replay) != len(vecs):
        raise C.ToolError("TraceVectors judged %d of %d vectors" % (len(res.replay), len(vecs)))
    lines = [json.dumps({"kind": "codec", "id": 0, "name": x["name"], "exp": x["exp"], "lv": x["lv"], "dir": x["dir"],
                         "prof": x["vid"], "hdr": x["frame"], "body": [], "regions": [], "msgcomp": False})
             for x in accepted]
    verdicts, totals = R.run_records(binary, ["codec"], lines, jobs=4)
    for o in verdicts:
        ob = CC.observation(o)
        ob["source"] = "corpus_vector"
        v.report(ob, replay={"verdict": o})
    return {"vectors": len(vecs), "model_status": dict(status), "executed_on_real_code": totals["records"],
            "real_code_non_ok": len(verdicts), "tlc_states": res.distinct}


def replay(path):
    body = json.load(open(path))
    rec = body["behaviour"]["record"]
    binary = C.build_harness("vh")
    verdicts, totals = R.run_records(binary, ["codec"], [json.dumps(rec)], jobs=1)
    for o in verdicts:
        print(json.dumps(o)[:2000])
    print("replayed 1 record: %d non-ok verdicts" % len(verdicts))
    return 1 if verdicts else 0


def selftest(tier):
    """Binding demonstration: flip one byte of one model record; the replay must reject it."""
    ctx = CC.explore("quick", tag="c01-selftest", only="CMSG_CHAR_CREATE")
    binary = C.build_harness("vh")
    recs = [r for r in wire.iter_records(ctx["paths"]) if r["kind"] == "codec"]
    if not recs:
        raise C.ToolError("selftest: no records")
    good = recs[0]
    bad = json.loads(json.dumps(good))
    bad["hdr"][-1] ^= 0x01  # opcode bit
    bad2 = json.loads(json.dumps(good))
    bad2["body"] = bad2["body"] + [0]
    v_good, _ = R.run_records(binary, ["codec"], [json.dumps(good)], jobs=1)
    v_bad, _ = R.run_records(binary, ["codec"], [json.dumps(bad), json.dumps(bad2)], jobs=1)
    ok = len(v_good) == 0 and len(v_bad) == 2
    print("selftest C01: untouched record accepted=%s, 2 corrupted records rejected=%d" % (len(v_good) == 0, len(v_bad)))
    return 0 if ok else 2
