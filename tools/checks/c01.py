"""C01 - every message decodes from and re-encodes to the bytes its wowm definition says.

spec/WowmWire.tla (the wire walker) is run by TLC over every message of the corpus as parsed by the
independent front-end; every terminal behaviour (one canonical encoding) is replayed into the real
readers/writers through the public opcode enums (harness `vh codec`).
"""
import collections
import json
import os
import re
import time

from tools import common as C
from tools import replay as R
from tools import wire
from tools import codec_common as CC

PROP = "C01"


def run(tier):
    t0 = time.time()
    ctx = CC.explore(tier, tag="c01")
    binary = C.build_harness("vh")
    verdicts, totals = CC.replay_codec(binary, ctx)
    v = C.Verdicts(PROP)
    for o in verdicts:
        v.report(CC.observation(o), replay=lambda o=o: CC.replay_body(o, ctx))
    rc = v.finish()
    CC.write_codec_evidence(PROP, tier, ctx, totals, verdicts, v, time.time() - t0)
    return rc


def replay(path):
    body = json.load(open(path))
    rec = body["behaviour"]["record"]
    binary = C.build_harness("vh")
    verdicts, totals = R.run_records(binary, ["codec"], [json.dumps(rec)], jobs=1)
    for o in verdicts:
        print(json.dumps(o)[:2000])
    print("replayed 1 record: %d non-ok verdicts" % len(verdicts))
    return 1 if verdicts else 0


def selftest(tier):
    """Binding demonstration: flip one byte of one model record; the replay must reject it."""
    ctx = CC.explore("quick", tag="c01-selftest", only="CMSG_CHAR_CREATE")
    binary = C.build_harness("vh")
    recs = [r for r in wire.iter_records(ctx["paths"]) if r["kind"] == "codec"]
    if not recs:
        raise C.ToolError("selftest: no records")
    good = recs[0]
    bad = json.loads(json.dumps(good))
    bad["hdr"][-1] ^= 0x01  # opcode bit
    bad2 = json.loads(json.dumps(good))
    bad2["body"] = bad2["body"] + [0]
    v_good, _ = R.run_records(binary, ["codec"], [json.dumps(good)], jobs=1)
    v_bad, _ = R.run_records(binary, ["codec"], [json.dumps(bad), json.dumps(bad2)], jobs=1)
    ok = len(v_good) == 0 and len(v_bad) == 2
    print("selftest C01: untouched record accepted=%s, 2 corrupted records rejected=%d" % (len(v_good) == 0, len(v_bad)))
    return 0 if ok else 2
