"""C02 - framing is exact: header size/opcode match the bytes written; streams stay aligned.

spec/Framing.tla models the frame stream (header grammar of implementing_world.md, writer and
reader positions, keystream positions) and is model checked (HeaderExact, Aligned, RoundTrip,
KeysAligned, InStep, BodyClear, NoStuckReader, HeaderCodec).  Every history it explores - 1..3
frames on one stream, body lengths from the boundary band, x 3 expansions x 2 directions x 3 reader
entry points x plain/encrypted - is printed as a REPLAY record and executed by `vh frames replay`
against the real writers and readers (blocking, tokio, async-std): every header byte, the total and
declared length, the reader position after each message and the delivered message are compared with
the model.  In the other direction `vh frames drive` executes seeded random sequences and logs what
it OBSERVED; spec/TraceFraming.tla decides with TLC whether every event is a step of the model.
thorough: every body length 0..0x1_0010 and every 4,099th up to the cap (sweep), HeaderCodec over
every expressible length.
"""
import json
import os
import time

from tools import common as C
from tools import framing_common as F

PROP = "C02"
SUB = "frames"
ASSUMPTIONS = [
    "header grammar transcribed from wowm_language/src/ir/implementing_world.md; its 'larger than 0x7FF bytes' is read as 0x7FFF (15 bits fit beside the 0x80 marker), and the 3 byte form is required exactly when the size value exceeds 0x7FFF (property text)",
    "pool messages (CMSG/SMSG_WARDEN_DATA `u8[-]`, SMSG_MOTD, CMSG_CHAR_ENUM, CMSG_PLAYER_LOGIN, SMSG_PONG, SMSG_LOGOUT_COMPLETE) stand for all messages: the header code paths are message independent except for the compressed-message overrides (not covered)",
    "policy caps: a reader may answer InvalidSize for a frame beyond 65,535 body bytes of an endless u8 array / 10,240 bytes from a client, provided it consumes the frame",
    "in-memory streams; chunked delivery is C06's subject",
    "build profile: opt-level 1, overflow checks and debug assertions on",
]


def bounds(tier):
    return {
        "histories": "1..3 frames on one stream; lengths: 1 frame = {0,1,2, 0x7FF8..0x8004, 0xFFF8..0x1_0006, 0x7F_FFF8..0x7F_FFFD}, 2 frames = 17 boundary lengths, 3 frames = %d boundary lengths (1, 0x7FFD, 0x7FFE, the body that makes the frame 0xFFFF bytes long, 0x1_0000, ...); all intersected with what the header form expresses" % (8 if tier == "thorough" else 5),
        "dimensions": "3 expansions x 2 directions x {opcode enum reader, expect helper, expect helper of another type} x {plain, encrypted}",
        "flavours": "blocking, tokio, async-std" + ("" if tier == "thorough" else " (histories of 2-3 frames: one flavour per history, rotating)"),
        "sweep": "every body length 0..0x1_0010 and every 4,099th up to the cap, all entry points" if tier == "thorough" else "thorough tier only",
        "lemma": "HeaderCodec for every expressible body length" if tier == "thorough" else "HeaderCodec for 0..0x1_1170 and the band",
    }


def spec_to_impl(wd, tier, binary, mut="none", tamper=None):
    ex = F.explore(wd, PROP, "c02", tier, F.PARTS_C02, mut=mut, workers=2)
    missing = C.vacuity(ex, F.ACTIONS_HIST)
    if missing:
        raise C.ToolError("vacuous model run, actions never fired: %s" % missing)
    recs = os.path.join(wd, "records.ndjson")
    n = F.number_records(ex.paths, recs, "c02", tamper)
    keys = F.make_keys(2 if tier == "thorough" else 1, PROP)
    t0 = time.time()
    verdicts, totals = F.run_replay(binary, SUB, recs, keys, rotate=None if tier == "thorough" else 1)
    if totals["records"] != n:
        raise C.ToolError("harness judged %d of %d records" % (totals["records"], n))
    C.log("[%s] %d histories replayed in %.1fs, %d disagreements" % (PROP, n, time.time() - t0, len(verdicts)))
    return ex, recs, n, verdicts


def sweep(wd, binary):
    ex = F.explore(wd, PROP, "sweep", "thorough", F.PARTS_C02, workers=2, tag="sweep")
    missing = C.vacuity(ex, ["SweepWrite", "SweepNext", "Read"])
    if missing:
        raise C.ToolError("vacuous sweep, actions never fired: %s" % missing)
    recs = os.path.join(wd, "sweep.ndjson")
    n = F.number_records(ex.paths, recs, "sweep")
    # one flavour per record, rotating: split into three interleaved files
    verdicts, judged = [], 0
    lines = open(recs).readlines()
    for k, fl in enumerate(("sync", "tokio", "astd")):
        part = os.path.join(wd, "sweep-%s.ndjson" % fl)
        with open(part, "w") as f:
            f.writelines(lines[k::3])
        v, t = F.run_replay(binary, SUB, part, [], flavours=(fl,), chunk=2000)
        verdicts += v
        judged += t["records"]
    if judged != n:
        raise C.ToolError("harness judged %d of %d sweep records" % (judged, n))
    return ex, recs, n, verdicts


def run(tier):
    t0 = time.time()
    wd, pool = F.prepare(PROP)
    binary = F.harness_binary()
    v = C.Verdicts(PROP)
    # model + lemma
    lemma_hi = 0x7FFFFD if tier == "thorough" else 0x11170
    lst, ltr, caps, lemma_n = F.lemma(wd, PROP, lemma_hi, 8 if tier == "thorough" else 2)
    ex, recs, n, verdicts = spec_to_impl(wd, tier, binary)
    rep = F.report(v, F.observations(verdicts), recs)
    cov = {"histories_replayed": n, "disagreements": len(verdicts), "report": rep}
    states, trans = ex.states + lst, ex.transitions + ltr
    traces = n
    if tier == "thorough":
        sx, srecs, sn, sverd = sweep(wd, binary)
        srep = F.report(v, F.observations(sverd), srecs)
        cov.update({"sweep_lengths_replayed": sn, "sweep_disagreements": len(sverd), "sweep_report": srep})
        states += sx.states
        trans += sx.transitions
        traces += sn
    # implementation -> specification
    obs, tstats = F.impl_to_spec(wd, PROP, binary, SUB, pool, caps, count=1500 if tier == "thorough" else 300,
                                 max_msgs=8, both_dirs=False, crypt_only=False, nkeys=4)
    if tstats["incomplete"]:
        raise C.ToolError("trace validation did not consume every line: %s" % tstats["incomplete"])
    trep = F.report(v, obs, None)
    states += tstats["states"]
    trans += tstats["transitions"]
    rc = v.finish()
    samples = []
    with open(recs) as f:
        for i, line in enumerate(f):
            if i in (0, n // 2, n - 1):
                samples.append(json.loads(line))
    C.write_evidence(PROP, tier, "model_checking", {
        "states": states,
        "transitions": trans,
        "traces_validated_against_impl": traces + tstats["requests"],
        "samples": samples[:3] + [{"trace_sample": tstats["sample"]}],
        "model_depth": ex.depth,
        "actions_fired": {k: c[1] for k, c in ex.coverage.items()},
        "header_codec_lengths_checked": lemma_n,
        "bounds": bounds(tier),
        "spec_to_impl": cov,
        "impl_to_spec": {k: tstats[k] for k in ("requests", "messages", "lines", "rejects", "aborted_ops", "states", "wall")},
        "impl_to_spec_report": trep,
        "not_covered": ["write_* overrides of compressed messages (SMSG_COMPRESSED_MOVES, SMSG_COMPRESSED_UPDATE_OBJECT) patch the header in place; bodies of 32 KiB of compressed data are not constructed here",
                        "body lengths the header form cannot express (behaviour unspecified)"],
    }, time.time() - t0, ASSUMPTIONS, violations=len(v.violations))
    return rc


def replay(path):
    body = json.load(open(path))
    beh = body["behaviour"]
    wd, pool = F.prepare(PROP + "-replay")
    binary = F.harness_binary()
    if beh.get("record"):
        rp = os.path.join(wd, "one.ndjson")
        with open(rp, "w") as f:
            f.write(json.dumps(beh["record"]) + "\n")
        verdicts, totals = F.run_replay(binary, SUB, rp, F.make_keys(2, PROP), jobs=1)
        for x in verdicts:
            print(json.dumps(x)[:600])
        print("replayed record %s: %d disagreements" % (beh["record"].get("id"), len(verdicts)))
        return 1 if verdicts else 0
    req = beh.get("request") or (beh.get("verdict") or {}).get("request")
    if not req:
        raise C.ToolError("replay file holds neither a model record nor a driver request")
    events = F.run_drive(binary, SUB, [req], jobs=1)
    lines, owner, fails = F.to_trace([req], events)
    rejects, incomplete, stats = F.validate(wd, PROP, lines, shards=1)
    for f_ in fails:
        print(json.dumps(f_[0]))
    for r in rejects:
        print("rejected:", json.dumps(lines[r["line"]])[:600])
    print("replayed request %s: %d aborted operations, %d rejected events" % (req["id"], len(fails), len(rejects)))
    return 1 if (fails or rejects or incomplete) else 0


def selftest(tier):
    """Binding demonstration, three ways:
    (1) a fault planted in the MODEL (3 byte reader subtracts 3; 2/3 byte decision on the total length) is
        caught by TLC's invariants;
    (2) one corrupted model record (a header byte) is caught by the replay;
    (3) one dropped / altered observed event is caught by TraceFraming."""
    wd, pool = F.prepare(PROP + "-selftest")
    binary = F.harness_binary()
    ok = True
    for mut, want in (("reader_sub3", {"Aligned", "RoundTrip", "NoStuckReader", "HeaderCodecBand"}), ("thresh_on_total", {"HeaderExact", "Aligned", "HeaderCodecBand", "NoStuckReader", "RoundTrip"})):
        for cfg in ("Framing.cfg", "FramingHist.cfg"):   # with / without the HeaderCodec lemma on the band
            ex = F.explore(wd, PROP, "c02", "quick", ["wrath/server"], mut=mut, allow_violation=True, tag="mut-" + mut, cfg=cfg)
            hit = set(ex.violated) & want
            print("selftest C02: model fault %s (%s) -> TLC reports %s: %s" % (mut, cfg, sorted(ex.violated), "detected" if hit else "NOT detected"))
            ok &= bool(hit)

    hdr_mark = {}

    def tamper(n, rec):
        # (a foreign / runt frame is written from the model's own header bytes: pick a regular one)
        if n >= 7 and "n" not in hdr_mark and rec["msgs"][0]["name"] != "?":
            hdr_mark["n"] = n
            rec["msgs"][0]["hdr"][1] ^= 1
        return rec
    ex = F.explore(wd, PROP, "c02", "quick", ["vanilla/client"], tag="st")
    recs = os.path.join(wd, "st.ndjson")
    n = F.number_records(ex.paths, recs, "st", tamper)
    verdicts, totals = F.run_replay(binary, SUB, recs, F.make_keys(1, PROP), rotate=1)
    hit = [x for x in verdicts if x.get("id") == "st:%s" % hdr_mark.get("n") and x.get("verdict") in ("header", "cipher_header")]
    print("selftest C02: corrupted header byte in model record %s -> %s" % (hdr_mark.get("n"), "detected" if hit else "NOT detected"))
    ok &= bool(hit)

    # foreign / runt frames: the expected reader position behind one, and the opcode it must report
    marks = {}

    def tamper_foreign(n, rec):
        rd = rec["reads"][rec["msgs"][0]["dir"]]
        odd = [i for i, x in enumerate(rd) if x["name"] == "?"]
        if odd and len(rd) == 2 and "end" not in marks:
            marks["end"] = n
            rd[odd[0]]["end"] += 1
        elif odd and "opcode" not in marks:
            marks["opcode"] = n
            rd[odd[0]]["opcode"] += 1
        return rec
    n = F.number_records(ex.paths, recs, "sf", tamper_foreign)
    verdicts, totals = F.run_replay(binary, SUB, recs, F.make_keys(1, PROP), rotate=None)
    hit_end = [x for x in verdicts if x.get("id") == "sf:%s" % marks.get("end") and x.get("verdict") == "consumed"]
    hit_op = [x for x in verdicts if x.get("id") == "sf:%s" % marks.get("opcode") and x.get("verdict") == "message"]
    print("selftest C02: reader position behind a foreign frame moved by one in model record %s -> %s" % (marks.get("end"), "detected" if hit_end else "NOT detected"))
    print("selftest C02: opcode a foreign frame must be reported with altered in model record %s -> %s" % (marks.get("opcode"), "detected" if hit_op else "NOT detected"))
    ok &= bool(hit_end) and bool(hit_op)

    st, tr, caps, _ = F.lemma(wd, PROP, 100, 1)
    # the trace self-tests use the messages whose frames are accepted on the current tree, and first
    # show that the UNTAMPERED trace is accepted
    pool = [m for m in pool if m["kind"] != "opaque"]
    obs, tstats = F.impl_to_spec(wd, PROP, binary, SUB, pool, caps, count=40, max_msgs=4, both_dirs=False, crypt_only=False, nkeys=2)
    clean = tstats["rejects"] == 0 and not tstats["incomplete"]
    print("selftest %s: untampered trace of %d events -> %d rejected: %s" % (PROP, tstats["lines"], tstats["rejects"], "accepted" if clean else "NOT accepted"))
    ok &= clean

    def drop(lines, owner):
        k = next(i for i, e in enumerate(lines) if e["ev"] == "wframe" and i > 20)
        return lines[:k] + lines[k + 1:], owner[:k] + owner[k + 1:]
    obs, tstats = F.impl_to_spec(wd, PROP, binary, SUB, pool, caps, count=40, max_msgs=4, both_dirs=False,
                                 crypt_only=False, nkeys=2, tamper=drop)
    hit = tstats["rejects"] > 0 or tstats["incomplete"]
    print("selftest C02: dropped one observed wframe event -> %d events rejected: %s" % (tstats["rejects"], "detected" if hit else "NOT detected"))
    ok &= bool(hit)

    def alter(lines, owner):
        k = next(i for i, e in enumerate(lines) if e["ev"] == "rframe" and i > 20)
        lines = list(lines)
        lines[k] = dict(lines[k], consumed=lines[k]["consumed"] + 1)
        return lines, owner
    obs, tstats = F.impl_to_spec(wd, PROP, binary, SUB, pool, caps, count=40, max_msgs=4, both_dirs=False,
                                 crypt_only=False, nkeys=2, tamper=alter)
    hit = tstats["rejects"] > 0
    print("selftest C02: altered `consumed` of one observed rframe -> %d events rejected: %s" % (tstats["rejects"], "detected" if hit else "NOT detected"))
    ok &= bool(hit)
    return 0 if ok else 2
