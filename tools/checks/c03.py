"""C03 - decoding is total: any bytes give a message or an error, never a panic or abort.

The C03 fault family of spec/WowmWire.tla corrupts canonical encodings at chosen places (every
field set to extreme patterns, truncation at every field boundary with and without a consistent
header, trailing garbage, header size off by one / zero); random frames for every defined opcode are
added by the driver (seeded).  Every frame is decoded by the real public readers inside a worker
process with a 1 GiB address-space limit and a 5 s per-frame watchdog; the only acceptable outcomes
are Ok(_) and Err(_).
"""
import collections
import json
import random
import os
import time

from tools import common as C
from tools import codec_common as CC
from tools import replay as R
from tools import wire

PROP = "C03"
LIMIT_AS = str(1 << 30)


def random_frames(ctx, n_per_root, rng):
    """Random bodies behind the header of every (message, context, direction) root."""
    seen = set()
    for r in wire.iter_records(ctx["paths"]):
        if r["kind"] != "codec":
            continue
        key = (r["id"], r["exp"], r.get("lv", 0), r["dir"])
        if key in seen:
            continue
        seen.add(key)
        for k in range(n_per_root):
            n = rng.choice([0, 1, 2, 3, 4, 7, 8, 15, 16, 31, 64, 200])
            body = [rng.randrange(256) for _ in range(n)]
            hdr = list(r["hdr"])
            if r["exp"] != "login":
                oplen = 4 if r["dir"] == "client" else 2
                size = n + oplen
                hdr = [(size >> 8) & 0xFF, size & 0xFF] + hdr[-oplen:]
            yield {"kind": "fault", "fk": "random", "site": "body", "id": r["id"], "name": r["name"], "exp": r["exp"],
                   "lv": r.get("lv", 0), "dir": r["dir"], "prof": 0, "hdr": hdr, "body": body, "regions": [],
                   "msgcomp": False, "outcome": "any", "val": []}


def header_frames(binary, v):
    """Headers no writer produces, decoded through every world reader entry point (opcode enums, typed
    expect helpers, plain and decrypting, three flavours): the FOREIGN and RUNT frames of
    spec/Framing.tla - an undefined opcode, and a size field smaller than the opcode field it counts
    (0..OW-1) in the 2 byte form and behind Wrath's 3 byte marker - alone and followed by / behind a
    regular message.  C03 asks of them only that the call returns (alignment is judged by C02)."""
    from tools import framing_common as F
    wd, _pool = F.prepare("C03-frames")
    ex = F.explore(wd, PROP, "c02", "quick", F.PARTS_C02, workers=2, tag="hdr")
    if not ex.coverage.get("WriteRunt", (0, 0))[1]:
        raise C.ToolError("vacuous header exploration: WriteRunt never fired")
    allp = os.path.join(wd, "hdr-all.ndjson")
    F.number_records(ex.paths, allp, "c03h")
    keep = os.path.join(wd, "hdr-records.ndjson")
    n = runts = 0
    with open(allp) as f, open(keep, "w") as out:
        for line in f:
            rec = json.loads(line)
            odd = [m for m in rec["msgs"] if m["name"] == "?"]
            if odd:
                out.write(line)
                n += 1
                runts += any(m["body"] == 0 and m["total"] == len(m["hdr"]) and m["hdr"][-(4 if m["dir"] == "client" else 2) - 1] < (4 if m["dir"] == "client" else 2) and m["hdr"][0] in (0, 128) for m in odd)
    if not n or not runts:
        raise C.ToolError("no foreign / runt frame histories were explored (%d / %d)" % (n, runts))
    verdicts, totals = F.run_replay(binary, "frames", keep, F.make_keys(1, PROP), rotate=None)
    if totals["records"] != n:
        raise C.ToolError("harness judged %d of %d header histories" % (totals["records"], n))
    # writes of regular messages are not decoding (their aborts are C02's known u16 overflow finding)
    bad = [x for x in verdicts if x.get("verdict") in ("panic", "abort", "timeout")
           and (x.get("name") == "?" or str(x.get("op", "")).startswith("read") or x.get("op") == "process")]
    rep = F.report(v, F.observations(bad), keep)
    C.log("[%s] %d header histories (%d with a runt frame) replayed, %d aborts" % (PROP, n, runts, len(bad)))
    return {"histories": n, "with_runt_frame": runts, "aborts": len(bad), "report": rep,
            "states": ex.states, "transitions": ex.transitions}


def run(tier):
    t0 = time.time()
    every = 2 if tier == "quick" else 1
    ctx = CC.explore(tier, tag="c03", faults="c03", fault_every=every, nprof=1, maxlen=2, deep=False)   # fault records come from the terminal states of profile 0 only; thorough = the faults of EVERY behaviour (quick: every second) plus 8x the random frames. Deeper walks (all enumerators, 3-element arrays) made the fault set of single large behaviours (Wrath SMSG_SPELL_GO with 200-byte strings) exceed the JVM heap when printed
    binary = C.build_harness("vh")
    verdicts, totals = CC.replay_codec(binary, ctx, kinds=("fault",), extra_args=["--limit-as", LIMIT_AS])
    rng = random.Random(C.seed())
    rlines = [json.dumps(r) for r in random_frames(ctx, 2 if tier == "quick" else 16, rng)]
    v2, t2 = R.run_records(binary, ["codec", "--limit-as", LIMIT_AS], rlines, jobs=8)
    verdicts += v2
    v = C.Verdicts(PROP)
    for o in verdicts:
        v.report(CC.observation(o), replay=lambda o=o: {"verdict": o, "record": (o["detail"].get("record") if isinstance(o.get("detail"), dict) else None)})
    hdr = header_frames(binary, v)
    rc = v.finish()
    byfk = collections.Counter()
    sites = set()
    for r in wire.iter_records(ctx["paths"]):
        if r["kind"] == "fault":
            byfk[r["fk"]] += 1
            sites.add((r["name"], r["exp"], r.get("lv", 0), r["dir"], r["fk"], r["site"]))
    byfk["random"] = len(rlines)
    if not byfk.get("set") or not byfk.get("truncate"):
        raise C.ToolError("vacuous fault enumeration: %s" % dict(byfk))
    C.write_evidence(PROP, tier, "fault_enumeration", {
        "evaluations": totals["records"] + t2["records"] + hdr["histories"],
        "header_frames": hdr,
        "distinct_nontrivial": len(sites),
        "rule": "one evaluation = one corrupted or random frame decoded in an isolated worker (RLIMIT_AS 1 GiB, 5 s watchdog); distinct_nontrivial = distinct (message, context, direction, family, field) corruption sites; families: set (field := zeros / ones / 1 / 0x7f.. / 2), truncate at each field boundary (consistent header and original header), garbage tail, header size +1 / 0, random bodies",
        "samples": ctx["samples"],
        "faults_by_family": dict(byfk),
        "states": sum(s["distinct"] for s in ctx["stats"]) + hdr["states"], "transitions": sum(s["generated"] for s in ctx["stats"]) + hdr["transitions"],
        "non_ok_by_verdict": dict(collections.Counter(o["verdict"] for o in verdicts)),
        "known_finding_hits": dict(v.known_hits),
        "bounds": ctx["params"], "fault_every": every,
    }, time.time() - t0, [
        "overflow checks and debug assertions are ON in the harness build, so arithmetic overflow is observed as a panic",
        "address-space budget 1 GiB per worker process (a frame is at most 16 MiB); 5 s watchdog per frame",
        "frames inside compressed regions are corrupted before deflation only (same-length replacements); zlib-level corruption is not generated by the model",
    ], violations=len(v.violations))
    return rc


def replay(path):
    body = json.load(open(path))
    rec = body["behaviour"]["record"] or body["behaviour"]["verdict"].get("detail", {}).get("record")
    if rec is None:
        print("replay file holds no record (input hex: %s)" % body["behaviour"]["verdict"].get("detail", {}).get("input"))
        return 2
    binary = C.build_harness("vh")
    verdicts, totals = R.run_records(binary, ["codec", "--limit-as", LIMIT_AS], [json.dumps(rec)], jobs=1)
    for o in verdicts:
        print(json.dumps(o)[:2000])
    return 1 if verdicts else 0


def selftest(tier):
    """Binding demonstration: a frame with outcome class 'err_any' that actually decodes must be
    reported, and an intact frame under class 'any' must not."""
    ctx = CC.explore("quick", tag="c03-selftest", only="CMSG_CHAR_CREATE", faults="c03")
    binary = C.build_harness("vh")
    recs = [r for r in wire.iter_records(ctx["paths"]) if r["kind"] == "codec"]
    good = dict(recs[0])
    good.update({"kind": "fault", "fk": "none", "site": "none", "outcome": "any", "val": []})
    bad = dict(good)
    bad["outcome"] = "err_any"
    v_good, _ = R.run_records(binary, ["codec"], [json.dumps(good)], jobs=1)
    v_bad, _ = R.run_records(binary, ["codec"], [json.dumps(bad)], jobs=1)
    ok = len(v_good) == 0 and len(v_bad) == 1
    print("selftest C03: intact frame ok=%s, wrongly classified frame reported=%s" % (len(v_good) == 0, len(v_bad) == 1))
    return 0 if ok else 2
