"""C04 - out-of-domain field values are rejected, never silently reinterpreted.

The fault families of spec/WowmWire.tla (C04EnumFaults, C04SizeFaults, OpFaults) alter canonical
encodings in the three specified ways; each fault record carries the outcome the definition's
decoder must produce (error naming the offending number / any error). The harness presents every
fault to the real public readers.
"""
import json
import time

from tools import common as C
from tools import codec_common as CC
from tools import replay as R

PROP = "C04"


def run(tier):
    t0 = time.time()
    ctx = CC.explore(tier, tag="c04", faults="c04", fault_every=1, nprof=1 if tier == "thorough" else None)   # faults come from profile 0; quick keeps its 2 profiles for the vacuity check
    binary = C.build_harness("vh")
    verdicts, totals = CC.replay_codec(binary, ctx, kinds=("fault",))
    v = C.Verdicts(PROP)
    for o in verdicts:
        v.report(CC.observation(o), replay=lambda o=o: fault_replay(o, ctx))
    rc = v.finish()
    import collections
    byfk = collections.Counter()
    sites = set()
    from tools import wire
    for r in wire.iter_records(ctx["paths"]):
        if r["kind"] == "fault":
            byfk[r["fk"]] += 1
            sites.add((r["name"], r["exp"], r.get("lv", 0), r["dir"], r["fk"], r["site"]))
    if not byfk.get("enum") or not byfk.get("size") or not byfk.get("opcode"):
        raise C.ToolError("vacuous fault enumeration: %s" % dict(byfk))
    states = sum(s["distinct"] for s in ctx["stats"])
    trans = sum(s["generated"] for s in ctx["stats"])
    C.write_evidence(PROP, tier, "fault_enumeration", {
        "evaluations": totals["records"],
        "distinct_nontrivial": len(sites),
        "rule": "one evaluation = one altered encoding presented to the public reader; distinct_nontrivial = distinct fault sites (message, context, direction, family, field). Families: enum-typed field set to undeclared values at full wire width (all-ones, max+1, smallest gap, declared + 2^(8*base width) for upcast fields); constant-sized message bodies one byte / four bytes longer, one byte shorter, empty; opcodes adjacent to every defined opcode and at the extremes that are not defined for the direction and version",
        "samples": ctx["samples"],
        "faults_by_family": dict(byfk),
        "states": states, "transitions": trans,
        "non_ok_by_verdict": dict(collections.Counter(o["verdict"] for o in verdicts)),
        "known_finding_hits": dict(v.known_hits),
        "bounds": ctx["params"],
    }, time.time() - t0, [
        "fault sites are the enum-typed field events of the wire model's behaviours of profile 0 (every control path, array lengths 0..2, later array elements deterministic)",
        "an enum fault is only injected at a field the MODEL typed as an enum at that width; the error text of the library is parsed for `Enum(EnumError { .. value: N })` / `Opcode`",
        "constant-sized = the interval abstraction of the definition has equal extremes (spec/WowmWire.tla ContainerIV)",
    ], violations=len(v.violations))
    return rc


def fault_replay(o, ctx):
    from tools import wire
    d = o.get("detail") if isinstance(o.get("detail"), dict) else {}
    want = d.get("input")
    for r in wire.iter_records(ctx["paths"]):
        if r["kind"] == "fault" and r["id"] == o.get("id") and r["exp"] == o.get("exp") and r["dir"] == o.get("dir") \
                and r["fk"] == o.get("fk") and r["site"] == o.get("site"):
            if want is None or bytes(r["hdr"] + r["body"]).hex() == want or r.get("regions"):
                return {"verdict": o, "record": r}
    return {"verdict": o, "record": None}


def replay(path):
    body = json.load(open(path))
    rec = body["behaviour"]["record"]
    binary = C.build_harness("vh")
    verdicts, totals = R.run_records(binary, ["codec"], [json.dumps(rec)], jobs=1)
    for o in verdicts:
        print(json.dumps(o)[:2000])
    print("replayed 1 fault: %d non-ok verdicts" % len(verdicts))
    return 1 if verdicts else 0


def selftest(tier):
    """Binding demonstration: a fault whose expected error value is wrong, and a declared value
    presented as a fault, must both be rejected by the replay."""
    ctx = CC.explore("quick", tag="c04-selftest", only="CMSG_CHAR_CREATE", faults="c04")
    from tools import wire
    binary = C.build_harness("vh")
    faults = [r for r in wire.iter_records(ctx["paths"]) if r["kind"] == "fault" and r["fk"] == "enum"]
    if not faults:
        raise C.ToolError("selftest: no enum faults for CMSG_CHAR_CREATE")
    good = faults[0]
    bad = json.loads(json.dumps(good))
    bad["val"] = [(bad["val"][0] + 1) % 256] + bad["val"][1:]
    v_good, _ = R.run_records(binary, ["codec"], [json.dumps(good)], jobs=1)
    v_bad, _ = R.run_records(binary, ["codec"], [json.dumps(bad)], jobs=1)
    ok = len(v_good) == 0 and len(v_bad) == 1
    print("selftest C04: genuine fault judged ok=%s, fault with wrong expected value rejected=%s" % (len(v_good) == 0, len(v_bad) == 1))
    return 0 if ok else 2
