"""C05 - header encryption is transparent for whole message sequences.

spec/Framing.tla in mode c05: a connection with both directions in use and four cipher halves, each
modelled by the number of keystream bytes it has consumed.  WriteEncrypted advances the writer's
half by the header length of the form in use (Wrath server: 4 or 5), ReadEncrypted advances the
reader's half by the header bytes it decrypts.  TLC checks KeysAligned / InStep (both halves of a
direction have consumed the same after every delivered message), BodyClear (only header bytes are
encrypted), Aligned, RoundTrip over all dialogues of up to 4 messages from the size classes around
the 2->3 byte switch and the 16 bit limits.  Every dialogue is printed and executed by
`vh crypto replay` with REAL wow_srp halves (both peers built through the public ProofSeed handshake
and split()) under several session keys: encrypted and plain output are written in parallel and
may differ only inside the header ranges of the model; the encrypted header must equal the raw
cipher applied to the model's header at the model's keystream position (reference halves); the
peer's decrypting reader (opcode enum reader / expect helpers; blocking, tokio, async-std) must
return the same messages at the same stream positions, and after every message each real half must
be in the same state as its reference half.  impl -> spec: seeded random dialogues (up to 200
messages, mixed directions) are executed, the observed events validated by spec/TraceFraming.tla.
"""
import json
import os
import time

from tools import common as C
from tools import framing_common as F

PROP = "C05"
SUB = "crypto"
ASSUMPTIONS = [
    "a header cipher half is modelled by the number of keystream bytes it has consumed (Vanilla/TBC: the state also depends on the previous ciphertext byte, which the reference halves reproduce because they are fed the same header bytes)",
    "cipher state equality is observed by encrypting / decrypting an 8 byte probe with clones of the real and of the reference half",
    "session keys are 40 pseudo-random bytes drawn from VERIF_SEED; user name and seeds do not enter the header cipher",
    "pool messages stand for all messages (see C02); the overridden write_encrypted_* of compressed messages are not covered",
    "build profile: opt-level 1, overflow checks and debug assertions on",
]


def nkeys(tier):
    return 64 if tier == "thorough" else 4


def bounds(tier):
    return {
        "dialogues": "1..4 messages over both directions; body lengths: 1-2 messages = %s, 3 = {1, 0x7FFD, 0x7FFE, the body that makes the frame 0xFFFF bytes long, 0x1_0000}, 4 = {0x7FFD, 0x7FFE} (last 2 byte / first 3 byte Wrath size), plus the fixed-size messages; intersected with what the header form expresses" % ("17 boundary lengths" if tier == "thorough" else "{0, 0x7FFB, 0x7FFD, 0x7FFE, 0x8000, frame length 0xFFFF and 0x1_0000, the largest expressible body, 0x1_0000}"),
        "dimensions": "3 expansions x {opcode enum reader, expect helper, expect helper of another type}",
        "keys": "%d session keys; single messages under all keys, dialogues under %s" % (nkeys(tier), "4 keys each (rotating through all 64), all three flavours" if tier == "thorough" else "2 keys each (rotating) and one flavour (rotating)"),
        "random_dialogues": "up to %d messages" % (200 if tier == "thorough" else 60),
    }


def spec_to_impl(wd, tier, binary, mut="none", tamper=None, parts=None):
    ex = F.explore(wd, PROP, "c05", tier, parts or F.PARTS_C05, mut=mut, workers=3)
    missing = C.vacuity(ex, ["WriteEncrypted", "ReadEncrypted"])
    if missing:
        raise C.ToolError("vacuous model run, actions never fired: %s" % missing)
    recs = os.path.join(wd, "records.ndjson")
    n = F.number_records(ex.paths, recs, "c05", tamper)
    keys = F.make_keys(nkeys(tier), PROP)
    t0 = time.time()
    if tier == "thorough":
        verdicts, totals = F.run_replay(binary, SUB, recs, keys, keys_per=4)
    else:
        verdicts, totals = F.run_replay(binary, SUB, recs, keys, rotate=2)
    if totals["records"] != n:
        raise C.ToolError("harness judged %d of %d records" % (totals["records"], n))
    C.log("[%s] %d dialogues replayed in %.1fs, %d disagreements" % (PROP, n, time.time() - t0, len(verdicts)))
    return ex, recs, n, verdicts


def run(tier):
    t0 = time.time()
    wd, pool = F.prepare(PROP)
    binary = F.harness_binary()
    v = C.Verdicts(PROP)
    lst, ltr, caps, lemma_n = F.lemma(wd, PROP, 0x11170, 2)
    ex, recs, n, verdicts = spec_to_impl(wd, tier, binary)
    rep = F.report(v, F.observations(verdicts), recs)
    obs, tstats = F.impl_to_spec(wd, PROP, binary, SUB, pool, caps,
                                 count=600 if tier == "thorough" else 120, max_msgs=12, both_dirs=True, crypt_only=True,
                                 nkeys=nkeys(tier), long_dialogues=64 if tier == "thorough" else 8,
                                 long_len=200 if tier == "thorough" else 60)
    if tstats["incomplete"]:
        raise C.ToolError("trace validation did not consume every line: %s" % tstats["incomplete"])
    trep = F.report(v, obs, None)
    rc = v.finish()
    samples = []
    with open(recs) as f:
        for i, line in enumerate(f):
            if i in (n // 3, n - 1):
                samples.append(json.loads(line))
    C.write_evidence(PROP, tier, "model_checking", {
        "states": ex.states + lst + tstats["states"],
        "transitions": ex.transitions + ltr + tstats["transitions"],
        "traces_validated_against_impl": n + tstats["requests"],
        "samples": samples + [{"trace_sample": tstats["sample"]}],
        "model_depth": ex.depth,
        "actions_fired": {k: c[1] for k, c in ex.coverage.items()},
        "bounds": bounds(tier),
        "session_keys": nkeys(tier),
        "spec_to_impl": {"dialogues_replayed": n, "disagreements": len(verdicts), "report": rep},
        "impl_to_spec": {k: tstats[k] for k in ("requests", "messages", "lines", "rejects", "aborted_ops", "states",
                                                 "longest_dialogue", "wall")},
        "impl_to_spec_report": trep,
        "not_covered": ["write_encrypted_* overrides of compressed messages (SMSG_COMPRESSED_MOVES, SMSG_COMPRESSED_UPDATE_OBJECT)",
                        "messages the header form cannot express"],
    }, time.time() - t0, ASSUMPTIONS, violations=len(v.violations))
    return rc


def replay(path):
    body = json.load(open(path))
    beh = body["behaviour"]
    wd, pool = F.prepare(PROP + "-replay")
    binary = F.harness_binary()
    if beh.get("record"):
        rp = os.path.join(wd, "one.ndjson")
        with open(rp, "w") as f:
            f.write(json.dumps(beh["record"]) + "\n")
        verdicts, totals = F.run_replay(binary, SUB, rp, F.make_keys(4, PROP), jobs=1)
        for x in verdicts:
            print(json.dumps(x)[:600])
        print("replayed record %s: %d disagreements" % (beh["record"].get("id"), len(verdicts)))
        return 1 if verdicts else 0
    req = beh.get("request") or (beh.get("verdict") or {}).get("request")
    if not req:
        raise C.ToolError("replay file holds neither a model record nor a driver request")
    events = F.run_drive(binary, SUB, [req], jobs=1)
    lines, owner, fails = F.to_trace([req], events)
    rejects, incomplete, stats = F.validate(wd, PROP, lines, shards=1)
    for f_ in fails:
        print(json.dumps(f_[0]))
    for r in rejects:
        print("rejected:", json.dumps(lines[r["line"]])[:600])
    print("replayed request %s: %d aborted operations, %d rejected events" % (req["id"], len(fails), len(rejects)))
    return 1 if (fails or rejects or incomplete) else 0


def selftest(tier):
    """Binding demonstration:
    (1) a model whose 3 byte reader takes one byte too few (the defect found in the generated Wrath
        reader) breaks Aligned in TLC;
    (2) a model record whose keystream range is shortened by one byte (as if only 3 of 4 header
        bytes were encrypted) is contradicted by the real halves;
    (3) an observed event with a ciphertext difference outside the header is rejected by TraceFraming."""
    wd, pool = F.prepare(PROP + "-selftest")
    binary = F.harness_binary()
    ok = True
    ex = F.explore(wd, PROP, "c05", "quick", ["wrath"], mut="reader_sub3", allow_violation=True, tag="mut",
                   cfg="FramingHist.cfg")
    hit = set(ex.violated) & {"Aligned", "RoundTrip", "NoStuckReader", "HeaderCodecBand"}
    print("selftest C05: model fault reader_sub3 -> TLC reports %s: %s" % (sorted(ex.violated), "detected" if hit else "NOT detected"))
    ok &= bool(hit)

    mark = {}

    def tamper(n, rec):
        if n >= 11 and "n" not in mark and rec["msgs"][0]["name"] != "?":
            mark["n"] = n
            rec["msgs"][0]["encLen"] -= 1
        return rec
    ex = F.explore(wd, PROP, "c05", "quick", ["vanilla"], tag="st")
    recs = os.path.join(wd, "st.ndjson")
    F.number_records(ex.paths[:1], recs, "st", tamper)
    # only the first few hundred records are needed
    lines = open(recs).readlines()[:200]
    open(recs, "w").writelines(lines)
    verdicts, totals = F.run_replay(binary, SUB, recs, F.make_keys(4, PROP), jobs=2)
    hit = [x for x in verdicts if x.get("id") == "st:%s" % mark.get("n") and x.get("verdict") in ("differs", "enc_state")]
    print("selftest C05: keystream range of model record %s shortened by one byte -> %s" % (mark.get("n"), "detected" if hit else "NOT detected"))
    ok &= bool(hit)

    st, tr, caps, _ = F.lemma(wd, PROP, 100, 1)
    # the trace self-tests use the messages whose frames are accepted on the current tree, and first
    # show that the UNTAMPERED trace is accepted
    pool = [m for m in pool if m["kind"] != "opaque"]
    obs, tstats = F.impl_to_spec(wd, PROP, binary, SUB, pool, caps, count=30, max_msgs=6, both_dirs=True, crypt_only=True, nkeys=2)
    clean = tstats["rejects"] == 0 and not tstats["incomplete"]
    print("selftest %s: untampered trace of %d events -> %d rejected: %s" % (PROP, tstats["lines"], tstats["rejects"], "accepted" if clean else "NOT accepted"))
    ok &= clean

    def alter(lines, owner):
        k = next(i for i, e in enumerate(lines) if e["ev"] == "wframe" and i > 10)
        lines = list(lines)
        lines[k] = dict(lines[k], differsAt=list(lines[k]["differsAt"]) + [len(lines[k]["hdr"])])
        return lines, owner
    obs, tstats = F.impl_to_spec(wd, PROP, binary, SUB, pool, caps, count=30, max_msgs=6, both_dirs=True,
                                 crypt_only=True, nkeys=2, tamper=alter)
    hit = tstats["rejects"] > 0
    print("selftest C05: one observed wframe altered to differ in its first body byte -> %d events rejected: %s" % (tstats["rejects"], "detected" if hit else "NOT detected"))
    ok &= bool(hit)

    def desync(lines, owner):
        k = next(i for i, e in enumerate(lines) if e["ev"] == "rframe" and i > 10)
        lines = list(lines)
        lines[k] = dict(lines[k], decInStep=False)
        return lines, owner
    obs, tstats = F.impl_to_spec(wd, PROP, binary, SUB, pool, caps, count=30, max_msgs=6, both_dirs=True,
                                 crypt_only=True, nkeys=2, tamper=desync)
    hit = tstats["rejects"] > 0
    print("selftest C05: one observed rframe altered to report a decrypter out of step -> %d events rejected: %s" % (tstats["rejects"], "detected" if hit else "NOT detected"))
    ok &= bool(hit)
    return 0 if ok else 2
