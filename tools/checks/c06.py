"""C06 - blocking, tokio and async-std variants agree under every stream chunking.

spec/ChunkedRead.tla models a byte transport handing a message to a reader that issues a fixed
script of read_exact requests: Deliver(k) / ReturnPending / Eof on the transport side, Take /
CompleteRead on the reader side.  TLC checks NoLoss, CompleteGuard, ScheduleIndependent (the
outcome is a function of the delivered content only), InOrder and - in the no-history "live"
configuration - termination under weak fairness, for the shape (length, read script) of every
login behaviour of WowmWire and of a pool of world behaviours.

The terminal states print the transport SCHEDULES (chunk sizes, Pending answers, Eof position):
exhaustively for short messages, by -simulate for the rest.  `vh chunks` drives a scripted
tokio::io::AsyncRead / futures_io::AsyncRead (and AsyncWrite) with each schedule under the three
generated reader / writer variants and compares every async run with the blocking run on the same
content - which is what ScheduleIndependent says must hold.
"""
import collections
import json
import os
import random
import re
import time

from tools import common as C
from tools import gen_chunks
from tools import replay as R
from tools import wire

PROP = "C06"

TIERS = {
    # exh: message lengths whose schedules are enumerated exhaustively; pend_by_len: (length bound, Pending
    # answers allowed per schedule) - 99 = every gap may hold 0..MAXRUN of them
    "quick": dict(exh=12, pend_by_len=[(7, 99), (12, 2)], sim=64, live_max=48, pool_first=30, pool_per_len=2, typed=6,
                  wire=dict(nshards=2, workers=4, nprof=2, maxlen=2, deep=False, timeout=900),
                  tlc_workers=8, jobs=8),
    "thorough": dict(exh=16, pend_by_len=[(9, 99), (16, 2)], sim=1024, live_max=128, pool_first=300, pool_per_len=2, typed=6,
                     wire=dict(nshards=4, workers=2, nprof=3, maxlen=3, deep=False, timeout=3000),
                     tlc_workers=8, jobs=8),
}
MAXRUN = 2
EXPANSIONS = ("vanilla", "tbc", "wrath")

ASSUMPTIONS = [
    "spec/ChunkedRead.tla: a transport is characterised by how many bytes it makes available per poll, by polls answered Pending (with the waker woken) and by the prefix at which it closes; a poll never hands over more than the caller's buffer",
    "read scripts: login = field events of the WowmWire behaviour (opcode byte first), world = header grammar of implementing_world.md (size, opcode, body) and the one-array header form of the expect helpers; the script only enters the model-level properties, the set of schedules depends on the length alone (SchedShape)",
    "oracle = ScheduleIndependent: an async run must equal the BLOCKING run of the same variant family on the delivered content (whole buffer or the prefix at which the schedule closes the transport); equality = PartialEq or equal Debug text, errors by variant / io::ErrorKind / enum name+value (io error message text is ignored)",
    "writers: the sink accepts the schedule's pieces (Pending answers skipped for the blocking writer) and reports closed (Ok(0)) at the Eof position",
    "harness executor: futures are polled by hand with a counting waker, no runtime; poll budget 4*(schedule length + message length)+64",
    "canonical inputs only (WowmWire behaviours); compressed world messages are left out of the pool (the chunking layer is below decompression)",
]


# ----------------------------------------------------------------------------------------------
# subjects
# ----------------------------------------------------------------------------------------------

def login_script(rec):
    out = [len(rec["hdr"])]
    pos = 0
    for e in sorted(rec.get("ev", []), key=lambda e: e["at"]):
        if e["at"] > pos:
            out.append(e["at"] - pos)   # bytes without an event of their own (size field, constants)
            pos = e["at"]
        if e["len"] > 0 and e["at"] == pos:
            out.append(e["len"])
            pos += e["len"]
    if pos < len(rec["body"]):
        out.append(len(rec["body"]) - pos)
    return out


def world_scripts(rec):
    """(opcode-enum reader form, expect-helper form)"""
    oplen = 4 if rec["dir"] == "client" else 2
    szlen = len(rec["hdr"]) - oplen
    body = [len(rec["body"])] if rec["body"] else []
    return [szlen, oplen] + body, [len(rec["hdr"])] + body


def select(ctx, t):
    """Login: every behaviour. World: a pool (see TIERS). Returns (records, world_typed)."""
    login, world = [], collections.defaultdict(list)
    for r in wire.iter_records(ctx["paths"]):
        if r["kind"] != "codec" or r.get("regions") or r.get("msgcomp"):
            continue
        if r["exp"] == "login":
            login.append(r)
        else:
            world[(r["exp"], r["dir"])].append(r)
    typed, pool = {}, []
    for key in sorted(world):
        # TLC prints records in a worker-dependent order: fix the order, then let VERIF_SEED pick the pool
        recs = sorted(world[key], key=lambda r: (r["name"], r.get("prof", 0), r["hdr"], r["body"]))
        random.Random(C.seed()).shuffle(recs)
        names = sorted({r["name"] for r in recs if r["name"].startswith(("CMSG_", "SMSG_"))})
        warden = [n for n in names if n.endswith("_WARDEN_DATA")]
        step = max(1, len(names) // t["typed"])
        tnames = warden + [n for n in names[::step] if n not in warden][: t["typed"]]
        typed[key] = tnames
        chosen, per_len, per_name = [], collections.Counter(), collections.Counter()
        for r in recs:
            ln = len(r["hdr"]) + len(r["body"])
            if r["name"] in tnames and per_name[r["name"]] < 4:
                per_name[r["name"]] += 1
                chosen.append(r)
            elif ln <= t["exh"]:
                if per_len[ln] < t["pool_per_len"]:
                    per_len[ln] += 1
                    chosen.append(r)
            elif per_len["long"] < t["pool_first"]:
                per_len["long"] += 1
                chosen.append(r)
        pool.extend(chosen)
    login.sort(key=lambda r: (r.get("lv", 0), r["dir"], r["name"], r.get("prof", 0), r["hdr"], r["body"]))
    return login + pool, typed


def build_subjects(records, t):
    """Distinct (L, script) shapes; one schedule class per length. Adds `cls` to every record."""
    shapes = {}
    for r in records:
        ln = len(r["hdr"]) + len(r["body"])
        scripts = [login_script(r)] if r["exp"] == "login" else world_scripts(r)
        for sc in scripts:
            if sum(sc) != ln:
                raise C.ToolError("read script of %s does not cover the message: %s vs %d" % (r["name"], sc, ln))
            shapes.setdefault((ln, tuple(sc)), r["name"])
        r["cls"] = ln
    subjects = []
    seen_len = set()
    for (ln, sc) in sorted(shapes):
        subjects.append({"sid": len(subjects) + 1, "L": ln, "script": list(sc),
                         "maxpend": next((p for (b, p) in t["pend_by_len"] if ln <= b), 2),
                         "emit": 0 if ln in seen_len else 1, "example": shapes[(ln, sc)]})
        seen_len.add(ln)
    return subjects


def write_subjects(path, subjects):
    with open(path, "w") as f:
        for i, s in enumerate(subjects):
            s = dict(s)
            s["sid"] = s["L"]          # the schedule class printed in the records = the length
            s.pop("example", None)
            f.write(json.dumps(s) + "\n")


_RE_COV2 = re.compile(r"^<(\w+) line \d+, col \d+ to line \d+, col \d+ of module ChunkedRead[^>]*>: (\d+):(\d+)")


def coverage_of(res):
    cov = dict(res.coverage)
    with open(res.log_path) as f:
        for line in f:
            m = _RE_COV2.match(line)
            if m:
                cov[m.group(1)] = (int(m.group(2)), int(m.group(3)))
    return cov


class ClassSink:
    """File-like sink for run_tlc: routes every schedule record to <dir>/sched-<L>.ndjson and counts."""
    _RE = re.compile(r'"L":(\d+)')

    def __init__(self, d):
        self.dir = d
        os.makedirs(d, exist_ok=True)
        self.files = {}
        self.per_class = collections.Counter()
        self.eofs = self.pend = 0
        self.samples = {}

    def write(self, line):
        ln = int(self._RE.search(line).group(1))
        f = self.files.get(ln)
        if f is None:
            f = self.files[ln] = open(os.path.join(self.dir, "sched-%d.ndjson" % ln), "w")
        f.write(line)
        self.per_class[ln] += 1
        done = '"eof":-1' in line
        if done != ('"st":"done"' in line):
            raise C.ToolError("model record with inconsistent outcome: %s" % line)
        if not done:
            self.eofs += 1
        has_pend = "[0," in line or ",0," in line or ",0]" in line or "[0]" in line
        if has_pend:
            self.pend += 1
            key = "eof" if not done else ("long" if ln > 16 else "done")
            if key not in self.samples and ln >= 8:
                r = json.loads(line)
                if len(r["sched"]) >= 5:
                    self.samples[key] = r

    def close(self):
        for f in self.files.values():
            f.close()
        self.files = {}


def run_model(wd, subjects, t, mutant="", only_enum=False):
    """Returns (stats dict, ClassSink)."""
    # schedules are enumerated / sampled once per length (the representative shape, emit = 1); every
    # shape up to live_max is model checked exhaustively in the no-history configuration
    exh = [s for s in subjects if s["L"] <= t["exh"] and s["emit"]]
    sim = [s for s in subjects if s["L"] > t["exh"] and (s["emit"] or s["L"] > t["live_max"])]
    live = [s for s in subjects if s["L"] <= t["live_max"]]
    sink = ClassSink(os.path.join(wd, "schedules" + ("-" + mutant if mutant else "")))
    stats = {}
    base_env = {"C06_MAXRUN": MAXRUN, "C06_MUTANT": mutant}
    if True:
        p = os.path.join(wd, "subjects-enum.ndjson")
        write_subjects(p, exh)
        env = dict(base_env, C06_SUBJECTS=p, C06_MODE="enum")
        res = C.run_tlc("ChunkedRead", cfg="ChunkedRead.cfg", workers=t["tlc_workers"], timeout=3000, env=env,
                        name="C06-enum", replay_sink=sink, keep_replay_in_memory=False,
                        allow_violation=bool(mutant))
        stats["enum"] = dict(subjects=len(exh), generated=res.generated, distinct=res.distinct, depth=res.depth,
                             wall=round(res.wall, 1), coverage=coverage_of(res), violated=res.violated,
                             finished=res.finished)
        if only_enum:
            sink.close()
            return stats, sink
        missing = [a for a in ("DeliverAny", "ReturnPending", "Eof", "Take", "CompleteRead")
                   if stats["enum"]["coverage"].get(a, (0, 0))[1] == 0]
        if missing:
            raise C.ToolError("vacuous ChunkedRead run, actions never fired: %s" % missing)
        if sim:
            p = os.path.join(wd, "subjects-sim.ndjson")
            write_subjects(p, sim)
            env = dict(base_env, C06_SUBJECTS=p, C06_MODE="sim")
            w = t["tlc_workers"]
            per_worker = -(-t["sim"] // w)
            res = C.run_tlc("ChunkedRead", cfg="ChunkedReadSim.cfg", workers=w, timeout=3000, env=env,
                            name="C06-sim", replay_sink=sink, keep_replay_in_memory=False,
                            simulate=per_worker, depth=100000000)
            stats["sim"] = dict(subjects=len(sim), walks=per_worker * w, generated=res.generated,
                                wall=round(res.wall, 1))
    sink.close()
    p = os.path.join(wd, "subjects-live.ndjson")
    write_subjects(p, live)
    env = dict(base_env, C06_SUBJECTS=p, C06_MODE="live")
    res = C.run_tlc("ChunkedRead", cfg="ChunkedReadLive.cfg", workers=t["tlc_workers"], timeout=3000, env=env,
                    name="C06-live")
    if not res.finished:
        raise C.ToolError("ChunkedRead live run did not finish (log %s)" % res.log_path)
    stats["live"] = dict(subjects=len(live), generated=res.generated, distinct=res.distinct, depth=res.depth,
                         wall=round(res.wall, 1))
    return stats, sink


# ----------------------------------------------------------------------------------------------
# replay
# ----------------------------------------------------------------------------------------------

def execute(binary, sched_dir, records, t, fault=None, per_class=None):
    """Runs `vh chunks` over the records (grouped by schedule class, heaviest classes first, one
    record per process where a class has many schedules)."""
    args = ["chunks", sched_dir]
    if fault:
        args += ["--fault", fault]
    per_class = per_class or {}
    records = sorted(records, key=lambda r: (-per_class.get(r["cls"], 0), r["cls"]))
    heavy = [r for r in records if per_class.get(r["cls"], 0) > 20000]
    light = [r for r in records if per_class.get(r["cls"], 0) <= 20000]
    verdicts, totals = [], {"records": 0, "ok": 0}
    for part, chunk in ((heavy, 1), (light, 24)):
        if not part:
            continue
        lines = [json.dumps(r, separators=(",", ":")) for r in part]
        vs, tt = R.run_records(binary, args, lines, chunk=chunk, jobs=t["jobs"], timeout=3000)
        verdicts.extend(vs)
        totals["records"] += tt["records"]
        totals["ok"] += tt["ok"]
    stats = collections.Counter()
    by_entry = collections.Counter()
    out = []
    for v in verdicts:
        if "stats" in v:
            for k, val in v["stats"].items():
                if k == "by_entry":
                    by_entry.update(val)
                else:
                    stats[k] += val
        else:
            out.append(v)
    if totals["records"] != len(records):
        raise C.ToolError("harness judged %d of %d records" % (totals["records"], len(records)))
    return out, totals, dict(stats), dict(by_entry)


_NUM = re.compile(r"\d+")


def observation(o):
    d = o.get("detail") if isinstance(o.get("detail"), dict) else {}
    why = d.get("tokio_differs") or d.get("astd_differs") or d.get("why") or d.get("process") or str(o.get("detail"))
    which = [k for k in ("tokio", "astd") if d.get(k + "_differs")]
    return {"name": o.get("name"), "exp": o.get("exp"), "lv": o.get("lv"), "dir": o.get("dir"),
            "verdict": o.get("verdict"), "entry": o.get("entry"), "variants": "+".join(which),
            "sig": _NUM.sub("N", str(why))[:160]}


LONG_STRINGS = (256, 257)


def prepare(tier, tag):
    t = dict(TIERS[tier])
    tw = t["wire"]   # (the whole-corpus thorough bounds of C01 are not needed for a pool of world messages)
    ldir, lw, corpus = wire.prepare("lowered-" + tag)
    outdir = os.path.join(C.WORK, "wire-" + tag)
    wstats, paths = wire.run_wire(ldir, outdir, nshards=tw["nshards"], workers=tw["workers"], nprof=tw["nprof"],
                                  maxlen=tw["maxlen"], deep=tw["deep"], timeout=tw["timeout"], tag=tag)
    ctx = {"paths": paths, "stats": wstats}
    records, typed = select(ctx, t)
    # Login CStrings at the boundary of the login crate's CString cap (256 bytes): the model's long
    # string pattern is set to 256 and 257 bytes for two extra explorations of the login messages.
    # The blocking reader decides what such an input means; the two async copies must consume the
    # same bytes (seed C06-d: an async-std copy that stops one byte early at exactly 256).
    longs = []
    for n in LONG_STRINGS:
        ls, lp = wire.run_wire(ldir, os.path.join(C.WORK, "wire-%s-long%d" % (tag, n)), nshards=1, workers=4, nprof=6,
                               maxlen=1, only="@login", timeout=600, tag="%s-long%d" % (tag, n),
                               extra_env={"WOWM_LONGSTR": n})
        wstats.extend(ls)
        for r in wire.iter_records(lp):
            if r["kind"] == "codec" and r["exp"] == "login" and any(e.get("k") == "CString" and e["len"] == n + 1 for e in r.get("ev", [])):
                longs.append(r)
    if not longs:
        raise C.ToolError("no login behaviour with a %s-byte CString was explored" % "/".join(map(str, LONG_STRINGS)))
    seen = {(r["name"], r.get("lv", 0), bytes(r["hdr"] + r["body"])) for r in records}
    longs.sort(key=lambda r: (r.get("lv", 0), r["dir"], r["name"], r.get("prof", 0), r["hdr"], r["body"]))
    for r in longs:
        k = (r["name"], r.get("lv", 0), bytes(r["hdr"] + r["body"]))
        if k not in seen:
            seen.add(k)
            records.append(r)
    ctx["long_string_records"] = len(longs)
    if not records:
        raise C.ToolError("WowmWire produced no records")
    gen_chunks.main(typed)
    binary = C.build_harness("vh")
    subjects = build_subjects(records, t)
    return t, ctx, records, typed, subjects, binary


def run(tier):
    t0 = time.time()
    t, ctx, records, typed, subjects, binary = prepare(tier, "c06")
    wd = C.workdir(PROP)
    mstats, sink = run_model(wd, subjects, t)
    per_class, n_eof, n_pend, samples = sink.per_class, sink.eofs, sink.pend, list(sink.samples.values())
    for r in records:
        if per_class.get(r["cls"], 0) == 0:
            raise C.ToolError("no schedule for message length %d (%s)" % (r["cls"], r["name"]))
    t1 = time.time()
    verdicts, totals, hstats, by_entry = execute(binary, sink.dir, records, t, per_class=per_class)
    C.log("[c06] model %.1fs, replay %.1fs: %d records, %d schedules, %d async read runs, %d async write runs"
          % (t1 - t0, time.time() - t1, len(records), sum(per_class.values()), hstats.get("read_runs", 0),
             hstats.get("write_runs", 0)))
    v = C.Verdicts(PROP)
    by_verdict = collections.Counter()
    for o in verdicts:
        by_verdict[o["verdict"]] += 1
        if o["verdict"] == "harness_unsupported":
            raise C.ToolError("harness could not run a record: %s" % json.dumps(o)[:400])
        want = (o.get("detail") or {}).get("input") if isinstance(o.get("detail"), dict) else None
        rec = next((r for r in records if r["name"] == o.get("name") and r["exp"] == o.get("exp") and
                    r["dir"] == o.get("dir") and r.get("lv", 0) == o.get("lv", 0) and
                    (want is None or bytes(r["hdr"] + r["body"]).hex() == want)), None)
        v.report(observation(o), replay={"verdict": o, "record": rec, "tier": tier,
                                         "typed": {"%s/%s" % k: val for k, val in typed.items()}})
    rc = v.finish()
    states = mstats["enum"]["distinct"] + mstats["live"]["distinct"] + mstats.get("sim", {}).get("generated", 0)
    trans = mstats["enum"]["generated"] + mstats["live"]["generated"] + mstats.get("sim", {}).get("generated", 0)
    n_login = sum(1 for r in records if r["exp"] == "login")
    exh_lens = sorted(l for l in per_class if l <= t["exh"])
    cov = {
        "states": states,
        "transitions": trans,
        "traces_validated_against_impl": hstats.get("read_runs", 0) + hstats.get("write_runs", 0),
        "samples": samples + [{"record": {k: records[-1][k] for k in ("name", "exp", "lv", "dir", "hdr", "body")},
                               "note": "every schedule of the record's length class is applied to it"}],
        "evaluations": hstats.get("read_runs", 0) + hstats.get("write_runs", 0),
        "distinct_nontrivial": sum(per_class.values()),
        "rule": "one evaluation = one async run (tokio or async-std) of one entry point on one record under one schedule, compared with the blocking run on the same content; distinct_nontrivial = distinct schedules",
        "exhaustive": False,
        "bounds": {"exhaustive_lengths": exh_lens, "exhaustive_up_to": t["exh"],
                   "pending_answers_in_a_row": MAXRUN,
                   "pending_answers_per_schedule_by_length_bound": t["pend_by_len"],
                   "simulated_schedules_per_length": mstats.get("sim", {}).get("walks", 0),
                   "fairness_checked_up_to_length": t["live_max"]},
        "model": mstats,
        "subjects": len(subjects),
        "schedules": sum(per_class.values()), "schedules_with_eof": n_eof, "schedules_with_pending": n_pend,
        "schedules_per_length": {str(k): per_class[k] for k in sorted(per_class)},
        "records": {"login": n_login, "world": len(records) - n_login},
        "world_typed_helpers": {"%s/%s" % k: val for k, val in typed.items()},
        "harness": hstats, "runs_by_entry": by_entry,
        "non_ok_by_verdict": dict(by_verdict),
        "known_finding_hits": dict(v.known_hits),
    }
    C.write_evidence(PROP, tier, "model_checking", cov, time.time() - t0, ASSUMPTIONS, violations=len(v.violations))
    return rc


def replay(path):
    body = json.load(open(path))
    beh = body["behaviour"]
    rec, o = beh["record"], beh["verdict"]
    d = o["detail"]
    wd = C.workdir(PROP + "-replay")
    ln = len(rec["hdr"]) + len(rec["body"])
    sp = wd
    with open(os.path.join(wd, "sched-%d.ndjson" % ln), "w") as f:
        f.write(json.dumps({"sid": ln, "L": ln, "sched": d["sched"], "eof": d["eof"]}) + "\n")
    rec = dict(rec, cls=ln)
    gen_chunks.main(replay_typed(rec, beh.get("typed")))
    binary = C.build_harness("vh")
    verdicts, totals, hstats, by_entry = execute(binary, sp, [rec], dict(TIERS["quick"], jobs=1))
    for x in verdicts:
        print(json.dumps(x))
    print("replayed %s %s/%s under schedule %s eof %s: %d disagreeing entry points"
          % (rec["name"], rec["exp"], rec["dir"], d["sched"], d["eof"], len(verdicts)))
    return 1 if verdicts else 0


def replay_typed(rec, stored=None):
    typed = dict(gen_chunks.DEFAULT_WORLD_TYPED)
    if stored:
        typed = {tuple(k.split("/")): list(val) for k, val in stored.items()}
    if rec["exp"] != "login" and rec["name"].startswith(("CMSG_", "SMSG_")):
        key = (rec["exp"], rec["dir"])
        if rec["name"] not in typed[key]:
            typed[key] = typed[key] + [rec["name"]]
    return typed


def selftest(tier):
    """Binding demonstrations:
    1. a transport that loses / repeats one byte must make the replay disagree on every record;
    2. a model record whose Eof was removed (schedule no longer delivers the content it claims) must be
       refused by the harness;
    3. mutants of the specification (Take loses a byte; a Pending answer forgets the partial fill) must
       violate NoLoss in TLC."""
    t, ctx, records, typed, subjects, binary = prepare("quick", "c06")
    t = dict(t, exh=6, sim=16, live_max=6)
    small = [r for r in records if r["cls"] <= 6][:60] + [r for r in records if r["cls"] > 40][:40]
    subj = build_subjects(small, t)
    wd = C.workdir(PROP + "-selftest")
    mstats, sink = run_model(wd, subj, t)
    sched_path = sink.dir
    ok = True
    base, _, _, _ = execute(binary, sched_path, small, t)
    print("selftest C06: unmodified transport: %d disagreements on %d records" % (len(base), len(small)))
    ok &= len(base) == 0
    for fault in ("drop", "dup"):
        verdicts, totals, _, _ = execute(binary, sched_path, small, t, fault=fault)
        bad = {(o["name"], o["exp"], o.get("lv"), o["dir"], o.get("prof"), o.get("id")) for o in verdicts
               if o["verdict"] == "disagree"}
        print("selftest C06: transport fault '%s': %d of %d records rejected" % (fault, totals["records"] - totals["ok"], len(small)))
        # (repeating a byte is invisible where the byte equals its neighbour, e.g. runs of zeros)
        ok &= (totals["records"] - totals["ok"]) >= len(small) * (0.9 if fault == "drop" else 0.3) and len(bad) > 0
    # 2. corrupt one model record
    bad_dir = os.path.join(wd, "schedules-corrupt")
    os.makedirs(bad_dir, exist_ok=True)
    victim = next(r for r in small if r["cls"] >= 3)
    cls = victim["cls"]
    lines = open(os.path.join(sched_path, "sched-%d.ndjson" % cls)).read().splitlines()
    idx = next(i for i, l in enumerate(lines) if json.loads(l)["eof"] > 0)
    r = json.loads(lines[idx])
    r["eof"] = -1
    lines[idx] = json.dumps(r)
    open(os.path.join(bad_dir, "sched-%d.ndjson" % cls), "w").write("\n".join(lines) + "\n")
    try:
        execute(binary, bad_dir, [victim], t)
        print("selftest C06: corrupted model record NOT detected")
        ok = False
    except C.ToolError as e:
        print("selftest C06: corrupted model record refused (%s)" % str(e).splitlines()[0][:120])
    # 3. specification mutants
    for mutant in ("drop", "forget"):
        st, _ = run_model(wd, subj, t, mutant=mutant, only_enum=True)
        viol = st["enum"]["violated"]
        print("selftest C06: specification mutant '%s': TLC reports %s" % (mutant, viol or "nothing"))
        ok &= "NoLoss" in viol or "CompleteGuard" in viol or "ScheduleIndependent" in viol
    print("selftest C06: %s" % ("binding demonstrated" if ok else "FAILED"))
    return 0 if ok else 2
