"""C07 - the generator compiles any valid wowm program to a codec implementing it.

spec/WowmGrammar.tla is a constructive specification of well-formed wowm programs (state = partial
program, every step guarded by the rules of lang-spec.md).  `tlc -simulate` (seeded by VERIF_SEED)
yields N programs.  They are printed as wowm text (tools/wowm_print.py; printer/parser round trip is
checked against the independent front-end) and REPLACE the bodies of existing simple Vanilla world
messages in ONE scratch copy of /repo (same names and opcodes, fresh names for their types).

spec -> impl, per batch of programs:
  1. the real generator (built from /repo's working tree, hook H1) must accept the scratch tree
     (exit 0); a rejected program is attributed (diagnostic text, else bisection) and reported;
  2. spec/WowmStatic.tla (C16's static rules) evaluated by TLC on the scratch corpus must find no
     broken rule (cross-check of the grammar's guards by an independently written rule set);
  3. the scratch wow_world_base / wow_world_messages must COMPILE (one cargo build of a second
     harness workspace, /verif/harness_c07, whose path dependencies point into the scratch tree;
     features sync + tokio + async-std + vanilla); rustc errors are attributed to programs by the
     generated file they occur in;
  4. spec/WowmWire.tla enumerates every canonical encoding of the replaced messages (all control
     paths x array lengths x profiles; TLC also checks SizeAgrees and UniquelyDecodable on them);
     each behaviour is replayed through the public opcode enums of the freshly built crates:
     accepted, exact consumption, byte-identical re-encode (the writer's own size assertion covers
     "consistent declared size": a panic there is a verdict).
"""
import collections
import json
import os
import re
import shutil
import subprocess
import time

from tools import common as C
from tools import irsizes
from tools import c07_common as K
from tools import lower
from tools import regen
from tools import replay as R
from tools import static_lower as SL
from tools import wire
from tools import wowm_front as F
from tools import wowm_print as P

PROP = "C07"
TIERS = {
    "quick": dict(programs=40, cap=72, batch=128, nprof=2, maxlen=2, static=True, oversample=8),
    "thorough": dict(programs=500, batch=104, nprof=3, maxlen=3, static=True, oversample=2),
}

# Shapes on which the generator is KNOWN to abort before it writes anything (no culprit is named in the
# diagnostic, so every such program would cost a bisection).  One representative per shape is run
# through the generator ALONE in every run (a few seconds); while it is still rejected the other programs
# of that shape are held back from the batch and counted.  The representative's rejection is reported
# like any other finding (violation unless listed in known_findings.jsonl).
HOLD_SHAPES = ["shape:if_on_outer_variable"]
# features whose presence alone makes a program fail in the generator or in rustc (known findings
# c07-*-shape match on them; the diagnostic that comes first varies with what else the program holds)
BAD_SHAPES = {"or_and", "else_and", "shape:two_tested_one_type", "shape:if_on_outer_variable"}

# Failures that are instances of findings already listed for C01 (same printer code, same defect) are
# counted under the existing key - property C07 adds no second entry for them.
#   feature: the program uses this syntactic feature; verdict / sig_contains: what was observed
C01_SHAPES = [
    dict(key_prefix="flag-elseif-group-size", feature="elseif_and", stage="replay", verdict="panic",
         sig_contains="assertion `left == right` failed"),
    dict(key_prefix="guild-bank-swap-items-unreadable", feature="shape:endless_after_if", stage="replay",
         verdict="read_err", sig_contains=""),
    dict(key_prefix="login8-logon-proof-else-padding-unread", feature="shape:const_in_else", stage="replay",
         verdict="consumed", sig_contains=""),
]

ASSUMPTIONS = [
    "tools/wowm_front.py + tools/lower.py read the printed programs the way the language documents describe (the printer/parser round trip is checked for every program; the printer also reproduces all 1,907 corpus objects)",
    "spec/WowmGrammar.tla transcribes the well-formedness rules of lang-spec.md; its programs are additionally judged by spec/WowmStatic.tla (C16's rule set) on every run",
    "programs are world messages (cmsg / smsg) of version 1.12 embedded in place of existing Vanilla messages; login messages, msg, compressed, tags other than versions, and the complex built-ins (masks, UpdateMask, splines, NamedGuid) are not generated",
    "identifiers are digit-free and unique in the workspace (the Wireshark printer of the generator derives a global name from an identifier cut at its first digit - recorded as a finding, probed in every run)",
    "self.size is generated with u16 / u32 only; endless arrays and optional only as the last top-level member of the message; structs and the optional block begin with a scalar",
    "values are drawn by WowmWire's profile rotation; structure (branches, array lengths, optional tail) is explored exhaustively per program",
]


def log(msg):
    C.log("[C07] " + msg)


_NORM = [(re.compile(r"Vf[A-Z][a-z]"), "VfXx"), (re.compile(r"vf_?[a-z]{2}(?=[a-z]*_)"), "vfxx"),
         (re.compile(r"\b[CS]?MSG_[A-Z0-9_]+?(?=_VfXx|\b)"), "MSG"), (re.compile(r"\d+"), "N"),
         (re.compile(r"VfXx[EFS][a-z]"), "VfXxT"), (re.compile(r"vfxx_[efs][a-z]\b"), "vfxx_t"),
         (re.compile(r"vfxx(m|s[a-z])_[a-z]\b"), "vfxx_field"), (re.compile(r"vfxx(m|s[a-z])_[a-z]_"), "vfxx_field_"),
         (re.compile(r"(?i)\b(alpha|bravo|charlie|delta)\b"), "enumerator"),
         (re.compile(r"_(Alpha|Bravo|Charlie|Delta)\b"), "_Enumerator"), (re.compile(r"_(alpha|bravo|charlie|delta)\b"), "_enumerator"),
         (re.compile(r"/tmp/[^ ]*/"), "")]


def normalise(text, entry=None):
    s = text.replace("\n", " ")
    if entry is not None:
        s = s.replace(entry["slot"]["name"], "MSG").replace(entry["slot"]["name"].lower(), "msg")
        s = s.replace(entry["prefix"], "VfXx").replace(entry["prefix"].lower(), "vfxx")
        s = s.replace("_".join(["vf", entry["prefix"][2:].lower()]), "vfxx")
    for rx, to in _NORM:
        s = rx.sub(to, s)
    return s[:200]


def program_text(entry):
    return P.print_objects(entry["objs"])


def shapes_of(entry):
    return sorted(f for f in entry["features"] if f.startswith("shape:") or f.startswith("if_") or
                  f.startswith("else") or f.startswith("or_") or f in ("optional", "self_size", "variable_tested_by_several_ifs"))


def replay_body(entry, stage, detail):
    return {"stage": stage, "program": entry["prog"], "slot": entry["slot"]["name"], "prefix": entry["prefix"],
            "unique_fields": entry.get("unique_fields", True), "wowm": program_text(entry), "detail": detail}


class Ctx:
    def __init__(self, tier):
        self.tier = tier
        self.v = C.Verdicts(PROP)
        self.known = [e for e in C.load_known() if not e.get("fixed")]
        self.c01_hits = collections.Counter()
        self.counts = collections.Counter()
        self.stage_sigs = collections.Counter()
        self.wire_states = 0
        self.wire_transitions = 0
        self.behaviours = 0
        self.behaviours_ok = 0
        self.samples = []
        self.timing = collections.Counter()
        self.held = collections.Counter()
        self.static_runs = []
        self.sizes_judged = 0

    def report(self, entry, stage, verdict, sig, detail):
        feats = entry["features"]
        for m in C01_SHAPES:
            if m["stage"] == stage and m["verdict"] == verdict and m["feature"] in feats and m["sig_contains"] in sig:
                keys = [e["key"] for e in self.known if e.get("key", "").startswith(m["key_prefix"])]
                if keys:
                    self.c01_hits[m["key_prefix"]] += 1
                    return "known-c01"
        # shapes the generator is known not to get through rustc: such a program cannot show anything
        # else at the generator / compile stage, whatever diagnostic comes first
        bad = sorted(f.replace("shape:", "") for f in feats if f in BAD_SHAPES)
        obs = {"stage": stage, "verdict": verdict, "sig": sig}
        if bad and stage in ("generator", "compile"):
            obs["shapes"] = "," + ",".join(bad) + ","
        self.stage_sigs["%s|%s|%s" % (stage, verdict, sig)] += 1
        return self.v.report(obs, replay=lambda: replay_body(entry, stage, detail))


# ----------------------------------------------------------------------------------------------
# stages
# ----------------------------------------------------------------------------------------------

def prepare_entries(progs, slot_table, seed, first=0):
    entries = K.assign(progs, slot_table, seed, first)
    for e in entries:
        ok, text = P.roundtrip_ok(e["objs"])
        if not ok:
            raise C.ToolError("printer/parser round trip failed for program %s:\n%s" % (e["prefix"], text))
        e["features"] = P.features(e["prog"])
    return entries


def gen_only(ws, all_entries, subset):
    K.restore(ws, all_entries)
    K.embed(ws, subset)
    return K.generate(ws)


def panic_sig(err):
    lines = err.splitlines()
    for i, l in enumerate(lines):
        if "panicked at" in l:
            loc = l.split("panicked at", 1)[1].strip().rstrip(":")
            loc = re.sub(r":\d+:\d+$", "", loc)      # file only: line numbers move with unrelated edits
            msg = lines[i + 1].strip() if i + 1 < len(lines) else ""
            return "panic at %s: %s" % (loc, msg.split("(")[0][:80])
    for l in lines:
        if l.strip():
            return l.strip()[:160]
    return ""


def probe_shapes(ws, entries, ctx):
    """Returns the set of HOLD_SHAPES that the generator still rejects (one representative each, alone)."""
    still = set()
    for shape in HOLD_SHAPES:
        rep = next((e for e in entries if shape in e["features"]), None)
        if rep is None:
            continue
        rc, out, err, wall = gen_only(ws, entries, [rep])
        ctx.timing["generator_s"] += wall
        ctx.counts["generator_runs"] += 1
        if rc == 0:
            log("probe %s: representative %s is ACCEPTED now - shape no longer held back" % (shape, rep["prefix"]))
            continue
        still.add(shape)
        ctx.counts["rejected_by_generator"] += 1
        rep["outcome"] = "rejected_by_generator"
        ctx.report(rep, "generator", "rejected", normalise(panic_sig(err), rep),
                   {"rc": rc, "stderr_tail": err[-1500:], "shape": shape, "features": shapes_of(rep)})
    # field names that differ only after their first digit / are shared by two containers with different types:
    # the two-member program `smsg M { u8 f1; CString f2; }` (a behaviour of the grammar: StartMsg, AddPlain x 2,
    # EndContainer) with the grammar's own names instead of the digit-free workspace-unique ones
    blank = {"m": "decl", "type": "", "upcast": "", "arr": "none", "n": 0, "field": "", "name": "", "const": "",
             "arms": [], "els": [], "haselse": False, "body": []}
    prog = {"defs": [], "structs": [], "kind": "smsg",
            "members": [dict(blank, type="u8", name="f1"), dict(blank, type="CString", name="f2")]}
    rep = next((dict(e, prog=prog, features=P.features(prog)) for e in entries
                if e["prog"]["kind"] == "smsg" and e.get("outcome") is None), None)
    if rep is not None:
        probe = dict(rep)
        probe["objs"] = P.raise_program(rep["prog"], rep["prefix"], rep["slot"]["name"], rep["slot"]["opcode"],
                                        unique_fields=False)
        probe["unique_fields"] = False
        rc, out, err, wall = gen_only(ws, entries, [probe])
        ctx.timing["generator_s"] += wall
        ctx.counts["generator_runs"] += 1
        if rc != 0:
            ctx.counts["probe_numbered_field_names_rejected"] += 1
            ctx.report(probe, "generator", "rejected", normalise(panic_sig(err), probe),
                       {"rc": rc, "stderr_tail": err[-1500:], "shape": "numbered_field_names_of_different_types",
                        "note": "the same two-member program with digit-free names (fa, fb) is accepted; every program of the batch uses digit-free, workspace-unique identifiers for this reason"})
        else:
            ctx.counts["probe_numbered_field_names_accepted"] += 1
    return still


def bisect_generator(ws, all_entries, cur, ctx):
    sub = list(cur)
    while len(sub) > 1:
        h = sub[:len(sub) // 2]
        rc, out, err, wall = gen_only(ws, all_entries, h)
        ctx.timing["generator_s"] += wall
        ctx.counts["generator_runs"] += 1
        sub = h if rc != 0 else sub[len(sub) // 2:]
    return sub[0]


def static_stage(ws, ctx, tag):
    """C16's rule set, evaluated by TLC on the scratch corpus: it must break no rule."""
    t0 = time.time()
    corpus = F.load_corpus(ws)
    d = os.path.join(C.WORK, "c07-static-" + tag)
    shutil.rmtree(d, ignore_errors=True)
    lowered = SL.write_program(d, corpus, ws)
    open(os.path.join(d, "mutants.ndjson"), "w").close()
    env = {"WS_OBJECTS": d + "/objects.ndjson", "WS_INDEX": d + "/index.json", "WS_USEDBY": d + "/usedby.json",
           "WS_OPCODES": d + "/opcodes.json", "WS_MUTANTS": d + "/mutants.ndjson", "WS_FULLCHECK": 0, "WS_DEBUG": "0"}
    res = C.run_tlc("WowmStatic", workers=4, timeout=900, env=env, name="c07-static-" + tag, coverage=False,
                    allow_violation=True)
    if res.violated or res.errors:
        raise C.ToolError("WowmStatic judges the scratch corpus ill-formed (%s %s, log %s): the grammar built a "
                          "program that C16's rule set rejects" % (res.violated, res.errors[:2], res.log_path))
    ctx.static_runs.append({"objects": len(lowered), "states": res.distinct, "wall_s": round(time.time() - t0, 1)})
    ctx.timing["static_s"] += time.time() - t0
    ctx.wire_states += res.distinct
    ctx.wire_transitions += res.generated


def settle(ws, entries, ctx, static_tag=None):
    """Iterates generator + build until the scratch tree is accepted and compiles.
    Returns (surviving entries, harness binary)."""
    cur = [e for e in entries if e.get("outcome") is None]
    did_static = False
    for it in range(8):
        rc, out, err, wall = gen_only(ws, entries, cur)
        ctx.timing["generator_s"] += wall
        ctx.counts["generator_runs"] += 1
        log("generator on %d programs: rc=%s in %.1fs" % (len(cur), rc, wall))
        if rc != 0:
            hit = K.attribute_generator_failure(err, cur)
            if len(hit) != 1:
                hit = [bisect_generator(ws, entries, cur, ctx)]
            c = hit[0]
            rc1, out1, err1, wall1 = gen_only(ws, entries, [c])
            ctx.timing["generator_s"] += wall1
            ctx.counts["generator_runs"] += 1
            if rc1 == 0:
                # fails only together with others: report the interplay on the pair we can name
                log("program %s is accepted alone; removing it to make progress" % c["prefix"])
                err1 = err
            c["outcome"] = "rejected_by_generator"
            ctx.counts["rejected_by_generator"] += 1
            ctx.report(c, "generator", "rejected" if rc1 != 0 else "rejected_in_batch", normalise(panic_sig(err1), c),
                       {"rc": rc1 if rc1 != 0 else rc, "stderr_tail": err1[-1500:], "features": shapes_of(c)})
            cur = [e for e in cur if e is not c]
            continue
        if static_tag and not did_static:
            static_stage(ws, ctx, static_tag)
            did_static = True
        t0 = time.time()
        K.write_harness(ws)
        binary, berr = K.build_harness()
        ctx.timing["build_s"] += time.time() - t0
        ctx.counts["builds"] += 1
        if binary:
            return cur, binary
        errors = K.rustc_errors(berr, ws)
        by = K.attribute_rustc_errors(errors, cur)
        culprits = [i for i in by if i is not None]
        if not culprits:
            raise C.ToolError("scratch crates do not compile and no error can be attributed to a program:\n%s"
                              % berr[-3000:])
        byidx = {e["idx"]: e for e in cur}
        for i in culprits:
            c = byidx[i]
            c["outcome"] = "does_not_compile"
            ctx.counts["does_not_compile"] += 1
            seen = set()
            for f, code, msg in by[i]:
                sig = normalise("%s %s" % (code, msg), c)
                if sig in seen:
                    continue
                seen.add(sig)
                if len(seen) > 1:
                    break           # the first error of a program names the finding; the rest is in the replay file
                ctx.report(c, "compile", "rustc_error", sig,
                           {"errors": ["%s: %s %s" % x for x in by[i][:8]], "features": shapes_of(c)})
        log("build failed: %d programs removed (%s)" % (len(culprits), ", ".join(byidx[i]["prefix"] for i in culprits)))
        cur = [e for e in cur if e["idx"] not in culprits]
    raise C.ToolError("scratch tree did not settle after 8 generator/build iterations")


def wire_stage(ws, cur, ctx, tag, params):
    """WowmWire over the replaced messages only (the corpus is filtered before lowering: all types stay,
    of the messages only the programs')."""
    t0 = time.time()
    names = {e["slot"]["name"] for e in cur}
    corpus = F.load_corpus(ws)
    sub = []
    for o in corpus:
        if o["kind"] == "test":
            continue
        if o["kind"] in ("cmsg", "smsg", "msg", "clogin", "slogin"):
            if o["name"] in names and o["tags"].get("versions") == ["1.12"]:
                sub.append(o)
            continue
        sub.append(o)
    ldir = os.path.join(C.WORK, "c07-lowered-" + tag)
    shutil.rmtree(ldir, ignore_errors=True)
    lw = lower.Lowerer().lower(sub)
    lw.write(ldir)
    outdir = os.path.join(C.WORK, "c07-wire-" + tag)
    shutil.rmtree(outdir, ignore_errors=True)
    stats, paths = wire.run_wire(ldir, outdir, nshards=2, workers=4, nprof=params["nprof"], maxlen=params["maxlen"],
                                 only="", deep=False, timeout=1500, tag="c07-" + tag, det_after=params.get("det_after", 12))
    ctx.wire_states += sum(s["distinct"] for s in stats)
    ctx.wire_transitions += sum(s["generated"] for s in stats)
    ctx.timing["wire_s"] += time.time() - t0
    return paths, ldir, lw


def sizes_stage(ws, cur, ctx, tag, ldir, lw):
    """The sizes the generator computed for the programs (minimum / maximum / constant in the IR it
    wrote into the scratch tree, and the guard literal compiled into each generated reader) against
    the exact extremes of the definition (spec/MCSizes.tla = C09's judgement, on the programs): a
    guard that is narrower than the definition rejects canonical encodings the replay's short
    strings and arrays never reach."""
    t0 = time.time()
    ir_path = os.path.join(ws, "intermediate_representation.json")
    if not os.path.exists(ir_path) or os.path.getsize(ir_path) == 0:
        raise C.ToolError("the generator left no intermediate representation in the scratch tree")
    wd = C.workdir("c07-sizes-" + tag)
    byname = {e["slot"]["name"]: e for e in cur}
    bytype = {}
    for e in cur:
        bytype[e["prefix"]] = e
    recs, unmatched, guards = irsizes.build_decl(ir_path, lw, os.path.join(wd, "decl-all.ndjson"), repo=ws)
    mine = []
    for r in recs:
        o = lw.objects[r["oid"] - 1]
        e = byname.get(o["name"]) if o["kind"] in ("cmsg", "smsg") else next((x for pre, x in bytype.items() if o["name"].startswith(pre)), None)
        if e is not None:
            mine.append((r, e))
    if len({id(e) for _, e in mine}) < len(cur):
        raise C.ToolError("IR of the scratch tree lacks %d of %d programs" % (len(cur) - len({id(e) for _, e in mine}), len(cur)))
    with open(os.path.join(wd, "decl.ndjson"), "w") as f:
        for r, _ in mine:
            f.write(json.dumps(r) + "\n")
    env = {"WOWM_OBJECTS": ldir + "/objects.ndjson", "WOWM_BLOCKS": ldir + "/blocks.ndjson",
           "WOWM_INDEX": ldir + "/index.json", "WOWM_NSHARDS": 1, "WOWM_SHARD": 0, "WOWM_NPROF": 1,
           "WOWM_MAXLEN": 2, "WOWM_ONLY": "", "WOWM_DEEP": "0", "WOWM_FAULTS": "0", "WOWM_FAULT_EVERY": 1,
           "WOWM_FAULT_PHASE": 0, "WOWM_CONST": wire.EMPTY_LIST, "WOWM_DECL": os.path.join(wd, "decl.ndjson")}
    res = C.run_tlc("MCSizes", workers=1, timeout=600, env=env, name="c07-sizes-" + tag, coverage=False, xmx="3g")
    ent = {r["oid"]: e for r, e in mine}
    judged = 0
    for v in res.replay:
        judged += 1
        # soundness clauses only: bounds that are wider than the definition's extremes (an `if` that
        # happens to name every enumerator) still accept every canonical encoding
        for clause in ("minOk", "maxOk", "constSound", "guardOk"):
            if not v[clause]:
                e = ent[v["oid"]]
                kind = lw.objects[v["oid"] - 1]["kind"]
                sig = "%s of %s: definition [%s, %s], declared [%s, %s]%s" % (
                    clause, "message" if kind in ("cmsg", "smsg") else kind,
                    "N", "N", "N", "N", " guard" if clause == "guardOk" else "")
                if e.get("outcome") in (None, "ok"):
                    e["outcome"] = "sizes_wrong"
                    ctx.counts["sizes_wrong"] += 1
                ctx.report(e, "sizes", clause, sig, {"judgement": v, "features": shapes_of(e)})
    if judged < len(mine):
        raise C.ToolError("MCSizes judged %d of %d declared records" % (judged, len(mine)))
    ctx.sizes_judged += judged
    ctx.wire_states += res.distinct
    ctx.wire_transitions += res.generated
    ctx.timing["sizes_s"] += time.time() - t0


def replay_stage(binary, paths, cur, ctx):
    t0 = time.time()
    byname = {e["slot"]["name"]: e for e in cur}
    lines, per = [], collections.Counter()
    skips = collections.Counter()
    for r in wire.iter_records(paths):
        if r["kind"] == "skip":
            skips[(r["name"], r["why"])] += 1
            continue
        if r["kind"] != "codec":
            continue
        per[r["name"]] += 1
        lines.append(json.dumps(r, separators=(",", ":")))
        if len(ctx.samples) < 2 and len(r["body"]) > 8:
            e = byname.get(r["name"])
            if e:
                ctx.samples.append({"program": program_text(e), "behaviour": {k: r[k] for k in ("name", "exp", "dir", "prof", "hdr", "body")}})
    if skips:
        raise C.ToolError("WowmWire could not walk generated programs: %s" % list(skips.items())[:5])
    missing = [n for n in byname if per[n] == 0]
    if missing:
        raise C.ToolError("no behaviour for replaced messages %s" % missing[:5])
    verdicts, totals = R.run_records(binary, ["codec"], lines, jobs=6)
    if totals["records"] != len(lines):
        raise C.ToolError("harness judged %d of %d records" % (totals["records"], len(lines)))
    ctx.behaviours += totals["records"]
    ctx.behaviours_ok += totals["ok"]
    failed = collections.defaultdict(list)
    for o in verdicts:
        failed[o.get("name")].append(o)
    for name, e in byname.items():
        if name in failed:
            e["outcome"] = "replay_failed"
            ctx.counts["replay_failed"] += 1
            seen = set()
            for o in failed[name]:
                d = o.get("detail") if isinstance(o.get("detail"), dict) else {}
                m = d.get("panic") or d.get("error") or d.get("process") or d.get("note") or ""
                sig = normalise(m, e)
                if (o["verdict"], sig) in seen:
                    continue
                seen.add((o["verdict"], sig))
                rec = None
                for r in wire.iter_records(paths):
                    if r["kind"] == "codec" and r["name"] == name and r.get("prof") == o.get("prof"):
                        inp = d.get("input")
                        if inp is None or bytes(r["hdr"] + r["body"]).hex() == inp:
                            rec = r
                            break
                ctx.report(e, "replay", o["verdict"], sig, {"verdict": o, "record": rec, "features": shapes_of(e),
                                                            "behaviours_of_program": per[name],
                                                            "failing_behaviours": len(failed[name])})
        else:
            e["outcome"] = "ok"
            ctx.counts["programs_ok"] += 1
    ctx.timing["replay_s"] += time.time() - t0
    return per


def run_batch(ws, entries, ctx, tag, params, still_held):
    for e in entries:
        e.setdefault("outcome", None)
        held = set(still_held) & e["features"]
        if held and e["outcome"] is None:
            e["outcome"] = "held_back"
            for h in held:
                ctx.held[h] += 1
    cur, binary = settle(ws, entries, ctx, static_tag=tag if params["static"] else None)
    if not cur:
        raise C.ToolError("no program of batch %s survived generator and compiler" % tag)
    paths, ldir, lw = wire_stage(ws, cur, ctx, tag, params)
    replay_stage(binary, paths, cur, ctx)
    sizes_stage(ws, cur, ctx, tag, ldir, lw)
    return cur, binary, paths


# ----------------------------------------------------------------------------------------------
# run / replay / selftest
# ----------------------------------------------------------------------------------------------

REQUIRED_FEATURES = {
    "quick": ["if_eq", "if_and", "array_fixed", "array_var", "array_endless", "optional", "const", "enum_field",
              "flag_field", "struct_field", "kind:cmsg", "kind:smsg"],
    "thorough": ["if_eq", "if_ne", "if_and", "elseif_eq", "elseif_and", "else_eq", "or_eq", "if_nested",
                 "array_fixed", "array_var", "array_endless", "array_fixed_struct", "array_var_struct",
                 "array_endless_struct", "optional", "const", "self_size", "enum_field", "flag_field",
                 "enum_upcast_u32", "struct_field", "scalar:CString", "scalar:SizedCString", "scalar:PackedGuid",
                 "scalar:Guid", "scalar:f32", "scalar:Bool", "scalar:DateTime", "kind:cmsg", "kind:smsg",
                 "variable_tested_by_several_ifs", "if_in_struct", "if_in_optional"],
}


def select(pool, n, cap=None):
    """Programs of the pool (already in seeded order): first ALL those that add a feature no earlier
    pick has (so a small batch still spans the feature set; at most `cap`), then the rest in order up
    to n."""
    picked, rest, have = [], [], set()
    for p in pool:
        f = P.features(p)
        if f - have:
            picked.append(p)
            have |= f
        else:
            rest.append(p)
    cap = cap or n
    picked = picked[:max(cap, n)]
    return picked if len(picked) >= n else (picked + rest)[:n]


def run(tier):
    t0 = time.time()
    params = TIERS[tier]
    ctx = Ctx(tier)
    K.build_generator()
    pool, gstats = K.grammar(params["programs"] * params["oversample"], tag="c07")
    progs = select(pool, params["programs"], cap=params.get("cap"))
    if len(progs) < params["programs"] // 2:
        raise C.ToolError("grammar simulation produced only %d distinct programs" % len(progs))
    log("grammar: %d distinct programs from %d walks, %d states generated, %.1fs" %
        (len(progs), gstats["walks"], gstats["generated"], gstats["wall"]))
    featc = collections.Counter()
    for p in progs:
        for f in P.features(p):
            featc[f] += 1
    missing = [f for f in REQUIRED_FEATURES[tier] if featc[f] == 0]
    if missing:
        raise C.ToolError("vacuous grammar run: features never generated: %s" % missing)
    # second source: the exhaustive small-scope family of if statements (spec/WowmShapes.tla)
    shape_progs, sstats = K.shapes(tier, tag="c07")
    have = {json.dumps(p, sort_keys=True) for p in progs}
    shape_progs = [p for p in shape_progs if json.dumps(p, sort_keys=True) not in have]
    armc = collections.Counter(f for p in shape_progs for f in P.features(p) if f.startswith("arms:"))
    if len(armc) < 6:
        raise C.ToolError("vacuous WowmShapes run: only %d arm-extent classes" % len(armc))
    log("shapes: %d programs (exhaustive over %s), %d arm-extent classes, %.1fs" %
        (len(shape_progs), sstats["bounds"], len(armc), sstats["wall"]))
    n_random = len(progs)
    progs = progs + shape_progs
    corpus = F.load_corpus(C.REPO)
    slot_table = K.slots(corpus)
    ws = regen.make_scratch("c07")
    all_entries = []
    try:
        batches = [progs[i:i + params["batch"]] for i in range(0, len(progs), params["batch"])]
        still_held = None
        for bi, bprogs in enumerate(batches):
            tag = "b%d" % bi
            K.restore(ws, all_entries)      # the previous batches leave the scratch tree
            entries = prepare_entries(bprogs, slot_table, C.seed() + bi, first=len(all_entries))
            for e in entries:
                e["batch"] = bi
            if still_held is None:
                still_held = probe_shapes(ws, entries, ctx)
            run_batch(ws, entries, ctx, tag, params, still_held)
            all_entries.extend(entries)
            log("batch %d: %s" % (bi, dict(collections.Counter(e["outcome"] for e in entries))))
    finally:
        regen.remove_scratch(ws)
    v = ctx.v
    for k, n in ctx.c01_hits.items():
        print("KNOWN-FINDING: property=C07 %d failing programs are instances of the C01 finding %s* (same generated code shape)" % (n, k))
    rc = v.finish()
    wall = time.time() - t0
    outcomes = collections.Counter(e["outcome"] for e in all_entries)
    cov = {
        "states": gstats["generated"] + sstats["distinct"] + ctx.wire_states,
        "transitions": max(gstats["generated"] - gstats["walks"], 1) + sstats["generated"] + ctx.wire_transitions,
        "traces_validated_against_impl": ctx.behaviours,
        "samples": ctx.samples or [{"program": program_text(all_entries[0])}],
        "shapes": {"programs": len(shape_progs), "states_distinct": sstats["distinct"], "bounds": sstats["bounds"],
                   "exhaustive_within_bounds": True, "arm_extent_classes": dict(sorted(armc.items()))},
        "grammar": {"walks": gstats["walks"], "states_generated": gstats["generated"], "distinct_programs": n_random,
                    "bounds": K.GRAMMAR_ENV, "features_generated": dict(sorted(featc.items()))},
        "programs": len(all_entries),
        "programs_by_outcome": dict(outcomes), "programs_held_back_by_shape": dict(ctx.held),
        "size_judgements": ctx.sizes_judged,
        "behaviours_replayed": ctx.behaviours, "behaviours_ok": ctx.behaviours_ok,
        "wire_and_static_states": ctx.wire_states,
        "static_rule_check": ctx.static_runs,
        "failure_signatures": dict(ctx.stage_sigs),
        "c01_known_shape_hits": dict(ctx.c01_hits),
        "known_finding_hits": dict(v.known_hits),
        "counts": dict(ctx.counts),
        "timing_s": {k: round(x, 1) for k, x in ctx.timing.items()},
        "exhaustive": False,
    }
    C.write_evidence(PROP, tier, "model_checking", cov, wall, ASSUMPTIONS, violations=len(v.violations))
    print("C07 %s: %d programs (%s), %d behaviours replayed (%d ok), %d violation classes, %d known-finding hits, %.0fs" %
          (tier, len(all_entries), ", ".join("%s=%d" % kv for kv in sorted(outcomes.items())), ctx.behaviours,
           ctx.behaviours_ok, len(v.violations), sum(v.known_hits.values()) + sum(ctx.c01_hits.values()), wall))
    return rc


def _entry_from_replay(body, corpus):
    beh = body["behaviour"]
    slot = next(o for o in corpus if o["name"] == beh["slot"] and o["kind"] in ("cmsg", "smsg"))
    objs = P.raise_program(beh["program"], beh["prefix"], slot["name"], slot["opcode"],
                           unique_fields=beh.get("unique_fields", True))
    return {"idx": 0, "prog": beh["program"], "slot": slot, "prefix": beh["prefix"], "objs": objs,
            "features": P.features(beh["program"]), "outcome": None, "unique_fields": beh.get("unique_fields", True)}


def replay(path):
    body = json.load(open(path))
    K.build_generator()
    corpus = F.load_corpus(C.REPO)
    e = _entry_from_replay(body, corpus)
    print(program_text(e))
    ctx = Ctx("quick")
    ws = regen.make_scratch("c07-replay")
    try:
        cur, binary = settle(ws, [e], ctx)
        if cur:
            paths, ldir_r, lw_r = wire_stage(ws, cur, ctx, "replay", TIERS["thorough"])
            replay_stage(binary, paths, cur, ctx)
            sizes_stage(ws, cur, ctx, "replay", ldir_r, lw_r)
    except C.ToolError as ex:
        if e["outcome"] is None:
            raise
        log(str(ex)[:200])
    finally:
        regen.remove_scratch(ws)
    print("replayed program %s in slot %s: outcome %s; failure signatures: %s" %
          (e["prefix"], e["slot"]["name"], e["outcome"], dict(ctx.stage_sigs)))
    return 0 if e["outcome"] == "ok" else 1


def selftest(tier):
    """Binding demonstration: (a) a deliberately ill-formed program (an `if` on an undeclared variable, a
    member of an unknown type) is rejected by the generator; (b) a corrupted behaviour record is rejected by
    the replay against the freshly generated codecs while the untouched record is accepted."""
    K.build_generator()
    progs, gstats = K.grammar(12, tag="c07-selftest")
    corpus = F.load_corpus(C.REPO)
    entries = prepare_entries(progs, K.slots(corpus), C.seed())
    ctx = Ctx("quick")
    ws = regen.make_scratch("c07-selftest")
    ok = True
    try:
        plain = [e for e in entries if not (e["features"] & set(HOLD_SHAPES))]
        base = next(e for e in plain if e["prog"]["members"])
        bad1 = dict(base)
        bad1["objs"] = json.loads(json.dumps(base["objs"]))
        bad1["objs"][-1]["members"].insert(0, {"m": "if", "arms": [{"conds": [{"var": "nosuchvariable", "op": "==", "val": "ALPHA"}],
                                                                   "body": [{"m": "decl", "type": "u8", "upcast": None, "array": None,
                                                                             "name": "selftestx", "const": None, "tags": {}}]}], "else": None})
        bad2 = dict(base)
        bad2["objs"] = json.loads(json.dumps(base["objs"]))
        bad2["objs"][-1]["members"].append({"m": "decl", "type": "NoSuchTypeAnywhere", "upcast": None, "array": None,
                                            "name": "selftesty", "const": None, "tags": {}})
        rcs = []
        for b in (bad1, bad2):
            rc, out, err, wall = gen_only(ws, entries, [b])
            rcs.append(rc)
        rc0, out, err, wall = gen_only(ws, entries, [base])
        print("selftest C07 (a): ill-formed programs rejected by the generator with status %s, the well-formed original: %s" % (rcs, rc0))
        ok = ok and all(r != 0 for r in rcs) and rc0 == 0
        cur, binary = settle(ws, plain[:6], ctx)
        paths, _, _ = wire_stage(ws, cur, ctx, "selftest", TIERS["quick"])
        recs = [r for r in wire.iter_records(paths) if r["kind"] == "codec"]
        vall, tot = R.run_records(binary, ["codec"], [json.dumps(r) for r in recs], jobs=4)
        badnames = {o.get("name") for o in vall}
        good = next(r for r in recs if r["name"] not in badnames and len(r["body"]) >= 1)
        c1 = json.loads(json.dumps(good))
        c1["body"] = c1["body"] + [0]
        c1["hdr"][1] = (c1["hdr"][1] + 1) % 256 if c1["hdr"][1] < 255 else c1["hdr"][1]
        c2 = json.loads(json.dumps(good))
        c2["hdr"][-1] ^= 0x40
        v_good, _ = R.run_records(binary, ["codec"], [json.dumps(good)], jobs=1)
        v_bad, _ = R.run_records(binary, ["codec"], [json.dumps(c1), json.dumps(c2)], jobs=1)
        print("selftest C07 (b): untouched behaviour accepted=%s, corrupted behaviours rejected=%d of 2 (%s)" %
              (len(v_good) == 0, len(v_bad), [o["verdict"] for o in v_bad]))
        ok = ok and len(v_good) == 0 and len(v_bad) == 2
    finally:
        regen.remove_scratch(ws)
    return 0 if ok else 2
