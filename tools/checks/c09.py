"""C09 - computed minimum/maximum sizes bound every valid encoding.

The generator (built from /repo's working tree) is run on a scratch copy; the sizes it publishes in
the regenerated intermediate representation and the guard literal compiled into each decoder are
compared by TLC (spec/MCSizes.tla) with the exact extremes of every container computed by the
interval abstraction of the wire specification (spec/WowmWire.tla: SizeFrom) over the whole
conditional structure.  Additionally every behaviour of the wire model (a canonical encoding) must
lie inside the declared bounds.
"""
import collections
import concurrent.futures
import json
import os
import time

from tools import common as C
from tools import codec_common as CC
from tools import irsizes
from tools import regen
from tools import wire

PROP = "C09"
NSHARD = 8


def judge_all(tag):
    meta = regen.regen()
    if meta["rc"] != 0:
        raise C.ToolError("generator exited with %s on the unchanged tree: %s" % (meta["rc"], meta["stderr_tail"][-400:]))
    ir_path = os.path.join(meta["dir"], "ir.json")
    ldir, lw, corpus = wire.prepare("lowered-" + tag)
    wd = C.workdir(tag)
    recs, unmatched, guards = irsizes.build_decl(ir_path, lw, os.path.join(wd, "decl.ndjson"))
    for k in range(NSHARD):
        with open(os.path.join(wd, "decl-%d.ndjson" % k), "w") as f:
            for j, r in enumerate(recs):
                if j % NSHARD == k:
                    f.write(json.dumps(r) + "\n")

    def run(k):
        env = {"WOWM_OBJECTS": ldir + "/objects.ndjson", "WOWM_BLOCKS": ldir + "/blocks.ndjson",
               "WOWM_INDEX": ldir + "/index.json", "WOWM_NSHARDS": 1, "WOWM_SHARD": 0, "WOWM_NPROF": 1,
               "WOWM_MAXLEN": 2, "WOWM_ONLY": "", "WOWM_DEEP": "0", "WOWM_FAULTS": "0", "WOWM_FAULT_EVERY": 1, "WOWM_FAULT_PHASE": 0, "WOWM_CONST": wire.EMPTY_LIST,
               "WOWM_DECL": os.path.join(wd, "decl-%d.ndjson" % k)}
        return C.run_tlc("MCSizes", workers=1, timeout=900, env=env, name="%s-%d" % (tag, k), coverage=False, xmx="3g")

    with concurrent.futures.ThreadPoolExecutor(NSHARD) as ex:
        results = list(ex.map(run, range(NSHARD)))
    verdicts = [r for x in results for r in x.replay]
    return meta, lw, recs, unmatched, results, verdicts


def run(tier):
    t0 = time.time()
    meta, lw, recs, unmatched, results, verdicts = judge_all("c09")
    v = C.Verdicts(PROP)
    nbad = 0
    for r in verdicts:
        for clause in ("minOk", "maxOk", "constOk", "guardOk"):
            if not r[clause]:
                nbad += 1
                obs = {"name": r["name"], "exp": r["exp"], "lv": r["lv"], "clause": clause}
                v.report(obs, replay={"judgement": r})
    # every IR container must have been paired with a source object (positional identity)
    for name, fn, line in unmatched:
        v.report({"name": name, "clause": "ir_object_without_source", "file": fn, "line": line}, replay=None)
    # S->I: every canonical encoding of the wire model lies inside the declared bounds
    ctx = CC.explore("quick" if tier == "quick" else "thorough", tag="c09", nprof=None if tier == "quick" else 2)
    decl = {}
    for r in verdicts:
        decl[(r["oid"], r["exp"], r["lv"])] = r
    nbeh, outside = 0, 0
    for rec in wire.iter_records(ctx["paths"]):
        if rec["kind"] != "codec" or rec.get("regions"):
            continue
        d = decl.get((rec["id"], rec["exp"], rec.get("lv", 0)))
        if d is None:
            continue
        nbeh += 1
        n = len(rec["body"])
        hi = d["dmax"]
        if n < d["dmin"] or (hi < irsizes.INF and n > hi) or (d["hasguard"] and (n < d["gmin"] or n > d["gmax"])):
            outside += 1
            v.report({"name": rec["name"], "exp": rec["exp"], "lv": rec.get("lv", 0), "clause": "behaviour_outside_declared_bounds"},
                     replay={"record": rec, "declared": d})
    rc = v.finish()
    states = sum(x.distinct for x in results) + sum(s["distinct"] for s in ctx["stats"])
    trans = sum(x.generated for x in results) + sum(s["generated"] for s in ctx["stats"])
    bounded = sum(1 for r in verdicts if r["hi"] < irsizes.INF)
    C.write_evidence(PROP, tier, "model_checking", {
        "states": states, "transitions": trans,
        "traces_validated_against_impl": len(verdicts),
        "samples": verdicts[:3] + [r for r in verdicts if not r["maxOk"]][:1],
        "evaluations": len(verdicts) + nbeh,
        "distinct_nontrivial": len(verdicts),
        "rule": "one judgement per (container of the regenerated IR, context it claims); each compares declared min/max/constant and the decoder's guard literal with the exact extremes of the definition; plus every wire-model behaviour's body length against the declared bounds",
        "exhaustive": True,
        "containers_judged": len(verdicts), "containers_with_finite_true_max": bounded,
        "clauses_failed": nbad, "behaviours_checked_against_bounds": nbeh, "behaviours_outside": outside,
        "ir_objects_without_source": len(unmatched),
        "known_finding_hits": dict(v.known_hits),
        "generator_rc": meta["rc"],
    }, time.time() - t0, [
        "intermediate_representation.json is regenerated by the generator built from /repo's working tree (tools/regen.py)",
        "IR containers are paired with source objects by source position (file, line); guard literals are parsed from the first lines of each generated read_inner and paired by the 'Auto generated from ... file:line' doc line and the module path",
        "true extremes: spec/WowmWire.tla SizeFrom - exact over the conditional structure (all controlling enumerators, all subsets of entangled flag bits, independent flag bits independently); unbounded types (CString, endless arrays, ...) have no finite maximum, so the maximum clause only applies where the definition's maximum is finite or a maximum_length tag is given",
        "compressed bodies have no predictable minimum (only the u32 prefix is required)",
    ], violations=len(v.violations))
    return rc


def replay(path):
    body = json.load(open(path))
    want = body["observation"]
    meta, lw, recs, unmatched, results, verdicts = judge_all("c09-replay")
    hits = [r for r in verdicts if r["name"] == want.get("name") and r["exp"] == want.get("exp") and not r.get(want.get("clause"), True)]
    for h in hits:
        print(json.dumps(h))
    print("replayed: %d failing judgements for %s" % (len(hits), want.get("name")))
    return 1 if hits else 0


def selftest(tier):
    """Binding demonstration: corrupt one declared record (minimum + 1); TLC must flag it."""
    meta = regen.regen()
    ldir, lw, corpus = wire.prepare("lowered-c09-selftest")
    wd = C.workdir("c09-selftest")
    recs, unmatched, guards = irsizes.build_decl(os.path.join(meta["dir"], "ir.json"), lw, os.path.join(wd, "decl.ndjson"))
    victim = None
    for r in recs:
        o = lw.objects[r["oid"] - 1]
        if o["name"] == "CMSG_CHAR_CREATE":
            victim = dict(r)
            break
    if victim is None:
        raise C.ToolError("selftest: CMSG_CHAR_CREATE not found")
    good, bad = dict(victim), dict(victim)
    bad["min"] = bad["min"] + 1
    with open(os.path.join(wd, "decl-st.ndjson"), "w") as f:
        f.write(json.dumps(good) + "\n" + json.dumps(bad) + "\n")
    env = {"WOWM_OBJECTS": ldir + "/objects.ndjson", "WOWM_BLOCKS": ldir + "/blocks.ndjson",
           "WOWM_INDEX": ldir + "/index.json", "WOWM_NSHARDS": 1, "WOWM_SHARD": 0, "WOWM_NPROF": 1,
           "WOWM_MAXLEN": 2, "WOWM_ONLY": "", "WOWM_DEEP": "0", "WOWM_FAULTS": "0", "WOWM_FAULT_EVERY": 1, "WOWM_FAULT_PHASE": 0, "WOWM_CONST": wire.EMPTY_LIST,
           "WOWM_DECL": os.path.join(wd, "decl-st.ndjson")}
    res = C.run_tlc("MCSizes", workers=1, timeout=300, env=env, name="c09-selftest", coverage=False)
    oks = [r["minOk"] for r in res.replay]
    ok = True in oks and False in oks
    print("selftest C09: untouched record accepted and minimum+1 rejected: %s (%s)" % (ok, oks))
    return 0 if ok else 2
