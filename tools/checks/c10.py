"""C10 - the intermediate representation is schema-valid and faithful to the wowm.

The generator built from /repo's working tree is run on a scratch copy (tools/regen.py); the
intermediate_representation.json it writes is the observed artefact.

  schema clause     spec/Jtd.tla (RFC 8927 validity over a typed encoding of JSON) evaluated by TLC
                    (spec/MCJtd.tla) for the published schema and every IR object + the document
                    skeleton.
  faithful clause   spec/IrRefine.tla: abstraction function Abs (IR object -> abstract object),
                    normal form Norm of the independent front-end's object table, evaluated by TLC in
                    both directions (every source object x version instance has exactly its images;
                    every IR object is the image of a source object) plus the binding of names.
                    One verdict per object with the first differing field path.
  behavioural       spec/WowmWire.tla is run over the normally lowered corpus and over a corpus
  cross-check       lowered from the IR (tools/irlower.py ir_to_corpus); the terminal behaviour
                    records (name, exp, lv, dir, hdr, body) must coincide (thorough: equality with
                    every controlling enumerator explored; quick: every behaviour of the source is a
                    behaviour of the IR and the same roots are reached).
"""
import collections
import concurrent.futures
import copy
import json
import os
import time

from tools import common as C
from tools import irlower as L
from tools import lower
from tools import regen
from tools import wire
from tools import wowm_front as F

PROP = "C10"
NSHARD = 4

SHARDED_PATHS = [[s, c] for s in L.SECTIONS for c in L.COLLS] + [[e + "_update_mask"] for e in L.EXPANSIONS]

XCHECK = {
    "quick": dict(nprof=1, maxlen=1, deep=False, nshards=2, workers=2, timeout=600),
    "thorough": dict(nprof=2, maxlen=1, deep=True, nshards=4, workers=2, timeout=2400),
    # second thorough pass: arrays of up to two elements.  The wire model picks the values of the
    # second and later elements of a struct array by ROTATION over a choice list whose order depends
    # on how a condition is spelled (tested enumerators first), so for definitions that reach a
    # condition spelled with `!=` / `else` (which the IR spells as enumerator lists, N2) the two runs
    # legitimately pick different - equally valid - representatives.  Those roots are compared by
    # the first pass only (all their control paths, arrays of 0..1 elements) and listed in the evidence.
    "thorough2": dict(nprof=1, maxlen=2, deep=True, nshards=4, workers=2, timeout=2400),
}


def respelled_roots(corpus):
    """Names of containers that (transitively, by member type NAME only) contain an `if` spelled
    with `!=` or `else`."""
    direct, uses = set(), collections.defaultdict(set)

    def walk(name, ms):
        for m in ms:
            if m["m"] == "decl":
                uses[name].add(m["type"])
            elif m["m"] == "if":
                if m["else"] is not None or any(c["op"] == "!=" for a in m["arms"] for c in a["conds"]):
                    direct.add(name)
                for a in m["arms"]:
                    walk(name, a["body"])
                if m["else"] is not None:
                    walk(name, m["else"])
            elif m["m"] == "optional":
                walk(name, m["body"])
    for o in corpus:
        if "members" in o:
            walk(o["name"], o["members"])
    reach = set(direct)
    changed = True
    while changed:
        changed = False
        for n, us in uses.items():
            if n not in reach and us & reach:
                reach.add(n)
                changed = True
    return reach

ASSUMPTIONS = [
    "intermediate_representation.json and the schema are taken from a run of the generator built from /repo's working tree on a scratch copy (tools/regen.py); the committed IR is an empty blob",
    "tools/wowm_front.py (independent wowm parser) reads the wowm sources correctly; tools/irlower.py lowers both documents for TLC (lexical: number literals as decimal strings, version tag values split into patterns; structural: nulls dropped, wide numbers tagged, embedded struct copies replaced by pointers to the deep-equal top-level struct, prepared_objects dropped)",
    "the normalisations N1-N8 stated in spec/IrRefine.tla are the legitimate ones (version expansion, else/!= as enumerator lists, optional as container property, joined comments, compressed in the data type, self.size as size_of_fields_before_size, update-mask structs in the update-mask tables, typed test values)",
    "not compared (not listed by the property): sizes, file_info (used only to choose the candidate a difference is explained against), used_in_if, used_as_size_in, objects_used_in, only_has_io_error, manual size fields, prepared_objects, original_string of enumerator values, the Rust-only rust_base_type tag",
    "this is a refinement mapping between two documents evaluated by a model checker, not a state-space exploration; RFC 8927 'timestamp' is only checked to be a string (the schema does not use it)",
]


# ------------------------------------------------------------------------------------------------
# inputs
# ------------------------------------------------------------------------------------------------

def load():
    meta = regen.regen()
    if meta["rc"] != 0:
        raise C.ToolError("generator exited with %s on the unchanged tree: %s" % (meta["rc"], meta["stderr_tail"][-400:]))
    try:
        ir = json.load(open(os.path.join(meta["dir"], "ir.json")))
        schema = json.load(open(os.path.join(meta["dir"], "ir_schema.json")))
    except (OSError, ValueError) as e:
        raise C.ToolError("cannot read the regenerated IR / schema: %s" % e)
    corpus = F.load_corpus(C.REPO)
    return meta, ir, schema, corpus


def _get(x, path):
    for k in path:
        x = x[k]
    return x


def jtd_instances(ir):
    """One record per element of the big object arrays + the document with those arrays emptied."""
    recs = []
    skel = copy.copy(ir)
    for p in SHARDED_PATHS:
        try:
            arr = _get(ir, p)
        except (KeyError, TypeError):
            continue                      # a missing section is reported by the skeleton record
        if not isinstance(arr, list):
            continue
        for j, e in enumerate(arr):
            nm = e.get("name", "") if isinstance(e, dict) else ""
            recs.append({"id": len(recs) + 1, "what": "%s[%d] %s" % (".".join(p), j, nm), "path": p, "node": L.typed(e)})
        if len(p) == 2:
            skel[p[0]] = dict(skel[p[0]]) if skel[p[0]] is ir[p[0]] else skel[p[0]]
            skel[p[0]][p[1]] = []
        else:
            skel[p[0]] = []
    recs.append({"id": len(recs) + 1, "what": "document skeleton", "path": [], "node": L.typed(skel)})
    return recs


def run_jtd(wd, schema, instances, tag):
    spath = os.path.join(wd, "schema.json")
    with open(spath, "w") as f:
        json.dump(L.schema_root(schema), f)
    shards = [[] for _ in range(NSHARD)]
    for j, r in enumerate(instances):
        shards[j % NSHARD].append(r)
    shards = [s for s in shards if s]

    def one(k):
        ipath = os.path.join(wd, "inst-%d.ndjson" % k)
        L.write_ndjson(ipath, shards[k])
        return C.run_tlc("MCJtd", workers=1, timeout=900, env={"JTD_SCHEMA": spath, "JTD_INSTANCES": ipath},
                         name="%s-jtd-%d" % (tag, k), coverage=False, xmx="3g")

    with concurrent.futures.ThreadPoolExecutor(len(shards)) as ex:
        results = list(ex.map(one, range(len(shards))))
    verdicts = [v for r in results for v in r.replay]
    if len(verdicts) != len(instances):
        raise C.ToolError("MCJtd judged %d of %d instance records" % (len(verdicts), len(instances)))
    return results, verdicts


def run_refine(wd, ir, corpus, tag):
    S, I, env = L.prepare(ir, corpus, wd)

    def one(k):
        e = dict(env)
        e.update({"C10_NSHARDS": NSHARD, "C10_SHARD": k})
        return C.run_tlc("IrRefine", workers=1, timeout=900, env=e, name="%s-refine-%d" % (tag, k),
                         coverage=False, xmx="3g")

    with concurrent.futures.ThreadPoolExecutor(NSHARD) as ex:
        results = list(ex.map(one, range(NSHARD)))
    verdicts = [v for r in results for v in r.replay]
    fwd = [v for v in verdicts if v["kind"] == "fwd"]
    bwd = [v for v in verdicts if v["kind"] == "bwd"]
    if len(bwd) != len(I) or len({v["sid"] for v in fwd}) != len(S) or len(fwd) < len(S):
        raise C.ToolError("IrRefine judged %d/%d source objects and %d/%d IR objects" %
                          (len({v["sid"] for v in fwd}), len(S), len(bwd), len(I)))
    return results, fwd, bwd, S, I


def judge(ir, schema, corpus, tag, jtd_ir=None):
    wd = C.workdir(tag)
    jres, jver = run_jtd(wd, schema, jtd_instances(jtd_ir if jtd_ir is not None else ir), tag)
    rres, fwd, bwd, S, I = run_refine(wd, ir, corpus, tag)
    return {"jtd_results": jres, "jtd": jver, "refine_results": rres, "fwd": fwd, "bwd": bwd, "S": S, "I": I, "wd": wd}


def failures(j):
    """(observation, verdict record) for every item on which the property does not hold."""
    out = []
    for v in j["jtd"]:
        if not v["valid"]:
            out.append(({"clause": "schema", "what": v["what"], "why": v["why"]}, v))
    for v in j["fwd"]:
        if v["images"] != v["twins"]:
            out.append(({"clause": "omitted_or_altered", "name": v["name"], "okind": v["okind"], "file": v["file"],
                         "line": v["line"], "vers": v["vers"], "path": v["path"]}, v))
    altered = {(v["name"], v["file"], v["line"], v["path"]) for v in j["fwd"] if v["images"] != v["twins"]}
    for v in j["bwd"]:
        # an altered object fails in both directions at the same position and path: reported once
        if v["sources"] < 1 and (v["name"], v["file"], v["line"], v["path"]) not in altered:
            out.append(({"clause": "invented_or_altered", "name": v["name"], "coll": v["coll"], "file": v["file"],
                         "line": v["line"], "path": v["path"]}, v))
        if v["bound"] != "":
            out.append(({"clause": "binding", "name": v["name"], "coll": v["coll"], "file": v["file"],
                         "line": v["line"], "bound": v["bound"]}, v))
    return out


# ------------------------------------------------------------------------------------------------
# behavioural cross-check
# ------------------------------------------------------------------------------------------------

def _keys(paths):
    s = collections.Counter()
    roots = set()
    for r in wire.iter_records(paths):
        if r["kind"] == "codec":
            k = ("codec", r["name"], r["exp"], r.get("lv", 0), r["dir"], bytes(r["hdr"]).hex(), bytes(r["body"]).hex())
            roots.add((r["name"], r["exp"], r.get("lv", 0), r["dir"]))
        else:
            k = (r["kind"], r["name"], r["exp"], r.get("lv", 0), r.get("dir", ""), r.get("why", ""), "")
        s[k] += 1
    return s, roots


def crosscheck(ir, tier, tag, ir_corpus_hook=None, only=""):
    t = dict(XCHECK[tier])
    if only:
        t["nshards"] = 1
    ldir_src, lw_src, _ = wire.prepare("lowered-%s-src" % tag)
    c = L.ir_to_corpus(ir)
    if ir_corpus_hook:
        c = ir_corpus_hook(c)
    ldir_ir = wire.lowered_dir("lowered-%s-ir" % tag)
    lower.Lowerer().lower(c).write(ldir_ir)

    def run(side, ldir):
        return wire.run_wire(ldir, os.path.join(C.WORK, "wire-%s-%s" % (tag, side)), nshards=t["nshards"],
                             workers=t["workers"], nprof=t["nprof"], maxlen=t["maxlen"], deep=t["deep"],
                             only=only, timeout=t["timeout"], tag="%s-%s" % (tag, side))

    with concurrent.futures.ThreadPoolExecutor(2) as ex:
        fa, fb = ex.submit(run, "src", ldir_src), ex.submit(run, "ir", ldir_ir)
        (sa, pa), (sb, pb) = fa.result(), fb.result()
    A, ra = _keys(pa)
    B, rb = _keys(pb)
    if not A or not ra:
        raise C.ToolError("vacuous cross-check: the wire model produced no behaviour")
    diffs = []
    for k in A:
        if k not in B:
            diffs.append(("source_only", k))
    if t["deep"]:
        for k in B:
            if k not in A:
                diffs.append(("ir_only", k))
    else:
        for r in rb - ra:
            diffs.append(("ir_only_root", ("codec",) + r + ("", "")))
    sample = next((k for k in A if k[0] == "codec" and len(k[6]) > 12), None)
    return {"params": t, "stats": sa + sb, "n_src": sum(A.values()), "n_ir": sum(B.values()),
            "distinct_src": len(A), "distinct_ir": len(B), "roots": len(ra), "diffs": diffs,
            "mode": "equality" if t["deep"] else "source behaviours included in IR behaviours, same roots",
            "sample": dict(zip(("kind", "name", "exp", "lv", "dir", "hdr", "body"), sample)) if sample else None}


# ------------------------------------------------------------------------------------------------
# run / replay / selftest
# ------------------------------------------------------------------------------------------------

def run(tier):
    t0 = time.time()
    meta, ir, schema, corpus = load()
    j = judge(ir, schema, corpus, "c10")
    v = C.Verdicts(PROP)
    fails = failures(j)
    for obs, rec in fails:
        v.report(obs, replay={"verdict": rec})
    x = crosscheck(ir, tier, "c10x")
    tolerated = []
    if tier == "thorough":
        x2 = crosscheck(ir, "thorough2", "c10x2")
        skip = respelled_roots(corpus)
        tolerated = sorted({k[1] for _, k in x2["diffs"] if k[1] in skip})
        x["diffs"] += [(s_, k) for s_, k in x2["diffs"] if k[1] not in skip]
        x["stats"] += x2["stats"]
        x["second_pass"] = {k: x2[k] for k in ("params", "mode", "n_src", "n_ir", "distinct_src", "distinct_ir", "roots")}
        x["second_pass"]["roots_compared_by_first_pass_only"] = tolerated
    seen = set()
    for side, k in x["diffs"]:
        obs = {"clause": "behaviour", "side": side, "name": k[1], "exp": k[2], "lv": k[3], "dir": k[4]}
        key = json.dumps(obs, sort_keys=True)
        if key in seen:
            continue
        seen.add(key)
        v.report(obs, replay={"record": dict(zip(("kind", "name", "exp", "lv", "dir", "hdr", "body"), k)),
                              "mode": x["mode"], "params": x["params"]})
    rc = v.finish()
    tl = j["jtd_results"] + j["refine_results"]
    states = sum(r.distinct for r in tl) + sum(s["distinct"] for s in x["stats"])
    trans = sum(r.generated for r in tl) + sum(s["generated"] for s in x["stats"])
    bykind = collections.Counter(i["coll"] for i in j["I"])
    samples = [j["fwd"][0], j["bwd"][0], j["jtd"][0]] + [rec for _, rec in fails[:2]]
    if x["sample"]:
        samples.append(x["sample"])
    C.write_evidence(PROP, tier, "model_checking", {
        "states": states, "transitions": trans,
        "traces_validated_against_impl": len(j["I"]),
        "samples": samples,
        "evaluations": len(j["jtd"]) + len(j["fwd"]) + len(j["bwd"]),
        "distinct_nontrivial": len(j["I"]),
        "rule": "one schema verdict per IR object (+ document skeleton); one forward verdict per (source object, version instance); one backward + binding verdict per IR object; cross-check: terminal behaviours of WowmWire over the lowered sources vs over the corpus lowered from the IR",
        "exhaustive": True,
        "source_objects": len(j["S"]), "source_instances": len(j["fwd"]), "ir_objects": len(j["I"]),
        "ir_objects_by_collection": dict(bykind),
        "schema_records": len(j["jtd"]), "schema_invalid": sum(1 for r in j["jtd"] if not r["valid"]),
        "forward_failures": sum(1 for r in j["fwd"] if r["images"] != r["twins"]),
        "backward_failures": sum(1 for r in j["bwd"] if r["sources"] < 1),
        "binding_failures": sum(1 for r in j["bwd"] if r["bound"] != ""),
        "failing_paths": dict(collections.Counter(o.get("path", o.get("why", o.get("bound", ""))) for o, _ in fails)),
        "crosscheck": {k: x[k] for k in ("params", "mode", "n_src", "n_ir", "distinct_src", "distinct_ir", "roots", "second_pass") if k in x},
        "crosscheck_differences": len(x["diffs"]),
        "known_finding_hits": dict(v.known_hits),
        "generator_rc": meta["rc"],
    }, time.time() - t0, ASSUMPTIONS, violations=len(v.violations))
    return rc


def replay(path):
    body = json.load(open(path))
    want = body["observation"]
    meta, ir, schema, corpus = load()
    if want.get("clause") == "behaviour":
        tier = "thorough" if (body.get("behaviour") or {}).get("params", {}).get("deep") else "quick"
        x = crosscheck(ir, tier, "c10x-replay")
        hits = [(s, k) for s, k in x["diffs"] if (s, k[1], k[2], k[3], k[4]) ==
                (want["side"], want["name"], want["exp"], want["lv"], want["dir"])]
        for h in hits[:10]:
            print(json.dumps(h))
        print("replayed: %d differing behaviours for %s" % (len(hits), want.get("name")))
        return 1 if hits else 0
    j = judge(ir, schema, corpus, "c10-replay")
    hits = [(o, r) for o, r in failures(j) if all(o.get(k) == want.get(k) for k in want)]
    for o, r in hits:
        print(json.dumps(r))
    print("replayed: %d failing verdicts for %s" % (len(hits), want.get("name", want.get("what"))))
    return 1 if hits else 0


def _find(ir, sect, coll, name, pred=lambda o: True):
    for o in ir[sect][coll]:
        if o["name"] == name and pred(o):
            return o
    raise C.ToolError("selftest: %s %s not found" % (coll, name))


def selftest(tier):
    """Binding demonstration: tamper single fields of single IR objects (enumerator value, member
    type, dropped else-if arm, dropped object, duplicated object, a test byte, a test's carrier) and
    one schema violation (wrong JSON type); each must be rejected at the right object and path,
    and nothing else may change.  Also: the cross-check must notice an IR whose conditional
    enumerator list denotes another behaviour."""
    meta, ir, schema, corpus = load()
    base = judge(ir, schema, corpus, "c10-selftest-base")
    base_f = {json.dumps(o, sort_keys=True) for o, _ in failures(base)}

    t = copy.deepcopy(ir)
    v8 = lambda o: o["tags"]["version"]["version_type"].get("versions") == [8]
    # 1 enumerator value
    e = _find(t, "login", "enums", "SecurityFlag") if any(o["name"] == "SecurityFlag" for o in t["login"]["enums"]) \
        else t["login"]["enums"][0]
    e["enumerators"][0]["value"]["value"] = str(int(e["enumerators"][0]["value"]["value"]) + 1)
    # 2 member type + 3 dropped else-if arm (CMD_AUTH_LOGON_PROOF_Server, protocol 8)
    m = _find(t, "login", "messages", "CMD_AUTH_LOGON_PROOF_Server", v8)
    ifs = m["members"][1]["struct_member_content"]
    ifs["members"][2]["struct_member_content"]["data_type"]["integer_type"] = "U16"     # hardware_survey_id: u32
    dropped_from = None
    for m2 in t["world"]["messages"]:
        for a in m2["members"]:
            if a["struct_member_tag"] == "IfStatement" and a["struct_member_content"]["else_if_statements"]:
                a["struct_member_content"]["else_if_statements"].pop()
                dropped_from = m2["name"]
                break
        if dropped_from:
            break
    if dropped_from is None:
        raise C.ToolError("selftest: no message with an else-if arm")
    # 4 dropped object, 5 duplicated object
    gone = t["world"]["structs"].pop(0)
    dup = copy.deepcopy(t["world"]["enums"][0])
    t["world"]["enums"].append(dup)
    inv = copy.deepcopy(t["world"]["flags"][0])                 # 5b an object the sources do not contain
    inv["name"] = "ZzInvented"
    t["world"]["flags"].append(inv)
    # 6 test byte
    tm = next(o for o in t["world"]["messages"] if o.get("tests"))
    tm["tests"][0]["raw_bytes"][0] = (tm["tests"][0]["raw_bytes"][0] + 1) % 256
    # 7 a test states another number for an enum value (text untouched): only the binding B4 sees it
    pm = _find(t, "login", "messages", "CMD_AUTH_LOGON_PROOF_Server", v8)
    tv = pm["tests"][0]["members"][0]["value"]["content"]
    tv["value"] = str(int(tv["value"]) + 1)
    # schema violation (only the schema clause sees this copy): opcode printed as a string
    s = copy.deepcopy(ir)
    sm = s["world"]["messages"][0]
    sm["object_type"]["opcode"] = str(sm["object_type"]["opcode"])
    s["login"]["enums"][0]["integer_type"] = "U128"

    tam = judge(t, schema, corpus, "c10-selftest", jtd_ir=s)
    new = [(o, r) for o, r in failures(tam) if json.dumps(o, sort_keys=True) not in base_f]
    got = collections.defaultdict(list)
    for o, r in new:
        got[(o["clause"], o.get("name", o.get("what")))].append(o.get("path", o.get("why", o.get("bound"))))
    expect = [
        (("omitted_or_altered", e["name"]), ".value"), (("invented_or_altered", "ZzInvented"), "no source object"),
        (("omitted_or_altered", "CMD_AUTH_LOGON_PROOF_Server"), ".type"),
        (("omitted_or_altered", dropped_from), ".arms.length"),
        (("omitted_or_altered", gone["name"]), ""), (("omitted_or_altered", dup["name"]), "number of images"),
        (("omitted_or_altered", tm["name"]), "bytes"),
        (("binding", "CMD_AUTH_LOGON_PROOF_Server"), "value differs from the enumerator"),
        (("schema", "world.messages[0] " + sm["name"]), "/object_type/opcode"),
        (("schema", "login.enums[0] " + s["login"]["enums"][0]["name"]), "/integer_type"),
    ]
    ok = True
    for key, frag in expect:
        hit = any(frag in (p or "") for p in got.get(key, []))
        print("selftest C10: %-20s %-34s %s  %s" % (key[0], key[1][:34], "rejected at" if hit else "NOT REJECTED (wanted %r)" % frag,
                                                   [p_ for p_ in got.get(key, []) if frag in (p_ or "")][:1] or got.get(key)))
        ok = ok and hit
    touched = {e["name"], "ZzInvented", "CMD_AUTH_LOGON_PROOF_Server", dropped_from, gone["name"], dup["name"], tm["name"], sm["name"],
               s["login"]["enums"][0]["name"]}
    stray = [o for o, r in new if o.get("name", "") not in touched and o["clause"] != "schema"
             and gone["name"] not in str(o.get("bound", ""))]
    # objects that use the dropped struct legitimately fail their binding; anything else is a stray alarm
    stray = [o for o in stray if o["clause"] != "binding"]
    print("selftest C10: verdicts changed outside the tampered objects: %d %s" % (len(stray), stray[:3]))
    ok = ok and not stray

    # behavioural binding: an IR whose else-arm enumerator list lost one enumerator denotes another behaviour
    def hook(c):
        for o in c:
            if o["name"] == "CMD_AUTH_LOGON_PROOF_Server" and o["tags"].get("login_versions") == ["8"]:
                arm = o["members"][1]["arms"][-1]
                arm["conds"] = arm["conds"][:-1]
        return c
    x = crosscheck(ir, "thorough", "c10x-selftest", ir_corpus_hook=hook, only="CMD_AUTH_LOGON_PROOF_Server")
    names = {k[1] for _, k in x["diffs"]}
    hit = "CMD_AUTH_LOGON_PROOF_Server" in names
    print("selftest C10: cross-check, enumerator removed from an IR conditional: %s (%d differing behaviours)" %
          ("rejected" if hit else "NOT REJECTED", len(x["diffs"])))
    ok = ok and hit
    return 0 if ok else 2
