"""C11 - generated enum types mirror their wowm definition for every integer.

spec/Definers.tla (enum part) is run by TLC over every enum of the corpus: exhaustive walks over the
narrow source types, probe walks (declared values, neighbours, width aliases, extremes of the nine
source types, seeded integers) for the rest. Every state prints the answer of the specification
(`from_int` / `try_from::<T>` accept as which enumerator, or reject carrying which value;
`variants()` / `as_int` in declaration order); `vh definer` asks the real types the same questions.
"""
import json

from tools import common as C
from tools import definer_common as D

PROP = "C11"
KINDS = ("enum",)
ASSUMPTIONS = [
    "the Rust type of a wowm enum is found through the `wowm` file:line anchor in its doc comment; variant names follow the convention observed in the generated files (CamelCase per '_' word, Self/Error suffixed X) and are confirmed against the `pub enum` item before use; unconfirmed types are listed under not_covered",
    "usize is 64 bit on the harness platform and is never a reinterpretation partner (no i64-based enum exists)",
    "for a same-width source of the other signedness the error may carry either the argument or the same bits read as the base type (the property statement does not say which)",
    "as_int of login enums is pub(crate) and TryFrom<i64> is not implemented for them: not callable, listed under api_absent",
    "the harness' decoding of a record (bit pattern -> value of the source type, 9-byte two's complement -> i128) is trusted",
]


def run(tier):
    rc, _info = D.run_property(PROP, tier, KINDS, ASSUMPTIONS, D.ENUM_ACTIONS)
    return rc


def replay(path):
    return D.replay_one(PROP, path)


def selftest(tier):
    """Binding demonstration: (1) one accepted value of the model is re-labelled with another
    enumerator, (2) one rejected run is extended over an accepted value, (3) one as_int value is
    altered. Each corrupted record must be reported by the replay."""
    table, binary = D.prepare("quick")
    pick = [d["id"] for d in table["definers"] if d["kind"] == "enum" and d["rust"] and d["w"] == 1 and d["rust"]["as_int"]][:3]
    marks = {}

    def tamper(lines):
        out = []
        done = set()
        for l in lines:
            r = json.loads(l)
            if r["k"] == "acc" and "acc" not in done and r["idx"] >= 1:
                r["idx"] = r["idx"] + 1
                done.add("acc")
                marks["acc"] = r["d"]
            elif r["k"] == "rej" and "rej" not in done and r["hi"] < 255:
                r["hi"] = r["hi"] + 1
                done.add("rej")
                marks["rej"] = r["d"]
            elif r["k"] == "variants" and "variants" not in done:
                r["vals"][0][0] = (r["vals"][0][0] + 1) % 256
                done.add("variants")
                marks["variants"] = r["d"]
            out.append(json.dumps(r) + "\n")
        return out

    rc, info = D.run_property(PROP, "quick", KINDS, ASSUMPTIONS, D.ENUM_ACTIONS, tamper_records=tamper,
                              only=set(pick), table_bin=(table, binary), write=False)
    seen = set()
    for v in info["verdicts"]:
        k = (v.get("record") or {}).get("k")
        if k in ("acc", "rej", "variants"):
            seen.add(k)
    ok = {"acc", "rej", "variants"} <= seen and rc == 1
    print("selftest C11: corrupted records %s -> reported kinds %s: %s" %
          (sorted(marks), sorted(seen), "detected" if ok else "NOT detected"))
    return 0 if ok else 2
