"""C12 - generated flag types obey set algebra over exactly their declared bits.

spec/Definers.tla (flag part, raw values as bit sets) is run by TLC over every flag of the corpus:
per enumerator and raw value the answers of is / set / clear / new, per operand pair the operators,
per integer the conversions, plus constants / empty / all; the set-algebra laws are invariants of
the walk. `vh definer` asks the real flag types - and the flag structs synthesised for conditional
members of messages - the same questions.
"""
import json
import os

from tools import common as C
from tools import definer_common as D

PROP = "C12"
KINDS = ("flag",)
ASSUMPTIONS = [
    "the Rust type of a wowm flag is found through the `wowm` file:line anchor in its doc comment; constant and method names (SCREAMING constant, is_/set_/clear_/new_ + lower-case name, no accessors for a zero-valued enumerator) are confirmed against the public items of the generated file",
    "raw values are read back through the public LowerHex impl (and as_int where it is public); synthesised flag structs have no public accessor of the raw value: it is read from the derived Debug output (`inner: N`) and values are injected with `new(inner, None, ..)`",
    "the raw integer of a u48 flag is the Rust u64 that holds it (conversions are judged against u64)",
    "synthesised structs: enumerators with members are set with a Default payload (else-if groups: the variant named after the enumerator, fields Default); get_x of such an enumerator reports the payload, so it is only compared after set_x / clear_x",
    "usize is 64 bit on the harness platform",
]


def run(tier):
    rc, _info = D.run_property(PROP, tier, KINDS, ASSUMPTIONS, D.FLAG_ACTIONS)
    return rc


def replay(path):
    return D.replay_one(PROP, path)


def selftest(tier):
    """Binding demonstration, both ends: (1) three model records are corrupted (an `is` answer, a
    `set` result, an operator result) and the replay must report each; (2) the model is run with
    clear_x read as `v & reverse_bits(x)` (DEF_TAMPER=clear): TLC must reject it by the FlagLaws
    invariant - the laws, not the Rust code, are what make `reverse_bits` wrong."""
    table, binary = D.prepare("quick")
    pick = [d["id"] for d in table["definers"] if d["kind"] == "flag" and d["rust"]][:3]
    marks = set()

    def tamper(lines):
        out, done = [], set()
        for l in lines:
            r = json.loads(l)
            if r["k"] == "fop" and r["new"] != [0] * 8 and "is" not in done:
                r["is"] = not r["is"]
                done.add("is")
            elif r["k"] == "fop" and r["new"] != [0] * 8 and "set" not in done:
                r["set"][0] ^= 0x40
                done.add("set")
            elif r["k"] == "fbin" and "xor" not in done:
                r["xor"][0] ^= 1
                done.add("xor")
            out.append(json.dumps(r) + "\n")
        marks.update(done)
        return out

    rc, info = D.run_property(PROP, "quick", KINDS, ASSUMPTIONS, D.FLAG_ACTIONS, tamper_records=tamper,
                              only=set(pick), table_bin=(table, binary), write=False)
    seen = set()
    for v in info["verdicts"]:
        if v.get("what") in ("is", "set", "operator"):
            seen.add(v["what"])
    ok1 = {"is", "set", "operator"} <= seen
    # (2) wrong model
    wd = C.workdir(PROP + "-selftest")
    mt = dict(table)
    mt["definers"] = [dict(d, kind=d["kind"] if d["id"] in pick else "skipped") for d in table["definers"]]
    tpath = os.path.join(wd, "definers.ndjson")
    D.write_tlc_table(mt, tpath, KINDS, 1)
    env = {"DEF_TABLE": tpath, "DEF_NSHARDS": 1, "DEF_SHARD": 0, "DEF_BIGN": 64, "DEF_SCANMOD": 0,
           "DEF_SCANREM": 0, "DEF_TAMPER": "clear"}
    res = C.run_tlc("Definers", workers=2, timeout=300, env=env, name="C12-selftest", keep_replay_in_memory=False,
                    allow_violation=True)
    ok2 = "FlagLaws" in res.violated
    print("selftest C12: corrupted records %s -> reported %s: %s; model with clear = v & reverse_bits(x): FlagLaws %s" %
          (sorted(marks), sorted(seen), "detected" if ok1 else "NOT detected",
           "violated (rejected)" if ok2 else "NOT violated"))
    return 0 if ok1 and ok2 else 2
