"""C13 - UpdateMask accessors, dirty tracking and wire form agree with the published field table.

Three bindings of spec/UpdateMask.tla to the real typed masks (7 object kinds x 3 expansions):

 S->I  spec/MCUpdateMask.tla explores, per kind, the graph of mask states reachable by Set (over a
       representative accessor set chosen from the published table), DirtyReset, MarkFullyDirty,
       Write and read-back up to a depth bound; TLC checks TypeOK, WireForm, SizeIsLen, ReadWritten
       and GetAfterSet on the model and prints, for every state, its history and the projection of
       every successor. `vh mask replay` executes every (state, operation) pair on the real mask
       (history also through the builder) and compares getter results, dirty bits, the written
       SMSG_UPDATE_OBJECT frame, the declared size and the read-back through the opcode reader.
 I->S  (i) every generated setter (mask and builder form, every index of indexed families) is
       called with a distinctive value on a fresh mask, followed by its getter and a write; the
       recorded events are validated by spec/TraceUpdateMask.tla against the row the PUBLISHED table
       files under the accessor's name (offset, size, value type, lanes, stride).
       (ii) seeded random operation sequences over all accessors of a kind, validated the same way;
       plus directed sequences for every pair of overlapping rows TLC finds in the table.
"""
import concurrent.futures
import json
import os
import random
import re
import subprocess
import time

from tools import common as C
from tools import gen_mask as G

PROP = "C13"
ASSUMPTIONS = [
    "oracle = wowm_language/src/types/update-mask.md (offset/size/type per name), docs/visibleitem.md and docs/skillinfo.md (member byte offsets of CUSTOM element structs), docs/objecttype.md (bit of each class in OBJECT_TYPE), docs/smsg_update_object.md + docs/object.md (the frame around the mask)",
    "name normalisation: row <CLASS>_<NAME> <-> set_<class>_<name> / <class>_<name>, lower-cased, within the classes the kind carries (container = object+item+container, player = object+unit+player, ...)",
    "lane reading of the table types: BYTES (a,b,c,d) = wire bytes 0..3 of the word; TWO_SHORT (a,b) = wire bytes 0-1 and 2-3 little endian; a typed accessor writes as many words as its value type holds (INT/FLOAT/BYTES/TWO_SHORT 1, GUID 2), starting at the row's offset, inside [offset, offset+size)",
    "indexed families: element index i of a struct array starts at offset + i * (size / number of index values the API offers); slot-indexed GUID arrays at offset + 2 * slot",
    "block count of the written form = blocks the object owns (grown by the highest bit ever set, or as read); MarkFullyDirty marks every bit the object has a block for; is_bit_dirty is only compared for bits inside the owned blocks",
    "Set writes a state-determined value (first Set of accessor i writes choice (i mod 3)+1 of {0, 1, 0xFFFFFFFF}, each further Set the next one) - all three values occur, value choice does not multiply the state graph",
    "one TLC worker per kind (deterministic BFS, canonical history per state = a shortest one); 8 kinds in parallel",
]

TIERS = {
    "quick": {"depth": 6, "player_depth": 6, "seqs": 2, "seq_len": 150},
    "thorough": {"depth": 8, "player_depth": 8, "seqs": 16, "seq_len": 800},
}


# ------------------------------------------------------------------------------------------------
def prepare():
    front, changed = G.generate()
    if changed:
        C.log("[C13] harness dispatch regenerated (%s)" % G.GEN_RS)
    binary = C.build_harness("vh")
    return front, binary


def table_file(wd, front, tamper=None):
    t = front.lowered_table()
    if tamper:
        t = tamper(t)
    path = os.path.join(wd, "table-tampered.json" if tamper else "table.json")
    with open(path, "w") as f:
        json.dump(t, f)
    return path, t


# ------------------------------------------------------------------------------------------------
# S -> I
# ------------------------------------------------------------------------------------------------

def mc_cfg(front, exp, kind, depth):
    rep = front.representative(exp, kind)
    bits = sorted({a["off"] + j for a in rep for j in range(a["n"])} | {2, 5})
    return {"exp": exp, "kind": kind, "typeWord": G.type_word(exp, kind, front.otb), "depth": depth,
            "acc": [{"off": a["off"], "n": a["n"]} for a in rep], "probe": bits}, rep


_RE_COV2 = re.compile(r"^<(\w+) line \d+, col \d+ to line \d+, col \d+ of module (\w+)(?: \([\d ]+\))?>: (\d+):(\d+)")


def coverage_from_log(res):
    """common._RE_COV misses action lines that carry a call-site suffix `(l c l c)`; read them here."""
    for line in open(res.log_path):
        m = _RE_COV2.match(line)
        if m and m.group(1) not in res.coverage:
            res.coverage[m.group(1)] = (int(m.group(3)), int(m.group(4)))


def run_one_kind(front, binary, wd, exp, kind, depth, tamper=None):
    cfg, rep = mc_cfg(front, exp, kind, depth)
    cfg_path = os.path.join(wd, "mc-%s-%s.json" % (exp, kind))
    with open(cfg_path, "w") as f:
        json.dump(cfg, f)
    out_path = os.path.join(wd, "replay-%s-%s.out" % (exp, kind))
    hcfg = {"cfg": {"exp": exp, "kind": kind,
                    "acc": [{"acc": a["acc"], "get": a["get"], "sig": a["sig"]} for a in rep]}}
    with open(out_path, "w") as outf:
        hp = subprocess.Popen([binary, "mask", "replay"], stdin=subprocess.PIPE, stdout=outf,
                              stderr=subprocess.PIPE, text=True)
        hp.stdin.write(json.dumps(hcfg) + "\n")

        class Sink:
            first = None
            n = 0

            def write(self, s):
                if tamper and self.n == 3:
                    s = tamper(s)
                if self.first is None:
                    self.first = s
                self.n += 1
                hp.stdin.write(s)

        sink = Sink()
        try:
            res = C.run_tlc("MCUpdateMask", workers=1, timeout=3000, env={"MASKCFG": cfg_path},
                            name="C13-MC-%s-%s" % (exp, kind), keep_replay_in_memory=False,
                            replay_sink=sink, xmx="2g")
        finally:
            try:
                hp.stdin.close()
            except BrokenPipeError:
                pass
        err = hp.stderr.read()
        hp.wait()
    if hp.returncode != 0:
        raise C.ToolError("vh mask replay failed for %s/%s: %s" % (exp, kind, err[-1000:]))
    coverage_from_log(res)
    missing = C.vacuity(res, ["DoSet", "DoReset", "DoFull", "DoWrite", "DoReadBack"])
    if missing:
        raise C.ToolError("vacuous model run for %s/%s, actions never fired: %s" % (exp, kind, missing))
    mism, summary = [], None
    for line in open(out_path):
        o = json.loads(line)
        if "summary" in o:
            summary = o["summary"]
        else:
            mism.append(o)
    if summary is None:
        raise C.ToolError("no summary from vh mask replay for %s/%s" % (exp, kind))
    if summary["records"] != sink.n:
        raise C.ToolError("replay consumed %d of %d records (%s/%s)" % (summary["records"], sink.n, exp, kind))
    return {"exp": exp, "kind": kind, "res": res, "summary": summary, "mismatches": mism,
            "rep": rep, "sample": sink.first, "cfg": cfg}


def group_mismatches(r):
    """One report per (kind, what differs, which accessor's getter differs) with a count and the first
    (shortest history) witness - a single defect otherwise shows up in every state that contains it."""
    groups = {}
    for m in r["mismatches"]:
        exp_p, obs_p = m.get("expected") or {}, m.get("observed") or {}
        keys = sorted(k for k in set(exp_p) | set(obs_p) if exp_p.get(k) != obs_p.get(k)) \
            if isinstance(obs_p, dict) and "error" not in obs_p and "panic" not in obs_p else ["error"]
        culprits = []
        if "gets" in keys and isinstance(obs_p.get("gets"), list) and len(obs_p["gets"]) == len(exp_p.get("gets", [])):
            culprits = [r["rep"][i]["acc"] for i, (a, b) in enumerate(zip(exp_p["gets"], obs_p["gets"])) if a != b]
        key = (",".join(keys), ",".join(culprits), m["step"].split("[")[0] if "hist" in m["step"] else "")
        g = groups.setdefault(key, {"count": 0, "first": None})
        g["count"] += 1
        if g["first"] is None or len(m.get("hist") or []) < len(g["first"].get("hist") or []):
            g["first"] = m
    out = []
    for (keys, culprits, _), g in sorted(groups.items()):
        m = dict(g["first"])
        m["accessors"] = [a["acc"] for a in r["rep"]]
        m["same_class_count_in_summary_window"] = g["count"]
        op = m.get("op") or {}
        acc = culprits or (r["rep"][op["a"] - 1]["acc"] if op.get("o") == "set" else None)
        first_acc = acc.split(",")[0] if acc else None
        obs = {"check": "replay", "exp": m["exp"], "kind": m["kind"], "differs": keys, "acc": acc,
               "sig": next((a["sig"] for a in r["rep"] if a["acc"] == first_acc), None),
               "op": op.get("o"), "total_mismatches_for_kind": r["summary"]["mismatches"]}
        out.append((obs, m))
    return out


def spec_to_impl(front, binary, wd, tier, only=None, tamper=None):
    t = TIERS[tier]
    jobs = []
    for exp in G.EXPS:
        for kind in G.KIND_ORDER:
            if only and (exp, kind) not in only:
                continue
            depth = t["player_depth"] if kind == "player" else t["depth"]
            jobs.append((exp, kind, depth))
    # the expensive kinds first
    jobs.sort(key=lambda j: (j[1] != "player", j[1] != "unit"))
    out = []
    with concurrent.futures.ThreadPoolExecutor(max_workers=8) as ex:
        futs = [ex.submit(run_one_kind, front, binary, wd, e, k, d, tamper) for e, k, d in jobs]
        for f in futs:
            out.append(f.result())
    return out


# ------------------------------------------------------------------------------------------------
# I -> S : requests
# ------------------------------------------------------------------------------------------------

def _word(rng, f32=False):
    b = rng.sample(range(1, 250), 4)
    if f32:
        b[3] = 0x41 + (b[3] % 8)   # an ordinary finite float, never a NaN pattern
    return b


def declared(front, exp, name, rng, avoid=()):
    vals = [v for v in front.definers[name][exp]["values"] if v not in avoid]
    return rng.choice(vals or front.definers[name][exp]["values"])


def make_args(front, a, rng, index=None):
    """Arguments for one call of accessor a (wire words / members / index)."""
    exp, sig = a["exp"], a["sig"]
    if sig in ("i32", "u16x2"):
        return {"w": [_word(rng)]}
    if sig == "f32":
        return {"w": [_word(rng, True)]}
    if sig == "guid":
        return {"w": [_word(rng), _word(rng)]}
    if sig == "u8x4":
        w, used = [], []
        for lane in a["lanes"]:
            if lane is None:
                v = rng.choice([x for x in range(1, 250) if x not in used])
            else:
                v = declared(front, exp, lane, rng, avoid=used)
            used.append(v)
            w.append(v)
        return {"w": [w]}
    if sig == "slot_guid":
        slots = front.definers[a["slot_ty"]][exp]["values"]
        return {"w": [_word(rng), _word(rng)], "index": index if index is not None else rng.choice(slots)}
    if sig == "struct":
        mem = {}
        for m in front.structs[a["struct"]][exp]:
            if m["const"]:
                continue
            if m["ty"] in front.definers and exp in front.definers[m["ty"]]:
                v = declared(front, exp, m["ty"], rng)
                mem[m["m"]] = list(v.to_bytes(m["bsize"], "little"))
            else:
                mem[m["m"]] = rng.sample(range(1, 250), m["bsize"]) if m["bsize"] <= 200 else None
        return {"members": mem, "index": index if index is not None else rng.randrange(a["count"])}
    raise AssertionError(sig)


def indices_of(front, a):
    if a["sig"] == "slot_guid":
        return list(front.definers[a["slot_ty"]][a["exp"]]["values"])
    if a["sig"] == "struct":
        return list(range(a["count"]))
    return [None]


def get_args(args):
    return {"index": args["index"]} if "index" in args else {}


def probe_requests(front, rng):
    """(i): every setter (mask + builder), every index, on a fresh mask: set, get, write."""
    reqs = []
    for exp in G.EXPS:
        for kind in G.KIND_ORDER:
            for a in front.acc[(exp, kind)]:
                for idx in indices_of(front, a):
                    for via in ("mask", "builder"):
                        if not a["has_" + via]:
                            continue
                        args = make_args(front, a, rng, idx)
                        ops = [{"op": "new", "via": via}]
                        if via == "builder":
                            ops += [{"op": "bset", "acc": a["acc"], "args": args}, {"op": "finalize"}]
                        else:
                            ops += [{"op": "set", "acc": a["acc"], "args": args}]
                        ops += [{"op": "get", "acc": a["get"], "args": get_args(args)}, {"op": "write"}]
                        reqs.append({"id": len(reqs), "exp": exp, "kind": kind, "ops": ops,
                                     "what": "probe", "acc": a["acc"], "via": via})
    return reqs


def drive_requests(front, rng, tier, exclude=frozenset()):
    """(ii): seeded random operation sequences over the accessors of each kind. Accessors that (i)
    already rejected, or whose table rows overlap another row, are left out (they are reported with
    their own witness) so that the sequences run to their end instead of stopping at a known defect."""
    t = TIERS[tier]
    reqs = []
    for exp in G.EXPS:
        for kind in G.KIND_ORDER:
            accs = [a for a in front.acc[(exp, kind)] if (exp, kind, a["acc"]) not in exclude]
            top = max(a["row"]["off"] + a["row"]["size"] for a in accs)
            for s in range(t["seqs"]):
                ops = []
                used = []
                if rng.random() < 0.5:
                    ops.append({"op": "new", "via": "builder"})
                    for _ in range(rng.randrange(0, 6)):
                        a = rng.choice([x for x in accs if x["has_builder"]])
                        args = make_args(front, a, rng)
                        ops.append({"op": "bset", "acc": a["acc"], "args": args})
                        used.append((a, args))
                    ops.append({"op": "finalize"})
                else:
                    ops.append({"op": "new", "via": "mask"})
                for _ in range(t["seq_len"]):
                    r = rng.random()
                    if r < 0.45:
                        # favour re-setting fields already used so overwrites and dirty states mix
                        if used and rng.random() < 0.3:
                            a, old = rng.choice(used)
                            args = make_args(front, a, rng, old.get("index"))
                        else:
                            a = rng.choice([x for x in accs if x["has_mask"]])
                            args = make_args(front, a, rng)
                        ops.append({"op": "set", "acc": a["acc"], "args": args})
                        used.append((a, args))
                    elif r < 0.65:
                        if used and rng.random() < 0.8:
                            a, args = rng.choice(used)
                        else:
                            a = rng.choice(accs)
                            args = make_args(front, a, rng)
                        ops.append({"op": "get", "acc": a["get"], "args": get_args(args)})
                    elif r < 0.72:
                        ops.append({"op": "dirty_reset"})
                    elif r < 0.77:
                        ops.append({"op": "mark_fully_dirty"})
                    elif r < 0.87:
                        ops.append({"op": "write"})
                    elif r < 0.90:
                        ops.append({"op": "readback"})
                    elif r < 0.94:
                        ops.append({"op": "has_dirty"})
                    else:
                        if used and rng.random() < 0.7:
                            a, args = rng.choice(used)
                            bit = a["row"]["off"] + rng.randrange(0, 2)
                        else:
                            bit = rng.randrange(0, top + 40)
                        ops.append({"op": "is_dirty", "bit": bit})
                ops.append({"op": "write"})
                reqs.append({"id": len(reqs), "exp": exp, "kind": kind, "ops": ops, "what": "drive",
                             "acc": "seq%d" % s, "via": "-"})
    return reqs


def overlap_requests(front, overlaps, rng):
    """Directed: for two overlapping rows set A, set B, get A (and the other way round)."""
    reqs = []
    for ov in overlaps:
        exp, kind = ov["exp"], ov["okind"]
        accs = {a["row"]["name"]: a for a in front.acc[(exp, kind)]}
        a, b = accs.get(ov["a"]["name"]), accs.get(ov["b"]["name"])
        if not a or not b:
            continue
        lo = max(ov["a"]["off"], ov["b"]["off"])

        def hit(acc):
            """an index of acc whose words reach the overlap"""
            row = acc["row"]
            if acc["sig"] == "slot_guid":
                return max(0, (lo - row["off"]) // 2)
            if acc["sig"] == "struct":
                return max(0, (lo - row["off"]) // (row["size"] // acc["count"]))
            return None

        for x, y in ((a, b), (b, a)):
            for dx in (0, 1):
                ix, iy = hit(x), hit(y)
                if ix is not None:
                    ix += dx
                ax, ay = make_args(front, x, rng, ix), make_args(front, y, rng, iy)
                ops = [{"op": "new", "via": "mask"},
                       {"op": "set", "acc": x["acc"], "args": ax},
                       {"op": "set", "acc": y["acc"], "args": ay},
                       {"op": "get", "acc": x["get"], "args": get_args(ax)}]
                reqs.append({"id": len(reqs), "exp": exp, "kind": kind, "ops": ops, "what": "overlap",
                             "acc": x["acc"], "via": "mask", "other": y["acc"]})
    return reqs


# ------------------------------------------------------------------------------------------------
# I -> S : execution and validation
# ------------------------------------------------------------------------------------------------

def execute(binary, reqs, wd, name):
    inp = os.path.join(wd, name + ".req.ndjson")
    with open(inp, "w") as f:
        for r in reqs:
            f.write(json.dumps({"id": r["id"], "exp": r["exp"], "kind": r["kind"], "ops": r["ops"]}) + "\n")
    with open(inp) as f:
        p = subprocess.run([binary, "mask", "exec"], stdin=f, capture_output=True, text=True, timeout=3000)
    if p.returncode != 0:
        raise C.ToolError("vh mask exec failed rc=%s: %s" % (p.returncode, p.stderr[-2000:]))
    outs = [json.loads(l) for l in p.stdout.splitlines() if l.strip()]
    if len(outs) != len(reqs):
        raise C.ToolError("vh mask exec answered %d of %d requests" % (len(outs), len(reqs)))
    return outs


def to_trace(reqs, outs):
    """Harness observations -> trace lines for TraceUpdateMask.tla. No values are changed; the only
    rewrites are shape normalisations TLC needs (getter name -> accessor key, Option -> some/ret,
    booleans of is_dirty -> strings so that `panic` fits the same field)."""
    lines, owner, observations = [], [], {"is_bit_dirty_out_of_blocks_panics": 0, "getter_panics": 0}
    for r, o in zip(reqs, outs):
        if o["id"] != r["id"]:
            raise C.ToolError("harness answers out of order")
        for n, ev in enumerate(o["events"]):
            if "error" in ev:
                raise C.ToolError("harness could not execute %s: %s" % (json.dumps(r["ops"][n])[:300], ev["error"]))
            e = {"ev": ev["ev"]}
            if "panic" in ev:
                e["panic"] = True
            k = ev["ev"]
            if k == "new":
                e.update(exp=r["exp"], kind=r["kind"], via=ev["via"])
            elif k in ("set", "bset"):
                e["acc"] = ev["acc"]
                if "arg" in ev:
                    e["arg"] = ev["arg"]
            elif k == "get":
                e["acc"] = "set_" + ev["acc"]
                if "index" in ev:
                    e["index"] = ev["index"]
                if "panic" in ev:
                    observations["getter_panics"] += 1
                    e["some"], e["ret"] = False, []
                elif ev["ret"] == "none":
                    e["some"], e["ret"] = False, []
                else:
                    e["some"], e["ret"] = True, ev["ret"]
            elif k == "has_dirty":
                e["ret"] = ev.get("ret", False)
            elif k == "is_dirty":
                e["bit"] = ev["bit"]
                if ev["ret"] == "panic":
                    e["ret"] = "panic"
                    e.pop("panic", None)
                    observations["is_bit_dirty_out_of_blocks_panics"] += 1
                else:
                    e["ret"] = "true" if ev["ret"] else "false"
            elif k == "write":
                e["frame"] = ev.get("frame", [])
                e["size"] = ev.get("size", 0)
            elif k == "readback":
                e["ok"] = ev["ok"]
                if not ev["ok"]:
                    e["err"] = ev.get("err", "")
            lines.append(e)
            owner.append((r, n, ev))
    return lines, owner, observations


def validate(wd, name, lines, table_path, shards=6):
    """Runs TraceUpdateMask on the lines (sharded at `new` boundaries). -> (rejects, overlaps, stats)"""
    # split into shards at `new` events
    starts = [i for i, e in enumerate(lines) if e["ev"] == "new"]
    if not starts or starts[0] != 0:
        raise C.ToolError("trace does not start with a `new` event")
    per = max(1, (len(starts) + shards - 1) // shards)
    cuts = [starts[i] for i in range(0, len(starts), per)] + [len(lines)]
    jobs = []
    for s in range(len(cuts) - 1):
        path = os.path.join(wd, "%s-%d.trace.ndjson" % (name, s))
        with open(path, "w") as f:
            for e in lines[cuts[s]:cuts[s + 1]]:
                f.write(json.dumps(e, separators=(",", ":")) + "\n")
        jobs.append((path, cuts[s], cuts[s + 1] - cuts[s]))

    def one(job):
        path, base, n = job
        res = C.run_tlc("TraceUpdateMask", workers=1, timeout=3000, deque=True, xmx="3g",
                        env={"TRACE": path, "MASKTABLE": table_path},
                        name="C13-%s-%s" % (name, os.path.basename(path).split(".")[0]))
        if not res.finished:
            raise C.ToolError("trace validation did not finish (%s)" % res.log_path)
        if res.depth and res.depth - 1 != n:
            raise C.ToolError("trace validation consumed %d of %d lines (%s)" % (res.depth - 1, n, res.log_path))
        return res, base

    rejects, overlaps, states, trans, cov = [], [], 0, 0, {}
    with concurrent.futures.ThreadPoolExecutor(max_workers=min(8, len(jobs))) as ex:
        for res, base in ex.map(one, jobs):
            states += res.distinct
            trans += res.generated
            for k, v in res.coverage.items():
                cov[k] = cov.get(k, 0) + v[1]
            for r in res.replay:
                if r.get("kind") == "reject":
                    rejects.append({"line": base + r["line"] - 1, "why": r["why"]})
                elif r.get("kind") == "overlap":
                    if r not in overlaps:
                        overlaps.append(r)
    return rejects, overlaps, {"states": states, "transitions": trans, "coverage": cov, "lines": len(lines)}


def describe_reject(front, table, rej, lines, owner):
    r, n, ev = owner[rej["line"]]
    e = lines[rej["line"]]
    acc = e.get("acc") or r["acc"]
    row = table[r["exp"]][r["kind"]]["rows"].get(acc)
    obs = {"check": r["what"], "exp": r["exp"], "kind": r["kind"], "acc": acc, "ev": e["ev"], "why": rej["why"],
           "sig": (e.get("arg") or {}).get("t") or next((a["sig"] for a in front.acc[(r["exp"], r["kind"])]
                                                          if a["acc"] == acc), None),
           "via": r["via"]}
    if r["what"] == "overlap":
        obs["other"] = r.get("other")
    rep = {"request": {"exp": r["exp"], "kind": r["kind"], "ops": r["ops"][:n + 1]},
           "rejected_event": e, "events": None, "table_row": row}
    return obs, rep


def impl_to_spec(front, binary, wd, tier, table_path, table, mutate_lines=None, what=("probe", "drive", "overlap")):
    rng = random.Random(C.seed())
    stats = {}
    all_rejects = []
    observations = {}
    overlaps = []
    samples = []
    exclude = set()
    for name in what:
        if name == "probe":
            reqs = probe_requests(front, rng)
        elif name == "drive":
            reqs = drive_requests(front, rng, tier, frozenset(exclude))
        else:
            reqs = overlap_requests(front, overlaps, rng)
            if not reqs:
                stats[name] = {"lines": 0, "requests": 0}
                continue
        outs = execute(binary, reqs, wd, name)
        lines, owner, obs = to_trace(reqs, outs)
        if mutate_lines:
            lines, owner = mutate_lines(name, lines, owner)
        for k, v in obs.items():
            observations[k] = observations.get(k, 0) + v
        rejects, ov, st = validate(wd, name, lines, table_path)
        st["requests"] = len(reqs)
        stats[name] = st
        if name == "probe":
            overlaps = ov
            samples.append({"request": {k: reqs[0][k] for k in ("exp", "kind", "ops")}, "trace": lines[:4]})
            for o in ov:
                for a in front.acc[(o["exp"], o["okind"])]:
                    if a["row"]["name"] in (o["a"]["name"], o["b"]["name"]):
                        exclude.add((o["exp"], o["okind"], a["acc"]))
        for rej in rejects:
            obs, rep = describe_reject(front, table, rej, lines, owner)
            all_rejects.append((obs, rep))
            if name == "probe":
                # the same accessor body is printed for every kind that carries the field
                for kind in G.KIND_ORDER:
                    exclude.add((obs["exp"], kind, obs["acc"]))
        if name == "drive":
            st["accessors_left_out"] = sorted("%s/%s/%s" % x for x in exclude)
    return all_rejects, overlaps, stats, observations, samples


def side_observations(front, binary, wd):
    """Things the property is silent about, recorded (never counted as violations):
    a getter on a GUID whose upper word is missing after decoding foreign bytes (C03 territory),
    is_bit_dirty for a bit beyond the blocks the object owns."""
    out = {}
    for exp in G.EXPS:
        tw = G.type_word(exp, "item", front.otb)
        mask = [1, 5, 0, 0, 0, 0x44, 0x33, 0x22, 0x11] + tw          # bits 0 and 2 only
        body = [1, 0, 0, 0] + ([] if exp == "wrath" else [0]) + [0, 0] + mask
        size = 2 + len(body)
        frame = [size >> 8, size & 0xFF, 0xA9, 0] + body
        reqs = [{"id": 0, "exp": exp, "kind": "item", "what": "obs", "acc": "-", "via": "-",
                 "ops": [{"op": "read_frame", "frame": frame}, {"op": "get", "acc": "object_guid"},
                         {"op": "new", "via": "mask"}, {"op": "is_dirty", "bit": 2}, {"op": "is_dirty", "bit": 700}]}]
        evs = execute(binary, reqs, wd, "obs-" + exp)[0]["events"]
        out[exp] = {
            "read_of_half_guid_frame_ok": evs[0].get("ok"),
            "object_guid_getter_on_half_guid": ("panic: " + evs[1]["panic"]) if "panic" in evs[1] else evs[1].get("ret"),
            "is_bit_dirty_700_on_fresh_item": ("panic: " + evs[4]["panic"]) if "panic" in evs[4] else evs[4].get("ret"),
        }
    return out


# ------------------------------------------------------------------------------------------------
def run(tier):
    t0 = time.time()
    wd = C.workdir(PROP)
    front, binary = prepare()
    table_path, table = table_file(wd, front)
    v = C.Verdicts(PROP)

    t1 = time.time()
    mc = spec_to_impl(front, binary, wd, tier)
    t_mc = time.time() - t1
    states = sum(r["res"].distinct for r in mc)
    trans = sum(r["res"].generated for r in mc)
    steps = sum(r["summary"]["steps"] for r in mc)
    records = sum(r["summary"]["records"] for r in mc)
    for r in mc:
        for obs, m in group_mismatches(r):
            v.report(obs, replay=m)

    t2 = time.time()
    rejects, overlaps, st, observations, samples = impl_to_spec(front, binary, wd, tier, table_path, table)
    t_tr = time.time() - t2
    for obs, rep in rejects:
        v.report(obs, replay=rep)
    rc = v.finish()

    sample_rec = json.loads(mc[0]["sample"]) if mc and mc[0]["sample"] else {}
    if sample_rec:
        sample_rec["succ"] = sample_rec["succ"][:2]
    n_setters = sum((1 if a["has_mask"] else 0) + (1 if a["has_builder"] else 0)
                    for lst in front.acc.values() for a in lst)
    C.write_evidence(PROP, tier, "model_checking", {
        "states": states + sum(s.get("states", 0) for s in st.values()),
        "transitions": trans + sum(s.get("transitions", 0) for s in st.values()),
        "traces_validated_against_impl": records + sum(s.get("requests", 0) for s in st.values()),
        "samples": [{"kind": "%s/%s" % (mc[0]["exp"], mc[0]["kind"]), "accessors": [a["acc"] for a in mc[0]["rep"]],
                     "record": sample_rec}] + samples,
        "spec_to_impl": {
            "bounds": {"depth": TIERS[tier]["depth"], "player_depth": TIERS[tier]["player_depth"],
                       "words": ["00000000", "00000001", "ffffffff"]},
            "model_states": states, "model_transitions": trans,
            "state_records_replayed": records, "state_operation_pairs_executed": steps,
            "builder_histories": sum(r["summary"]["builder_runs"] for r in mc),
            "per_kind": [{"exp": r["exp"], "kind": r["kind"], "depth": r["cfg"]["depth"],
                          "accessors": [a["acc"] for a in r["rep"]], "states": r["res"].distinct,
                          "pairs": r["summary"]["steps"], "tlc_s": round(r["res"].wall, 1)} for r in mc],
            "invariants": ["TypeOK", "WireForm", "SizeIsLen", "ReadWritten", "SmallFrame", "GetAfterSet (action property)"],
            "wall_s": round(t_mc, 1),
        },
        "impl_to_spec": {
            "setters_in_api": n_setters, "accessor_families_bound": sum(len(x) for x in front.acc.values()),
            "unmapped": {"count": len(front.unmapped), "names": front.unmapped[:200]},
            "table_rows_without_accessor": sorted({r["row"] for r in front.rows_without_accessor}),
            "probe": st.get("probe"), "drive": st.get("drive"), "overlap": st.get("overlap"),
            "table_overlaps_found_by_tlc": overlaps,
            "wall_s": round(t_tr, 1),
        },
        "observations_not_violations": dict(observations, side=side_observations(front, binary, wd)),
    }, time.time() - t0, ASSUMPTIONS, violations=len(v.violations))
    C.log("[C13] %s: model %d states, %d (state,op) pairs replayed in %.0fs; traces %s in %.0fs; %d violations, known %s"
          % (tier, states, steps, t_mc, {k: s.get("lines") for k, s in st.items()}, t_tr, len(v.violations),
             v.known_hits))
    return rc


# ------------------------------------------------------------------------------------------------
def replay(path):
    body = json.load(open(path))
    beh = body["behaviour"]
    wd = C.workdir(PROP + "-replay")
    front, binary = prepare()
    table_path, table = table_file(wd, front)
    if "request" in beh:            # a rejected trace: re-execute the request and validate it again
        r = dict(beh["request"])
        r.update(id=0, what="replay", acc=body["observation"].get("acc", "?"), via="-")
        outs = execute(binary, [r], wd, "replay")
        lines, owner, _ = to_trace([r], outs)
        rejects, _, st = validate(wd, "replay", lines, table_path, shards=1)
        for e in lines:
            print(json.dumps(e)[:400])
        for rej in rejects:
            print("REJECTED line %d (%s): %s" % (rej["line"], lines[rej["line"]]["ev"], rej["why"]))
        print("replayed %d events: %d rejected" % (len(lines), len(rejects)))
        return 1 if rejects else 0
    # a replay mismatch: re-run the model for that kind and replay everything for it
    res = spec_to_impl(front, binary, wd, os.environ.get("VERIF_TIER", "quick"), only={(beh["exp"], beh["kind"])})
    n = 0
    for r in res:
        for m in r["mismatches"]:
            n += 1
            if n <= 5:
                print(json.dumps(m)[:1500])
    print("replayed %s/%s: %d mismatches" % (beh["exp"], beh["kind"], n))
    return 1 if n else 0


def selftest(tier):
    """Binding demonstration in both directions."""
    wd = C.workdir(PROP + "-selftest")
    front, binary = prepare()
    table_path, table = table_file(wd, front)
    ok = True

    # 1. S->I: corrupt one model record (flip one byte of an expected frame): replay must disagree
    def tamper(s):
        rec = json.loads(s)
        rec["succ"][0]["proj"]["frame"][-1] ^= 1
        return json.dumps(rec) + "\n"
    base = spec_to_impl(front, binary, wd, "quick", only={("vanilla", "item")})
    bad = spec_to_impl(front, binary, wd, "quick", only={("vanilla", "item")}, tamper=tamper)
    d1 = len(bad[0]["mismatches"]) - len(base[0]["mismatches"])
    print("selftest C13 (1) corrupted model record: %s (%d extra mismatches)" % ("detected" if d1 >= 1 else "NOT detected", d1))
    ok &= d1 >= 1

    # 2. I->S: drop one `set` event of a driver trace: the trace must be rejected
    def drop(name, lines, owner):
        for i, e in enumerate(lines):
            if e["ev"] == "set" and i > 10:
                return lines[:i] + lines[i + 1:], owner[:i] + owner[i + 1:]
        return lines, owner
    b2, _, _, _, _ = impl_to_spec(front, binary, wd, "quick", table_path, table, what=("drive",))
    r2, _, _, _, _ = impl_to_spec(front, binary, wd, "quick", table_path, table, mutate_lines=drop, what=("drive",))
    print("selftest C13 (2) dropped set event: %s (%d -> %d rejects)" % ("detected" if len(r2) > len(b2) else "NOT detected", len(b2), len(r2)))
    ok &= len(r2) > len(b2)

    # 3. I->S: move one row of the published table by one word: its accessors must be rejected
    def shift(t):
        t["vanilla"]["unit"]["rows"]["set_unit_health"]["off"] += 1
        return t
    tpath2, t2 = table_file(wd, front, tamper=shift)
    b3, _, _, _, _ = impl_to_spec(front, binary, wd, "quick", table_path, table, what=("probe",))
    r3, _, _, _, _ = impl_to_spec(front, binary, wd, "quick", tpath2, t2, what=("probe",))
    hit = [o for o, _ in r3 if o["acc"] == "set_unit_health" and o["exp"] == "vanilla" and o["kind"] == "unit"]
    print("selftest C13 (3) table row moved by one word: %s (%d rejects of set_unit_health)" % ("detected" if len(hit) >= 2 and len(r3) > len(b3) else "NOT detected", len(hit)))
    ok &= len(hit) >= 2 and len(r3) > len(b3)
    return 0 if ok else 2
