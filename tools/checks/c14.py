"""C14 - login protocol-version views of a message are lossless and codec-equivalent.

spec/Collective.tla checks on the definitions that every informative field of an older version's
message has a place in the latest version's message (the design-level condition for
Lower_N o Lift_N = id).  The behaviours of spec/WowmWire.tla for every login message of every
protocol version are then executed by `vh collective`: own reader -> from_version_N ->
to_version_N -> compare value and bytes; read_protocol / write_protocol compare with both.
"""
import collections
import json
import os
import time

from tools import common as C
from tools import codec_common as CC
from tools import replay as R
from tools import wire

PROP = "C14"


def model(ldir):
    env = {"WOWM_OBJECTS": ldir + "/objects.ndjson", "WOWM_BLOCKS": ldir + "/blocks.ndjson",
           "WOWM_INDEX": ldir + "/index.json", "WOWM_NSHARDS": 1, "WOWM_SHARD": 0, "WOWM_NPROF": 1,
           "WOWM_MAXLEN": 2, "WOWM_ONLY": "", "WOWM_DEEP": "0", "WOWM_FAULTS": "0", "WOWM_FAULT_EVERY": 1, "WOWM_FAULT_PHASE": 0,
           "WOWM_CONST": wire.EMPTY_LIST}
    res = C.run_tlc("Collective", workers=1, timeout=600, env=env, name="c14-collective", coverage=False,
                    allow_violation=True)
    return res


def login_records(ctx):
    for r in wire.iter_records(ctx["paths"]):
        if r["kind"] == "codec" and r["exp"] == "login":
            yield r


def run(tier):
    t0 = time.time()
    # all login messages: shards are cheap, so explore them with more profiles than C01 does
    ctx = CC.explore(tier, tag="c14", nprof=6 if tier == "quick" else 24, only="@login")
    res = model(ctx["ldir"])
    v = C.Verdicts(PROP)
    embeds = [r for r in res.replay if r.get("kind") == "embed"]
    if not embeds:
        raise C.ToolError("Collective.tla produced no judgements: %s" % res.errors[:2])
    for r in embeds:
        if not r["embeds"]:
            v.report({"name": r["name"], "lv": r["lv"], "verdict": "fields_do_not_embed", "missing": ",".join(r["missing"])},
                     replay={"judgement": r})
    binary = C.build_harness("vh")
    lines = [json.dumps(r, separators=(",", ":")) for r in login_records(ctx)]
    verdicts, totals = R.run_records(binary, ["collective"], lines, jobs=8)
    for o in verdicts:
        obs = CC.observation(o)
        v.report(obs, replay=lambda o=o: {"verdict": o})
    rc = v.finish()
    fam = collections.Counter((json.loads(l)["name"], json.loads(l)["lv"]) for l in lines)
    C.write_evidence(PROP, tier, "model_checking", {
        "states": res.distinct + sum(s["distinct"] for s in ctx["stats"]),
        "transitions": res.generated + sum(s["generated"] for s in ctx["stats"]),
        "traces_validated_against_impl": totals["records"],
        "samples": [json.loads(l) for l in lines[:2]] + embeds[:2],
        "evaluations": totals["records"],
        "distinct_nontrivial": len(fam),
        "rule": "one behaviour = one canonical encoding of a login message of one protocol version; distinct_nontrivial = distinct (message, protocol version) pairs; each is decoded by its own reader, lifted, lowered, re-encoded and sent through read_protocol / write_protocol",
        "family_version_pairs_judged_by_model": len(embeds),
        "non_ok_by_verdict": dict(collections.Counter(o["verdict"] for o in verdicts)),
        "known_finding_hits": dict(v.known_hits),
        "bounds": ctx["params"],
    }, time.time() - t0, [
        "the sync variants of the protocol-parameterised API are exercised (tokio / async-std variants delegate to the same conversions; their transport behaviour is C06's subject)",
        "messages that do not exist in protocol version 8 (CMD_SURVEY_RESULT) have no collective type and are skipped",
        "spec/Collective.tla compares field NAMES of the definitions (padding constants excluded); value-level losslessness is decided by executing every behaviour",
    ], violations=len(v.violations))
    return rc


def replay(path):
    body = json.load(open(path))
    o = body["behaviour"]["verdict"]
    print(json.dumps(o)[:1500])
    return 1


def selftest(tier):
    """Binding demonstration: a version-N encoding presented as another version must be rejected."""
    ctx = CC.explore("quick", tag="c14-selftest", only="CMD_AUTH_LOGON_PROOF_Server", nprof=1)
    binary = C.build_harness("vh")
    recs = [r for r in login_records(ctx) if r["lv"] == 2 and len(r["body"]) > 10]
    if not recs:
        raise C.ToolError("selftest: no v2 success record")
    good = recs[0]
    bad = dict(good)
    bad["lv"] = 8   # a version-2 encoding is not a version-8 encoding (missing account_flag / unknown)
    vg, _ = R.run_records(binary, ["collective"], [json.dumps(good)], jobs=1)
    vb, _ = R.run_records(binary, ["collective"], [json.dumps(bad)], jobs=1)
    ok = len(vg) == 0 and len(vb) == 1
    print("selftest C14: genuine record ok=%s, mislabelled record rejected=%s" % (len(vg) == 0, len(vb) == 1))
    return 0 if ok else 2
