"""C15 - DateTime accepts exactly real calendar instants; accessors invert its packing.

spec/DateTime.tla is model checked (calendar walk + clock walk, invariants tying the walked
weekday to the closed-form day count); its terminal records - the weekday tuple of every month of
2000..2255 and the validity of every (hour, minute) field value - are the truth table of the
property.  The harness looks every one of the 2^32 values up in that table and compares with
`DateTime::try_from`, `as_int` and all accessors.  Both tiers are exhaustive.
"""
import json
import os
import subprocess
import time

from tools import common as C

PROP = "C15"
ASSUMPTIONS = [
    "bit packing of types/datetime.md (y<<24 | m<<20 | d<<14 | w<<11 | h<<6 | mi) is used by the harness to look a value up in the model's tables",
    "spec/DateTime.tla is the reference calendar (Gregorian rule, Saturday 2000-01-01); it is cross-checked inside TLC by two independent definitions (day-by-day walk vs. counted day number)",
    "build profile: opt-level 3 with overflow checks and debug assertions on",
]


def model(tamper=None):
    wd = C.workdir(PROP)
    res = C.run_tlc("DateTime", workers=4, timeout=600, name="C15-DateTime")
    missing = C.vacuity(res, ["NextDaySameMonth", "NextMonth", "NextYear", "TickMinute", "TickHour"])
    if missing:
        raise C.ToolError("vacuous model run, actions never fired: %s" % missing)
    recs = res.replay
    if tamper:
        recs = tamper(recs)
    path = os.path.join(wd, "records.ndjson")
    with open(path, "w") as f:
        for r in recs:
            f.write(json.dumps(r) + "\n")
    return res, recs, path


def execute(binary, records_path, stride=1, offset=0, count=None):
    args = [binary, "datetime", str(stride), str(offset)]
    if count is not None:
        args.append(str(count))
    with open(records_path) as f:
        p = subprocess.run(args, stdin=f, capture_output=True, text=True, timeout=3000)
    if p.returncode != 0:
        raise C.ToolError("vh_base datetime failed rc=%s: %s" % (p.returncode, p.stderr[-2000:]))
    findings, summary = [], None
    for line in p.stdout.splitlines():
        o = json.loads(line)
        if "summary" in o:
            summary = o["summary"]
        else:
            findings.append(o)
    if summary is None:
        raise C.ToolError("no summary from vh_base datetime")
    return findings, summary


def run(tier):
    t0 = time.time()
    res, recs, path = model()
    binary = C.build_harness("vh_base")
    findings, summary = execute(binary, path)
    v = C.Verdicts(PROP)
    for f in findings:
        obs = {"class": f.get("class"), "v": f.get("v"), "finding": f.get("finding")}
        obs.update(f.get("fields", {}))
        v.report(obs, replay=f)
    # counts of classes that only surfaced beyond the 10 printed samples are still violations;
    # every class has at least one sample printed, so nothing is hidden.
    rc = v.finish()
    samples = [r for r in recs if r["kind"] == "month"][:2] + [r for r in recs if r["kind"] == "time"][:1]
    C.write_evidence(PROP, tier, "model_checking", {
        "states": res.distinct,
        "transitions": res.generated,
        "traces_validated_against_impl": len(recs),
        "samples": samples + [{"value": 0x18_1B_D5_A4, "note": "every u32 is looked up in the tables above"}],
        "evaluations": summary["evaluated"],
        "distinct_nontrivial": summary["accepted"],
        "rule": "all 2^32 u32 values; non-trivial = values the library accepts (each is additionally checked through as_int and six accessors)",
        "exhaustive": True,
        "model_depth": res.depth,
        "finding_counts": summary["finding_counts"],
        "actions_fired": {k: v2[1] for k, v2 in res.coverage.items()},
    }, time.time() - t0, ASSUMPTIONS, violations=len(v.violations))
    return rc


def replay(path):
    body = json.load(open(path))
    val = body["behaviour"]["v"]
    res, recs, rpath = model()
    binary = C.build_harness("vh_base")
    findings, summary = execute(binary, rpath, 1, val, 1)
    for f in findings:
        print(json.dumps(f))
    print("replayed value %d: %d findings" % (val, len(findings)))
    return 1 if findings else 0


def selftest(tier):
    """Binding demonstration: corrupt one model record; the replay must then disagree."""
    def tamper(recs):
        out = []
        done = False
        for r in recs:
            if not done and r["kind"] == "month" and r["y"] == 24 and r["m"] == 1:
                r = dict(r)
                r["days"] = r["days"][:-1]  # pretend February 2024 has 28 days
                done = True
            out.append(r)
        return out
    res, recs, path = model(tamper)
    binary = C.build_harness("vh_base")
    findings, summary = execute(binary, path)
    ok = any(f.get("class") == "accepts_day_index_eq_month_length" or f.get("class") == "rejects_valid" for f in findings)
    print("selftest C15: corrupted model record %s" % ("detected" if ok else "NOT detected"))
    return 0 if ok else 2
