"""C16 - ill-formed wowm is rejected with the specific diagnostic of the rule it breaks.

spec/WowmStatic.tla holds the version lattice (laws checked by TLC as ASSUMEs), lookup through
versions and the static rules of the language with their exit statuses.  TLC first takes the real
corpus (lowered object table of the independent front-end) through every rule - it must break none -
and then every MUTANT: the corpus with one file replaced by a text in which one small edit was made
at a chosen site (tools/wowm_mutate.py).  The front-end re-reads the mutated text, so the
specification and the generator see the same program.  TLC prints, per mutant, the set of rules it
breaks and Diagnose = the status of the first of them (REPLAY records).

spec -> impl: the real generator (built from /repo's working tree, hooks H1 + H2) is run on a scratch
copy of /repo with that one file changed.  Its exit status must equal the model's prediction; the
unmodified tree must exit 0; a rejected run must not have removed generated files (writes are counted).
Mutants that break more than one rule are excluded and counted (the order in which the generator
meets the rules is an implementation artefact the documents do not fix).
"""
import concurrent.futures
import json
import os
import random
import shutil
import subprocess
import threading
import time

from tools import common as C
from tools import regen
from tools import static_lower as SL
from tools import wowm_front as F
from tools import wowm_mutate as WM

PROP = "C16"
GEN_TARGET = os.path.join(C.CACHE, "gen-target-C16")
GEN_BIN = os.environ.get("VERIF_C16_GEN") or os.path.join(GEN_TARGET, "debug", "wow_message_parser")  # env: development only
PARALLEL = 6

ASSUMPTIONS = [
    "tools/wowm_front.py reads wowm text the way the language documents describe (it is the same front-end whose object table C01 replays against the codecs); the specification sees a mutant only through it",
    "exit statuses are those of wow_message_parser/src/error_printer/mod.rs (the observable); which rule a status stands for is read from the message text printed there",
    "the opcode index is the data table wow_message_parser/src/parser/stats/{vanilla,tbc,wrath}_messages.rs, extracted textually",
    "rules the documents do not spell out (recursive type, misplaced self.size, opcode index) are modelled in their narrowest sense: a container with a member of its own type; a non-fixed-length member before the self.size field; a world message of 1.12 / 2.4.3 / 3.3.5 whose (name, opcode) is not in the index",
    "signed base types: values -2^(n-1) .. 2^n-1 are taken as representable (the documents give no usable bound); mutants only use values outside every reading, except the declared probe 2^n",
    "duplicate field names: declarations only (the corpus itself has an optional block named like a declaration, SMSG_PET_SPELLS.action_bars)",
    "locality: a mutant's rules are evaluated on the objects the mutation can reach (new objects, namesakes, users of touched names); checked against whole-program evaluation on a sample in every run",
]

RULE_CODES = {"invalid_enumerator_value": 10, "invalid_base_type": 12, "flag_with_signed_type": 21,
              "both_versions": 16, "no_version": 6, "mismatched_if_variables": 13, "unsupported_upcast": 14,
              "duplicate_field_names": 17, "enumerator_out_of_range": 22, "duplicate_enumerator_values": 11,
              "overlapping_versions": 15, "recursive_type": 2, "unknown_type": 1, "enum_with_and": 4,
              "flag_with_equals": 5, "misplaced_self_size": 9, "missing_enumerator": 3, "upcast_not_larger": 20,
              "wrong_opcode": 7, "wrong_name_in_index": 19, "not_in_index": 18, "none": 0}
# rules named in the statement of C16 (a run in which one of them is never predicted is vacuous)
REQUIRED_STATUSES = {1, 2, 3, 4, 5, 6, 16, 15, 17, 11, 22, 10, 12, 13, 14, 9, 7, 18, 19}


def build_generator():
    t0 = time.time()
    e = C.cargo_env()
    e["RUSTFLAGS"] = "--cfg wowm_verif --check-cfg cfg(wowm_verif)"
    e["CARGO_TARGET_DIR"] = GEN_TARGET
    p = subprocess.run(["cargo", "build", "--offline", "-p", "wow_message_parser"], cwd=C.REPO, env=e,
                       capture_output=True, text=True)
    if p.returncode != 0:
        raise C.ToolError("generator build failed:\n" + p.stderr[-4000:])
    C.log("[C16] generator built in %.1fs" % (time.time() - t0))
    return GEN_BIN


# ----------------------------------------------------------------------------------------------
# mutants -> model
# ----------------------------------------------------------------------------------------------

def make_mutants(tier, corpus=None):
    corpus = corpus or WM.Corpus(C.REPO)
    rng = random.Random(C.seed())
    fine = tier == "thorough"
    per = 3 if fine else 1
    sel, pop = WM.select(WM.candidates(corpus), per, rng, fine)
    if fine:
        sel = sel[:640]      # rank-major order: every class is kept, the cap only trims third samples
    out, unparsable = [], 0
    for m in sel:
        try:
            objs = F.parse_text(m["text"], m["file"])
        except F.WowmSyntaxError:
            unparsable += 1
            continue
        for o in objs:
            o["corpus"] = m["file"].split("/")[0]
        m = dict(m)
        m["id"] = len(out) + 1
        m["objs"] = objs
        out.append(m)
    return corpus, out, pop, unparsable


def write_model_input(wd, corpus, mutants):
    d = os.path.join(wd, "prog")
    lowered = SL.write_program(d, corpus.front, C.REPO)
    nbase = len(lowered)
    with open(os.path.join(d, "mutants.ndjson"), "w") as f:
        for m in mutants:
            lo = SL.lower_objects(m["objs"], first_id=nbase + 1)
            f.write(json.dumps({"id": m["id"], "file": m["file"], "objs": lo}, separators=(",", ":")) + "\n")
    return d, nbase


def run_model(d, fullcheck, tamper=None, name="C16-WowmStatic"):
    env = {"WS_OBJECTS": d + "/objects.ndjson", "WS_INDEX": d + "/index.json", "WS_USEDBY": d + "/usedby.json",
           "WS_OPCODES": d + "/opcodes.json", "WS_MUTANTS": d + "/mutants.ndjson", "WS_FULLCHECK": fullcheck,
           "WS_DEBUG": "0"}
    res = C.run_tlc("WowmStatic", workers=8, timeout=1500, env=env, name=name, coverage=False, allow_violation=True)
    if res.violated or res.errors:
        raise C.ToolError("WowmStatic: TLC reported %s %s (log %s) - the corpus breaks a modelled rule, the locality "
                          "lemma failed or the spec has an error" % (res.violated, res.errors[:2], res.log_path))
    recs = res.replay
    if tamper:
        recs = tamper(recs)
    return res, {r["mut"]: r for r in recs}


# ----------------------------------------------------------------------------------------------
# generator runs
# ----------------------------------------------------------------------------------------------

class Workspaces:
    """A small pool of scratch copies of /repo; a copy is re-synchronised after a run that wrote to it."""

    def __init__(self, n):
        self.n = n
        self.lock = threading.Lock()
        self.free = []
        self.all = []

    def acquire(self):
        with self.lock:
            if self.free:
                return self.free.pop()
            idx = len(self.all)
            self.all.append(None)
        ws = regen.make_scratch("c16-%d" % idx)
        with self.lock:
            self.all[idx] = ws
        return ws

    def release(self, ws, dirty):
        if dirty:
            p = subprocess.run(["rsync", "-a", "--delete", "--exclude", "/target", "--exclude", "/.git",
                                C.REPO + "/", ws + "/"], capture_output=True, text=True)
            if p.returncode != 0:
                raise C.ToolError("rsync failed: " + p.stderr[-500:])
        with self.lock:
            self.free.append(ws)

    def close(self):
        for ws in self.all:
            if ws:
                regen.remove_scratch(ws)


def run_generator(ws, trace, timeout=900):
    e = dict(os.environ)
    e["WOWM_VERIF_WORKSPACE"] = ws
    e["WOWM_VERIF_TRACE"] = trace
    for k in ("WOWM_VERIF_CRASH_AT", "WOWM_VERIF_CRASH_MODE"):
        e.pop(k, None)
    if os.path.exists(trace):
        os.remove(trace)
    t0 = time.time()
    try:
        p = subprocess.run([GEN_BIN], cwd=ws, env=e, capture_output=True, text=True, errors="replace", timeout=timeout)
        rc, err = p.returncode, p.stderr
    except subprocess.TimeoutExpired:
        rc, err = "timeout", ""
    return rc, err, time.time() - t0


def trace_counts(path):
    n = {"write": 0, "remove": 0}
    removed, written = [], []
    if os.path.exists(path):
        for line in open(path):
            line = line.strip()
            if not line:
                continue
            try:
                ev = json.loads(line)
            except ValueError:
                continue
            k = ev.get("ev")
            if k == "remove":
                n["remove"] += 1
                removed.append(ev.get("path"))
            elif k == "write" and ev.get("changed", True):
                n["write"] += 1
                written.append(ev.get("path"))
    return n, removed[:5], written[:5]


def execute_one(pool, wd, m):
    """m: None (unmodified tree) or a mutant. Returns observation dict."""
    ws = pool.acquire()
    dirty = True
    try:
        target = None
        if m is not None:
            target = os.path.join(ws, "wow_message_parser", "wowm", m["file"])
            with open(target, "w", encoding="utf-8") as f:
                f.write(m["text"])
        trace = os.path.join(wd, "trace-%s.ndjson" % (m["id"] if m else 0))
        rc, err, wall = run_generator(ws, trace)
        n, removed, written = trace_counts(trace)
        if os.path.exists(trace):
            os.remove(trace)
        if m is not None:
            shutil.copyfile(os.path.join(C.REPO, "wow_message_parser", "wowm", m["file"]), target)
        dirty = n["write"] > 0 or n["remove"] > 0 or rc == "timeout"
        first = ""
        for line in err.splitlines():
            if line.strip():
                first = line.strip()
                break
        sig = first
        for line in err.splitlines():
            if "panicked at" in line or "overflowed its stack" in line:
                sig = line.strip()
                break
        return {"rc": rc, "stderr_head": sig[:200], "wall": round(wall, 2), "writes": n["write"], "removes": n["remove"],
                "removed": removed, "written": written}
    finally:
        pool.release(ws, dirty)


def execute(wd, mutants, with_baseline=True):
    pool = Workspaces(PARALLEL)
    out = {}
    try:
        jobs = ([None] if with_baseline else []) + list(mutants)
        with concurrent.futures.ThreadPoolExecutor(max_workers=PARALLEL) as ex:
            futs = {ex.submit(execute_one, pool, wd, m): m for m in jobs}
            for fu in concurrent.futures.as_completed(futs):
                m = futs[fu]
                out[m["id"] if m else 0] = fu.result()
    finally:
        pool.close()
    return out


def status_name(rc):
    if isinstance(rc, int) and rc < 0:
        return "signal %d" % -rc
    return str(rc)


def judge(v, mutants, preds, obs):
    """Compare observation with prediction. Returns counters and sample list."""
    stats = {"compared": 0, "agree": 0, "excluded_ambiguous": 0, "by_status": {}, "by_intent_mismatch": [],
             "rejected_runs_that_wrote": {}, "matrix": {}}
    samples = []
    for m in mutants:
        p = preds.get(m["id"])
        o = obs.get(m["id"])
        if p is None or o is None:
            raise C.ToolError("mutant %s has no prediction / observation" % m["id"])
        rec = {"mutant": m["id"], "site": m["desc"], "class": "/".join(x for x in (m["intent"], m["oc"], m["bc"], m["var"]) if x),
               "predicted": p["status"], "violated": p["violated"], "observed": o["rc"], "stderr": o["stderr_head"],
               "writes": o["writes"], "removes": o["removes"]}
        if p["status"] != RULE_CODES[m["intent"]]:
            stats["by_intent_mismatch"].append({"site": m["desc"], "intent": m["intent"], "model": p["violated"]})
        if p["ambiguous"]:
            stats["excluded_ambiguous"] += 1
            continue
        stats["compared"] += 1
        row = stats["matrix"].setdefault(m["intent"], {})
        cell = "/".join(x for x in (m["oc"], m["bc"], m["var"]) if x)
        row[cell] = row.get(cell, 0) + 1
        stats["by_status"][str(p["status"])] = stats["by_status"].get(str(p["status"]), 0) + 1
        behaviour = {"file": m["file"], "desc": m["desc"], "intent": m["intent"], "oc": m["oc"], "bc": m["bc"],
                     "var": m["var"], "text": m["text"], "predicted": p, "observed": o}
        ok = True
        if o["rc"] != p["status"]:
            ok = False
            v.report({"finding": "status", "predicted": p["status"], "observed": status_name(o["rc"]), "rule": m["intent"],
                      "site_class": m["bc"], "variant": m["var"]}, replay=behaviour)
        if o["rc"] != 0 and o["writes"]:
            stats["rejected_runs_that_wrote"][str(o["rc"])] = stats["rejected_runs_that_wrote"].get(str(o["rc"]), 0) + 1
        if o["rc"] != 0 and o["removes"]:
            ok = False
            v.report({"finding": "rejected_run_removed_files", "status": status_name(o["rc"]), "rule": m["intent"]},
                     replay=behaviour)
        if ok:
            stats["agree"] += 1
            if len(samples) < 400:
                samples.append(rec)
    return stats, samples


# ----------------------------------------------------------------------------------------------

def run(tier):
    t0 = time.time()
    wd = C.workdir(PROP)
    build_generator()
    corpus, mutants, pop, unparsable = make_mutants(tier)
    d, nbase = write_model_input(wd, corpus, mutants)
    C.log("[C16] %d mutants from %d candidates in %d site classes (%d unparsable dropped)" %
          (len(mutants), sum(pop.values()), len(pop), unparsable))
    res, preds = run_model(d, "6" if tier == "quick" else "24")
    if 0 not in preds or preds[0]["status"] != 0:
        raise C.ToolError("model does not accept the corpus: %s" % preds.get(0))
    C.log("[C16] TLC: %d states in %.1fs; Diagnose(corpus) = 0 over %d objects" % (res.distinct, res.wall, preds[0]["scope"]))
    predicted = {preds[m["id"]]["status"] for m in mutants if not preds[m["id"]]["ambiguous"]}
    missing = sorted(REQUIRED_STATUSES - predicted)
    if missing:
        raise C.ToolError("vacuous run: no mutant is predicted to fail with status(es) %s" % missing)
    t1 = time.time()
    obs = execute(wd, mutants)
    C.log("[C16] %d generator runs in %.1fs" % (len(obs), time.time() - t1))
    v = C.Verdicts(PROP)
    base = obs[0]
    if base["rc"] != 0:
        v.report({"finding": "unmodified_tree_rejected", "observed": status_name(base["rc"]), "stderr": base["stderr_head"]},
                 replay={"file": None, "observed": base})
    stats, samples = judge(v, mutants, preds, obs)
    rc = v.finish()
    pick = {}
    for s in samples:
        pick.setdefault(s["predicted"], s)
    C.write_evidence(PROP, tier, "fault_enumeration", {
        "evaluations": stats["compared"] + 1,
        "distinct_nontrivial": len([s for s in stats["by_status"] if s != "0"]),
        "rule": "one textual edit per (rule, site class[, variant]) of the real corpus, sites drawn with VERIF_SEED; "
                "non-trivial = distinct exit statuses predicted by spec/WowmStatic.tla and compared with the generator",
        "samples": [pick[k] for k in sorted(pick)][:25],
        "states": res.distinct, "transitions": res.generated,
        "model_corpus_objects": preds[0]["scope"], "model_wall_s": round(res.wall, 1),
        "lattice_laws": "15 ASSUMEs over {1, 1.12, 1.12.1, 1.12.1.5875, 2, 2.4.3, 3, 3.3.5, *} hold (TLC evaluates them before exploring)",
        "candidates": sum(pop.values()), "site_classes": len(pop), "mutants": len(mutants),
        "unparsable_dropped": unparsable, "agree": stats["agree"],
        "excluded_two_rules": stats["excluded_ambiguous"],
        "rejected_runs_that_wrote_files_by_status": stats["rejected_runs_that_wrote"],
        "compared_by_predicted_status": stats["by_status"],
        "compared_by_rule_and_site": stats["matrix"],
        "not_covered": ["test statements (their own consistency rules)", "rule 23 (a less specific version next to a more specific one inside ONE tag list) - in neither the documents nor the statement of C16",
                        "indirect recursion (A contains B contains A)", "upcast to a SMALLER integer type (ill-formed by lang-spec, but no diagnostic is named for it)",
                        "an if-variable that is no declaration / no definer", "syntax errors (the generator panics with exit 101 by design of its pest front-end)"],
        "model_differs_from_label": stats["by_intent_mismatch"][:40],
        "unmodified_tree": {"rc": base["rc"], "wall": base["wall"], "writes": base["writes"], "removes": base["removes"]},
        "known_finding_hits": v.known_hits,
    }, time.time() - t0, ASSUMPTIONS, violations=len(v.violations))
    print("C16 %s: %d mutants compared (%d agree, %d excluded for breaking two rules), %d violation classes, "
          "unmodified tree rc=%s, %.0fs" % (tier, stats["compared"], stats["agree"], stats["excluded_ambiguous"],
                                            len(v.violations), base["rc"], time.time() - t0))
    return rc


def replay(path):
    body = json.load(open(path))
    b = body["behaviour"]
    wd = C.workdir(PROP + "-replay")
    build_generator()
    if b.get("file") is None:
        obs = execute(wd, [], with_baseline=True)
        print(json.dumps(obs[0]))
        return 0 if obs[0]["rc"] == 0 else 1
    corpus = WM.Corpus(C.REPO)
    m = {"id": 1, "file": b["file"], "text": b["text"], "desc": b["desc"], "intent": b["intent"], "oc": b["oc"],
         "bc": b["bc"], "var": b["var"]}
    m["objs"] = F.parse_text(m["text"], m["file"])
    d, _ = write_model_input(wd, corpus, [m])
    res, preds = run_model(d, "1", name="C16-replay")
    obs = execute(wd, [m], with_baseline=False)
    print("site      : %s" % m["desc"])
    print("model     : status %s, rules broken %s" % (preds[1]["status"], preds[1]["violated"]))
    print("generator : exit %s, %d writes, %d removes; %s" % (status_name(obs[1]["rc"]), obs[1]["writes"], obs[1]["removes"], obs[1]["stderr_head"]))
    bad = obs[1]["rc"] != preds[1]["status"] or (obs[1]["rc"] != 0 and obs[1]["removes"])
    return 1 if bad and not preds[1]["ambiguous"] else 0


def selftest(tier):
    """Binding demonstration: (a) corrupt one model record - the run must then disagree with the generator;
    (b) drop a rule's verdict on the model side (pretend a duplicated object is fine)."""
    wd = C.workdir(PROP + "-selftest")
    build_generator()
    corpus, mutants, pop, unparsable = make_mutants("quick")
    keep = []
    seen = set()
    for m in mutants:
        if m["intent"] in ("overlapping_versions", "unknown_type", "duplicate_field_names") and m["intent"] not in seen:
            seen.add(m["intent"])
            keep.append(m)
    for i, m in enumerate(keep):
        m["id"] = i + 1
    d, _ = write_model_input(wd, corpus, keep)

    def tamper(recs):
        out = []
        for r in recs:
            r = dict(r)
            if r["mut"] == 1:
                r["status"] = 0          # pretend the model accepts the mutant
                r["violated"] = []
            elif r["mut"] == 2:
                r["status"] = 17 if r["status"] != 17 else 1   # another rule's status
            out.append(r)
        return out
    res, preds = run_model(d, "0", tamper=tamper, name="C16-selftest")
    obs = execute(wd, keep, with_baseline=False)

    class Quiet(C.Verdicts):
        def _write_replay(self, obs_, replay_):
            return "(selftest)"
    v = Quiet(PROP)
    v.known = []
    judge(v, keep, preds, obs)
    caught = {o["observed"] for o, _ in v.violations if o.get("finding") == "status"}
    ok = len([1 for o, _ in v.violations if o.get("finding") == "status"]) == 2
    print("selftest C16: 2 corrupted model records, %d detected (%s); untouched record agreed: %s" %
          (len(caught), sorted(caught), preds[3]["status"] == obs[3]["rc"]))
    return 0 if ok and preds[3]["status"] == obs[3]["rc"] else 2
