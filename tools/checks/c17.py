"""C17 - the generated Wireshark dissector walks every message exactly to its end.

Observed artefact: the dissector fragments the generator prints (regenerated from /repo's current
working tree by tools/regen.py), parsed into an AST by tools/dissector_front.py.
Reference: the behaviour records of spec/WowmWire.tla (one canonical encoding per control path of
every Vanilla world message and every login message, with the ordered field events).
Decided by TLC: spec/Dissector.tla interprets the dissector program of each record's opcode over
the record's bytes and prints one verdict per behaviour (`Refines`) plus the static `Declared`
report.  This module only prepares the JSON inputs, shards the runs and collects the verdicts.
"""
import collections
import concurrent.futures
import copy
import json
import os
import re
import time

from tools import codec_common as CC
from tools import common as C
from tools import dissector_front as DF
from tools import regen
from tools import wire

PROP = "C17"

TIERS = {
    # wire_*: bounds of the WowmWire exploration that produces the reference behaviours
    # (quick = first profile only); nshards x workers TLC processes for either stage
    "quick": dict(wire_nprof=1, wire_maxlen=2, wire_deep=False, nshards=4, workers=2, timeout=900),
    "thorough": dict(wire_nprof=3, wire_maxlen=3, wire_deep=True, nshards=6, workers=2, timeout=2400),
}

REQUIRED_ACTIONS = ["Add", "AddRet", "Helper", "PushSubtree", "PopSubtree", "SetLen", "If", "PvSwitch", "For",
                    "While", "LeaveBlock", "Uncompress", "SavePtv", "NewPtv", "SetCEnd", "FreePtv", "RestorePtv",
                    "CNull", "Halt"]

ASSUMPTIONS = [
    "tools/dissector_front.py reads the fragment text correctly (purely syntactic; an unknown statement shape is a tool error, never skipped)",
    "Wireshark API meaning as documented in epan/ptvcursor.h, proto.h, tvbuff.h (ptvcursor_add advances by the given length and throws when the range leaves the tvbuff; ptvcursor_current_offset is relative to the cursor's own tvbuff; tvb_uncompress yields the inflated bytes or NULL)",
    "hand-written C helpers absent from the repository (add_cstring, add_string, add_sized_cstring, add_packed_guid, add_aura_mask, add_update_mask, add_monster_move_spline) consume the documented wire form of the type they are printed for (wowm_language/src/types/*.md)",
    "a case label of the opcode switch names the message(s) whose name, without the _Client/_Server suffix, equals the label; offset_packet_end = header length + body length; WOW(W)_SERVER_TO_CLIENT = the message travels server to client",
    "an empty compressed payload is read as tvb_uncompress returning NULL (the lenient reading)",
    "reference behaviours: spec/WowmWire.tla over the independent front-end's object table (canonical encodings only; bounds in `bounds`)",
    "enumerator constants are linked to wowm enumerators by name (typedef e_<snake> / <SHOUTY>_<SHOUTY> compared without case and underscores)",
]


# ----------------------------------------------------------------------------------------------
# input preparation (decoding / re-shaping only)
# ----------------------------------------------------------------------------------------------
def _norm(s):
    return re.sub(r"[^A-Za-z0-9]", "", s).upper()


def lower_ast(ast, lw_objects):
    """AST of dissector_front -> the JSON shapes Dissector.tla loads. Returns (ast_json, blocks, defs, defindex)."""
    definers = [o for o in lw_objects if o["kind"] in ("enum", "flag")]
    by_norm = collections.defaultdict(list)
    for d in definers:
        by_norm[_norm(d["name"])].append(d)
    consts = {}
    for name, decls in ast["consts"].items():
        d0 = decls[0]
        td = d0.get("typedef", "")
        dname, ename = "", ""
        cands = by_norm.get(_norm(td[2:]) if td.startswith("e_") else "", [])
        for exact in (True, False):
            for d in cands:
                for e in d["enums"]:
                    if _norm(d["name"] + e["n"]) == _norm(name) and (not exact or name.endswith("_" + e["n"].upper())):
                        dname, ename = d["name"], e["n"]
                        break
                if dname:
                    break
            if dname:
                break
        consts[name] = {"neg": d0["neg"], "mag": d0["mag"], "wide": d0["wide"], "typedef": td,
                        "dname": dname, "ename": ename, "ndecl": len(decls), "line": d0["line"]}
    hfs = {}
    imported = collections.Counter(ast["imports"])
    for h in set(ast["imports"]) | set(ast["register"]):
        regs = ast["register"].get(h, [])
        hfs[h] = {"imported": imported[h] > 0, "registered": len(regs) > 0,
                  "ft": regs[0]["ft"] if regs else "", "base": regs[0]["base"] if regs else "",
                  "strings": regs[0]["strings"] if regs else "", "nreg": len(regs), "nimp": imported[h]}
    _h, cref, _v = DF.walk_refs(ast)
    # a 4,000-field record costs TLC 12 s to build: the record holds the constants parser.txt names,
    # the full list goes to a sequence
    ast_json = {"progs": ast["progs"], "hfs": hfs, "vars": sorted(set(ast["variables"])),
                "consts": {k: val for k, val in consts.items() if k in cref},
                "allconsts": [dict(val, name=k) for k, val in sorted(consts.items())]}
    defs, defindex = [], {}
    for d in definers:
        defs.append({"name": d["name"], "kind": d["kind"], "pats": d["pats"], "all": d["all"], "lv": d["lv"],
                     "lall": d["lall"], "w": d["w"], "enums": [{"n": e["n"], "le": e["le"]} for e in d["enums"]]})
        defindex.setdefault(d["name"], []).append(len(defs))
    return ast_json, ast["blocks"], defs, defindex


def _covers_vanilla(o):
    """Coverage selection only (not an oracle): does a world message carry a version pattern that is a
    prefix of 1.12?  Messages of other expansions are not given to the wire walker at all; a wrongly
    dropped message would show up in the evidence as a dissector program that was never exercised."""
    t = o["tags"]
    pats = [p for val in t.get("versions", []) + t.get("paste_versions", []) for p in val.split()]
    return any(p in ("*", "1", "1.12") or p.startswith("1.12.") for p in pats)


def explore(tier, tag, only=""):
    """Runs spec/WowmWire.tla over the Vanilla world messages and the login messages of the corpus."""
    from tools import lower
    t = TIERS[tier]
    corpus = lower.F.load_corpus(C.REPO)
    keep = [o for o in corpus if o["kind"] not in ("cmsg", "smsg", "msg") or _covers_vanilla(o)]
    ldir = wire.lowered_dir("lowered-" + tag)
    lw = lower.Lowerer().lower(keep)
    lw.write(ldir)
    outdir = os.path.join(C.WORK, "wire-" + tag)
    nshards, workers = (1, 4) if only else (t["nshards"], t["workers"])
    stats, paths = wire.run_wire(ldir, outdir, nshards=nshards, workers=workers, nprof=t["wire_nprof"],
                                 maxlen=t["wire_maxlen"], only=only, deep=t["wire_deep"], timeout=t["timeout"],
                                 tag=tag)
    cov = {}
    for st in stats:
        for k, val in st["coverage"].items():
            cov[k] = max(cov.get(k, 0), val[1])
    params = {k: t[k] for k in ("wire_nprof", "wire_maxlen", "wire_deep")}
    return {"tier": tier, "params": params, "ldir": ldir, "lw": lw, "corpus": keep, "stats": stats, "paths": paths,
            "coverage": cov, "outdir": outdir,
            "dropped_world_messages_other_expansions": len(corpus) - len(keep)}


def case_label(name):
    return name.replace("_Server", "").replace("_Client", "")


def select_records(paths, profiles):
    """Vanilla world and login behaviours, in the shape Dissector.tla loads."""
    out, skipped = [], collections.Counter()
    samples_left = 6
    for r in wire.iter_records(paths):
        if r["exp"] not in ("vanilla", "login"):
            continue
        if r["kind"] != "codec":
            if r["kind"] == "skip":
                skipped["%s/%s: %s" % (r["name"], r["exp"], r["why"])] += 1
            continue
        if profiles is not None and r["prof"] >= profiles:
            continue
        sample = False
        if samples_left and len(r["ev"]) >= 4 and len(r["ev"]) <= 12 and (len(out) % 97 == 0):
            sample = True
            samples_left -= 1
        out.append({"rid": len(out) + 1, "name": r["name"], "case": case_label(r["name"]),
                    "sect": "login" if r["exp"] == "login" else "world", "lv": r.get("lv", 0), "dir": r["dir"],
                    "prof": r["prof"], "hdr": r["hdr"], "body": r["body"], "regions": r["regions"],
                    "msgcomp": r["msgcomp"], "ev": r["ev"], "sample": sample})
    return out, skipped


def write_inputs(wd, ast_json, blocks, defs, defindex):
    p = {"DIS_AST": os.path.join(wd, "ast.json"), "DIS_BLOCKS": os.path.join(wd, "blocks.ndjson"),
         "DIS_DEFS": os.path.join(wd, "defs.ndjson"), "DIS_DEFINDEX": os.path.join(wd, "defindex.json")}
    p["DIS_ALLCONSTS"] = os.path.join(wd, "allconsts.ndjson")
    with open(p["DIS_ALLCONSTS"], "w") as f:
        for c in ast_json["allconsts"]:
            f.write(json.dumps(c, separators=(",", ":")) + "\n")
    with open(p["DIS_AST"], "w") as f:
        json.dump({k: val for k, val in ast_json.items() if k != "allconsts"}, f, separators=(",", ":"))
    with open(p["DIS_BLOCKS"], "w") as f:
        for b in blocks:
            f.write(json.dumps(b, separators=(",", ":")) + "\n")
    with open(p["DIS_DEFS"], "w") as f:
        for d in defs:
            f.write(json.dumps(d, separators=(",", ":")) + "\n")
    with open(p["DIS_DEFINDEX"], "w") as f:
        json.dump(defindex, f, separators=(",", ":"))
    return p


def _run_shard(args):
    wd, shard, recs, env, workers, timeout, tag = args
    rp = os.path.join(wd, "recs-%d.ndjson" % shard)
    with open(rp, "w") as f:
        for r in recs:
            f.write(json.dumps(r, separators=(",", ":")) + "\n")
    e = dict(env)
    e["DIS_RECS"] = rp
    e["DIS_DECLARED"] = "1" if shard == 0 else "0"
    res = C.run_tlc("Dissector", workers=workers, timeout=timeout, env=e, name="%s-shard%d" % (tag, shard),
                    coverage=True, xmx="4g")
    return {"shard": shard, "generated": res.generated, "distinct": res.distinct, "depth": res.depth,
            "coverage": res.coverage, "wall": res.wall, "reports": res.replay, "n": len(recs)}


def run_dissector(wd, recs, env, nshards, workers, timeout, tag):
    shards = [[] for _ in range(nshards)]
    # longest bodies first, dealt round-robin: even shards
    for i, r in enumerate(sorted(recs, key=lambda x: -len(x["ev"]))):
        shards[i % nshards].append(r)
    jobs = [(wd, s, shards[s], env, workers, timeout, tag) for s in range(nshards) if shards[s] or s == 0]
    t0 = time.time()
    with concurrent.futures.ThreadPoolExecutor(max_workers=nshards) as ex:
        stats = list(ex.map(_run_shard, jobs))
    C.log("[dissector] %d shards, %d behaviours, %d states in %.1fs" %
          (len(jobs), len(recs), sum(s["distinct"] for s in stats), time.time() - t0))
    return stats


def fragments_dir():
    # C17_FRAGMENTS=<dir with the five .txt files>: judge that text instead of the regenerated one
    # (reproducing a stored witness against the committed text: git -C /repo archive HEAD
    # wow_message_parser/tests/wireshark | tar -x -C /tmp/x)
    override = os.environ.get("C17_FRAGMENTS")
    if override:
        return override, []
    m = regen.regen()
    if m["rc"] != 0:
        raise C.ToolError("generator failed on the current tree (rc %s): %s" % (m["rc"], m["stderr_tail"][-500:]))
    d = os.path.join(m["dir"], "wireshark")
    drift = sorted(k for k in m["diff"] if k.startswith("wow_message_parser/tests/wireshark/"))
    return d, drift


def analyse(tier, tag, mutate=None, only="", wire_ctx=None):
    """Runs the whole pipeline. Returns dict with stats, reports by rid, declared report, records."""
    t = TIERS[tier]
    d, drift = fragments_dir()
    ast = DF.parse_dir(d)
    ctx = wire_ctx or explore(tier, "c17-" + tier + ("-" + tag if tag else ""), only=only)
    ast_json, blocks, defs, defindex = lower_ast(ast, ctx["lw"].objects)
    if mutate:
        mutate(ast_json, blocks)
    recs, skipped = select_records(ctx["paths"], None)
    if not recs:
        raise C.ToolError("no Vanilla / login behaviours were generated")
    wd = C.workdir(PROP + ("-" + tag if tag else ""))
    env = write_inputs(wd, ast_json, blocks, defs, defindex)
    stats = run_dissector(wd, recs, env, 1 if only else t["nshards"], t["workers"], t["timeout"],
                          "C17" + ("-" + tag if tag else ""))
    reports, declared = {}, None
    for s in stats:
        for r in s["reports"]:
            if r["kind"] == "declared":
                declared = r
            elif r["kind"] == "dissect":
                reports[r["rid"]] = r
    if declared is None:
        raise C.ToolError("TLC printed no Declared report")
    missing = [r["rid"] for r in recs if r["rid"] not in reports]
    if missing:
        raise C.ToolError("TLC printed no verdict for %d behaviours (first rid %d)" % (len(missing), missing[0]))
    cov = {}
    for s in stats:
        for k, val in s["coverage"].items():
            cov[k] = cov.get(k, 0) + val[1]
    return {"tier": tier, "params": t, "wire": ctx, "ast": ast, "ast_json": ast_json, "blocks": blocks, "recs": recs,
            "skipped": skipped, "stats": stats, "reports": reports, "declared": declared, "coverage": cov,
            "drift": drift, "dir": d}


# ----------------------------------------------------------------------------------------------
def norm_verdict(v):
    return re.sub(r"\d+", "N", v)


def judge(a, v):
    """Feeds the verdicts TLC printed into the Verdicts collector. Returns summary counters."""
    recs = {r["rid"]: r for r in a["recs"]}
    counts = collections.Counter()
    uncovered = collections.defaultdict(int)
    for rid, rep in sorted(a["reports"].items()):
        verdict = rep["verdict"]
        if verdict == "ok":
            counts["ok"] += 1
            continue
        if verdict.startswith("uncovered:"):
            counts["uncovered"] += 1
            uncovered["%s (%s)" % (rep["name"], rep["sect"])] += 1
            continue
        counts["not_ok"] += 1
        obs = {"message": rep["name"], "sect": rep["sect"], "dir": rep["dir"], "verdict": norm_verdict(verdict)}
        rec = recs[rid]
        v.report(obs, replay=lambda rec=rec, rep=rep: {"record": rec, "report": rep,
                                                        "statement": statement_text(a, rep["line"])})
    dec = a["declared"]
    for kind in ("undeclared_hf", "undeclared_var", "undeclared_const", "wrong_const"):
        for name in dec[kind]:
            counts["declared_" + kind] += 1
            v.report({"declared": kind, "symbol": name},
                     replay={"declared": kind, "symbol": name, "const": a["ast_json"]["consts"].get(name)})
    a["uncovered"] = dict(uncovered)
    return counts


def statement_text(a, line):
    try:
        with open(os.path.join(a["dir"], "parser.txt")) as f:
            lines = f.read().splitlines()
        return lines[line - 1].strip() if 0 < line <= len(lines) else ""
    except OSError:
        return ""


def evidence(a, v, counts, tier, wall):
    stats = a["stats"]
    samples = []
    for rid, rep in a["reports"].items():
        if rep["cons"] and rep["verdict"] == "ok" and len(samples) < 3:
            rec = next(r for r in a["recs"] if r["rid"] == rid)
            samples.append({"message": rec["name"], "sect": rec["sect"], "lv": rec["lv"], "dir": rec["dir"],
                            "body": rec["body"], "model_events": rec["ev"], "dissector_consumption": rep["cons"],
                            "verdict": rep["verdict"]})
    if not samples:
        rid, rep = next(iter(a["reports"].items()))
        samples.append({"message": rep["name"], "verdict": rep["verdict"]})
    progs = {(p["sect"], p["name"]) for p in a["ast"]["progs"]}
    exercised = {(r["sect"], r["case"]) for r in a["recs"]}
    unc = CC.uncovered_objects(a["wire"])
    cov = {
        "states": sum(s["distinct"] for s in stats) + sum(s["distinct"] for s in a["wire"]["stats"]),
        "transitions": sum(s["generated"] for s in stats) + sum(s["generated"] for s in a["wire"]["stats"]),
        "dissector_states": sum(s["distinct"] for s in stats),
        "wire_states": sum(s["distinct"] for s in a["wire"]["stats"]),
        "traces_validated_against_impl": len(a["reports"]),
        "samples": samples,
        "evaluations": len(a["reports"]),
        "distinct_nontrivial": len(exercised & progs),
        "rule": "one evaluation = one WowmWire behaviour (canonical encoding of one control path) run through the generated dissector program of its opcode; distinct_nontrivial = dissector programs (opcode cases) exercised by at least one behaviour",
        "exhaustive": False,
        "bounds": {"dissector": a["params"], "wire": a["wire"]["params"]},
        "verdict_counts": dict(counts),
        "programs_in_parser_txt": len(progs),
        "programs_never_exercised": sorted("%s/%s" % x for x in progs - exercised),
        "uncovered_no_case": a.get("uncovered", {}),
        "uncovered_objects": ["%s: %s" % x for x in unc],
        "model_skips": dict(a["skipped"]),
        "not_covered_by_design": "TBC and Wrath world messages (the dissector is Vanilla only); messages with an empty body have no case and are checked to be empty",
        "declared": {k: a["declared"][k] for k in ("ok", "hf_refs", "var_refs", "const_refs", "undeclared_hf",
                                                     "undeclared_var", "undeclared_const", "wrong_const")},
        "info_unreferenced_constants_with_other_value": a["declared"]["wrong_unreferenced"],
        "info_unbalanced_subtrees": sum(1 for r in a["reports"].values() if r["unbalanced"]),
        "info_fields_registered_narrower_than_added": sorted({h for r in a["reports"].values() for h in r["misfit"]}),
        "fragment_drift_vs_repo": a["drift"],
        "known_finding_hits": dict(v.known_hits),
        "actions_fired": a["coverage"],
        "wire_actions_fired": a["wire"]["coverage"],
    }
    C.write_evidence(PROP, tier, "model_checking", cov, wall, ASSUMPTIONS, violations=len(v.violations))


def run(tier):
    t0 = time.time()
    a = analyse(tier, "")
    missing = [x for x in REQUIRED_ACTIONS if a["coverage"].get(x, 0) == 0]
    if missing:
        raise C.ToolError("vacuous Dissector run: actions never fired: %s" % missing)
    v = C.Verdicts(PROP)
    counts = judge(a, v)
    rc = v.finish()
    evidence(a, v, counts, tier, time.time() - t0)
    C.log("[C17] %s: %d behaviours, verdicts %s, declared ok=%s" %
          (tier, len(a["reports"]), dict(counts), a["declared"]["ok"]))
    return rc


def replay(path):
    body = json.load(open(path))
    beh = body["behaviour"]
    if "declared" in beh:
        a = analyse("quick", "replay")
        dec = a["declared"]
        bad = beh["symbol"] in dec.get(beh["declared"], [])
        print(json.dumps({"declared": beh["declared"], "symbol": beh["symbol"], "still_reported": bad}))
        return 1 if bad else 0
    rec = beh["record"]
    d, _ = fragments_dir()
    ast = DF.parse_dir(d)
    ldir, lw, _corpus = wire.prepare("lowered-c17-replay")
    ast_json, blocks, defs, defindex = lower_ast(ast, lw.objects)
    wd = C.workdir(PROP + "-replay")
    env = write_inputs(wd, ast_json, blocks, defs, defindex)
    rec = dict(rec)
    rec["rid"] = 1
    rec["sample"] = True
    stats = run_dissector(wd, [rec], env, 1, 1, 300, "C17-replay")
    rep = [r for r in stats[0]["reports"] if r["kind"] == "dissect"][0]
    print(json.dumps({"message": rep["name"], "verdict": rep["verdict"], "line": rep["line"],
                      "statement": statement_text({"dir": d}, rep["line"]), "consumption": rep["cons"]}))
    return 0 if rep["verdict"] == "ok" else 1


# ----------------------------------------------------------------------------------------------
def _find(blocks, pred):
    for b in blocks:
        for ins in b["ins"]:
            if pred(ins):
                return ins
    raise C.ToolError("selftest: no statement to mutate")


def selftest(tier):
    """Binding demonstration: one-token changes of the AST (a width, a loop bound, an ENC flag, a
    registration), each must turn an accepted behaviour into a rejected one."""
    def m_width(ast_json, blocks):
        ins = _find(blocks, lambda i: i["op"] == "add" and i["hf"] == "hf_woww_total_cost" and i["n"] == 4)
        ins["n"] = 2

    def m_bound(ast_json, blocks):
        ins = _find(blocks, lambda i: i["op"] == "for" and i["bvar"] == "node_count")
        ins["bvar"] = "amount_of_nodes"

    def m_enc(ast_json, blocks):
        ins = _find(blocks, lambda i: i["op"] == "add" and i["hf"] == "hf_woww_total_cost" and i["enc"] == "le")
        ins["enc"] = "be"

    def m_drop(ast_json, blocks):
        ast_json["hfs"]["hf_woww_total_cost"]["registered"] = False   # entry missing from register.txt

    def m_const(ast_json, blocks):
        c = ast_json["consts"]["MONSTER_MOVE_TYPE_FACING_TARGET"]
        c["mag"] = [(c["mag"][0] + 1) % 256] + c["mag"][1:]            # enums.txt prints another value

    msg = "CMSG_ACTIVATETAXIEXPRESS"
    msg2 = "SMSG_MONSTER_MOVE"
    ok = True
    for m, muts in ((msg, (("width", m_width), ("loop bound", m_bound), ("ENC flag", m_enc),
                           ("unregistered field", m_drop))),
                    (msg2, (("enumerator value", m_const),))):
        wctx = explore("quick", "c17-selftest", only=m)
        base = analyse("quick", "selftest", only=m, wire_ctx=wctx)
        was = [r for r in base["reports"].values() if r["verdict"] != "ok"]
        print("selftest C17: unmutated %s: %d behaviours, %d rejected" % (m, len(base["reports"]), len(was)))
        ok = ok and not was and len(base["reports"]) > 0
        for label, mut in muts:
            a = analyse("quick", "selftest", mutate=mut, only=m, wire_ctx=wctx)
            bad = [r for r in a["reports"].values() if r["verdict"] != "ok"]
            dec_bad = not a["declared"]["ok"]
            detected = bool(bad) or dec_bad
            print("selftest C17: mutated %s in %s: %s (%s)" %
                  (label, m, "rejected" if detected else "NOT rejected",
                   bad[0]["verdict"] if bad else ("Declared report not ok" if dec_bad else "-")))
            ok = ok and detected
    return 0 if ok else 2
