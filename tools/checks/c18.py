"""C18 - documentation shows each object's definition and examples faithfully.

Observed artefacts: the documentation the generator prints - the `/// ```text` wowm blocks of the
generated Rust files and the pages wowm_language/src/docs/*.md - taken from /repo, or, for every
file the regenerate stage (tools/regen.py: generator built from /repo's CURRENT working tree, run on
a scratch copy) says differs, from the regenerated copy.  tools/doc_front.py extracts them lexically.

Decided by TLC:
  spec/DocRefine.tla         SameDefinition(doc object, source object) with the first differing path,
                             BodyTable / EnumTable of every page section, both directions
                             (every block documents a source object; every documentable source
                             object has its images); a state machine stepping through the pairs;
  spec/TraceDocExamples.tla  every documented example as a trace of annotated byte groups validated
                             against the definition's decoder WowmWire!Dec (one action per group rule).
This module prepares the JSON inputs, shards the runs and turns TLC's verdict records into
violations / evidence.  No expected value is computed here.
"""
import collections
import concurrent.futures
import json
import os
import re
import time

from tools import common as C
from tools import doc_front as D
from tools import lower
from tools import regen
from tools import wire

PROP = "C18"

TIERS = {
    # dedup: identical images (same anchor, same text, same table) are judged once and attributed to
    # all their locations; thorough judges every location separately
    "quick": dict(nshards=6, dedup=True, timeout=600),
    "thorough": dict(nshards=8, dedup=False, timeout=1800),
}

REQUIRED_ACTIONS = ["Begin", "FieldGroup", "PrimArrayGroup", "ArrayTrailer", "OptionalMarker", "BeginString",
                    "BeginSized", "EndCompound", "BeginMask", "MaskCount", "MaskBlock", "MaskItem", "EndMask",
                    "EndOfGroups"]

ASSUMPTIONS = [
    "tools/doc_front.py extracts blocks, table lines and example lines correctly (purely lexical; lines of a body table or example it cannot read are listed as unparsed and make the affected table / example fail its comparison rather than pass)",
    "tools/wowm_front.py + tools/lower.py read both the wowm sources and the re-printed wowm text (same parser, same lowering on both sides; a defect common to both sides is not seen)",
    "a doc block is paired with the source object that starts at the (wowm file, line) anchor printed next to it",
    "spec/WowmWire.tla Dec / BuiltinIV / SizeOfType transcribe lang-spec.md and types/*.md",
    "what the documentation legitimately omits (comments, tag blocks, numeral spelling, whitespace) is listed in the header of spec/DocRefine.tla; the group rules of examples in the header of spec/TraceDocExamples.tla",
    "body-table sizes are judged in some context the object is valid for (existential); the type column is link-label text and only reported (type_text_differs); the offset column is not judged",
    "the generator run is the one of tools/regen.py (generator built from /repo's working tree, hooks H1/H2 on)",
]


def base_env(ldir):
    return {"WOWM_OBJECTS": ldir + "/objects.ndjson", "WOWM_BLOCKS": ldir + "/blocks.ndjson",
            "WOWM_INDEX": ldir + "/index.json", "WOWM_NSHARDS": 1, "WOWM_SHARD": 0, "WOWM_NPROF": 1,
            "WOWM_MAXLEN": 2, "WOWM_ONLY": "", "WOWM_DEEP": "0", "WOWM_FAULTS": "0", "WOWM_FAULT_EVERY": 1,
            "WOWM_CONST": wire.EMPTY_LIST}


def doc_tree():
    """The documentation to judge. C18_REPO=<dir> judges that tree as it is (no regeneration)."""
    override = os.environ.get("C18_REPO")
    if override:
        return D.DocTree(override, None), {"rc": 0, "cached": True, "diff": {}, "repo": override}
    m = regen.regen()
    if m["rc"] != 0:
        raise C.ToolError("generator failed on the current tree (rc %s): %s" % (m["rc"], m["stderr_tail"][-500:]))
    return D.DocTree(C.REPO, m), m


def analyse(tier, tag="", only=None, mutate=None, forward=True):
    """Runs the whole pipeline. Returns dict with pair verdicts, example verdicts, stats."""
    t = TIERS[tier]
    tree, meta = doc_tree()
    rs, md = D.collect(tree, only=only, mutate=mutate)
    ldir = wire.lowered_dir("lowered-c18" + ("-" + tag if tag else ""))
    lw, corpus = lower.lower_repo(ldir, meta.get("repo", C.REPO))
    dl = D.DocLowering(lw, dedup=t["dedup"])
    for r in rs + md:
        dl.add(r)
    wd = C.workdir(PROP + ("-" + tag if tag else ""))
    dl.write(wd)
    exs = D.example_records(md, lw, corpus)
    with open(os.path.join(wd, "examples.ndjson"), "w") as f:
        for r in exs:
            f.write(json.dumps(r, separators=(",", ":")) + "\n")
    nshards = 1 if only is not None else t["nshards"]
    env0 = base_env(ldir)
    name = "C18" + ("-" + tag if tag else "")

    def run_pairs(k):
        env = dict(env0)
        env.update({"DOC_OBJECTS": wd + "/doc_objects.ndjson", "DOC_BLOCKS": wd + "/doc_blocks.ndjson",
                    "DOC_PAIRS": wd + "/pairs.ndjson", "DOC_IMAGES": wd + "/images.json", "DOC_NSHARDS": nshards,
                    "DOC_SHARD": k, "DOC_FORWARD": "1" if forward else "0"})
        return C.run_tlc("DocRefine", workers=1, timeout=t["timeout"], env=env, name="%s-pairs-%d" % (name, k),
                         coverage=False, xmx="3g")

    def run_examples(_):
        env = dict(env0)
        env["DOC_EXAMPLES"] = wd + "/examples.ndjson"
        # -coverage runs out of memory on this module; it keeps its own per-action counters (`fired`)
        return C.run_tlc("TraceDocExamples", workers=1, timeout=t["timeout"], env=env, name=name + "-examples",
                         coverage=False, xmx="3g", deque=True)

    t0 = time.time()
    with concurrent.futures.ThreadPoolExecutor(nshards + 1) as ex:
        fx = ex.submit(run_examples, 0) if exs else None
        pres = list(ex.map(run_pairs, range(nshards))) if dl.images else []
        xres = fx.result() if fx else None
    C.log("[C18] %d images (%d rust blocks, %d page sections), %d examples: TLC %.1fs" %
          (len(dl.images), len(rs), len(md), len(exs), time.time() - t0))
    pairs, undocumented, coverage = {}, [], None
    for r in pres:
        for rec in r.replay:
            if rec["kind"] == "pair":
                pairs[rec["pid"]] = rec
            elif rec["kind"] == "undocumented":
                undocumented.append(rec)
            elif rec["kind"] == "coverage":
                coverage = rec
    missing = [im["pid"] for im in dl.images if im["pid"] not in pairs]
    if missing:
        raise C.ToolError("DocRefine printed no verdict for %d pairs (first pid %d)" % (len(missing), missing[0]))
    if forward and dl.images and coverage is None:
        raise C.ToolError("DocRefine printed no coverage record")
    examples, fired = {}, {}
    if xres:
        for rec in xres.replay:
            if rec["kind"] == "example":
                examples[rec["xid"]] = rec
            elif rec["kind"] == "summary":
                fired = rec["fired"]
        if len(examples) != len(exs):
            raise C.ToolError("TraceDocExamples judged %d of %d examples" % (len(examples), len(exs)))
    return {"tier": tier, "params": t, "meta": meta, "corpus": corpus, "tree": tree, "rs": rs, "md": md, "dl": dl, "exs": exs, "wd": wd,
            "pairs": pairs, "undocumented": undocumented, "coverage": coverage, "examples": examples, "fired": fired,
            "pres": pres, "xres": xres, "nshards": nshards}


# ----------------------------------------------------------------------------------------------
def judge(a, v):
    """Turns verdict records into violations. Returns counters."""
    counts = collections.Counter()
    images = {im["pid"]: im for im in a["dl"].images}
    for pid, r in sorted(a["pairs"].items()):
        im = images[pid]
        locs = im["locs"]
        for field, kind in (("def", "definition"), ("table", "body_table"), ("etab", "enumerator_table")):
            if r[field]:
                counts[kind + "_differs"] += 1
                obs = {"kind": kind, "medium": r["medium"], "name": r["name"], "where": "%s:%d" % (r["path"], r["line"]),
                       "source": "%s:%d" % (r["wfile"], r["wline"]), "diff": r[field]}
                v.report(obs, replay={"type": "pair", "path": r["path"], "line": r["line"], "verdict": r,
                                      "locations": locs[:20]})
        if not (r["def"] or r["table"] or r["etab"]):
            counts["image_ok"] += 1
        counts["locations"] += len(locs)
        if r["medium"] == "md":
            counts["table_" + r["tstate"]] += 1
    for u in a["undocumented"]:
        counts["undocumented"] += 1
        v.report({"kind": "undocumented", "medium": u["medium"], "name": u["name"],
                  "source": "%s:%d" % (u["file"], u["line"])}, replay={"type": "undocumented", "record": u})
    for xid, r in sorted(a["examples"].items()):
        st = r["status"]
        counts["example_" + st] += 1
        if st in ("accepted", "compressed"):
            continue
        obs = {"kind": "example", "name": r["name"], "where": "%s:%d" % (r["path"], r["line"]), "example": r["n"],
               "status": st, "why": r["why"]}
        if st == "rejected" and r["group"]:
            obs["group"] = r["gtext"]
        v.report(obs, replay={"type": "example", "path": r["path"], "n": r["n"], "line": r["line"], "verdict": r})
    return counts


def soft_reports(a):
    soft = collections.Counter()
    for r in a["pairs"].values():
        for t in r.get("tysoft", []):
            soft[t.split(": ", 1)[1]] += r["nlocs"]
    return dict(soft)


def drift_of(a):
    return {k: v for k, v in sorted(a["tree"].drift.items())}


def evidence(a, v, counts, tier, wall):
    pres, xres = a["pres"], a["xres"]
    states = sum(r.distinct for r in pres) + (xres.distinct if xres else 0)
    trans = sum(r.generated for r in pres) + (xres.generated if xres else 0)
    samples = []
    for r in a["pairs"].values():
        if r["medium"] == "md" and r["tstate"] == "table" and not (r["def"] or r["table"]):
            im = a["dl"].images[r["pid"] - 1]
            samples.append({"what": "definition + body table of a page section", "page": "%s:%d" % (r["path"], r["line"]),
                            "source": "%s:%d" % (r["wfile"], r["wline"]), "name": r["name"],
                            "table_items": [{k: it[k] for k in ("k", "name", "size", "ty", "var", "cmp", "vals")} for it in im["items"][:8]],
                            "verdict": {k: r[k] for k in ("def", "table", "etab")}})
            break
    for xid, r in a["examples"].items():
        if r["status"] == "accepted" and r["ngroups"] >= 4:
            x = a["exs"][xid - 1]
            samples.append({"what": "documented example as a trace", "page": "%s:%d" % (r["path"], r["line"]), "name": r["name"],
                            "context": {"exp": r["exp"], "lv": r["lv"]},
                            "groups": [{"bytes": g["bytes"], "annotation": g["text"]} for g in x["groups"][:10]],
                            "decoder_events": r["nev"], "verdict": r["status"]})
            break
    if not samples:
        samples.append({"note": "no accepted page section / example in this run"})
    unparsed = [{"page": s["path"], "line": u[0], "text": u[1][:120]} for s in a["md"] for u in s["unparsed"]]
    lexdef = [{"page": s["path"], "line": d["line"], "what": d["what"]} for s in a["md"] for e in s["examples"] for d in e["defects"]]
    uncovered = ["%s example %d: compressed (not inflatable in the model; header and concatenation not judged)" %
                 (r["path"], r["n"]) for r in a["examples"].values() if r["status"] == "compressed"]
    absent = sorted({"%s (%s)" % (r["name"], r["path"]) for r in a["pairs"].values() if r["medium"] == "md" and r["tstate"] == "absent"
                     and a["dl"].images[r["pid"] - 1]["did"] and r["sid"] and
                     a["dl"].lw.objects[a["dl"].images[r["pid"] - 1]["did"] - 1]["kind"] not in ("enum", "flag")})
    n_ex = sum(1 for r in a["examples"].values() if r["status"] != "compressed")
    cov = {
        "states": states,
        "transitions": trans,
        "traces_validated_against_impl": n_ex,
        "samples": samples,
        "evaluations": len(a["pairs"]) + len(a["examples"]),
        "distinct_nontrivial": len({r["sid"] for r in a["pairs"].values() if r["sid"]}),
        "rule": "one evaluation = one distinct documentation image (wowm block of a Rust doc comment or page section, with its table) judged against its source object, or one documented example validated as a trace; distinct_nontrivial = source objects with at least one judged image",
        "exhaustive": True,
        "bounds": a["params"],
        "rust_doc_blocks": len(a["rs"]),
        "page_sections": len(a["md"]),
        "pages": len({s["path"] for s in a["md"]}),
        "distinct_images_judged": len(a["pairs"]),
        "image_locations": counts.get("locations", 0),
        "examples": len(a["examples"]),
        "verdict_counts": dict(counts),
        "forward_direction": a["coverage"],
        "example_actions_fired": a["fired"],
        "uncovered_examples": uncovered,
        "uncovered_pages_without_body_table": {"count": len(absent), "first": absent[:25]},
        "unparsed_page_lines": unparsed[:50],
        "example_lexing_defects": lexdef[:50],
        "type_text_differs": soft_reports(a),
        "doc_drift_vs_repo": drift_of(a),
        "regen": {"cached": a["meta"].get("cached"), "rc": a["meta"].get("rc")},
        "known_finding_hits": dict(v.known_hits),
        "corpus_tests": sum(1 for o in a["corpus"] if o["kind"] == "test"),
    }
    if a.get("sweep"):
        cov["sensitivity_sweep"] = a["sweep"]
    C.write_evidence(PROP, tier, "model_checking", cov, wall, ASSUMPTIONS, violations=len(v.violations))


# ----------------------------------------------------------------------------------------------
# Sensitivity sweep (thorough): one seeded single-token change in EVERY documentation file
# ----------------------------------------------------------------------------------------------
_ENUM_LINE = re.compile(r"^(\s*(?:/// )?\s*[A-Za-z_][A-Za-z0-9_]* = )(0x[0-9A-Fa-f]+|\d+)(;\s*)$")
_DECL_LINE = re.compile(r"^(\s*(?:/// )?\s*(?:\([a-z0-9]+\))?[A-Za-z][A-Za-z0-9_]*(?:\[[^\]]*\])? )([a-z_][A-Za-z0-9_]*)((?: = [^;]+)?;\s*)$")
_IF_LINE = re.compile(r"^(\s*(?:/// )?\s*(?:else )?if \([a-z_][A-Za-z0-9_]* )(==|&)( .*)$")
_ROW = re.compile(r"^\| (0x[0-9A-F]+|-) \| (\d+|\?|-) / [^|]* \| [^|]* \| ([A-Za-z_0-9]+) \|")
_GROUP = re.compile(r"^((?:\d+, )+)// ([^/]*)$")


def _block_spans(lines, rel):
    """(start, end) line index ranges of wowm blocks, body tables and example blocks."""
    blocks, examples = [], []
    opening = "/// ```text" if rel.endswith(".rs") else "```rust,ignore"
    closing = "/// ```" if rel.endswith(".rs") else "```"
    i = 0
    while i < len(lines):
        st = lines[i].strip()
        if st == opening or st == "```c":
            j = i + 1
            while j < len(lines) and lines[j].strip() != (closing if st == opening else "```"):
                j += 1
            (blocks if st == opening else examples).append((i + 1, j))
            i = j
        i += 1
    return blocks, examples


def mutate_file(rel, text, rng):
    """Applies ONE single-token change that alters what the documentation says. Returns (text, what) or (text, None)."""
    lines = text.split("\n")
    blocks, examples = _block_spans(lines, rel)
    cands = []
    for (a, b) in blocks:
        for k in range(a, b):
            if _ENUM_LINE.match(lines[k]):
                cands.append(("enumerator value", k))
            elif _IF_LINE.match(lines[k]):
                cands.append(("condition operator", k))
            elif _DECL_LINE.match(lines[k]):
                cands.append(("member name", k))
                if k + 1 < b and _DECL_LINE.match(lines[k + 1]) and lines[k + 1] != lines[k]:
                    cands.append(("member order", k))
    if rel.endswith(".md"):
        for k in range(len(lines) - 1):
            m1, m2 = _ROW.match(lines[k]), _ROW.match(lines[k + 1])
            if m1 and m1.group(2).isdigit():
                cands.append(("table size cell", k))
            if m1 and m2 and m1.group(3) != m2.group(3):
                cands.append(("table row order", k))
        for (a, b) in examples:
            for k in range(a, b - 1):
                g1, g2 = _GROUP.match(lines[k]), _GROUP.match(lines[k + 1])
                if g1 and g2 and not g1.group(2).startswith(("size", "opcode")):
                    cands.append(("example group boundary", k))
                if g1 and not g1.group(2).startswith(("size", "opcode")):
                    cands.append(("example byte", k))
    if not cands:
        return text, None
    kinds = sorted({c[0] for c in cands})
    kind = kinds[rng.randrange(len(kinds))]
    ks = [k for w, k in cands if w == kind]
    k = ks[rng.randrange(len(ks))]
    ln = lines[k]
    if kind == "enumerator value":
        m = _ENUM_LINE.match(ln)
        lines[k] = m.group(1) + str(int(m.group(2), 0) + 1) + m.group(3)
    elif kind == "condition operator":
        m = _IF_LINE.match(ln)
        lines[k] = m.group(1) + ("!=" if m.group(2) == "==" else "==") + m.group(3)
    elif kind == "member name":
        m = _DECL_LINE.match(ln)
        lines[k] = m.group(1) + m.group(2) + "_x" + m.group(3)
    elif kind in ("member order", "table row order"):
        lines[k], lines[k + 1] = lines[k + 1], lines[k]
    elif kind == "table size cell":
        m = _ROW.match(ln)
        lines[k] = ln.replace("| %s / " % m.group(2), "| %d / " % (int(m.group(2)) + 1), 1)
    elif kind == "example group boundary":
        g1, g2 = _GROUP.match(ln), _GROUP.match(lines[k + 1])
        bs = g1.group(1).split(", ")[:-1]
        lines[k] = "".join(x + ", " for x in bs[:-1]) + "// " + g1.group(2)
        lines[k + 1] = bs[-1] + ", " + lines[k + 1]
    elif kind == "example byte":
        g1 = _GROUP.match(ln)
        bs = g1.group(1).split(", ")[:-1]
        bs[0] = str((int(bs[0]) + 1) % 256)
        lines[k] = "".join(x + ", " for x in bs) + "// " + g1.group(2)
    return "\n".join(lines), "%s (line %d)" % (kind, k + 1)


def mutation_sweep():
    """Every documentation file gets one seeded single-token change; each changed file must then hold
    at least one rejected image / table / example.  Measures the sensitivity of the check itself."""
    import random
    rng = random.Random(C.seed())
    applied = {}

    def mutate(rel, text):
        new, what = mutate_file(rel, text, rng)
        if what:
            applied[rel] = what
        return new

    a = analyse("quick", "sweep", mutate=mutate, forward=False)
    bad = set()
    for r in a["pairs"].values():
        if r["def"] or r["table"] or r["etab"]:
            for l in a["dl"].images[r["pid"] - 1]["locs"]:
                bad.add(l["path"])
    for r in a["examples"].values():
        if r["status"] not in ("accepted", "compressed"):
            bad.add(r["path"])
    missed = sorted((rel, what) for rel, what in applied.items() if rel not in bad)
    bykind = collections.Counter(w.split(" (")[0] for w in applied.values())
    missed_kind = collections.Counter(w.split(" (")[0] for _, w in missed)
    C.log("[C18] sensitivity sweep: %d files changed, %d rejected, %d not rejected" %
          (len(applied), len(applied) - len(missed), len(missed)))
    return {"files_changed": len(applied), "rejected": len(applied) - len(missed), "by_kind": dict(bykind),
            "not_rejected_by_kind": dict(missed_kind), "not_rejected": ["%s: %s" % x for x in missed[:40]],
            "seed": C.seed()}


def run(tier):
    t0 = time.time()
    a = analyse(tier)
    missing = [x for x in REQUIRED_ACTIONS if a["fired"].get(x, 0) == 0]
    stalled = [r for r in a["examples"].values() if r["status"] not in ("accepted", "compressed")]
    if missing and not stalled:
        # a rule that never fires although every trace ran to its end means the pages changed shape
        raise C.ToolError("vacuous TraceDocExamples run: group rules never fired: %s" % missing)
    if missing:
        C.log("[C18] group rules that did not fire (some traces stalled before reaching them): %s" % missing)
    if not a["rs"] or not a["md"]:
        raise C.ToolError("no documentation found (rust blocks %d, page sections %d)" % (len(a["rs"]), len(a["md"])))
    v = C.Verdicts(PROP)
    counts = judge(a, v)
    rc = v.finish()
    a["sweep"] = mutation_sweep() if tier == "thorough" else None
    evidence(a, v, counts, tier, time.time() - t0)
    C.log("[C18] %s: %s" % (tier, dict(counts)))
    if a["tree"].drift:
        C.log("[C18] %d documentation files differ from the regenerated ones (judged: regenerated)" % len(a["tree"].drift))
    return rc


def replay(path):
    body = json.load(open(path))
    beh = body["behaviour"]
    if beh["type"] == "undocumented":
        a = analyse("quick", "replay")
        still = [u for u in a["undocumented"] if u["sid"] == beh["record"]["sid"] and u["medium"] == beh["record"]["medium"]]
        print(json.dumps({"undocumented": beh["record"]["name"], "still_reported": bool(still)}))
        return 1 if still else 0
    a = analyse("quick", "replay", only={beh["path"]}, forward=False)
    bad = 0
    if beh["type"] == "pair":
        for r in a["pairs"].values():
            locs = a["dl"].images[r["pid"] - 1]["locs"]
            if any(l["line"] == beh["line"] for l in locs):
                print(json.dumps({k: r[k] for k in ("path", "line", "name", "def", "table", "etab")}))
                bad += 1 if (r["def"] or r["table"] or r["etab"]) else 0
    else:
        for r in a["examples"].values():
            if r["n"] == beh["n"] and r["line"] == beh["line"]:
                print(json.dumps({k: r[k] for k in ("path", "line", "n", "name", "status", "why", "gtext", "want", "goff", "glen")}))
                bad += 0 if r["status"] in ("accepted", "compressed") else 1
    print("replayed %s: %d rejected" % (beh["path"], bad))
    return 1 if bad else 0


# ----------------------------------------------------------------------------------------------
def selftest(tier):
    """Binding demonstration. Every mutation is applied to the documentation TEXT (as the generator
    would have printed it wrongly) and must turn an accepted image / example into a rejected one."""
    RS = "wow_login_messages/src/logon/all/protocol_version.rs"
    RS2 = "wow_world_messages/src/world/vanilla/smsg_messagechat.rs"
    MD_ENUM = "wowm_language/src/docs/loginresult.md"
    MD_TAB = "wowm_language/src/docs/cmd_auth_logon_challenge_server.md"
    MD_EX = "wowm_language/src/docs/cmsg_char_create.md"
    MD_EX2 = "wowm_language/src/docs/cmd_realm_list_server.md"
    RS3 = "wow_world_messages/src/world/tbc/smsg_messagechat.rs"
    MD_SIZE = "wowm_language/src/docs/cmsg_ping.md"
    MD_ETAB = "wowm_language/src/docs/accountdatatype.md"
    MD_BYTE = "wowm_language/src/docs/smsg_pong.md"
    MD_ENAME = "wowm_language/src/docs/cmd_auth_reconnect_proof_server.md"
    MD_COND = "wowm_language/src/docs/smsg_auth_response.md"
    files = {RS, RS2, RS3, MD_ENUM, MD_TAB, MD_EX, MD_EX2, MD_SIZE, MD_ETAB, MD_BYTE, MD_ENAME, MD_COND}

    def sub1(text, pat, repl, what):
        new, n = re.subn(pat, repl, text, count=1, flags=re.M)
        if n != 1:
            raise C.ToolError("selftest: mutation %r does not apply" % what)
        return new

    muts = {
        # alter one enumerator value in one doc block (Rust doc comment)
        "enumerator value in a Rust doc block": (RS, lambda t: sub1(t, r"^///     THREE = 3;", "///     THREE = 4;", "enum value")),
        # an operator of a condition
        "condition operator in a Rust doc block": (RS2, lambda t: sub1(t, r"else if \(chat_type == CHANNEL\)", "else if (chat_type != CHANNEL)", "operator")),
        # enumerator value in the wowm block of a page, and in the table of the page
        "enumerator value in a page block": (MD_ENUM, lambda t: sub1(t, r"^    FAIL_BANNED = 0x03;", "    FAIL_BANNED = 0x13;", "page enum value")),
        # swap two rows of a body table
        "two body table rows swapped": (MD_TAB, lambda t: sub1(
            t, r"^(\| 0x23 \| 1 / - \| u8 \| generator_length \|[^\n]*)\n(\| 0x24 \| \? / - \| u8\[generator_length\] \| generator \|[^\n]*)$",
            r"\2\n\1", "row swap")),
        # shift one example group boundary: move the last byte of one group to the next group
        "example group boundary shifted": (MD_EX, lambda t: sub1(
            t, r"^(\d+), // race: Race ([^\n]*)\n(\d+), // class:", r"// race: Race \2\n\1, \3, // class:", "boundary")),
        # annotate a group with another field name
        "example group annotated with another field": (MD_EX2, lambda t: sub1(
            t, r"// number_of_realms: u8", "// amount_of_realms: u8", "leaf name")),
        # further one-token changes of the kinds the property lists
        "upcast type dropped in a Rust doc block": (RS3, lambda t: sub1(t, r"\(u32\)Language language;", "Language language;", "upcast")),
        "size cell of a body table row": (MD_SIZE, lambda t: sub1(t, r"^\| 0x06 \| 4 / Little \| u32 \| sequence_id \|", "| 0x06 | 8 / Little | u32 | sequence_id |", "size cell")),
        "value in a page's enumerator table": (MD_ETAB, lambda t: sub1(t, r"^\| `PER_CHARACTER_CONFIG_CACHE` \| 1 \(0x01\)", "| `PER_CHARACTER_CONFIG_CACHE` | 3 (0x03)", "enumerator table")),
        "one example byte": (MD_BYTE, lambda t: sub1(t, r"^239, 190, 173, 222, // sequence_id", "239, 190, 173, 223, // sequence_id", "byte")),
        "enumerator named in an example annotation": (MD_ENAME, lambda t: sub1(t, r"^0, // result: LoginResult SUCCESS \(0x00\)", "0, // result: LoginResult SUCCESS_SURVEY (0x00)", "enumerator name")),
        "else-if arm order in a page block": (MD_COND, lambda t: sub1(t, r"else if \(result == AUTH_WAIT_QUEUE\)", "else if (result == AUTH_OK)", "condition value")),
    }
    base = analyse("quick", "selftest", only=files, forward=False)

    def rejected(a):
        bad = set()
        for r in a["pairs"].values():
            if r["def"] or r["table"] or r["etab"]:
                bad.add(r["path"])
        for r in a["examples"].values():
            if r["status"] not in ("accepted", "compressed"):
                bad.add(r["path"])
        return bad

    b0 = rejected(base)
    ok = not b0 and len(base["pairs"]) >= len(files) and len(base["examples"]) >= 2
    print("selftest C18: unmutated %d files: %d images, %d examples, rejected %s" %
          (len(files), len(base["pairs"]), len(base["examples"]), sorted(b0) or "none"))

    def mutate(rel, text):
        for what, (f, fn) in muts.items():
            if f == rel:
                text = fn(text)
        return text

    a = analyse("quick", "selftest", only=files, mutate=mutate, forward=False)
    bad = rejected(a)
    reasons = collections.defaultdict(list)
    for r in a["pairs"].values():
        for k in ("def", "table", "etab"):
            if r[k]:
                reasons[r["path"]].append("%s: %s" % (k, r[k]))
    for r in a["examples"].values():
        if r["status"] not in ("accepted", "compressed"):
            reasons[r["path"]].append("example %d: %s %s [%s]" % (r["n"], r["status"], r["why"], r["gtext"]))
    for what, (f, _) in muts.items():
        det = f in bad
        print("selftest C18: mutated %s (%s): %s%s" % (what, f, "rejected" if det else "NOT rejected",
                                                     " - " + "; ".join(reasons[f])[:200] if det else ""))
        ok = ok and det
    # forward direction: drop every image of one page; the source object must be reported undocumented
    gone = "wowm_language/src/docs/cmsg_char_enum.md"
    a2 = analyse("quick", "selftest-fwd", mutate=lambda rel, text: "" if rel == gone else text)
    und = [u for u in a2["undocumented"] if u["name"] == "CMSG_CHAR_ENUM" and u["medium"] == "md"]
    print("selftest C18: page %s removed: %s" % (gone, "reported undocumented" if und else "NOT reported"))
    ok = ok and bool(und)
    return 0 if ok else 2
