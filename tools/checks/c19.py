"""C19 - every supported feature combination builds and exposes the same codecs.

1. tools/features_front.py reads the three Cargo.toml files and the cfg-guarded module trees
   (text level, approximate) -> tables for TLC.
2. spec/Features.tla: configuration machine (Enable(f) closing under the Cargo implications),
   invariant GuardClosed over EVERY reachable configuration (full powersets), and the
   configuration lists as REPLAY records: `thorough` (core powerset, auxiliary features off / on)
   and `quick` (pairwise covering array + singles + all + default + documented command lines).
3. spec -> impl: `cargo check --offline --no-default-features --features F -p <crate>` per emitted
   configuration in a scratch copy of /repo's CURRENT working tree; rustc's verdict is compared with
   the model's prediction.  A failing build of a supported configuration is the violation.
4. differential: the C01 quick behaviours are replayed against two differently featured builds
   (harness `vh`: everything on; `vh2`: one expansion + sync only) and the verdicts compared.

Level claimed: exploration (whether a crate builds is rustc's verdict).
"""
import collections
import concurrent.futures
import glob
import hashlib
import json
import os
import re
import shutil
import subprocess
import threading
import time

from tools import common as C
from tools import features_front as FF
from tools import c19_frames as XF

PROP = "C19"
CRATES = FF.CRATES
# "core" features of the property statement (sync / tokio / async-std, vanilla / tbc / wrath,
# encryption); every other declared feature is auxiliary.  Crates not listed: every feature is core.
CORE = {"wow_world_messages": ["sync", "tokio", "async-std", "vanilla", "tbc", "wrath", "encryption"]}
SLOTS = 3
SELFTEST_SLOT = 9      # own cargo target dir, so a selftest never waits for a running check
JOBS = 4
HARNESS2 = os.path.join(C.VERIF, "harness2")
EXPANSIONS = ["vanilla", "tbc", "wrath"]

ASSUMPTIONS = [
    "whether a configuration builds is decided by rustc (`cargo check`, library target, dev profile, offline registry); the model contributes the closure invariant and the systematic configuration lists",
    "tools/features_front.py is a TEXT-LEVEL extraction (no Rust parser): cfg attribute extents by a `;`/`{}`/`,` heuristic, references = `use` trees and `crate::`/`super::`/`self::`/extern-crate paths resolved through mod / use / glob use; names used unqualified after a `use`, method calls, macro expansions and trait resolution are not followed; unresolved paths are counted and ignored",
    "Cargo feature semantics as in the Cargo reference: implicit features of optional dependencies, `dep/feat` also enables an optional dependency",
    "supported configurations: every subset of the declared features, because the repository's own release gate (pre-release.sh: `cargo hack clippy --feature-powerset`) builds exactly that set",
    "only the library target is checked (cfg(test) = false); dependency crates are taken from the offline registry at the locked versions",
    "differential replay covers only the records of the expansion(s) the reduced build contains plus the login messages",
]


def short(fs):
    return sorted(f.split("/", 1)[1] for f in fs)


# ----------------------------------------------------------------------------------------------
# model
# ----------------------------------------------------------------------------------------------

def front(wd, repo=None):
    t0 = time.time()
    table = FF.extract(repo or C.REPO)
    with open(os.path.join(wd, "table.json"), "w") as f:
        json.dump(table, f)
    C.log("[C19] front-end: %d items, %d references (%d guards) in %.1fs" %
          (len(table["items"]), len(table["refs"]), len(table["guards"]), time.time() - t0))
    return table


def model(wd, table, tamper="", tamper_table=None):
    if tamper_table:
        table = tamper_table(table)
    paths, lst = FF.lower(table, os.path.join(wd, "tlc"), core=CORE)
    env = dict(paths)
    env["FEAT_TAMPER"] = tamper
    res = C.run_tlc("Features", workers=4, timeout=1200, env=env, name="C19-Features", allow_violation=True,
                    extra_args=["-continue"])
    other = [e for e in res.errors if "Invariant GuardClosed is violated" not in e
             and "The behavior up to this point is" not in e]
    if other:
        raise C.ToolError("TLC failed on Features: %s (log %s)" % ("; ".join(other[:3]), res.log_path))
    if not res.replay:
        raise C.ToolError("Features.tla emitted no configuration (log %s)" % res.log_path)
    missing = C.vacuity(res, ["Next"])
    if missing:
        raise C.ToolError("vacuous model run: %s never fired" % missing)
    return res, res.replay, lst


# ----------------------------------------------------------------------------------------------
# cargo
# ----------------------------------------------------------------------------------------------

def scratch_copy():
    d = "/tmp/wowm-c19-wt-%d" % os.getpid()
    shutil.rmtree(d, ignore_errors=True)
    os.makedirs(d)
    p = subprocess.run(["rsync", "-a", "--exclude", "target", "--exclude", ".git", C.REPO.rstrip("/") + "/", d + "/"],
                       capture_output=True, text=True)
    if p.returncode != 0:
        shutil.rmtree(d, ignore_errors=True)
        raise C.ToolError("rsync of %s failed: %s" % (C.REPO, p.stderr[-500:]))
    return d


def target_dir(slot):
    return os.path.join(C.CACHE, "features-target-%d" % slot)


def clean_package(slot, crate):
    t = os.path.join(target_dir(slot), "debug")
    for pat in ("deps/lib%s-*" % crate, "deps/%s-*" % crate, ".fingerprint/%s-*" % crate):
        for p in glob.glob(os.path.join(t, pat)):
            if os.path.isdir(p):
                shutil.rmtree(p, ignore_errors=True)
            else:
                try:
                    os.remove(p)
                except OSError:
                    pass


_ERR = re.compile(r"^error(\[E\d+\])?: (.*)$")


def cargo_check(scratch, crate, features, slot, timeout=1500):
    cmd = ["cargo", "check", "--offline", "-j", str(JOBS), "--no-default-features", "-p", crate]
    if features:
        cmd += ["--features", " ".join(features)]
    e = C.cargo_env()
    e["CARGO_TARGET_DIR"] = target_dir(slot)
    e["CARGO_INCREMENTAL"] = "0"
    t0 = time.time()
    try:
        p = subprocess.run(cmd, cwd=scratch, env=e, capture_output=True, text=True, timeout=timeout)
    except subprocess.TimeoutExpired:
        raise C.ToolError("cargo check timed out: %s" % " ".join(cmd))
    secs = time.time() - t0
    errs = []
    for line in p.stderr.splitlines():
        m = _ERR.match(line)
        if m and not m.group(2).startswith("could not compile") and not m.group(2).startswith("aborting"):
            errs.append(((m.group(1) or "") + " " + m.group(2)).strip())
    if p.returncode != 0 and not errs:
        # not a compiler verdict (lock problems, registry, ...) - the machinery failed
        raise C.ToolError("cargo check failed without a compiler error (rc=%s): %s\n%s" %
                          (p.returncode, " ".join(cmd), p.stderr[-1500:]))
    if p.returncode != 0 and any("failed to select a version" in x or "no matching package" in x or
                                 "failed to download" in x for x in errs):
        raise C.ToolError("dependency resolution failed offline: %s: %s" % (" ".join(cmd), errs[:2]))
    clean_package(slot, crate)
    return {"ok": p.returncode == 0, "secs": round(secs, 1), "errors": errs[:5], "n_errors": len(errs),
            "cmd": " ".join(cmd[:8]) + (" --features '%s'" % " ".join(features) if features else "")}


def run_configs(scratch, recs):
    """recs: configuration records (from TLC). Returns list of (rec, result). Big ones first."""
    def weight(r):
        s = set(short(r["features"]))
        n = len(s & set(EXPANSIONS)) * 10 + len(s & {"sync", "tokio", "async-std", "print-testcase", "serde"})
        return (-(n if r["crate"] != "wow_login_messages" else 0), r["crate"], short(r["features"]))

    recs = sorted(recs, key=weight)
    slots = list(range(SLOTS))
    lock = threading.Lock()
    done = [0]

    def one(r):
        with lock:
            slot = slots.pop()
        try:
            res = cargo_check(scratch, r["crate"], short(r["features"]), slot)
        finally:
            with lock:
                slots.append(slot)
                done[0] += 1
                if done[0] % 10 == 0:
                    C.log("[C19] cargo check %d/%d" % (done[0], len(recs)))
        return r, res

    with concurrent.futures.ThreadPoolExecutor(max_workers=SLOTS) as ex:
        return list(ex.map(one, recs))


def supported(table):
    """All subsets of declared features are supported iff the release gate builds the powerset."""
    try:
        txt = open(os.path.join(C.REPO, "pre-release.sh")).read()
    except OSError:
        txt = ""
    return "--feature-powerset" in txt


# ----------------------------------------------------------------------------------------------
# differential replay: full-featured vh vs. reduced vh2
# ----------------------------------------------------------------------------------------------

def write_harness2(expansion):
    """A second, tiny cargo workspace whose codec module is DERIVED from vh's codec.rs at check
    time (arms of the other expansions removed), linked against a reduced feature set."""
    src = os.path.join(HARNESS2, "vh2", "src")
    os.makedirs(os.path.join(src, "generated"), exist_ok=True)
    os.makedirs(os.path.join(HARNESS2, ".cargo"), exist_ok=True)
    vh = os.path.join(C.HARNESS, "vh", "src")
    codec = open(os.path.join(vh, "codec.rs")).read()
    others = [e for e in EXPANSIONS if e != expansion]
    out = []
    for line in codec.splitlines():
        if any(re.match(r'\s*\("%s",' % o, line) for o in others):
            continue
        line = line.replace("use wow_world_messages::{tbc, vanilla, wrath};", "use wow_world_messages::%s;" % expansion)
        out.append(line)
    new = "// @generated by tools/checks/c19.py from harness/vh/src/codec.rs (expansion: %s). Do not edit.\n" % expansion \
          + "\n".join(out) + "\n"
    _write_if_changed(os.path.join(src, "codec.rs"), new)
    _write_if_changed(os.path.join(src, "util.rs"), open(os.path.join(vh, "util.rs")).read())
    _write_if_changed(os.path.join(src, "frames.rs"), XF.derive_frames(open(os.path.join(vh, "frames.rs")).read(), expansion))
    disp = os.path.join(vh, "generated", "login_dispatch.rs")
    if not os.path.exists(disp) or not os.path.exists(os.path.join(vh, "generated", "expect_dispatch.rs")):
        subprocess.run(["python3", "-m", "tools.gen_dispatch"], cwd=C.VERIF, check=True)
    _write_if_changed(os.path.join(src, "generated", "login_dispatch.rs"), open(disp).read())
    xd = open(os.path.join(vh, "generated", "expect_dispatch.rs")).read()
    xd = "\n".join(l for l in xd.splitlines() if not any(re.match(r'\s*\("%s",' % o, l) for o in others))
    xd = xd.replace("use wow_world_messages::{tbc, vanilla, wrath};", "use wow_world_messages::%s;" % expansion)
    _write_if_changed(os.path.join(src, "generated", "expect_dispatch.rs"), xd + "\n")
    _write_if_changed(os.path.join(src, "main.rs"), """//! @generated by tools/checks/c19.py - reduced-feature twin of `vh codec` (C19 differential).
mod codec;
mod frames;
mod util;

fn main() {
    let args: Vec<String> = std::env::args().collect();
    let rc = match args.get(1).map(|s| s.as_str()) {
        Some("codec") => codec::run(&args[2..]),
        Some("frames") => frames::run(&args[2..]),
        _ => {
            eprintln!("usage: vh2 codec | frames");
            2
        }
    };
    std::process::exit(rc);
}
""")
    _write_if_changed(os.path.join(HARNESS2, "vh2", "Cargo.toml"), """# @generated by tools/checks/c19.py
[package]
name = "vh2"
version = "0.0.0"
edition = "2021"
publish = false

[dependencies]
wow_world_messages = { path = "%(repo)s/wow_world_messages", default-features = false, features = ["sync", "tokio", "async-std", "encryption", "%(exp)s"] }
wow_login_messages = { path = "%(repo)s/wow_login_messages", default-features = false, features = ["sync"] }
wow_srp = { version = "0.7.0", default-features = false, features = ["tbc-header", "wrath-header", "srp-default-math"] }
tokio = { version = "1", default-features = false, features = ["io-util"] }
futures-io = "0.3"
serde_json = "1"
flate2 = { version = "1", default-features = false, features = ["zlib"] }
libc = "0.2"
""" % {"repo": C.REPO, "exp": expansion})
    _write_if_changed(os.path.join(HARNESS2, "Cargo.toml"), """# @generated by tools/checks/c19.py
[workspace]
members = ["vh2"]
resolver = "2"

[profile.dev]
opt-level = 1
debug = false
overflow-checks = true
debug-assertions = true
incremental = false
""")
    _write_if_changed(os.path.join(HARNESS2, ".cargo", "config.toml"), """[net]
offline = true

[build]
target-dir = "../.cache/target2"
rustflags = ["--cfg", "wowm_verif", "--check-cfg", "cfg(wowm_verif)"]
""")
    lock = os.path.join(HARNESS2, "Cargo.lock")
    if not os.path.exists(lock):
        shutil.copy(os.path.join(C.HARNESS, "Cargo.lock"), lock)


def _write_if_changed(path, text):
    try:
        if open(path).read() == text:
            return
    except OSError:
        pass
    with open(path, "w") as f:
        f.write(text)


def build_harness2():
    t0 = time.time()
    p = subprocess.run(["cargo", "build", "--offline", "-j", str(JOBS), "-p", "vh2"], cwd=HARNESS2, env=C.cargo_env(),
                       capture_output=True, text=True, timeout=3000)
    if p.returncode != 0:
        raise C.ToolError("harness2 build failed:\n%s" % p.stderr[-4000:])
    C.log("[build] vh2 built in %.1fs" % (time.time() - t0))
    return os.path.join(C.CACHE, "target2", "debug", "vh2")


def differential(tier, expansions, drop=None, drop_frames=None):
    """Returns (disagreements, stats). A disagreement: a record judged differently by the builds."""
    from tools import codec_common as CC
    from tools import replay as R
    from tools import wire
    ctx = CC.explore("quick", "c19")
    vh = C.build_harness("vh")
    disagreements, stats = [], {"records": 0, "per_expansion": {}, "nonok_full": 0, "nonok_reduced": 0, "frames": {}}
    sample = None
    for exp in expansions:
        write_harness2(exp)
        vh2 = build_harness2()
        lines, keyed = [], {}
        for r in wire.iter_records(ctx["paths"]):
            if r["kind"] != "codec" or r["exp"] not in (exp, "login"):
                continue
            k = "%s|%s|%s|%s|%s" % (r["id"], r["exp"], r.get("lv", 0), r["dir"], r.get("prof"))
            keyed[k] = r
            lines.append(json.dumps(r, separators=(",", ":")))
            if sample is None and len(r["body"]) > 6:
                sample = {x: r[x] for x in ("name", "exp", "dir", "hdr", "body")}
        va, ta = R.run_records(vh, ["codec"], lines, jobs=6)
        vb, tb = R.run_records(vh2, ["codec"], lines, jobs=6)
        if ta["records"] != len(lines) or tb["records"] != len(lines):
            raise C.ToolError("differential replay judged %s / %s of %d records" % (ta["records"], tb["records"], len(lines)))

        def table(vs):
            out = {}
            for o in vs:
                k = "%s|%s|%s|%s|%s" % (o.get("id"), o.get("exp"), o.get("lv", 0), o.get("dir"), o.get("prof"))
                out.setdefault(k, []).append((o.get("verdict"), CC.signature(o)))
            return {k: sorted(v) for k, v in out.items()}

        A, B = table(va), table(vb)
        if drop:
            B = drop(B)
        for k in sorted(set(A) | set(B)):
            if A.get(k) != B.get(k):
                disagreements.append({"record": k, "expansion_build": exp, "full": A.get(k, [("ok", "")]),
                                      "reduced": B.get(k, [("ok", "")]), "behaviour": keyed.get(k)})
        # second half: the frame-stream histories of spec/Framing.tla on both builds
        fdis, fstats = XF.compare(tier, exp, vh, vh2, drop=drop_frames)
        for d in fdis:
            d["kind"] = "frames"
        disagreements.extend(fdis)
        stats["frames"][exp] = fstats
        stats["records"] += len(lines) + fstats["histories"]
        stats["per_expansion"][exp] = {"records": len(lines), "non_ok_full": len(A), "non_ok_reduced": len(B)}
        stats["nonok_full"] += len(A)
        stats["nonok_reduced"] += len(B)
    stats["sample"] = sample
    stats["wire_states"] = sum(s["distinct"] for s in ctx["stats"])
    return disagreements, stats


# ----------------------------------------------------------------------------------------------
# run
# ----------------------------------------------------------------------------------------------

def doc_feature_findings(table, scratch):
    """Features the crate documentation names that Cargo.toml does not declare; demonstrated by
    running the documented feature list through cargo."""
    out = []
    for c, info in table["crates"].items():
        doc = info.get("documented", {})
        named = list(doc.get("features", []))
        for cmd in doc.get("commands", []):
            named += cmd
        for f in sorted(set(named)):
            if f not in info["features"] and f != "default":
                e = C.cargo_env()
                e["CARGO_TARGET_DIR"] = target_dir(0)
                p = subprocess.run(["cargo", "check", "--offline", "--no-default-features", "--features", f, "-p", c],
                                   cwd=scratch, env=e, capture_output=True, text=True, timeout=600)
                if p.returncode != 0:
                    msg = [l for l in p.stderr.splitlines() if l.startswith("error")]
                    out.append({"class": "documented_feature_undeclared", "crate": c, "feature": f,
                                "error": (msg[0] if msg else p.stderr[-200:]).strip()})
    return out


def run(tier, only_differential=False):
    t0 = time.time()
    wd = C.workdir(PROP)
    v = C.Verdicts(PROP)
    table = front(wd)
    res, recs, lst = model(wd, table)
    tierkey = "quick" if tier == "quick" else "thorough"
    chosen = [r for r in recs if r[tierkey]]
    if tier == "thorough" and os.environ.get("VERIF_C19_ALL") == "1":
        chosen = list(recs)      # every reachable configuration of every crate (840; not measured, est. ~100 min)
    all_supported = supported(table)
    C.log("[C19] model: %d configurations (%s), %d open; %d selected for cargo (%s)" %
          (len(recs), dict(collections.Counter(r["crate"] for r in recs)),
           sum(1 for r in recs if not r["closed"]), len(chosen), tier))
    scratch = scratch_copy()
    try:
        results = run_configs(scratch, chosen)
        docfind = doc_feature_findings(table, scratch)
    finally:
        shutil.rmtree(scratch, ignore_errors=True)
    agree, overapprox, missed, unsupported_fail = 0, [], [], []
    samples = []
    for r, cr in results:
        feats = short(r["features"])
        if cr["ok"] and r["closed"]:
            agree += 1
        elif cr["ok"] and not r["closed"]:
            overapprox.append({"crate": r["crate"], "features": feats, "witness": r["open"][:2]})
        else:
            sig = re.sub(r"\d+", "N", cr["errors"][0])[:160] if cr["errors"] else "?"
            obs = {"class": "build_fails", "crate": r["crate"], "features": " ".join(feats), "error": sig}
            body = {"config": r, "cargo": cr}
            if all_supported:
                v.report(obs, replay=body)
            else:
                unsupported_fail.append(body)
            if r["closed"]:
                missed.append({"crate": r["crate"], "features": feats, "errors": cr["errors"][:2]})
            else:
                agree += 1
        if len(samples) < 3 and len(feats) >= 3:
            samples.append({"crate": r["crate"], "features": feats, "model_closed": r["closed"],
                            "cargo_ok": cr["ok"], "secs": cr["secs"], "cmd": cr["cmd"]})
    # open configurations that cargo did not get to see in this tier are still model findings
    open_unbuilt = [r for r in recs if not r["closed"] and not r[tierkey]]
    for d in docfind:
        v.report(d, replay=d)
    for o in overapprox[:10]:
        C.log("[C19] WARNING model predicts OPEN but rustc builds it (extraction over-approximates): %s" % json.dumps(o)[:400])
    for o in missed[:10]:
        C.log("[C19] NOTE build fails where the model predicted CLOSED (reference not visible to the text-level extraction): %s" % json.dumps(o)[:400])
    # differential
    exps = [EXPANSIONS[C.seed() % 3]] if tier == "quick" else EXPANSIONS
    dis, dstats = differential(tier, exps)
    for d in dis:
        rec = d["behaviour"] or {}
        if d.get("kind") == "frames":
            m = (rec.get("msgs") or [{}])[0]
            v.report({"class": "differential_frames", "exp": rec.get("exp"), "entry": rec.get("entry"), "crypt": rec.get("crypt"),
                      "name": m.get("name"), "body": m.get("body"), "full": str(d["full"])[:160],
                      "reduced": str(d["reduced"])[:160]}, replay=d)
            continue
        v.report({"class": "differential", "name": rec.get("name"), "exp": rec.get("exp"), "dir": rec.get("dir"),
                  "full": str(d["full"])[:120], "reduced": str(d["reduced"])[:120]}, replay=d)
    rc = v.finish()
    cargo_secs = sum(cr["secs"] for _, cr in results)
    per_crate = collections.Counter(r["crate"] for r, _ in results)
    C.write_evidence(PROP, tier, "exploration", {
        "evaluations": len(results) + dstats["records"],
        "distinct_nontrivial": len(results),
        "rule": "one evaluation = one `cargo check --no-default-features --features F -p crate` of an emitted configuration (non-trivial = distinct closed feature sets actually compiled) plus one codec behaviour replayed against both the full and the reduced build",
        "samples": samples or [{"note": "no configuration with >= 3 features in this tier"}],
        "configurations_built": dict(per_crate),
        "configurations_in_model": dict(collections.Counter(r["crate"] for r in recs)),
        "model": {"states": res.distinct, "transitions": res.generated, "depth": res.depth,
                  "guardclosed_violations": sum(1 for r in recs if not r["closed"]),
                  "reference_classes": lst["classes"], "references": len(table["refs"]), "items": len(table["items"]),
                  "guards": len(table["guards"]), "extraction": table["stats"],
                  "unresolved_examples": {c: s[:5] for c, s in table["unresolved_samples"].items()}},
        "agreement": {"agree": agree, "model_open_but_builds": overapprox[:20], "model_closed_but_fails": missed[:20],
                      "open_in_model_not_built_in_this_tier": [{"crate": r["crate"], "features": short(r["features"])} for r in open_unbuilt[:20]]},
        "supported_rule": "all subsets (pre-release.sh runs cargo hack --feature-powerset)" if all_supported else "documented sets only",
        "unsupported_failures": unsupported_fail[:20],
        "documented_features": {c: table["crates"][c].get("documented") for c in table["crates"]},
        "documentation_findings": docfind,
        "differential": {k: dstats[k] for k in ("records", "per_expansion", "nonok_full", "nonok_reduced", "wire_states", "frames")},
        "differential_sample": dstats.get("sample"),
        "differential_disagreements": len(dis),
        "cargo_cpu_wall_s": round(cargo_secs, 1),
        "exhaustive": len(results) == len(recs),
        "inert_features": {r["crate"]: short(r["inert"]) for r in recs if not r["features"] and r.get("inert")},
        "known_finding_hits": dict(v.known_hits),
    }, time.time() - t0, ASSUMPTIONS, violations=len(v.violations))
    C.log("[C19] %s: %d configurations built (%s), %d agree, %d model-open-but-builds, %d fail; differential %d records, %d disagreements; %.0fs" %
          (tier, len(results), dict(per_crate), agree, len(overapprox), len(results) - agree - len(overapprox),
           dstats["records"], len(dis), time.time() - t0))
    return rc


def replay(path):
    body = json.load(open(path))
    beh = body["behaviour"]
    obs = body["observation"]
    if obs.get("class") == "build_fails":
        scratch = scratch_copy()
        try:
            r = beh["config"]
            cr = cargo_check(scratch, r["crate"], short(r["features"]), 0)
        finally:
            shutil.rmtree(scratch, ignore_errors=True)
        print(json.dumps(cr, indent=1))
        print("replayed %s: build %s" % (cr["cmd"], "ok" if cr["ok"] else "FAILS"))
        return 0 if cr["ok"] else 1
    if obs.get("class") == "documented_feature_undeclared":
        wd = C.workdir(PROP)
        table = {"crates": {obs["crate"]: dict(FF.read_manifest(C.REPO, obs["crate"]), documented=FF.documented(C.REPO, obs["crate"]))}}
        scratch = scratch_copy()
        try:
            f = [d for d in doc_feature_findings(table, scratch) if d["feature"] == obs["feature"]]
        finally:
            shutil.rmtree(scratch, ignore_errors=True)
        print(json.dumps(f))
        print("replayed documented feature %s/%s: %s" % (obs["crate"], obs["feature"], "still undeclared" if f else "fine"))
        return 1 if f else 0
    if obs.get("class") == "differential":
        from tools import replay as R
        rec = beh["behaviour"]
        vh = C.build_harness("vh")
        write_harness2(beh["expansion_build"])
        vh2 = build_harness2()
        line = [json.dumps(rec)]
        va, _ = R.run_records(vh, ["codec"], line, jobs=1)
        vb, _ = R.run_records(vh2, ["codec"], line, jobs=1)
        print("full   :", json.dumps(va)[:600])
        print("reduced:", json.dumps(vb)[:600])
        same = [(o.get("verdict")) for o in va] == [(o.get("verdict")) for o in vb]
        return 0 if same else 1
    if obs.get("class") == "differential_frames":
        from tools import framing_common as F
        rec = beh["behaviour"]
        vh = C.build_harness("vh")
        write_harness2(beh["expansion_build"])
        vh2 = build_harness2()
        wd = C.workdir(PROP + "-replay")
        rp = os.path.join(wd, "one.ndjson")
        with open(rp, "w") as f:
            f.write(json.dumps(rec) + "\n")
        keys = F.make_keys(1, "C19")
        va, _ = F.run_replay(vh, "frames", rp, keys, rotate=1)
        vb, _ = F.run_replay(vh2, "frames", rp, keys, rotate=1)
        print("full   :", json.dumps(va)[:600])
        print("reduced:", json.dumps(vb)[:600])
        same = XF.table(va) == XF.table(vb)
        print("replayed history %s on both builds: %s" % (rec.get("id"), "same verdicts" if same else "DIFFERENT verdicts"))
        return 0 if same else 1
    raise C.ToolError("unknown replay class %r" % obs.get("class"))


def selftest(tier):
    """Binding demonstrations:
    (a) model side: drop the cfg guard of one present reference target's guard chain in the table
        (pretend `tokio_impl` were referenced without its guard) -> TLC must report GuardClosed violated;
    (b) cargo side: tamper the model record of the full configuration to claim `open` -> the comparison
        with rustc must flag a model/rustc disagreement;
    (c) code side: in a scratch copy remove one `#[cfg(feature = "tokio")]` line in
        wow_login_messages/src/util/mod.rs -> front-end + TLC predict an open configuration AND cargo
        check fails for a configuration without tokio."""
    ok = True
    wd = C.workdir(PROP + "-selftest")
    # (c) first builds the mutated tree, (a) is implied by (c)'s model half
    scratch = scratch_copy()
    try:
        target = os.path.join(scratch, "wow_login_messages", "src", "util", "mod.rs")
        txt = open(target).read()
        m = re.search(r'#\[cfg\(feature = "tokio"\)\]\n', txt)
        if not m:
            raise C.ToolError("selftest: no tokio guard found in %s" % target)
        open(target, "w").write(txt[:m.start()] + txt[m.end():])
        table = FF.extract(scratch, ["wow_login_messages"])
        for c in table["crates"]:
            pass
        res, recs, _ = model(wd, table)
        open_cfgs = [r for r in recs if not r["closed"]]
        model_detects = bool(open_cfgs) and "GuardClosed" in res.violated
        print("selftest C19 (c/model): guard removed in scratch copy -> model reports %d open configurations, GuardClosed violated=%s: %s"
              % (len(open_cfgs), "GuardClosed" in res.violated, "detected" if model_detects else "NOT detected"))
        ok &= model_detects
        if open_cfgs:
            r = sorted(open_cfgs, key=lambda r: len(r["features"]))[0]
            print("   witness:", short(r["features"]), json.dumps(r["open"][:1])[:300])
            cr = cargo_check(scratch, r["crate"], short(r["features"]), SELFTEST_SLOT)
            print("selftest C19 (c/cargo): %s -> build %s %s" % (cr["cmd"], "ok" if cr["ok"] else "fails", cr["errors"][:1]))
            ok &= not cr["ok"]
    finally:
        shutil.rmtree(scratch, ignore_errors=True)
    # (e) same on a GENERATED mod.rs of wow_world_base: narrow the guard of a shared module so that
    #     the tbc module tree re-exports something absent under `tbc` alone
    scratch = scratch_copy()
    try:
        target = os.path.join(scratch, "wow_world_base", "src", "inner", "shared", "mod.rs")
        txt = open(target).read()
        m = re.search(r'#\[cfg\(any\(feature = "shared", feature = "vanilla", feature = "tbc"\)\)\]\n(pub mod \w+;)', txt)
        if not m:
            raise C.ToolError("selftest: no vanilla_tbc shared module found in %s" % target)
        open(target, "w").write(txt[:m.start()] + '#[cfg(any(feature = "shared", feature = "vanilla"))]\n' + m.group(1) + txt[m.end():])
        table = FF.extract(scratch, ["wow_world_base"])
        res, recs, _ = model(wd, table)
        open_cfgs = [r for r in recs if not r["closed"]]
        closed_cfgs = [r for r in recs if r["closed"] and r["features"]]
        print("selftest C19 (e/model): guard of `%s` narrowed -> %d of %d base configurations open: %s" %
              (m.group(1), len(open_cfgs), len(recs), "detected" if open_cfgs else "NOT detected"))
        ok &= bool(open_cfgs)
        if open_cfgs:
            r = sorted(open_cfgs, key=lambda r: len(r["features"]))[0]
            cr = cargo_check(scratch, r["crate"], short(r["features"]), SELFTEST_SLOT)
            print("selftest C19 (e/cargo): predicted open %s -> build %s %s" % (short(r["features"]), "ok" if cr["ok"] else "fails", cr["errors"][:1]))
            ok &= not cr["ok"]
            r2 = sorted(closed_cfgs, key=lambda r: -len(r["features"]))[0]
            cr2 = cargo_check(scratch, r2["crate"], short(r2["features"]), SELFTEST_SLOT)
            print("selftest C19 (e/cargo): predicted closed %s -> build %s" % (short(r2["features"]), "ok" if cr2["ok"] else "fails"))
            ok &= cr2["ok"]
    finally:
        shutil.rmtree(scratch, ignore_errors=True)
    # (b) tampered model record
    table = FF.extract(C.REPO, ["wow_login_messages"])
    res, recs, _ = model(wd, table, tamper="open")
    flagged = [r for r in recs if not r["closed"]]
    print("selftest C19 (b): tampered model claims the full configuration open -> %d record(s) would disagree with rustc: %s"
          % (len(flagged), "detected" if flagged else "NOT detected"))
    ok &= bool(flagged)
    if tier == "thorough":
        # (d) differential binding: drop one non-ok verdict of the reduced build -> disagreement
        def drop(B):
            B = dict(B)
            if B:
                B.pop(sorted(B)[0])
            return B
        dis, st = differential("quick", [EXPANSIONS[C.seed() % 3]], drop=drop)
        print("selftest C19 (d): one verdict of the reduced build dropped -> %d disagreement(s): %s" %
              (len(dis), "detected" if dis or st["nonok_reduced"] == 0 else "NOT detected"))
        ok &= bool(dis) or st["nonok_reduced"] == 0
    print("selftest C19: %s" % ("binding demonstrated" if ok else "FAILED"))
    return 0 if ok else 2
