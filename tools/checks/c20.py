"""C20 - area-trigger containment and distance helpers match their geometric definition.

spec/Geometry.tla states the definition in exact integer arithmetic (rational yaws from
Pythagorean triples, denominators cleared) and is model checked by TLC: a cursor walks probe
levels around the centre, both sides of every face, edge and corner of every model box, along
rational directions through every circle, over pairs of lattice points, and - for every trigger of
the three expansions' tables - over box-frame offsets derived from the trigger's own sizes, plus the
wrong-map and unknown-id variants.  Every state prints one REPLAY record holding the verdict of the
definition; `vh_base geometry` executes each record against the real
`geometry::{is_within_square,is_within_distance,distance_between,distance_2d}`,
`{vanilla,tbc,wrath}::trigger::{AreaTrigger::contains,verify_trigger}` and compares.

The only input that does not come from the model is the text of the three trigger tables
(`wow_world_base/src/extended/*/trigger/triggers.rs`), which `parse_tables` renders to JSON
(id, shape, map name, sizes in tenths) for TLC to read; no geometry happens here.
"""
import json
import os
import re
import subprocess
import time

from tools import common as C

PROP = "C20"
EXPS = ["vanilla", "tbc", "wrath"]
ACTIONS = ["StepX", "StepY", "StepZ", "StepDir", "StepRadial", "StepOnSphere", "ToWrongMap",
           "ToWrongMap2", "UnknownBelow", "UnknownAbove", "UnknownZero", "UnknownHuge", "StepFrom", "StepTo"]
ASSUMPTIONS = [
    "spec/Geometry.tla is the reference: box frame = translate to the centre and rotate the offset by -yaw (counter-clockwise yaw), 2 yards tolerance per axis, circle = strict Euclidean distance < radius, map equality; cross-checked inside TLC (placing a probe by +yaw and reading it back by the definition are inverse, rotation preserves squared distance, co-rotation and quarter-turn lemmas)",
    "model boxes: world positions are computed exactly by the model; the harness only divides integers by the scale and computes yaw = atan2(b, a) (+ whole turns) for the rational pair (cos, sin) = (a/h, b/h)",
    "table triggers: the harness places the model's box-frame offset in the world through the trigger's own centre and yaw (rotate by +yaw, translate; f64) - the inverse of the definition, the only geometry in the harness",
    "float accuracy is not part of the claim: every probe keeps >= 1/32 yard (model boxes), >= 1/16 yard (model circles), >= 0.10 yard (table triggers) from every face / sphere; points exactly on a sphere are used only where f32 arithmetic is exact",
    "the trigger tables are read as text by tools/checks/c20.py (regular expressions over the generated table layout); a row the parser cannot read is a tool error, and the harness cross-checks every parsed row (shape, sizes) and the id set against what the public API returns",
]

_NUM = r"(-?\d+(?:\.\d+)?)"
_POS = r"Position::new\(Map::(\w+), " + _NUM + ", " + _NUM + ", " + _NUM + ", " + _NUM + r"\)"
_RE_ENTRY = re.compile(r"^\((\d+), \(\s*\n\s*AreaTrigger::(Circle|Square) \{ position: " + _POS + r", ([^}]*)\}", re.M)
_RE_CIRCLE = re.compile(r"^radius: " + _NUM + r" $")
_RE_SQUARE = re.compile(r"^length: " + _NUM + ", width: " + _NUM + ", height: " + _NUM + ", yaw: " + _NUM + r" $")


def _tenths(txt):
    """decimal text -> integer number of tenths; refuses anything finer."""
    neg = txt.startswith("-")
    if neg:
        txt = txt[1:]
    if "." in txt:
        a, b = txt.split(".")
    else:
        a, b = txt, "0"
    if len(b) != 1:
        raise C.ToolError("trigger table value %r has more than one decimal; widen the scale" % txt)
    v = int(a) * 10 + int(b)
    return -v if neg else v


def parse_tables():
    """Text of the three tables -> {"triggers": [...], "maps": {exp: [names]}} (no semantics)."""
    trig, maps = [], {}
    for exp in EXPS:
        path = os.path.join(C.REPO, "wow_world_base/src/extended", exp, "trigger/triggers.rs")
        text = open(path).read()
        rows = []
        for m in _RE_ENTRY.finditer(text):
            tid, shape, mp = int(m.group(1)), m.group(2).lower(), m.group(3)
            rest = m.group(8)
            if shape == "circle":
                mm = _RE_CIRCLE.match(rest)
                if not mm:
                    raise C.ToolError("unreadable circle row %s/%d: %r" % (exp, tid, rest))
                dims, yaw = [_tenths(mm.group(1))], 0
            else:
                mm = _RE_SQUARE.match(rest)
                if not mm:
                    raise C.ToolError("unreadable square row %s/%d: %r" % (exp, tid, rest))
                dims = [_tenths(mm.group(i)) for i in (1, 2, 3)]
                yaw = _tenths(mm.group(4))
            rows.append({"exp": exp, "id": tid, "shape": shape, "map": mp, "dims": dims,
                         "c10": [_tenths(m.group(i)) for i in (4, 5, 6)], "yaw10": yaw})
        n_text = len(re.findall(r"AreaTrigger::(?:Circle|Square) \{", text))
        if n_text != len(rows) or not rows:
            raise C.ToolError("%s: %d AreaTrigger rows in the text, %d parsed" % (path, n_text, len(rows)))
        names = sorted({r["map"] for r in rows})
        maps[exp] = names
        for r in rows:
            r["mapi"] = names.index(r["map"]) + 1
        trig += rows
    return {"triggers": trig, "maps": maps}


def model(tier, wd, sink=None, tamper=None):
    tables = parse_tables()
    if tamper:
        tables = tamper(tables) or tables
    tpath = os.path.join(wd, "triggers.json")
    with open(tpath, "w") as f:
        json.dump(tables, f)
    cfg = "Geometry.cfg" if tier == "quick" else "GeometryThorough.cfg"
    res = C.run_tlc("Geometry", cfg=cfg, workers=8, timeout=1500 if tier == "quick" else 2400,
                    env={"C20_TRIGGERS": tpath}, name="C20-" + tier, replay_sink=sink,
                    keep_replay_in_memory=sink is None)
    missing = C.vacuity(res, ACTIONS)
    if missing:
        raise C.ToolError("vacuous model run, actions never fired: %s" % missing)
    return res, tables


class Harness:
    """vh_base geometry as a streaming consumer of records (stdin) -> findings + summary."""

    def __init__(self, binary, wd, cap=10):
        self.out_path = os.path.join(wd, "harness.out")
        self.out = open(self.out_path, "w")
        self.p = subprocess.Popen([binary, "geometry", str(cap)], stdin=subprocess.PIPE, stdout=self.out,
                                  stderr=subprocess.PIPE, text=True)
        self.stdin = self.p.stdin

    def finish(self):
        try:
            self.p.stdin.close()
        except BrokenPipeError:
            pass
        err = self.p.stderr.read()
        rc = self.p.wait(timeout=1800)
        self.out.close()
        if rc != 0:
            raise C.ToolError("vh_base geometry failed rc=%s: %s" % (rc, err[-2000:]))
        findings, summary = [], None
        for line in open(self.out_path):
            o = json.loads(line)
            if "summary" in o:
                summary = o["summary"]
            else:
                findings.append(o)
        if summary is None:
            raise C.ToolError("no summary from vh_base geometry")
        return findings, summary


class Tee:
    """Feeds the harness and keeps the first few records of every sub-kind as evidence samples."""

    def __init__(self, sink, tamper=None):
        self.sink, self.samples, self.n, self.tamper = sink, {}, 0, tamper

    def write(self, line):
        self.n += 1
        if self.tamper is not None:
            line = self.tamper(line)
        t = line[:80]
        m = re.search(r'"t":"(\w+)"', line)
        key = m.group(1) if m else t
        if len(self.samples.setdefault(key, [])) < 2:
            self.samples[key].append(json.loads(line))
        try:
            self.sink.write(line)
        except BrokenPipeError:
            pass


def execute(tier, tamper_line=None, tamper_tables=None, cap=10):
    wd = C.workdir(PROP)
    binary = C.build_harness("vh_base")
    h = Harness(binary, wd, cap)
    tee = Tee(h.stdin, tamper_line)
    try:
        res, tables = model(tier, wd, sink=tee, tamper=tamper_tables)
    except Exception:
        h.p.kill()
        raise
    findings, summary = h.finish()
    if summary["records"] != tee.n:
        raise C.ToolError("harness consumed %d of %d records" % (summary["records"], tee.n))
    return res, tables, tee, findings, summary


def run(tier):
    t0 = time.time()
    res, tables, tee, findings, summary = execute(tier)
    v = C.Verdicts(PROP)
    for f in findings:
        obs = {"class": f.get("class"), "api": f.get("api"), "expected": f.get("expected"),
               "observed": f.get("observed")}
        rec = f.get("record", {})
        for k in ("t", "exp", "id", "yaw", "dims", "c", "p", "off", "lv"):
            if k in rec:
                obs[k] = rec[k]
        v.report(obs, replay=f)
    rc = v.finish()
    total_findings = sum(summary["finding_counts"].values())
    if total_findings > len(findings):
        C.log("  (%d findings in total; the first %d of each class are stored)" % (total_findings, 10))
    samples = [r for k in ("box", "ball", "dist", "trig", "unk", "exp") for r in tee.samples.get(k, [])[:1]]
    C.write_evidence(PROP, tier, "model_checking", {
        "states": res.distinct,
        "transitions": res.generated,
        "traces_validated_against_impl": tee.n,
        "samples": samples,
        "records_by_kind": summary["records_by_kind"],
        "api_calls": summary["api_calls"],
        "table_triggers": {e: len([t for t in tables["triggers"] if t["exp"] == e]) for e in EXPS},
        "table_triggers_probed": summary["triggers_probed"],
        "model_depth": res.depth,
        "finding_counts": summary["finding_counts"],
        "actions_fired": {k: v2[1] for k, v2 in res.coverage.items() if k in ACTIONS},
        "bounds": "quick: 5 triples x 8 arrangements + 4 quarter turns, 4 shapes, 2 centres, 5 levels/axis; "
                  "thorough: 10 triples, 9 shapes, 4 centres, yaw +-1 whole turn, 9 levels/axis; both: every table trigger",
        "not_covered": "points nearer than the stated margins to a face/sphere (float accuracy is not claimed); "
                       "yaws of model boxes are the rational ones only, table yaws are whatever the tables hold; trace_point_2d",
    }, time.time() - t0, ASSUMPTIONS, violations=len(v.violations))
    return rc


def replay(path):
    body = json.load(open(path))
    rec = body["behaviour"]["record"]
    binary = C.build_harness("vh_base")
    wd = C.workdir(PROP + "-replay")
    h = Harness(binary, wd)
    h.stdin.write(json.dumps(rec) + "\n")
    findings, summary = h.finish()
    for f in findings:
        print(json.dumps(f))
    print("replayed 1 record: %d findings" % len(findings))
    return 1 if findings else 0


def selftest(tier):
    """Binding demonstration: flip the verdict of one model record of each kind (box, ball, trig,
    dist) and drop one trigger from the table given to the model.  Each corrupted record must come
    back as a finding carrying exactly that record, and the dropped trigger must be reported as
    served by the API but not probed by the model."""
    flipped = {}

    def keep(kind, line):
        flipped[kind] = json.loads(line)
        return line

    def tamper_line(line):
        m = re.search(r'"t":"(\w+)"', line)
        k = m.group(1) if m else None
        if k in flipped:
            return line
        # records at the centre / on the axes, where no plausible defect of the code interferes
        if k == "box" and '"inside":true' in line and '"lv":[1,1,1]' in line:
            return keep(k, line.replace('"inside":true', '"inside":false').replace('"geo":true', '"geo":false'))
        if k == "ball" and '"inside":false' in line and '"samemap":true' in line:
            return keep(k, line.replace('"inside":false', '"inside":true').replace('"geo":false', '"geo":true'))
        if k == "trig" and '"expect":"success"' in line and '"lv":[1,1' in line:
            return keep(k, line.replace('"expect":"success"', '"expect":"outside"'))
        if k == "dist" and '"lo":0,' not in line:
            o = json.loads(line)
            o["lo"], o["hi"] = o["lo"] + 5, o["hi"] + 5
            return keep(k, json.dumps(o, separators=(",", ":")) + "\n")
        return line

    dropped = {}

    def tamper_tables(tables):
        t = tables["triggers"]
        victim = next(r for r in t if r["exp"] == "tbc" and r["shape"] == "square")
        dropped["id"] = victim["id"]
        t.remove(victim)
        return tables

    res, tables, tee, findings, summary = execute("quick", tamper_line, tamper_tables, cap=10 ** 9)
    want = {"box": "box_mismatch", "ball": "ball_mismatch", "trig": "trigger_mismatch", "dist": "distance_mismatch"}
    detected = {}
    for k, cls in want.items():
        detected[k] = k in flipped and any(f.get("class") == cls and f.get("record") == flipped[k] for f in findings)
    detected["dropped_trigger"] = any(
        f.get("class") == "table_mismatch" and dropped.get("id") in (f.get("observed") or {}).get("only_api", [])
        for f in findings if isinstance(f.get("observed"), dict))
    ok = all(detected.values())
    print("selftest C20: corrupted one record of each kind + dropped tbc trigger %s from the model's table -> %s: %s"
          % (dropped.get("id"), json.dumps(detected, sort_keys=True), "detected" if ok else "NOT detected"))
    return 0 if ok else 2
