"""Shared by the checks that are decided by WowmWire behaviours replayed into the real codecs
(C01, and the replay halves of C09/C14/...)."""
import collections
import json
import os
import re
import time

from tools import common as C
from tools import replay as R
from tools import wire

TIERS = {
    "quick": dict(nprof=2, maxlen=2, deep=False, nshards=4, workers=4, timeout=900),
    "thorough": dict(nprof=4, maxlen=3, deep=True, nshards=8, workers=2, timeout=3300),
}

REQUIRED_ACTIONS = [
    "EmitConst", "EmitSelfSize", "EmitCount", "EmitSimple", "EmitNamedGuid", "EmitVarItemRandomProp",
    "EmitSplines", "EmitSimpleMask", "EmitStructMask", "EmitSentinelArray", "EmitUpdateMask",
    "EmitEnum", "EmitFlag", "EnterStruct", "ArrayPrim", "ArrayBegin", "ArrayNextStruct", "ArrayEnd",
    "TakeArm", "TakeElse", "SkipIf", "OptionalPresent", "OptionalAbsent", "LeaveBlock", "Finish",
]


def explore(tier, tag, only="", extra_objects=None, lowered_name=None, faults="0", fault_every=1, nprof=None, maxlen=None, deep=None):
    t = dict(TIERS[tier])
    if only:
        t["nshards"], t["workers"] = 1, 4
    if nprof is not None:
        t["nprof"] = nprof
    if maxlen is not None:
        t["maxlen"] = maxlen
    if deep is not None:
        t["deep"] = deep
    t["faults"], t["fault_every"] = faults, fault_every
    ldir, lw, corpus = wire.prepare(lowered_name or ("lowered-" + tag), extra_objects)
    outdir = os.path.join(C.WORK, "wire-" + tag)
    const_path = None
    if faults == "c04":
        const_path, ivs, cres = wire.const_sized(ldir, tag)
        t["const_sized_roots"] = sum(1 for r in ivs if r["lo"] == r["hi"])
    stats, paths = wire.run_wire(ldir, outdir, nshards=t["nshards"], workers=t["workers"], nprof=t["nprof"],
                                 maxlen=t["maxlen"], only=only, deep=t["deep"], timeout=t["timeout"], tag=tag,
                                 faults=faults, fault_every=fault_every, const_path=const_path)
    cov = {}
    for s in stats:
        for k, val in s["coverage"].items():
            cov[k] = max(cov.get(k, 0), val[1])
    if not only:
        missing = [a for a in REQUIRED_ACTIONS if cov.get(a, 0) == 0]
        if missing:
            raise C.ToolError("vacuous WowmWire run: actions never fired: %s" % missing)
    return {"tier": tier, "params": t, "ldir": ldir, "lw": lw, "corpus": corpus, "stats": stats, "paths": paths,
            "coverage": cov, "outdir": outdir}


def replay_codec(binary, ctx, jobs=8, kinds=("codec",), extra_args=None, timeout=600):
    """Replays every record whose kind is in `kinds`. Also gathers skip records.
    Returns (non-ok verdicts, totals)."""
    skips = collections.Counter()
    skipped_msgs = collections.defaultdict(set)
    roots_seen = set()
    n_codec = 0
    samples = []

    def lines():
        nonlocal n_codec
        for r in wire.iter_records(ctx["paths"]):
            key = (r["id"], r["exp"], r.get("lv", 0), r["dir"])
            roots_seen.add(key)
            if r["kind"] == "skip":
                skips[r["why"]] += 1
                skipped_msgs[r["why"]].add("%s/%s" % (r["name"], r["exp"]))
                continue
            if r["kind"] not in kinds:
                continue
            n_codec += 1
            if len(samples) < 3 and len(r["body"]) > 6:
                samples.append({k: r[k] for k in ("kind", "name", "exp", "lv", "dir", "prof", "hdr", "body", "regions", "fk", "site", "outcome", "val") if k in r})
            yield json.dumps(r, separators=(",", ":"))

    verdicts, totals = R.run_records(binary, ["codec"] + (extra_args or []), lines(), jobs=jobs, timeout=timeout)
    ctx["skips"] = skips
    ctx["skipped_msgs"] = {k: sorted(v)[:40] for k, v in skipped_msgs.items()}
    ctx["roots_seen"] = roots_seen
    ctx["n_codec"] = n_codec
    ctx["samples"] = samples
    if totals["records"] != n_codec:
        raise C.ToolError("harness judged %d of %d records" % (totals["records"], n_codec))
    return verdicts, totals


_NUM = re.compile(r"\d+")


def signature(o):
    d = o.get("detail") if isinstance(o.get("detail"), dict) else {}
    m = d.get("panic") or d.get("error") or d.get("process") or d.get("note") or ""
    m = m.replace("\n", " ")
    return _NUM.sub("N", m)[:160]


def observation(o):
    ob = {"name": o.get("name"), "exp": o.get("exp"), "lv": o.get("lv"), "dir": o.get("dir"),
          "verdict": o.get("verdict"), "sig": signature(o)}
    if "fk" in o:
        ob["fk"] = o.get("fk")
        ob["site"] = o.get("site")
    return ob


def replay_body(o, ctx):
    """Stored with a violation so that `--replay` can re-execute it."""
    rec = None
    d = o.get("detail") if isinstance(o.get("detail"), dict) else {}
    if "record" in d:
        rec = d["record"]
    else:
        want = d.get("input")
        for r in wire.iter_records(ctx["paths"]):
            if r["kind"] == "codec" and r["id"] == o.get("id") and r["exp"] == o.get("exp") and \
                    r["dir"] == o.get("dir") and r.get("prof") == o.get("prof") and r.get("lv", 0) == o.get("lv", 0):
                if want is None or bytes(r["hdr"] + r["body"]).hex() == want or r.get("regions"):
                    rec = r
                    break
    return {"verdict": o, "record": rec}


def uncovered_objects(ctx):
    """Corpus messages that no behaviour was generated for, with the reason."""
    out = []
    for o in ctx["lw"].objects:
        if o["kind"] in ("cmsg", "smsg", "msg", "clogin", "slogin"):
            if o["test"]:
                out.append((o["name"], "test-only object"))
            elif o["unimpl"]:
                out.append((o["name"], "marked unimplemented in the wowm"))
            elif o["skip"]:
                out.append((o["name"], "skip_codegen"))
    return out


def write_codec_evidence(prop, tier, ctx, totals, verdicts, v, wall, extra_cov=None, assumptions=None,
                         level="model_checking"):
    states = sum(s["distinct"] for s in ctx["stats"])
    trans = sum(s["generated"] for s in ctx["stats"])
    byverdict = collections.Counter(o["verdict"] for o in verdicts)
    unc = uncovered_objects(ctx)
    cov = {
        "states": states,
        "transitions": trans,
        "traces_validated_against_impl": totals["records"],
        "samples": ctx["samples"] or [{"note": "no sample longer than 6 bytes"}],
        "evaluations": totals["records"],
        "distinct_nontrivial": len(ctx["roots_seen"]),
        "rule": "one behaviour = one canonical encoding (one path through the definition x profile); distinct_nontrivial counts distinct (message, expansion/protocol version, direction) roots that produced at least one behaviour",
        "exhaustive": False,
        "bounds": ctx["params"],
        "non_ok_by_verdict": dict(byverdict),
        "known_finding_hits": dict(v.known_hits),
        "model_skips": {k: {"behaviours": n, "messages": ctx["skipped_msgs"].get(k, [])} for k, n in ctx["skips"].items()},
        "uncovered_objects": ["%s: %s" % x for x in unc],
        "actions_fired": ctx["coverage"],
    }
    if extra_cov:
        cov.update(extra_cov)
    base_assumptions = [
        "tools/wowm_front.py + tools/lower.py (independent front-end, purely syntactic) read the wowm sources correctly",
        "spec/WowmWire.tla + WowmTypes.tla transcribe lang-spec.md / types/*.md; only canonical encodings are generated (DESIGN.md Appendix A)",
        "values are drawn by profile rotation over per-type extreme patterns; structure (branches, array lengths, optional tails) is explored as TLC branches, later array elements deterministically",
        "harness glue: zlib deflate of compressed regions and recomputation of the size field for them",
    ]
    C.write_evidence(prop, tier, level, cov, wall, (assumptions or []) + base_assumptions,
                     violations=len(v.violations))
