"""Shared machinery for the /verif checks: TLC runner, harness build, evidence, known findings.

Python 3 standard library only.
"""
import hashlib
import json
import os
import re
import shutil
import subprocess
import sys
import time

VERIF = os.path.dirname(os.path.dirname(os.path.abspath(__file__)))
REPO = os.environ.get("VERIF_REPO", "/repo")
SPEC = os.path.join(VERIF, "spec")
HARNESS = os.path.join(VERIF, "harness")
CACHE = os.path.join(VERIF, ".cache")
WORK = os.path.join(VERIF, "work")
EVIDENCE = os.path.join(VERIF, "evidence")
REPLAYS = os.path.join(VERIF, "replays")
KNOWN = os.path.join(VERIF, "known_findings.jsonl")
TLA_JAR = "/opt/veriftools/tla/tla2tools.jar"
TLA_CP = TLA_JAR + ":/opt/veriftools/tla/CommunityModules-deps.jar"

EXIT_OK, EXIT_VIOLATION, EXIT_TOOL = 0, 1, 2


class ToolError(Exception):
    """A failure of the machinery itself (never presented as a verdict)."""


def log(*a):
    print(*a, file=sys.stderr, flush=True)


def seed():
    try:
        return int(os.environ.get("VERIF_SEED", "1"))
    except ValueError:
        return 1


def workdir(name):
    d = os.path.join(WORK, name)
    shutil.rmtree(d, ignore_errors=True)
    os.makedirs(d, exist_ok=True)
    return d


# ----------------------------------------------------------------------------------------------
# TLC
# ----------------------------------------------------------------------------------------------

class TlcResult:
    def __init__(self):
        self.generated = 0
        self.distinct = 0
        self.depth = 0
        self.coverage = {}       # action name -> (distinct, total)
        self.replay = []         # decoded REPLAY records (if collected in memory)
        self.replay_path = None
        self.errors = []         # "Error:" lines
        self.violated = []       # names of violated invariants / properties
        self.finished = False
        self.log_path = None
        self.rc = None
        self.wall = 0.0
        self.printed = []        # other PrintT lines (strings)


_RE_STATES = re.compile(r"^(\d+) states generated, (\d+) distinct states found")
_RE_DEPTH = re.compile(r"^The depth of the complete state graph search is (\d+)")
_RE_COV = re.compile(r"^<(\w+) line \d+, col \d+ to line \d+, col \d+ of module (\w+)[^>]*>: (\d+):(\d+)")
_RE_SIMSTATES = re.compile(r"^The number of states generated: (\d+)")


def decode_replay_line(line):
    """PrintT("REPLAY " \\o ToJson(x)) prints one TLA+ string literal holding one JSON object."""
    s = json.loads(line)
    assert s.startswith("REPLAY ")
    return json.loads(s[len("REPLAY "):])


def run_tlc(module, cfg=None, workers=8, timeout=900, env=None, simulate=None, depth=None,
            coverage=True, xmx="6g", deque=False, seed_=None, name=None, keep_replay_in_memory=True,
            extra_args=None, cwd=None, replay_sink=None, allow_violation=False):
    """Run TLC on SPEC/<module>.tla with SPEC/<cfg>. Returns TlcResult.

    replay_sink: file object; raw decoded REPLAY json lines are written there (one per line).
    """
    cwd = cwd or SPEC
    cfg = cfg or (module + ".cfg")
    name = name or os.path.splitext(os.path.basename(cfg))[0]
    meta = os.path.join(WORK, "tlc-meta", name + "-" + str(os.getpid()))
    shutil.rmtree(meta, ignore_errors=True)
    os.makedirs(meta, exist_ok=True)
    jopts = "-Xss1g"
    if deque:
        jopts += " -Dtlc2.tool.queue.IStateQueue=StateDeque"
    e = dict(os.environ)
    e["JAVA_TOOL_OPTIONS"] = jopts
    if env:
        e.update({k: str(v) for k, v in env.items()})
    cmd = ["java", "-XX:+UseParallelGC", "-Xmx" + xmx, "-cp", TLA_CP, "tlc2.TLC",
           "-workers", str(workers), "-metadir", meta, "-cleanup", "-noGenerateSpecTE",
           "-deadlock"]  # -deadlock = do NOT check deadlock
    if coverage and simulate is None:
        cmd += ["-coverage", "1"]
    if simulate is not None:
        cmd += ["-simulate", "num=%d" % simulate]
        if depth:
            cmd += ["-depth", str(depth)]
    cmd += ["-seed", str(seed_ if seed_ is not None else seed())]
    if extra_args:
        cmd += extra_args
    cmd += ["-config", cfg, module + ".tla"]
    res = TlcResult()
    os.makedirs(os.path.join(WORK, "logs"), exist_ok=True)
    res.log_path = os.path.join(WORK, "logs", name + ".tlc.log")
    t0 = time.time()
    with open(res.log_path, "w") as logf:
        p = subprocess.Popen(["timeout", "-k", "10", str(timeout)] + cmd, cwd=cwd, env=e,
                             stdout=subprocess.PIPE, stderr=subprocess.STDOUT, text=True,
                             errors="replace")
        for line in p.stdout:
            if line.startswith('"REPLAY '):
                try:
                    rec = decode_replay_line(line)
                except Exception as ex:  # a torn line is a tool error
                    res.errors.append("undecodable REPLAY line: %r (%s)" % (line[:200], ex))
                    continue
                if replay_sink is not None:
                    replay_sink.write(json.dumps(rec, separators=(",", ":")) + "\n")
                if keep_replay_in_memory:
                    res.replay.append(rec)
                continue
            logf.write(line)
            m = _RE_STATES.match(line)
            if m:
                res.generated, res.distinct = int(m.group(1)), int(m.group(2))
                continue
            m = _RE_SIMSTATES.match(line)
            if m:
                res.generated = res.distinct = int(m.group(1))
                continue
            m = _RE_DEPTH.match(line)
            if m:
                res.depth = int(m.group(1))
                continue
            m = _RE_COV.match(line)
            if m:
                res.coverage[m.group(1)] = (int(m.group(3)), int(m.group(4)))
                continue
            if line.startswith("Error:"):
                res.errors.append(line.strip())
                m2 = re.match(r"Error: Invariant (\S+) is violated", line)
                if m2:
                    res.violated.append(m2.group(1))
                m2 = re.match(r"Error: Action property (\S+) is violated", line)
                if m2:
                    res.violated.append(m2.group(1))
                if "Temporal properties were violated" in line:
                    res.violated.append("temporal")
            elif line.startswith("Model checking completed. No error has been found") or \
                    line.startswith("Finished in") or line.startswith("Finished computing"):
                if "No error" in line:
                    res.finished = True
            elif line.startswith('"'):
                try:
                    res.printed.append(json.loads(line))
                except Exception:
                    pass
        p.wait()
        res.rc = p.returncode
    res.wall = time.time() - t0
    shutil.rmtree(meta, ignore_errors=True)
    if res.rc == 124 or res.rc == 137:
        if simulate is None:
            raise ToolError("TLC timed out after %ss on %s (log %s)" % (timeout, name, res.log_path))
    if res.rc not in (0, 124, 137) and not res.errors:
        res.errors.append("TLC exit status %s" % res.rc)
    if simulate is not None and res.rc in (0, 124, 137) and not res.errors:
        res.finished = True
    if res.errors and not allow_violation:
        raise ToolError("TLC reported errors on %s: %s (log %s)" %
                        (name, "; ".join(res.errors[:3]), res.log_path))
    return res


def run_sany(module, cwd=None):
    p = subprocess.run(["java", "-cp", TLA_CP, "tla2sany.SANY", module + ".tla"], cwd=cwd or SPEC,
                       capture_output=True, text=True)
    ok = p.returncode == 0 and "Semantic errors" not in p.stdout and "Parse Error" not in p.stdout \
        and "Fatal errors" not in p.stdout
    return ok, p.stdout


def vacuity(res, required_actions):
    """Names of actions that never fired (coverage count 0 or missing)."""
    out = []
    for a in required_actions:
        c = res.coverage.get(a)
        if c is None or c[1] == 0:
            out.append(a)
    return out


# ----------------------------------------------------------------------------------------------
# Harness build
# ----------------------------------------------------------------------------------------------

def cargo_env():
    e = dict(os.environ)
    e["CARGO_NET_OFFLINE"] = "true"
    e.pop("RUSTFLAGS", None)  # rustflags come from harness/.cargo/config.toml
    return e


def build_harness(package="vh", timeout=3000):
    """Builds the harness against /repo's current working tree. Returns path of the binary."""
    t0 = time.time()
    if package == "vh":
        # harness glue generated from the object table / published docs (setup.sh writes it too):
        # a fresh restore, or a check run without setup, still builds
        gen = os.path.join(HARNESS, "vh", "src", "generated")
        need = {"login_dispatch.rs": "tools.gen_dispatch", "collective_dispatch.rs": "tools.gen_dispatch", "expect_dispatch.rs": "tools.gen_dispatch",
                "mask_gen.rs": "tools.gen_mask", "definer_gen.rs": "tools.gen_definer", "chunks_gen.rs": "tools.gen_chunks"}
        for mod in sorted({m for f, m in need.items() if not os.path.exists(os.path.join(gen, f))}):
            os.makedirs(gen, exist_ok=True)
            g = subprocess.run([sys.executable, "-m", mod], cwd=VERIF, capture_output=True, text=True, timeout=600)
            if g.returncode != 0:
                raise ToolError("generating harness glue with %s failed:\n%s" % (mod, g.stderr[-2000:]))
    p = subprocess.run(["cargo", "build", "--offline", "-p", package], cwd=HARNESS, env=cargo_env(),
                       capture_output=True, text=True, timeout=timeout)
    if p.returncode != 0:
        raise ToolError("harness build failed (%s):\n%s" % (package, p.stderr[-4000:]))
    log("[build] %s built in %.1fs" % (package, time.time() - t0))
    return os.path.join(CACHE, "target", "debug", package)


# ----------------------------------------------------------------------------------------------
# Known findings
# ----------------------------------------------------------------------------------------------

def load_known():
    out = []
    if os.path.exists(KNOWN):
        for line in open(KNOWN):
            line = line.strip()
            if line and not line.startswith("#"):
                out.append(json.loads(line))
    return out


def _match_entry(entry, prop, obs):
    if entry.get("fixed"):
        return False
    if entry.get("property") != prop:
        return False
    for k, v in entry.get("match", {}).items():
        if k.endswith("_min"):
            if obs.get(k[:-4]) is None or obs[k[:-4]] < v:
                return False
        elif k.endswith("_max"):
            if obs.get(k[:-4]) is None or obs[k[:-4]] > v:
                return False
        elif k.endswith("_in"):
            if obs.get(k[:-3]) not in v:
                return False
        elif k.endswith("_contains"):
            if v not in str(obs.get(k[:-9], "")):
                return False
        else:
            if obs.get(k) != v:
                return False
    return True


class Verdicts:
    """Collects violations, separates known findings, produces exit code and VIOLATION lines."""

    def __init__(self, prop):
        self.prop = prop
        self.known = load_known()
        self.known_hits = {}     # key -> count
        self.violations = []     # (obs, replay_path)
        self._seen = {}

    def report(self, obs, replay=None):
        """obs: dict describing the failing thing (used for matching known findings).
        `replay` may be a callable producing the replay body (evaluated once per distinct obs).
        Identical observations are counted, not repeated."""
        for e in self.known:
            if _match_entry(e, self.prop, obs):
                self.known_hits[e["key"]] = self.known_hits.get(e["key"], 0) + 1
                return "known"
        key = json.dumps(obs, sort_keys=True, default=str)
        if key in self._seen:
            self._seen[key] += 1
            return "violation"
        self._seen[key] = 1
        if callable(replay):
            replay = replay()
        path = self._write_replay(obs, replay)
        self.violations.append((obs, path))
        return "violation"

    def _write_replay(self, obs, replay):
        d = os.path.join(REPLAYS, self.prop)
        os.makedirs(d, exist_ok=True)
        body = {"property": self.prop, "observation": obs, "behaviour": replay}
        h = hashlib.sha1(json.dumps(body, sort_keys=True, default=str).encode()).hexdigest()[:16]
        path = os.path.join(d, h + ".json")
        with open(path, "w") as f:
            json.dump(body, f, indent=1, default=str)
        return path

    def finish(self, max_lines=20):
        for e in self.known:
            if e.get("key") in self.known_hits:
                print("KNOWN-FINDING: property=%s %s (%d observations this run)" %
                      (self.prop, e.get("what", e["key"]), self.known_hits[e["key"]]))
        for obs, path in self.violations[:max_lines]:
            print("VIOLATION property=%s replay=%s" % (self.prop, path))
            log("   x%d %s" % (self._seen.get(json.dumps(obs, sort_keys=True, default=str), 1), json.dumps(obs, default=str)[:300]))
        if len(self.violations) > max_lines:
            log("  ... %d more violations" % (len(self.violations) - max_lines))
        sys.stdout.flush()
        return EXIT_VIOLATION if self.violations else EXIT_OK


# ----------------------------------------------------------------------------------------------
# Evidence
# ----------------------------------------------------------------------------------------------

def write_evidence(prop, tier, level, coverage, wall_s, assumptions=None, violations=0, extra=None):
    os.makedirs(EVIDENCE, exist_ok=True)
    ev = {
        "property_id": prop,
        "tier": tier,
        "seed": seed(),
        "level": level,
        "coverage": coverage,
        "assumptions": assumptions or [],
        "wall_s": round(wall_s, 2),
        "violations": violations,
    }
    if extra:
        ev.update(extra)
    # minimal self-validation against EVIDENCE.schema.json's per-level rules
    cov = coverage
    if level in ("exploration", "fault_enumeration"):
        assert cov.get("evaluations", 0) >= 1 and cov.get("distinct_nontrivial", 0) >= 2
        assert isinstance(cov.get("rule"), str) and len(cov.get("samples", [])) >= 1
    if level == "model_checking":
        assert cov.get("states", 0) >= 1 and cov.get("transitions", 0) >= 1
        assert "traces_validated_against_impl" in cov and len(cov.get("samples", [])) >= 1
    path = os.path.join(EVIDENCE, prop + ".json")
    tmp = path + ".tmp"
    with open(tmp, "w") as f:
        json.dump(ev, f, indent=1, default=str)
    # full validation against the published schema (jsonschema lives in the tooling venv)
    vt = shutil.which("python3-vt")
    if vt and os.path.exists("/root/.vp/EVIDENCE.schema.json"):
        chk = subprocess.run([vt, "-c", "import json,sys,jsonschema; jsonschema.validate(json.load(open(sys.argv[1])), json.load(open('/root/.vp/EVIDENCE.schema.json')))", tmp],
                             capture_output=True, text=True)
        if chk.returncode != 0:
            raise ToolError("evidence for %s does not match EVIDENCE.schema.json: %s" % (prop, chk.stderr.strip().splitlines()[-1] if chk.stderr.strip() else "?"))
    os.replace(tmp, path)
    return path


def run_lines(binary, args, lines_iter, timeout=3600, env=None):
    """Feed lines to a harness binary on stdin, yield decoded JSON verdict lines from stdout."""
    e = cargo_env()
    if env:
        e.update(env)
    p = subprocess.Popen([binary] + args, stdin=subprocess.PIPE, stdout=subprocess.PIPE,
                         stderr=subprocess.PIPE, text=True, env=e)
    data = "".join(l if l.endswith("\n") else l + "\n" for l in lines_iter)
    try:
        out, err = p.communicate(data, timeout=timeout)
    except subprocess.TimeoutExpired:
        p.kill()
        raise ToolError("harness %s %s timed out" % (binary, args))
    return p.returncode, out, err
