"""Debug aid: python3 -m tools.dbg_wire <MessageName> [exp] [maxshow] - runs WowmWire for one message,
replays, prints failing behaviours with their field events."""
import json, sys, collections
from tools import common as C, wire, replay

def main():
    name = sys.argv[1]
    exp = sys.argv[2] if len(sys.argv) > 2 else None
    maxshow = int(sys.argv[3]) if len(sys.argv) > 3 else 2
    ldir, lw, corpus = wire.prepare("lowered-dbg")
    stats, paths = wire.run_wire(ldir, C.WORK + "/wire-dbg", nshards=1, workers=4, nprof=int(sys.argv[4]) if len(sys.argv) > 4 else 1, maxlen=2, only=name, tag="dbg")
    recs = [r for r in wire.iter_records(paths) if r["kind"] == "codec" and (exp is None or r["exp"] == exp)]
    skips = [r for r in wire.iter_records(paths) if r["kind"] == "skip"]
    print("records", len(recs), "skips", collections.Counter(s["why"] for s in skips))
    binary = C.CACHE + "/target/debug/vh"
    verd, tot = replay.run_records(binary, ["codec"], [json.dumps(r) for r in recs], jobs=4)
    print(tot, collections.Counter(v["verdict"] for v in verd))
    by = {}
    for r in recs:
        by[(r["id"], r["exp"], r["lv"], r["dir"], r["prof"], json.dumps(r["body"]))] = r
    shown = collections.Counter()
    for v in verd:
        if shown[v["verdict"]] >= maxshow:
            continue
        shown[v["verdict"]] += 1
        d = v["detail"]
        print("----", v["verdict"], v["exp"], v["lv"], v["dir"], json.dumps({k: x for k, x in d.items() if k not in ("input",)})[:700] if isinstance(d, dict) else d)
        inp = d.get("input") if isinstance(d, dict) else None
        if inp:
            # find the record with this input
            for r in recs:
                h = bytes(r["hdr"] + r["body"]).hex()
                if h == inp and r["exp"] == v["exp"] and r["dir"] == v["dir"]:
                    body = r["body"]
                    print("  hdr", bytes(r["hdr"]).hex())
                    for e in r["ev"]:
                        print("   %-28s %s" % (e["n"], bytes(body[e["at"]:e["at"] + e["len"]]).hex()))
                    break
            if isinstance(d, dict) and d.get("output"):
                print("  out", d["output"])

main()
