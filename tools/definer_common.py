"""Shared helper of the C11 / C12 checks (spec/Definers.tla).

Pure plumbing, no definer semantics:
  * `build_table(repo)`  - every enum / flag of the wowm corpus (tools/wowm_front.py), lowered for TLC
    (values as 9-byte little-endian two's complement tuples and bit-position lists, tools/lower.py),
    plus where the generated Rust type lives.  The Rust type of a definition is found through the
    doc comment every generated type carries (``[`wow_message_parser/wowm/<file>:<line>`]``), the
    names of variants / constants / methods are derived from the wowm names with the conventions
    observed in the generated files (CamelCase variants, SCREAMING constants, lower snake methods)
    and then CONFIRMED against the public items of the generated file; a type that cannot be
    confirmed is listed as unmapped (never reported).
  * synthesised flag structs (``<Container>_<Flag>``): found in the files of wow_world_messages /
    wow_login_messages, tied to the wowm flag through the container's `if (field & ENUMERATOR)`
    statements of the object table.
  * seeded probe values (VERIF_SEED).
  * running TLC on spec/Definers.tla (sharded) and replaying the records through `vh definer`.
"""
import concurrent.futures
import json
import os
import random
import re
import time

from tools import common as C
from tools import lower
from tools import wowm_front as F

SRC_TYPES = ["u8", "u16", "u32", "u64", "i8", "i16", "i32", "i64", "usize"]
RUST_WIDTH = {"u8": 1, "u16": 2, "u32": 4, "u64": 8, "i8": 1, "i16": 2, "i32": 4, "i64": 8, "u48": 8}
RUST_TYPE = {"u48": "u64"}

ANCHOR = re.compile(r"\[`wow_message_parser/wowm/([^:`]+):(\d+)`\]")
DECL = re.compile(r"^pub(\(crate\))? (enum|struct) (\w+) \{", re.M)
ROOTS = [("wow_world_base", "wow_world_base/src/inner"),
         ("wow_login_messages", "wow_login_messages/src/logon"),
         ("wow_world_messages", "wow_world_messages/src/world")]


def num9(v):
    """9-byte little-endian two's complement (covers i64::MIN .. u64::MAX)."""
    return lower.le_bytes(v, 9) if v >= 0 else lower.le_bytes(v + (1 << 72), 9)


def num_of9(b):
    v = sum(x << (8 * i) for i, x in enumerate(b))
    return v - (1 << 72) if b[8] >= 128 else v


def camel(name):
    """Variant name convention observed in the generated files: words split at '_', first letter
    upper, rest lower; `Self` and `Error` get an `X` suffix."""
    s = "".join(w[:1].upper() + w[1:].lower() for w in name.split("_") if w)
    if s in ("Self", "Error"):
        s += "X"
    return s


def rust_path(crate, relfile, name):
    """Public path of a type from the location of its file (module layout of the three crates:
    `<crate>::<version dir>::<Name>` through the glob re-exports; files under shared/ are public
    modules of their own)."""
    parts = relfile.split("/")
    vdir, mod = parts[-2], parts[-1][:-3]
    if vdir == "shared":
        return "%s::shared::%s::%s" % (crate, mod, name)
    return "%s::%s::%s" % (crate, vdir, name)


def scan_generated(repo):
    """(wowm file, line) -> list of {crate, file, name, vis, kind, text}."""
    out = {}
    texts = {}
    for crate, root in ROOTS:
        for dp, _dn, fns in os.walk(os.path.join(repo, root)):
            for fn in sorted(fns):
                if not fn.endswith(".rs") or fn in ("mod.rs", "opcodes.rs"):
                    continue
                p = os.path.join(dp, fn)
                with open(p) as f:
                    t = f.read()
                rel = p[len(repo) + 1:]
                texts[rel] = (crate, t)
                for m in ANCHOR.finditer(t):
                    mm = DECL.search(t, m.end())
                    if not mm:
                        continue
                    out.setdefault((m.group(1), int(m.group(2))), []).append(
                        {"crate": crate, "file": rel, "name": mm.group(3), "vis": mm.group(1) or "",
                         "kind": mm.group(2)})
    return out, texts


def _pub_fns(text, type_name):
    """names of `pub fn` / `pub const fn` items inside `impl <type_name> {` blocks."""
    names = {}
    for m in re.finditer(r"^impl %s \{\n(.*?)^\}" % re.escape(type_name), text, re.M | re.S):
        for f in re.finditer(r"^    pub (const )?fn (\w+)\(([^)]*)\)", m.group(1), re.M):
            names[f.group(2)] = f.group(3)
    return names


def _trait_impls(text, type_name):
    """source types with `impl From<T> for X` / `impl TryFrom<T> for X`."""
    fr = set(re.findall(r"^impl From<(\w+)> for %s \{" % re.escape(type_name), text, re.M))
    tr = set(re.findall(r"^impl TryFrom<(\w+)> for %s \{" % re.escape(type_name), text, re.M))
    return fr, tr


def _seeded(rng, n, declared, width):
    """n seeded integers in i64::MIN..u64::MAX: a mix of full-width patterns, narrow patterns,
    values near declared ones and aliases of declared values in higher bytes."""
    out = []
    for _ in range(n):
        c = rng.randrange(8)
        if c == 0:
            v = rng.getrandbits(64)
        elif c == 1:
            v = rng.getrandbits(63) - (1 << 63)
        elif c == 2:
            v = rng.getrandbits(32)
        elif c == 3:
            v = rng.getrandbits(16) - (1 << 15)
        elif c == 4:
            v = rng.getrandbits(8 * width)
        elif c == 5 and declared:
            v = rng.choice(declared) + rng.randrange(-3, 4)
        elif c == 6 and declared:
            v = rng.choice(declared) + (rng.randrange(1, 1 << 16) << (8 * width))
        else:
            v = rng.getrandbits(rng.randrange(1, 65))
        v = max(-(1 << 63), min((1 << 64) - 1, v))
        out.append(v)
    return out


def build_table(repo=None, tier="quick"):
    """Returns dict(definers=[...], sflags=[...], unmapped=[...]). Definer ids are 1-based and equal
    the line number in the ndjson handed to TLC."""
    repo = repo or C.REPO
    corpus = F.load_corpus(repo)
    gen, texts = scan_generated(repo)
    nseed_wide = 64 if tier == "quick" else 4096
    nseed_narrow = 16 if tier == "quick" else 1024
    nseed_flag = 16 if tier == "quick" else 256
    definers, unmapped = [], []
    by_name = {}
    for o in corpus:
        if o["kind"] not in ("enum", "flag"):
            continue
        base = o["base"]
        rw = RUST_WIDTH[base]
        signed = base.startswith("i")
        vals = []
        for e in o["enumerators"]:
            v = F.parse_value(e["value"])
            if not isinstance(v, int):
                raise C.ToolError("%s.%s: non-integer value" % (o["name"], e["name"]))
            vals.append(v)
        did = len(definers) + 1
        vers = " ".join(o["tags"].get("versions", []) + ["login:" + x for x in o["tags"].get("login_versions", [])])
        rng = random.Random("%d:%s:%s:%d" % (C.seed(), o["name"], o["file"], o["line"]))
        wide = rw > 2
        if o["kind"] == "enum":
            seeds = _seeded(rng, nseed_wide if wide else nseed_narrow, vals, rw)
            fseeds = []
        else:
            seeds = _seeded(rng, nseed_flag, vals, rw)
            fseeds = [rng.getrandbits(8 * rw) & rng.getrandbits(8 * rw) if i % 2 else rng.getrandbits(8 * rw)
                      for i in range(nseed_flag)]
        d = {
            "id": did, "kind": o["kind"], "name": o["name"], "base": base, "w": rw, "signed": signed,
            "zav": o["tags"].get("zero_is_always_valid", ["false"])[-1] == "true",
            "enums": [{"n": e["name"], "num": num9(v),
                       "bits": lower.bits_of(v + (1 << (8 * rw)) if v < 0 else v)}
                      for e, v in zip(o["enumerators"], vals)],
            "seeds": [num9(v) for v in seeds],
            "fseeds": [lower.bits_of(v) for v in fseeds],
            "vers": vers, "file": o["file"], "line": o["line"],
        }
        # ---- where is the generated type
        rust = None
        hits = gen.get((o["file"], o["line"]), [])
        reason = None
        if not hits:
            reason = "no generated type carries the anchor %s:%d (version not generated)" % (o["file"], o["line"])
        elif len(hits) > 1:
            reason = "anchor %s:%d found in %d files" % (o["file"], o["line"], len(hits))
        else:
            h = hits[0]
            crate, text = texts[h["file"]]
            if h["vis"]:
                reason = "type is pub(crate) - not part of the public API"
            elif h["name"] != o["name"]:
                reason = "type behind the anchor is named %s" % h["name"]
            elif (h["kind"] == "enum") != (o["kind"] == "enum"):
                reason = "generated item kind %s for wowm %s" % (h["kind"], o["kind"])
            else:
                rust, reason = _confirm(o, vals, h, crate, text)
        d["rust"] = rust
        if rust is None:
            unmapped.append({"name": o["name"], "kind": o["kind"], "versions": vers, "why": reason})
        definers.append(d)
        by_name.setdefault(o["name"], []).append(d)
    sflags, s_unmapped = _synth_flags(corpus, texts, gen, definers)
    unmapped.extend(s_unmapped)
    return {"definers": definers, "sflags": sflags, "unmapped": unmapped}


def _confirm(o, vals, h, crate, text):
    name = o["name"]
    base_rs = RUST_TYPE.get(o["base"], o["base"])
    fns = _pub_fns(text, name)
    fr, tr = _trait_impls(text, name)
    path = rust_path(crate, h["file"], name)
    if o["kind"] == "enum":
        m = re.search(r"^pub enum %s \{\n(.*?)^\}" % re.escape(name), text, re.M | re.S)
        have = [l.strip().rstrip(",") for l in m.group(1).splitlines()
                if l.strip() and not l.strip().startswith(("///", "#["))]
        want = [camel(e["name"]) for e in o["enumerators"]]
        if sorted(have) != sorted(want):
            return None, "variant names do not follow the observed convention: %s" % \
                sorted(set(have) ^ set(want))[:4]
        if "from_int" not in fns or "variants" not in fns:
            return None, "from_int / variants not public"
        if fns["from_int"].strip() != "value: %s" % base_rs:
            return None, "from_int takes %r" % fns["from_int"]
        return {"path": path, "crate": crate, "file": h["file"], "base": base_rs, "variants": want,
                "as_int": "as_int" in fns, "try_from": [t for t in SRC_TYPES if t in tr],
                "from": [t for t in SRC_TYPES if t in fr]}, None
    consts = re.findall(r"^    pub const (\w+): (\w+) = ", text, re.M)
    want = [e["name"] for e in o["enumerators"]]
    if [c[0] for c in consts] != want or any(c[1] != base_rs for c in consts):
        return None, "constants differ from the enumerator names: %s" % \
            sorted(set(c[0] for c in consts) ^ set(want))[:4]
    for need in ("new", "empty", "is_empty", "all"):
        if need not in fns:
            return None, "%s() not public" % need
    methods = []
    for e, v in zip(o["enumerators"], vals):
        low = e["name"].lower()
        present = [p for p in ("is_", "new_", "set_", "clear_") if (p + low) in fns and not (p + low) == "is_empty"]
        if v != 0 and len(present) != 4:
            return None, "enumerator %s lacks %s" % (e["name"], sorted(set(("is_", "new_", "set_", "clear_")) - set(present)))
        methods.append(low if v != 0 else None)
    return {"path": path, "crate": crate, "file": h["file"], "base": base_rs, "consts": want,
            "methods": methods, "as_int": "as_int" in fns,
            "try_from": [t for t in SRC_TYPES if t in tr], "from": [t for t in SRC_TYPES if t in fr]}, None


# ------------------------------------------------------------------------------------------------
# synthesised flag structs
# ------------------------------------------------------------------------------------------------
_DEFAULT_OK = {"u8", "u16", "u32", "u64", "i8", "i16", "i32", "i64", "f32", "bool", "Guid", "String",
               "Vector3d", "Vector2d"}


def _flag_ifs(members, out):
    """Collects, per variable, the chains `if (var & A) {..} else if (var & B) {..}` of a member list
    (object-table syntax only): var -> list of chains, a chain = list of (enumerator names of the arm,
    arm has members)."""
    for m in members:
        if m["m"] == "if":
            conds0 = m["arms"][0]["conds"]
            if conds0 and all(c["op"] == "&" for c in conds0):
                chain = []
                for arm in m["arms"]:
                    chain.append(([c["val"] for c in arm["conds"]], len(arm["body"]) > 0))
                out.setdefault(conds0[0]["var"], []).append({"chain": chain, "else": m["else"] is not None})
            for arm in m["arms"]:
                _flag_ifs(arm["body"], out)
            if m["else"] is not None:
                _flag_ifs(m["else"], out)
        elif m["m"] == "optional":
            _flag_ifs(m["body"], out)


def _decls(members, out):
    for m in members:
        if m["m"] == "decl":
            out[m["name"]] = m["type"]
        elif m["m"] == "if":
            for arm in m["arms"]:
                _decls(arm["body"], out)
            if m["else"] is not None:
                _decls(m["else"], out)
        elif m["m"] == "optional":
            _decls(m["body"], out)


def _synth_flags(corpus, texts, gen, definers):
    """Synthesised structs `<Container>_<Flag>`: struct with first field `inner`."""
    flagdefs = {}
    for d in definers:
        if d["kind"] == "flag":
            flagdefs.setdefault(d["name"], []).append(d)
    conts = {}
    for o in corpus:
        if o["kind"] in ("struct", "clogin", "slogin", "cmsg", "smsg", "msg"):
            conts[(o["file"], o["line"])] = o
    out, unmapped = [], []
    for key, hits in sorted(gen.items()):
        o = conts.get(key)
        if o is None:
            continue
        ifs, decls = {}, {}
        _flag_ifs(o["members"], ifs)
        _decls(o["members"], decls)
        for h in hits:
            crate, text = texts[h["file"]]
            for m in re.finditer(r"^pub struct (%s_(\w+)) \{\n    inner: (\w+),\n((?:    \w+: Option<\w+>,\n)*)\}"
                                 % re.escape(o["name"]), text, re.M):
                sname, fname, inner_ty = m.group(1), m.group(2), m.group(3)
                opts = re.findall(r"    (\w+): Option<(\w+)>,", m.group(4))
                why = None
                # which flag definition: same name, and the generated file's anchor version must
                # resolve to one definition whose constants are used: take the definition whose
                # generated type lives in the same expansion directory (or shared).
                cands = [d for d in flagdefs.get(fname, []) if d["rust"] is not None]
                vdir = h["file"].split("/")[-2]
                pick = [d for d in cands if _same_expansion(d, vdir)]
                if len(pick) != 1:
                    why = "cannot tie %s to one wowm flag (%d candidates)" % (sname, len(pick))
                vars_ = [v for v, t in decls.items() if t == fname and v in ifs]
                if why is None and len(vars_) != 1:
                    why = "%d fields of type %s tested by an if" % (len(vars_), fname)
                if why is None:
                    ent, why = _sflag_entry(pick[0], ifs[vars_[0]], sname, inner_ty, opts, text, crate, h)
                    if ent is not None:
                        out.append(ent)
                if why is not None:
                    unmapped.append({"name": sname, "kind": "synthesised flag", "versions": vdir, "why": why})
    return out, unmapped


def _same_expansion(d, vdir):
    f = d["rust"]["file"]
    fdir = f.split("/")[-2]
    if fdir == vdir:
        return True
    if fdir == "shared":
        stem = f.split("/")[-1][:-3]
        return vdir in stem.split("_")
    if vdir.startswith("version_") and fdir.startswith("version_"):
        # login: a flag of version N is re-exported by later versions until redefined
        return False
    return False


def _sflag_entry(d, chains, sname, inner_ty, opts, text, crate, h):
    fns = _pub_fns(text, sname)
    for need in ("new", "empty", "is_empty"):
        if need not in fns:
            return None, "%s() not public" % need
    if inner_ty != d["rust"]["base"]:
        return None, "inner type %s differs from the flag's %s" % (inner_ty, d["rust"]["base"])
    optnames = [n for n, _t in opts]
    # payload kinds
    payload = {}
    for n, ty in opts:
        ms = re.search(r"((?:#\[[^\n]*\]\n)*)pub struct %s \{\n(.*?)^\}" % re.escape(ty), text, re.M | re.S)
        me = re.search(r"((?:#\[[^\n]*\]\n)*)pub enum %s \{\n(.*?)^\}" % re.escape(ty), text, re.M | re.S)
        if ms:
            if "Default" not in ms.group(1):
                payload[n] = ("none", ty, None)
            else:
                payload[n] = ("struct", ty, None)
        elif me:
            variants = []
            okv = True
            for vm in re.finditer(r"^    (\w+) \{\n(.*?)^    \},", me.group(2), re.M | re.S):
                fields = re.findall(r"^        (\w+): ([^\n]+),$", vm.group(2), re.M)
                variants.append((vm.group(1), fields))
            for vm in re.finditer(r"^    (\w+),$", me.group(2), re.M):
                variants.append((vm.group(1), []))
            payload[n] = ("enum", ty, variants)
        else:
            payload[n] = ("none", ty, None)
    # chain membership: enumerator name -> (primary enumerator name, arm has members)
    prim = {}
    for ch in chains:
        c = ch["chain"]
        if len(c) == 1:
            for en in c[0][0]:
                prim.setdefault(en, (en, c[0][1], False))
        else:
            p = c[0][0][0]
            for arm in c:
                for en in arm[0]:
                    prim[en] = (p, arm[1], True)
    ops = []
    for i, e in enumerate(d["enums"]):
        low = e["n"].lower()
        ent = {"x": i + 1, "low": low, "get": None, "set": None, "clear": None, "new": None, "opt": None}
        zero = not e["bits"]
        p = prim.get(e["n"])
        if zero:
            ops.append(ent)
            continue
        if p is not None and p[2]:
            # member of an else-if chain: payload enum of the primary enumerator
            plow = p[0].lower()
            kind = payload.get(plow)
            if kind and kind[0] == "enum":
                var = [v for v in kind[2] if v[0] == camel(e["n"])]
                if len(var) == 1 and ("set_" + plow) in fns and ("new_" + plow) in fns:
                    fields = var[0][1]
                    if all(_ty_default_ok(t) for _f, t in fields):
                        ctor = "%s::%s { %s }" % (kind[1], var[0][0], ", ".join(
                            "%s: Default::default()" % f for f, _t in fields)) if fields else \
                            "%s::%s" % (kind[1], var[0][0])
                        ent["set"] = ["set_" + plow, ctor]
                        ent["new"] = ["new_" + plow, ctor]
                        ent["opt"] = plow
            if p[0] == e["n"]:
                if ("clear_" + plow) in fns:
                    ent["clear"] = "clear_" + plow
                if ("get_" + plow) in fns and plow in optnames:
                    ent["getopt"] = "get_" + plow
            ops.append(ent)
            continue
        if low in optnames:
            kind = payload[low]
            if ("clear_" + low) in fns:
                ent["clear"] = "clear_" + low
            ent["getopt"] = "get_" + low if ("get_" + low) in fns else None
            if kind[0] == "struct" and ("set_" + low) in fns and ("new_" + low) in fns:
                ent["set"] = ["set_" + low, "Default::default()"]
                ent["new"] = ["new_" + low, "Default::default()"]
                ent["opt"] = low
        else:
            for opn in ("get", "set", "clear", "new"):
                fn = opn + "_" + low
                if fn in fns and fns[fn].strip() in ("&self", "mut self", ""):
                    ent[opn] = fn if opn in ("get", "clear") else [fn, None]
        ops.append(ent)
    nops = sum(1 for o_ in ops for k in ("get", "set", "clear", "new") if o_.get(k))
    if nops == 0:
        return None, "no accessor could be mapped"
    return {"name": sname, "path": rust_path(crate, h["file"], sname), "crate": crate, "file": h["file"],
            "flag": d["id"], "base": inner_ty, "opts": optnames, "ops": ops}, None


def _ty_default_ok(t):
    t = t.strip()
    return t in _DEFAULT_OK


# ------------------------------------------------------------------------------------------------
# TLC
# ------------------------------------------------------------------------------------------------
MODEL_KEYS = ("id", "kind", "name", "w", "signed", "zav", "enums", "seeds", "fseeds")


def write_tlc_table(table, path, kinds=("enum", "flag"), nshards=2):
    """One line per definer (line number = id). Definers not of `kinds` keep their line (ids stay
    stable) but are marked skip. `shard` balances the estimated number of states."""
    load = [0] * nshards
    order = sorted(table["definers"], key=lambda d: -_weight(d))
    shard = {}
    for d in order:
        if d["kind"] not in kinds:
            shard[d["id"]] = 0
            continue
        s = load.index(min(load))
        load[s] += _weight(d)
        shard[d["id"]] = s
    with open(path, "w") as f:
        for d in table["definers"]:
            r = {k: d[k] for k in MODEL_KEYS}
            r["skip"] = d["kind"] not in kinds
            r["shard"] = shard[d["id"]]
            f.write(json.dumps(r, separators=(",", ":")) + "\n")


def _weight(d):
    n = len(d["enums"])
    if d["kind"] == "enum":
        scan = {1: 512, 2: 131072}.get(d["w"], 0)
        return scan + 9 * min(n, 600) + n + len(d["seeds"]) + 60
    return n * (256 if d["w"] == 1 else 8 * d["w"] + 6 + len(d["fseeds"])) + (n + 9) ** 2 + 200


def _run_shard(a):
    (tpath, shard, nshards, tier, kinds, workers, timeout, outpath, tag, tamper) = a
    env = {"DEF_TABLE": tpath, "DEF_NSHARDS": nshards, "DEF_SHARD": shard,
           "DEF_BIGN": 64 if tier == "quick" else 1000000,
           "DEF_SCANMOD": 0 if tier == "quick" else 8, "DEF_SCANREM": C.seed() % 8,
           "DEF_TAMPER": tamper or ""}
    with open(outpath, "w") as sink:
        res = C.run_tlc("Definers", workers=workers, timeout=timeout, env=env,
                        name="%s-shard%d" % (tag, shard), replay_sink=sink, keep_replay_in_memory=False,
                        coverage=True, xmx="5g")
    return {"shard": shard, "generated": res.generated, "distinct": res.distinct, "depth": res.depth,
            "coverage": res.coverage, "wall": res.wall, "path": outpath, "finished": res.finished}


def run_model(table, wd, tier, kinds, tag, nshards=2, workers=4, timeout=1500, tamper=None):
    tpath = os.path.join(wd, "definers.ndjson")
    write_tlc_table(table, tpath, kinds, nshards)
    jobs = [(tpath, s, nshards, tier, kinds, workers, timeout, os.path.join(wd, "records-%d.ndjson" % s), tag, tamper)
            for s in range(nshards)]
    t0 = time.time()
    with concurrent.futures.ThreadPoolExecutor(max_workers=nshards) as ex:
        stats = list(ex.map(_run_shard, jobs))
    for s in stats:
        if not s["finished"]:
            raise C.ToolError("TLC did not finish shard %d" % s["shard"])
    C.log("[definers] %d shards, %d distinct states in %.1fs" %
          (nshards, sum(s["distinct"] for s in stats), time.time() - t0))
    return stats


def merge_coverage(stats):
    cov = {}
    for s in stats:
        for k, (a, b) in s["coverage"].items():
            x = cov.get(k, (0, 0))
            cov[k] = (x[0] + a, x[1] + b)
    return cov


def iter_records(stats):
    for s in stats:
        with open(s["path"]) as f:
            for line in f:
                if line.strip():
                    yield line


# ------------------------------------------------------------------------------------------------
# check driver shared by tools/checks/c11.py and c12.py
# ------------------------------------------------------------------------------------------------
ENUM_ACTIONS = ["ScanStep", "ProbeVary", "ProbeNext"]
FLAG_ACTIONS = ["FopValue", "FopEnumerator", "FbinRight", "FbinLeft", "FconvNext"]


def prepare(tier):
    """object table + generated dispatch + harness binary (built from /repo's current tree)."""
    from tools import gen_definer
    table = build_table(C.REPO, tier)
    gen_definer.generate(table)
    binary = C.build_harness("vh")
    return table, binary


def raw_of8(b):
    return sum(x << (8 * i) for i, x in enumerate(b))


def replay_lines(binary, lines, jobs=8, chunk=4000):
    """Feeds record lines to `vh definer`. Returns (disagreement verdicts, totals, merged stats)."""
    from tools import replay as R
    verdicts, totals = R.run_records(binary, ["definer"], lines, chunk=chunk, jobs=jobs, timeout=1200)
    stats = {"calls": 0, "disagreements": 0, "unmapped_records": 0, "absent": {}, "classes": {}}
    out = []
    for v in verdicts:
        if "stats" in v:
            s = v["stats"]
            for k in ("calls", "disagreements", "unmapped_records"):
                stats[k] += s.get(k, 0)
            for k in ("absent", "classes"):
                for a, n in s.get(k, {}).items():
                    stats[k][a] = stats[k].get(a, 0) + n
        else:
            out.append(v)
    return out, totals, stats


def rev_bits(v, width_bits):
    return int(format(v, "0%db" % width_bits)[::-1], 2)


def classify(table, v):
    """Small observation dict naming the failing thing + a normalised signature (used for de-duplication
    and for matching known findings). Glue only: the verdict was already decided by the comparison of
    the harness' observation with the TLC record."""
    name = v.get("name", "?")
    what = v.get("what", v.get("verdict", "?"))
    det = v.get("detail") if isinstance(v.get("detail"), dict) else {}
    rec = v.get("record") or {}
    d = None
    if isinstance(rec.get("d"), int) and 1 <= rec["d"] <= len(table["definers"]):
        d = table["definers"][rec["d"] - 1]
    if v.get("verdict") in ("abort", "timeout"):
        return {"type": name, "op": "process " + v["verdict"]}
    obs = {"type": name, "op": what}
    if what == "clear" and d is not None and "observed" in det:
        val = raw_of8(rec.get("v", []))
        x = raw_of8(rec.get("new", []))
        got = int(det["observed"], 16)
        obs["sig"] = "v & reverse_bits(x)" if got == (val & rev_bits(x, 8 * d["w"])) else "other"
    elif what == "conversion":
        obs["from"] = det.get("type")
        exp, got = det.get("expected", {}), det.get("observed", {})
        arg = int(det.get("arg", "0"))
        width = {"i8": 8, "i16": 16, "i32": 32, "i64": 64}.get(det.get("type"))
        if "err" in exp and "ok" in got and arg < 0 and width and int(got["ok"], 16) == arg + (1 << width):
            obs["sig"] = "negative value accepted as its zero-extended bit pattern"
        else:
            obs["sig"] = "other"
    elif what in ("try_from", "from_int"):
        obs["from"] = det.get("type")
        exp, got = det.get("expected", {}), det.get("observed", {})
        obs["sig"] = "%s->%s" % ("ok" if "ok" in exp else "err", "ok" if "ok" in got else ("err" if "err" in got else "panic"))
    elif what == "panic":
        obs["api"] = str(det.get("api"))
        obs["sig"] = str(det.get("panic", ""))[:120]
    else:
        api = det.get("api")
        if isinstance(api, dict):
            obs["api"] = api.get("op")
        elif api is not None:
            obs["api"] = str(api)
    return obs


def run_property(prop, tier, kinds, assumptions, doc_actions, tamper_records=None, only=None, table_bin=None,
                 write=True):
    """model (TLC) -> records -> replay -> verdicts -> evidence. Returns (exit code, info dict)."""
    t0 = time.time()
    table, binary = table_bin or prepare(tier)
    wd = C.workdir(prop)
    mtable = table
    if only is not None:
        mtable = dict(table)
        mtable["definers"] = [dict(d, kind=d["kind"] if d["id"] in only else "skipped") for d in table["definers"]]
    stats = run_model(mtable, wd, tier, kinds, prop, nshards=2, workers=4,
                      timeout=900 if tier == "quick" else 2400)
    cov = merge_coverage(stats)
    if only is None:
        missing = C.vacuity(type("R", (), {"coverage": cov})(), doc_actions)
        if missing:
            raise C.ToolError("vacuous model run, actions never fired: %s" % missing)
    lines = list(iter_records(stats))
    if tamper_records:
        lines = tamper_records(lines)
    t1 = time.time()
    verdicts, totals, hstats = replay_lines(binary, lines)
    C.log("[%s] %d records replayed in %.1fs: %d calls, %d disagreements" %
          (prop, totals["records"], time.time() - t1, hstats["calls"], hstats["disagreements"]))
    if totals["records"] != len(lines):
        raise C.ToolError("harness judged %d of %d records" % (totals["records"], len(lines)))
    if not write:   # self-test: nothing is recorded under replays/
        return (1 if verdicts else 0), {"table": table, "stats": stats, "cov": cov, "lines": lines,
                                        "verdicts": verdicts, "hstats": hstats, "totals": totals}
    V = C.Verdicts(prop)
    # A disagreement whose signature is recognised as one generator-level defect is reported once
    # per (operation, signature, kind of type) with the list of affected types in the replay body;
    # anything else is reported per type.
    groups, order = {}, []
    for v in verdicts:
        obs = classify(table, v)
        if obs.get("sig") not in (None, "other") and obs["op"] in ("clear", "conversion"):
            obs["site"] = "synthesised flag structs" if "_" in obs["type"].split(" (")[0] and \
                obs["type"].split(" (")[0] not in _flag_names(table) else "flag types"
            tname = obs.pop("type")
            obs.pop("from", None)
        else:
            tname = obs.get("type")
        key = json.dumps(obs, sort_keys=True)
        if key not in groups:
            groups[key] = {"obs": obs, "first": v, "types": []}
            order.append(key)
        if tname not in groups[key]["types"]:
            groups[key]["types"].append(tname)
    for key in order:
        g = groups[key]
        v = g["first"]
        V.report(g["obs"], replay={"record": v.get("record"), "detail": v.get("detail"), "name": v.get("name"),
                                   "what": v.get("what"), "verdict": v.get("verdict"),
                                   "affected_types": sorted(g["types"])})
    rc = V.finish()
    info = {"table": table, "stats": stats, "cov": cov, "lines": lines, "verdicts": verdicts, "hstats": hstats,
            "V": V, "totals": totals}
    if write:
        kinds_counts = {}
        samples = []
        for l in lines:
            r = json.loads(l)
            kinds_counts[r["k"]] = kinds_counts.get(r["k"], 0) + 1
            if kinds_counts[r["k"]] == 1:
                samples.append(r)
        mapped = [d for d in table["definers"] if d["kind"] in kinds and d["rust"]]
        C.write_evidence(prop, tier, "model_checking", {
            "states": sum(s["distinct"] for s in stats),
            "transitions": sum(s["generated"] for s in stats),
            "traces_validated_against_impl": totals["records"] - hstats["unmapped_records"],
            "samples": samples,
            "records_by_kind": kinds_counts,
            "api_calls_compared": hstats["calls"],
            "disagreeing_calls": hstats["disagreements"],
            "disagreement_classes": len(hstats["classes"]),
            "model_depth": max(s["depth"] for s in stats),
            "actions_fired": {k: v2[1] for k, v2 in cov.items()},
            "types_checked": len(mapped),
            "synthesised_flag_structs_checked": len(table["sflags"]) if "flag" in kinds else 0,
            "not_covered": [u for u in table["unmapped"]
                            if u["kind"] in kinds or ("flag" in kinds and u["kind"] == "synthesised flag")],
            "api_absent": _absent_summary(hstats["absent"]),
            "records_without_mapped_type": hstats["unmapped_records"],
            "known_findings_hit": V.known_hits,
            "bounds": {k: v for k, v in bounds_text(tier).items() if k.split("_")[0] in kinds},
        }, time.time() - t0, assumptions, violations=len(V.violations))
    return rc, info


def _flag_names(table):
    return {d["name"] for d in table["definers"] if d["kind"] == "flag"}


def _absent_summary(absent):
    out = {}
    for k, n in absent.items():
        what = k.rsplit(":", 1)[1]
        if "enumerator" in what:
            what = "is_/set_/clear_/new_ of a zero-valued enumerator (not generated)"
        e = out.setdefault(what, {"types": 0, "calls_skipped": 0})
        e["types"] += 1
        e["calls_skipped"] += n
    return out


def bounds_text(tier):
    q = tier == "quick"
    return {
        "enum_scan": "every value of u8/i8 for 8-bit enums and of u16/i16 for 16-bit enums" +
                     ("" if q else "; additionally every u16/i16 value for 1/8 of the 8-bit enums (by seed)"),
        "enum_probes": "every declared value through all nine source types; +-1, +-2^8, +-2^16, +-2^32 of " +
                       ("every declared value of enums with <= 64 enumerators and of 64 evenly spaced ones otherwise" if q
                        else "every declared value") +
                       "; min/max (+-1) of all nine source types; %d (wide bases) / %d (narrow) seeded integers per enum" %
                       ((64, 16) if q else (4096, 1024)),
        "flag_values": "all 256 values for 8-bit flags; otherwise 0, all-ones, complement of the enumerator, the "
                       "enumerator, all declared / no declared bits, every single bit, %d seeded values - per enumerator" %
                       (16 if q else 256),
        "flag_operators": "all pairs over {0, all-ones, all(), every enumerator, 6 seeded values}",
        "flag_conversions": "extremes of all source types, every declared value, every single bit 0..63, %d seeded integers" %
                            (16 if q else 256),
    }


def replay_one(prop, path, tier="quick"):
    body = json.load(open(path))
    rec = body["behaviour"]["record"]
    table, binary = prepare(tier)
    verdicts, totals, hstats = replay_lines(binary, [json.dumps(rec) + "\n"], jobs=1)
    for v in verdicts:
        print(json.dumps({k: v[k] for k in ("name", "what", "detail") if k in v}))
    print("replayed record %s of definer %s: %d disagreeing calls of %d" %
          (rec.get("k"), rec.get("d"), hstats["disagreements"], hstats["calls"]))
    return 1 if hstats["disagreements"] else 0
